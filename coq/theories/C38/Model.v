(* C38 model: physical::vector — dot / l2_sq (8-lane chunked accumulation + remainder loop), norm,
   distance_column (array vs literal query), distance_columns (array vs array), over EXACT arithmetic.
   anchors: src/physical/vector.rs: dot, l2_sq, norm, distance_column, distance_columns, as_f32_vectors

   A Float32 component is an integer numerator over a common power-of-two denominator `den`
   (every finite f32 is such a dyadic rational), so every product and sum below is exact in Z;
   the value denoted by a dot-like numerator N is N / den^2.  sqrt and division are not computed
   here: the model returns the exact pre-sqrt quantities and the executable spec compares an
   implementation value with them by squaring (le_sqrt).  The real-valued formulas and the
   meaning of the squared comparisons are in C38/Proofs.v.  Float rounding is not modelled. *)
From QV Require Export Base.Util.

Fixpoint zip {A B} (l : list A) (r : list B) : list (A * B) :=
  match l, r with
  | x :: l', y :: r' => (x, y) :: zip l' r'
  | _, _ => []
  end.
Definition map2 (f : Z -> Z -> Z) (a b : list Z) : list Z := map (fun p => f (fst p) (snd p)) (zip a b).

(* slice::chunks_exact(w): len / w full chunks, remainder() = the last len % w elements *)
Fixpoint take_chunks (w q : nat) (l : list Z) : list (list Z) :=
  match q with
  | O => []
  | S q' => firstn w l :: take_chunks w q' (skipn w l)
  end.
Definition chunks_exact (w : nat) (l : list Z) : list (list Z) := take_chunks w (length l / w) l.
Definition remainder (w : nat) (l : list Z) : list Z := skipn (w * (length l / w)) l.

(* for i in 0..w { acc[i] += f(x[i], y[i]) } *)
Fixpoint madd (f : Z -> Z -> Z) (acc xs ys : list Z) : list Z :=
  match acc, xs, ys with
  | a :: acc', x :: xs', y :: ys' => (a + f x y) :: madd f acc' xs' ys'
  | _, _, _ => acc
  end.

(* fn dot (f = x*y) and fn l2_sq (f = (x-y)*(x-y)):
     let mut acc = [0; w];
     for (x, y) in a.chunks_exact(w).zip(b.chunks_exact(w)) { acc[i] += f(x[i], y[i]) }
     let mut s = acc.iter().sum();
     for (x, y) in a.remainder().zip(b.remainder()) { s += f(x, y) }                          *)
Definition chunked_sum (f : Z -> Z -> Z) (w : nat) (a b : list Z) : Z :=
  let acc := fold_left (fun acc p => madd f acc (fst p) (snd p))
                       (zip (chunks_exact w a) (chunks_exact w b)) (repeat 0 w) in
  let s := fold_left Z.add acc 0 in
  fold_left (fun s p => s + f (fst p) (snd p)) (zip (remainder w a) (remainder w b)) s.

Definition fmul (x y : Z) : Z := x * y.
Definition fsqd (x y : Z) : Z := (x - y) * (x - y).
Definition dot_code (w : nat) (a b : list Z) : Z := chunked_sum fmul w a b.
Definition l2sq_code (w : nat) (a b : list Z) : Z := chunked_sum fsqd w a b.
Definition lanes : nat := 8.          (* [0f32; 8], chunks_exact(8): asserted against the source by the check *)

(* the documented formulas' sums *)
Definition plain_sum (f : Z -> Z -> Z) (a b : list Z) : Z := zsum (map2 f a b).

Inductive kind := L2 | Cosine | CosineSim | Dot.

(* exact pre-sqrt quantities of one row: dot(a,b), l2_sq(a,b), dot(a,a), dot(b,b) (numerators over
   den^2) and sum |a_i*b_i| (scale of the stated tolerance) *)
Record exact := mkExact { x_dot : Z; x_l2 : Z; x_na : Z; x_nb : Z; x_sabs : Z }.
Definition row_exact (w : nat) (a b : list Z) : exact :=
  mkExact (dot_code w a b) (l2sq_code w a b) (dot_code w a a) (dot_code w b b)
          (zsum (map2 (fun x y => Z.abs (x * y)) a b)).

(* FixedSizeList<Float32, dim>: flat child values (dim per row, NULL rows occupy their slots too) *)
Record fsl := mkFsl { f_dim : nat; f_vals : list Z; f_valid : list bool }.
Definition nrows (a : fsl) : nat := length (f_valid a).
(* FixedSizeListArray::slice(off, n) slices the child by (off*dim, n*dim) *)
Definition fsl_slice (off n : nat) (a : fsl) : fsl :=
  mkFsl (f_dim a) (firstn (n * f_dim a) (skipn (off * f_dim a) (f_vals a)))
        (firstn n (skipn off (f_valid a))).
(* &flat[i * dim .. (i + 1) * dim] *)
Definition row (a : fsl) (i : nat) : list Z := firstn (f_dim a) (skipn (i * f_dim a) (f_vals a)).

(* fn distance_column: None = Err (dimension mismatch / short buffer); a NULL row gives None *)
Definition distance_column (w : nat) (col : fsl) (query : list Z) : option (list (option exact)) :=
  if negb (f_dim col =? length query)%nat then None
  else if (length (f_vals col) <? nrows col * f_dim col)%nat then None
  else Some (map (fun i => if nth i (f_valid col) false then Some (row_exact w (row col i) query) else None)
                 (seq 0 (nrows col))).
(* fn distance_columns: n = min(left.len(), right.len()) *)
Definition distance_columns (w : nat) (l r : fsl) : option (list (option exact)) :=
  if negb (f_dim l =? f_dim r)%nat then None
  else Some (map (fun i => if nth i (f_valid l) false && nth i (f_valid r) false
                           then Some (row_exact w (row l i) (row r i)) else None)
                 (seq 0 (Nat.min (nrows l) (nrows r)))).

(* ------------------------------------------------------------------ *)
(* Executable spec: an implementation value v = vn/vd (vd > 0, the exact rational value of the
   returned f64) against the exact quantities, relative tolerance t = tn/td, absolute slack
   e = en/ed on cosine values; all comparisons exact, by squaring. *)
(* x * sqrt(P) <= r *)
Definition le_sqrt (x P r : Z) : bool :=
  if 0 <=? x then (0 <=? r) && (x * x * P <=? r * r)
  else (0 <=? r) || (r * r <=? x * x * P).
(* x * sqrt(P) >= r *)
Definition ge_sqrt (x P r : Z) : bool := le_sqrt (- x) P (- r).

Record tol := mkTol { t_n : Z; t_d : Z; e_n : Z; e_d : Z }.

(* (1-t) sqrt(L)/den <= vn/vd <= (1+t) sqrt(L)/den *)
Definition spec_l2 (t : tol) (den L vn vd : Z) : bool :=
  le_sqrt ((t_d t - t_n t) * vd) L (vn * t_d t * den) && ge_sqrt ((t_d t + t_n t) * vd) L (vn * t_d t * den).
(* |vn/vd - N/den^2| <= t * SA/den^2 *)
Definition spec_dot (t : tol) (den N SA vn vd : Z) : bool :=
  Z.abs (vn * den * den * t_d t - N * vd * t_d t) <=? t_n t * SA * vd.
(* N - t*SA <= (vn/vd -+ e) * sqrt(NA*NB) <= N + t*SA   (free when a norm is zero) *)
Definition spec_cossim (t : tol) (N NA NB SA vn vd : Z) : bool :=
  if (NA =? 0) || (NB =? 0) then true else
  le_sqrt ((vn * e_d t - e_n t * vd) * t_d t) (NA * NB) ((N * t_d t + t_n t * SA) * vd * e_d t)
  && ge_sqrt ((vn * e_d t + e_n t * vd) * t_d t) (NA * NB) ((N * t_d t - t_n t * SA) * vd * e_d t).

Inductive implrow := INull | IVal (vn vd : Z) | IBad.     (* IBad: NaN / infinity *)

Definition row_ok (k : kind) (t : tol) (den : Z) (m : option exact) (i : implrow) : bool :=
  match m, i with
  | None, INull => true
  | Some x, IVal vn vd =>
      (0 <? vd) &&
      match k with
      | L2 => spec_l2 t den (x_l2 x) vn vd
      | Dot => spec_dot t den (x_dot x) (x_sabs x) vn vd
      | CosineSim => spec_cossim t (x_dot x) (x_na x) (x_nb x) (x_sabs x) vn vd
      | Cosine => spec_cossim t (x_dot x) (x_na x) (x_nb x) (x_sabs x) (vd - vn) vd     (* sim = 1 - d *)
      end
  | _, _ => false
  end.
Fixpoint rows_ok (k : kind) (t : tol) (den : Z) (m : list (option exact)) (i : list implrow) : bool :=
  match m, i with
  | [], [] => true
  | x :: m', y :: i' => row_ok k t den x y && rows_ok k t den m' i'
  | _, _ => false
  end.
(* dimension mismatch must be an error; otherwise one value per row, NULL exactly on NULL rows *)
Definition result_ok (k : kind) (t : tol) (den : Z) (m : option (list (option exact))) (i : option (list implrow)) : bool :=
  match m, i with
  | None, None => true
  | Some ml, Some il => rows_ok k t den ml il
  | _, _ => false
  end.

(* projection used by the check to finish the computation in binary64 and compare bit-for-bit *)
Definition exact_list (x : exact) : list Z := [x_dot x; x_l2 x; x_na x; x_nb x; x_sabs x].
