(* C04 — storage layout and fast-path choice never change an answer.
   A table is a LAYOUT: files x row groups x rows (`layout := list (list rel)`); a memory table is a list of batches.
   Every scan path reads the row groups (morsels) in some grouping and the operators above are the partition-wise
   evaluator of C07 (`peval`), so the answer is a function of `concat (concat layout)` alone:
     layout_irrelevant          any two layouts / batch splits of the same rows give the same answer, for EVERY query
     memory_vs_parquet          ... in particular a memory table and a Parquet layout of the same rows
   per path:
     decoder_filter_sound       eager / streaming scan with the predicate pushed into the decoder = filter over the scan
     pruned_scan_sound          skipping row groups on which the predicate keeps nothing changes nothing (C05 gives the premise)
     morsel_aggregation_sound   per-morsel partial states merged in any tree shape / arrival order = aggregate of all rows (C21)
     morsel_group_sound         ... per group of a GROUP BY
     reproject_by_name_sound    shared prescan: union projection, then re-projection by column NAME (needs distinct names;
                                `reproject_dup_names_refuted` shows why)
     dense_*                    the dense direct-address aggregation falls back to the generic path on a NULL group key or a
                                nullable SUM/AVG input (`dense_agg_sound`, `dense_sum_sound_after_fix`); the behaviour before
                                `fix:` dd0f095 is kept as `*_before_fix` with its regression witnesses
   anchors: src/physical/planner.rs (try_extract_parquet_source, lower_aggregate_cpu, prescan_shared_tables, Scan lowering),
            src/physical/operators/{morsel_agg,streaming_parquet_scan,parquet,scan}.rs, src/storage/parquet.rs (scan_with_filter) *)
From QV Require Import Sql.Query Sql.QueryProofs C21.Proofs C07.Proofs.

Definition layout := list (list rel).                 (* files x row groups x rows *)
Definition flat (l : layout) : rel := concat (concat l).
Definition morsels (l : layout) : list rel := concat l.     (* the unit of work of every Parquet path: one row group *)

Lemma flat_morsels l : concat (morsels l) = flat l. Proof. reflexivity. Qed.
Lemma concat_morsels (ldb : list layout) : map (@concat row) (map morsels ldb) = map flat ldb.
Proof. rewrite map_map. apply map_ext. reflexivity. Qed.

(* ---------- the umbrella ---------- *)
Theorem layout_irrelevant Q (HU : forall L R, q_setop Q SUnion true L R = L ++ R) (ldb1 ldb2 : list layout) q :
  map flat ldb1 = map flat ldb2 ->
  concat (peval Q (map morsels ldb1) q) = concat (peval Q (map morsels ldb2) q).
Proof. intros H. apply split_irrelevant; [exact HU|]. now rewrite !concat_morsels. Qed.

Theorem memory_vs_parquet Q (HU : forall L R, q_setop Q SUnion true L R = L ++ R) (mem : list (list rel)) (ldb : list layout) q :
  map (@concat row) mem = map flat ldb ->
  concat (peval Q mem q) = concat (peval Q (map morsels ldb) q) /\
  concat (peval Q mem q) = qeval Q (map flat ldb) q.
Proof.
  intros H. split.
  - apply split_irrelevant; [exact HU|]. now rewrite concat_morsels.
  - rewrite peval_sound by exact HU. now rewrite H.
Qed.

(* ---------- scans ---------- *)
(* decoder-level RowFilter (ParquetTable::scan_with_filter, StreamingParquetScanExec with a pushed filter): the predicate is
   applied inside every row group *)
Theorem decoder_filter_sound (p : row -> bool) (l : layout) :
  flat (map (map (filter p)) l) = filter p (flat l).
Proof.
  unfold flat. rewrite filter_concat. now rewrite concat_map.
Qed.

(* statistics-based skipping: a row group may be skipped when the predicate keeps none of its rows *)
Theorem pruned_scan_sound (p : row -> bool) (skip : rel -> bool) (rgs : list rel) :
  (forall rg, In rg rgs -> skip rg = true -> filter p rg = []) ->
  concat (map (filter p) (filter (fun rg => negb (skip rg)) rgs)) = filter p (concat rgs).
Proof.
  intros H. rewrite filter_concat. induction rgs as [|rg rgs IH]; cbn [filter map concat]; [reflexivity|].
  destruct (skip rg) eqn:E; cbn [negb map concat].
  - rewrite (H rg) by (now left || exact E). cbn [app]. apply IH. intros r Hr. apply H. now right.
  - f_equal. apply IH. intros r Hr. apply H. now right.
Qed.

(* ---------- morsel-parallel aggregation ---------- *)
Theorem morsel_aggregation_sound f (l : list (list (list (option Z)))) :
  finish f (fold_left merge (map partial (concat l)) pempty)
  = agg_apply f (map inj (concat (concat l))) (length (concat (concat l))).
Proof. apply partial_aggregation_sound. Qed.

(* one GROUP BY group: every morsel contributes the partial state of its members *)
Theorem morsel_group_sound f (member : row -> bool) (arg : row -> option Z) (l : layout) :
  finish f (fold_left merge (map (fun m => partial (map arg (filter member m))) (morsels l)) pempty)
  = agg_apply f (map inj (map arg (filter member (flat l)))) (length (filter member (flat l))).
Proof.
  rewrite <- (map_map (fun m => map arg (filter member m)) partial).
  rewrite partial_aggregation_sound.
  rewrite <- (map_map (filter member) (map arg)), <- concat_map, <- filter_concat, flat_morsels.
  now rewrite map_length.
Qed.

(* ---------- shared prescan: union projection, re-projection by name ---------- *)
Definition project (idx : list nat) (r : row) : row := map (fun i => nth i r VNull) idx.

Fixpoint index_of (x : nat) (l : list nat) : option nat :=
  match l with
  | [] => None
  | y :: t => if Nat.eqb x y then Some 0%nat else option_map S (index_of x t)
  end.

(* schema: the provider's column names; u: the union projection the table was decoded with; req: the projection this
   scan wants (indices into the provider schema). The cached position of a column is found BY NAME; `unwrap_or(orig_idx)`. *)
Definition reproject (schema u req : list nat) (cached : row) : row :=
  map (fun i => nth (match index_of (nth i schema 0%nat) (map (fun j => nth j schema 0%nat) u) with
                     | Some k => k | None => i end) cached VNull) req.

Lemma index_of_some x l k : index_of x l = Some k -> (k < length l)%nat /\ nth k l 0%nat = x.
Proof.
  revert k. induction l as [|y t IH]; intros k; cbn [index_of]; [discriminate|].
  destruct (Nat.eqb x y) eqn:E.
  - intros [= <-]. apply Nat.eqb_eq in E. cbn; split; [lia | congruence].
  - destruct (index_of x t) as [j|]; cbn [option_map]; [|discriminate]. intros [= <-].
    destruct (IH j eq_refl) as [H1 H2]. cbn [length nth]. split; [lia | exact H2].
Qed.
Lemma index_of_in x l : In x l -> exists k, index_of x l = Some k.
Proof.
  induction l as [|y t IH]; cbn [In index_of]; [tauto|]. intros H.
  destruct (Nat.eqb x y) eqn:E; [now exists 0%nat|]. apply Nat.eqb_neq in E.
  destruct H as [->|H]; [congruence|]. destruct (IH H) as [k ->]. now eexists.
Qed.

Theorem reproject_by_name_sound schema u req r :
  NoDup schema -> (forall j, In j u -> (j < length schema)%nat) -> incl req u ->
  reproject schema u req (project u r) = project req r.
Proof.
  intros Hnd Hu Hreq. unfold reproject, project. apply map_ext_in. intros i Hi.
  assert (Hiu : In i u) by now apply Hreq.
  destruct (index_of_in (nth i schema 0%nat) (map (fun j => nth j schema 0%nat) u)) as [k Hk].
  { apply in_map_iff. now exists i. }
  rewrite Hk. destruct (index_of_some _ _ _ Hk) as [Hlen Hnth]. rewrite map_length in Hlen.
  rewrite (nth_indep _ 0%nat (nth 0%nat schema 0%nat)) in Hnth by now rewrite map_length.
  rewrite (map_nth (fun j => nth j schema 0%nat) u 0%nat k) in Hnth.
  assert (Hku : In (nth k u 0%nat) u) by now apply nth_In.
  assert (E : nth k u 0%nat = i).
  { apply (proj1 (NoDup_nth schema 0%nat) Hnd); auto. }
  rewrite (nth_indep _ VNull (nth 0%nat r VNull)) by now rewrite map_length.
  rewrite (map_nth (fun j => nth j r VNull) u 0%nat k). now rewrite E.
Qed.

(* with a repeated column name the lookup by name returns the first column of that name *)
Example reproject_dup_names_refuted :
  let schema := [7; 7]%nat in               (* two columns with the same name *)
  let r := [VInt 1; VInt 2] in
  reproject schema [0; 1]%nat [1%nat] (project [0; 1]%nat r) = [VInt 1] /\ project [1%nat] r = [VInt 2].
Proof. split; reflexivity. Qed.

Example reproject_example :
  let schema := [10; 11; 12; 13]%nat in let r := [VInt 0; VInt 1; VInt 2; VInt 3] in
  reproject schema [3; 1; 2]%nat [2; 3]%nat (project [3; 1; 2]%nat r) = [VInt 2; VInt 3].
Proof. reflexivity. Qed.

(* ---------- path success must be uniform: the dense direct-address aggregation ---------- *)
(* MorselAggregateExec::try_execute_dense_direct: one plain Int64/Int32/Date32 key whose footer min/max span <= 64M values,
   aggregates COUNT/SUM/AVG, one zero-initialised accumulator slot per key value (no slot for a NULL key, no "seen" bit).
   BEFORE `fix:` dd0f095 a key batch with a NULL was an ERROR ("dense agg: null group keys unsupported") and a SUM / AVG over a
   group without a non-NULL input came out as 0 / NaN; since the fix both situations make the function return None and the
   caller takes the generic morsel path. The old behaviour stays expressible (`*_before_fix`) so the regression witnesses
   remain theorems. *)
Definition dense_keys_ok (keys : list value) : bool := negb (existsb is_null keys).
Definition dense_agg_before_fix (Q : qsem) (key : expr) (aggs : list (aggfn * expr)) (rows : rel) : option rel :=
  if dense_keys_ok (map (fun r => eval (q_esem Q) r key) rows) then Some (group_rows Q [key] aggs rows) else None.
(* now: None of the dense attempt = fall back to the generic path *)
Definition dense_agg (Q : qsem) (key : expr) (aggs : list (aggfn * expr)) (rows : rel) : rel :=
  match dense_agg_before_fix Q key aggs rows with Some r => r | None => group_rows Q [key] aggs rows end.

Theorem dense_agg_sound Q key aggs rows : dense_agg Q key aggs rows = group_rows Q [key] aggs rows.
Proof. unfold dense_agg, dense_agg_before_fix. now destruct (dense_keys_ok _). Qed.

(* the repaired class, decided by the input: the group key column of the scanned rows holds a NULL *)
Definition dense_null_key_class (Q : qsem) (key : expr) (rows : rel) : bool :=
  existsb is_null (map (fun r => eval (q_esem Q) r key) rows).

Theorem dense_before_fix_agrees_outside_class Q key aggs rows :
  dense_null_key_class Q key rows = false -> dense_agg_before_fix Q key aggs rows = Some (group_rows Q [key] aggs rows).
Proof. unfold dense_agg_before_fix, dense_keys_ok, dense_null_key_class. now intros ->. Qed.

Theorem dense_before_fix_failed_exactly_in_class Q key aggs rows :
  dense_agg_before_fix Q key aggs rows = None <-> dense_null_key_class Q key rows = true.
Proof.
  unfold dense_agg_before_fix, dense_keys_ok, dense_null_key_class.
  destruct (existsb is_null _); cbn [negb]; split; congruence.
Qed.

Theorem dense_null_key_before_fix_refuted :
  exists key aggs rows, dense_agg_before_fix eng_qsem key aggs rows = None /\
    dense_agg eng_qsem key aggs rows = [[VNull; VInt 1]; [VInt 1; VInt 1]] /\
    group_rows eng_qsem [key] aggs rows = [[VNull; VInt 1]; [VInt 1; VInt 1]].
Proof. exists (ECol 0), [(ACountStar, ELit (VInt 1))], [[VNull]; [VInt 1]]. repeat split; reflexivity. Qed.

(* the dense accumulators: a running total per key slot, no "seen" bit (C21 sum_needs_seen_bit). The dense path is now taken
   only when the SUM / AVG input column of the scanned rows is NULL-free; every group that exists has at least one row, so its
   total is the SUM. Before the fix a group without a non-NULL input answered 0. *)
Definition dense_sum (l : list (option Z)) : value := VInt (p_sum (partial l)).
Definition dense_empty_sum_class (l : list (option Z)) : bool := match somes l with [] => true | _ => false end.
Definition has_none (l : list (option Z)) : bool := existsb (fun o => match o with None => true | Some _ => false end) l.

Theorem dense_sum_agrees_outside_class l :
  dense_empty_sum_class l = false -> dense_sum l = agg_apply ASum (map inj l) (length l).
Proof.
  unfold dense_empty_sum_class, dense_sum. intros H. rewrite <- finish_partial. cbn [finish].
  unfold partial at 2. cbn [p_cnt]. destruct (somes l); [discriminate | reflexivity].
Qed.

(* what the repaired gate guarantees: a non-empty group over a NULL-free input column *)
Theorem dense_sum_sound_after_fix l :
  l <> [] -> has_none l = false -> dense_sum l = agg_apply ASum (map inj l) (length l).
Proof.
  intros Hne Hn. apply dense_sum_agrees_outside_class. unfold dense_empty_sum_class.
  destruct l as [|[z|] t]; [congruence | reflexivity | discriminate].
Qed.

Theorem dense_sum_all_null_before_fix_refuted :
  dense_sum [None; None] = VInt 0 /\ agg_apply ASum (map inj [None; None]) 2 = VNull /\
  dense_empty_sum_class [None; None] = true /\ has_none [None; None] = true.
Proof. repeat split. Qed.
