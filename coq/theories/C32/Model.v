(* C32 model: optimizer::rules::join_reorder — join-graph extraction, DPsize over bitmasks,
   dp_build_plan, greedy fallback — transcribed.  Costs, cardinalities, scores and the
   build/probe orientation are ARBITRARY functions (Section variables): every theorem in
   Proofs.v holds for every choice, hence for the engine's f64 arithmetic (NaN included).

   anchors (src/optimizer/rules/join_reorder.rs):
     reorder_join_tree / build_optimized_join_tree : "Build join edges from conditions" loop  -> add_cond / extract
     build_join_tree_dpsize : dp table, join_rows (Some iff an edge crosses), split loop      -> crosses / try_split / dp_step / dp_run
     dp_build_plan                                                                            -> build_plan
     greedy loop ("Greedy join ordering")                                                     -> pick / gstep / greedy
     `relations.len() >= 2 && relations.len() <= 12` dispatch + re-attached conditions        -> reorder
   Abstractions (stated, not hidden):
     * a column is (relation id, column id): the Rust resolves a column NAME to the set of relations
       having it (find_relations) and makes an edge only when both sides resolve to exactly one
       relation; in the model a side resolves to its relation unless that relation is listed in
       g_opaque (then to none, and the condition is kept as a filter instead of becoming an edge) — the
       correspondence check exercises the real resolution, shared column names included.
     * count_ones / trailing_zeros are read through `members` (bits below n); masks are N. *)
From QV Require Export Base.Util.
From Coq Require Export NArith.
Local Open Scope nat_scope.

(* ---------- predicates, edges, plan trees ---------- *)
Definition col := (nat * nat)%type.            (* (relation id, column id) *)
Definition pred := (col * col)%type.           (* l = r *)
Definition rel (c : col) : nat := fst c.
Definition col_eqb (a b : col) : bool := (fst a =? fst b) && (snd a =? snd b).
Definition pred_eqb (p q : pred) : bool := col_eqb (fst p) (fst q) && col_eqb (snd p) (snd q).
Definition swap_pred (p : pred) : pred := (snd p, fst p).
Definition pred_same (p q : pred) : bool := pred_eqb p q || pred_eqb p (swap_pred q).
Definition col_leb (a b : col) : bool := (fst a <? fst b) || ((fst a =? fst b) && (snd a <=? snd b)).
Definition norm_pred (p : pred) : pred := if col_leb (fst p) (snd p) then p else swap_pred p.
Definition pred_leb (p q : pred) : bool :=
  if col_eqb (fst p) (fst q) then col_leb (snd p) (snd q) else col_leb (fst p) (fst q).

(* struct JoinEdge { left_idx, right_idx, conditions }: conditions oriented (column of left_idx, column of right_idx) *)
Record edge := mkEdge { e_l : nat; e_r : nat; e_conds : list pred }.
Definition dedge := mkEdge 0 0 [].

Inductive ptree :=
| PLeaf (r : nat)
| PJoin (cross : bool) (on : list pred) (l r : ptree)   (* JoinNode: Cross, or Inner with on *)
| PFilter (ps : list pred) (t : ptree).                  (* FilterNode with equality conjuncts *)

(* g_conds : the equality conjuncts the rule reads first — those of the Filter above the join tree
             (reorder_filter_with_join), or, without such a Filter, the ON pairs (reorder_join_tree).
   g_on    : under a Filter, the ON pairs of the flattened joins, read after the Filter's conjuncts.
             The ones that do not become edges are NOT re-applied on that path (only the Filter's own
             predicate is rebuilt by rebuild_filter_without_join_conditions): they are dropped.
   g_opaque: relations whose QUALIFIED column names do not resolve in find_relations (a relation that
             reaches the rule wrapped in a Project is registered under the name "project", so `t1.c`
             finds nothing): a condition touching one is not an edge.  Empty for plans from the binder. *)
Record graph := mkGraph { g_n : nat; g_conds : list pred; g_on : list pred; g_opaque : list nat }.
Definition g_all (g : graph) : list pred := g_conds g ++ g_on g.

Definition mem (x : nat) (l : list nat) : bool := existsb (Nat.eqb x) l.

(* ---------- join-graph extraction ---------- *)
(* edges.iter_mut().find(same unordered pair) => push (oriented to the edge) ; else push a new edge *)
Fixpoint add_cond (es : list edge) (li ri : nat) (p : pred) : list edge :=
  match es with
  | [] => [mkEdge li ri [p]]
  | e :: rest =>
      if ((e_l e =? li) && (e_r e =? ri)) || ((e_l e =? ri) && (e_r e =? li)) then
        (if e_l e =? li then mkEdge (e_l e) (e_r e) (e_conds e ++ [p])
         else mkEdge (e_l e) (e_r e) (e_conds e ++ [swap_pred p])) :: rest
      else e :: add_cond rest li ri p
  end.

(* `left_rels.len() == 1 && right_rels.len() == 1` fails for an unresolvable side => remaining_conditions;
   a condition whose sides are in different relations joins an edge; same relation => remaining_conditions *)
Definition extract_step (opq : list nat) (acc : list edge * list pred) (p : pred) : list edge * list pred :=
  let li := rel (fst p) in let ri := rel (snd p) in
  if mem li opq || mem ri opq then (fst acc, snd acc ++ [p])
  else if li =? ri then (fst acc, snd acc ++ [p]) else (add_cond (fst acc) li ri p, snd acc).
Definition extract (opq : list nat) (conds : list pred) : list edge * list pred :=
  fold_left (extract_step opq) conds ([], []).

(* ---------- bit sets ---------- *)
Definition bit (i : nat) : N := N.shiftl 1 (N.of_nat i).
Definition has (s : N) (i : nat) : bool := N.testbit s (N.of_nat i).
Definition members (n : nat) (s : N) : list nat := filter (has s) (seq 0 n).
Definition popcount (n : nat) (s : N) : nat := length (members n s).      (* count_ones *)
Definition tz (n : nat) (s : N) : nat := hd 0 (members n s).              (* trailing_zeros *)
Definition full (n : nat) : N := N.ones (N.of_nat n).                     (* (1 << n) - 1 *)

(* join_rows: `connected` flag — some edge has one endpoint in s1 and the other in s2 *)
Definition crosses_edge (s1 s2 : N) (e : edge) : bool :=
  (has s1 (e_l e) && has s2 (e_r e)) || (has s2 (e_l e) && has s1 (e_r e)).
Definition crosses (es : list edge) (s1 s2 : N) : bool := existsb (crosses_edge s1 s2) es.

(* ---------- the DP ---------- *)
Definition entry := (N * N)%type.                     (* DpEntry.left / .right ; (0,0) for base relations *)
Definition table := list (option entry).              (* dp: Vec<Option<DpEntry>>, index = mask *)
Definition tget (t : table) (s : N) : option entry := nth (N.to_nat s) t None.

(* let mut s1 = (s-1)&s; while s1 > 0 { ..; s1 = (s1-1)&s }  — literally: *)
Fixpoint iter_sub (fuel : nat) (s s1 : N) : list N :=
  match fuel with
  | O => []
  | S f => if N.eqb s1 0 then [] else s1 :: iter_sub f s (N.land (N.pred s1) s)
  end.
Definition splits_iter (s : N) : list N := iter_sub (N.to_nat s) s (N.land (N.pred s) s).
(* = the proper non-empty submasks in decreasing order (Proofs.splits_iter_small checks all s < 2^7) *)
Definition splits (s : N) : list N :=
  filter (fun s1 => N.eqb (N.land s1 s) s1) (rev (map N.of_nat (seq 1 (N.to_nat s - 1)))).

Definition init_table (n : nat) : table :=
  map (fun k => if existsb (fun i => N.eqb (N.of_nat k) (bit i)) (seq 0 n) then Some (0%N, 0%N) else None)
      (seq 0 (2 ^ n)).

Section DP.
  (* `cost < cur.cost` where cost = e1.cost + e2.cost + rows: any function of the table so far,
     the mask, the candidate split and the incumbent *)
  Variable better : table -> N -> entry -> entry -> bool.
  (* dp_build_plan: `l_score <= r_score` (true = left mask is the build side) *)
  Variable keep_left : table -> N -> N -> bool.

  Definition try_split (es : list edge) (t : table) (s : N) (cur : option entry) (s1 : N) : option entry :=
    let s2 := N.lxor s s1 in
    if N.ltb s1 s2 then
      match tget t s1, tget t s2 with
      | Some _, Some _ =>
          if crosses es s1 s2 then
            match cur with
            | None => Some (s1, s2)
            | Some c => if better t s (s1, s2) c then Some (s1, s2) else cur
            end
          else cur
      | _, _ => cur
      end
    else cur.

  (* one iteration of `for s in 2..=full` *)
  Definition dp_step (n : nat) (es : list edge) (t : table) (s : N) : table :=
    if popcount n s <? 2 then t
    else upd (N.to_nat s) (fun _ => fold_left (try_split es t s) (splits s) (tget t s)) t.

  Definition dp_run (n : nat) (es : list edge) : table :=
    fold_left (dp_step n es) (map N.of_nat (seq 2 (2 ^ n - 2))) (init_table n).

  (* every edge condition crossing the split, oriented (build, probe) *)
  Definition on_of (es : list edge) (b p : N) : list pred :=
    flat_map (fun e =>
      if has b (e_l e) && has p (e_r e) then e_conds e
      else if has b (e_r e) && has p (e_l e) then map swap_pred (e_conds e) else []) es.

  Fixpoint build_plan (fuel : nat) (n : nat) (es : list edge) (t : table) (mask : N) : option ptree :=
    match fuel with
    | O => None
    | S f =>
      match tget t mask with
      | None => None
      | Some (l, r) =>
        if popcount n mask =? 1 then Some (PLeaf (tz n mask))
        else match tget t l, tget t r with
             | Some _, Some _ =>
               let '(b, p) := if keep_left t l r then (l, r) else (r, l) in
               match build_plan f n es t b with
               | None => None
               | Some bt =>
                 match build_plan f n es t p with
                 | None => None
                 | Some pt =>
                   match on_of es b p with
                   | [] => None                       (* `if on.is_empty() { return None }` *)
                   | on => Some (PJoin false on bt pt)
                   end
                 end
               end
             | _, _ => None
             end
      end
    end.

  (* build_join_tree_dpsize: `dp[full]?; self.dp_build_plan(full, ..)` *)
  Definition dpsize (n : nat) (es : list edge) : option ptree :=
    let t := dp_run n es in
    match tget t (full n) with
    | None => None
    | Some _ => build_plan (2 ^ n) n es t (full n)
    end.
End DP.

(* ---------- greedy fallback ---------- *)
Definition i32_min : Z := (-2147483648)%Z.

Record gstate := mkG { g_joined : list nat; g_used : list nat; g_plan : ptree }.

Section Greedy.
  Variable start : nat.                                  (* select_start_relation *)
  Variable score : list nat -> edge -> Z.                (* size_score + cond_score + mn_penalty (i32) *)
  Variable gswap : ptree -> nat -> bool.                 (* swap_build_probe *)

  (* left_in && !right_in => add right ; !left_in && right_in => add left *)
  Definition cand (joined : list nat) (e : edge) : option nat :=
    let li := mem (e_l e) joined in let ri := mem (e_r e) joined in
    if li && negb ri then Some (e_r e) else if negb li && ri then Some (e_l e) else None.

  (* best_score starts at i32::MIN and a candidate wins only with `score > best_score` *)
  Fixpoint pick (joined used : list nat) (ies : list (nat * edge)) (best : option (nat * nat)) (bs : Z)
    : option (nat * nat) :=
    match ies with
    | [] => best
    | (i, e) :: rest =>
        if mem i used then pick joined used rest best bs
        else match cand joined e with
             | Some v => let sc := score joined e in
                         if (bs <? sc)%Z then pick joined used rest (Some (i, v)) sc
                         else pick joined used rest best bs
             | None => pick joined used rest best bs
             end
    end.

  Definition indexed (es : list edge) : list (nat * edge) := combine (seq 0 (length es)) es.

  (* "additional edges from the newly joined relation to already-joined relations": one Filter per condition *)
  Fixpoint attach_extra (v : nat) (ies : list (nat * edge)) (st : gstate) : gstate :=
    match ies with
    | [] => st
    | (j, e) :: rest =>
        if mem j (g_used st) then attach_extra v rest st
        else
          let connects_new := (e_l e =? v) || (e_r e =? v) in
          let other := if e_l e =? v then e_r e else e_l e in
          if connects_new && mem other (g_joined st) then
            attach_extra v rest
              (mkG (g_joined st) (j :: g_used st)
                   (fold_left (fun pl c => PFilter [c] pl) (e_conds e) (g_plan st)))
          else attach_extra v rest st
    end.

  Definition first_unjoined (n : nat) (joined : list nat) : nat :=
    hd 0 (filter (fun i => negb (mem i joined)) (seq 0 n)).

  Definition gstep (n : nat) (es : list edge) (st : gstate) : gstate :=
    match pick (g_joined st) (g_used st) (indexed es) None i32_min with
    | Some (ei, v) =>
        let e := nth ei es dedge in
        let on_cur_left := if e_r e =? v then e_conds e else map swap_pred (e_conds e) in
        let node := if gswap (g_plan st) v
                    then PJoin false (map swap_pred on_cur_left) (PLeaf v) (g_plan st)
                    else PJoin false on_cur_left (g_plan st) (PLeaf v) in
        attach_extra v (indexed es) (mkG (v :: g_joined st) (ei :: g_used st) node)
    | None =>
        let v := first_unjoined n (g_joined st) in
        mkG (v :: g_joined st) (g_used st) (PJoin true [] (g_plan st) (PLeaf v))
    end.

  (* while joined.len() < relations.len() *)
  Fixpoint gloop (fuel n : nat) (es : list edge) (st : gstate) : gstate :=
    match fuel with
    | O => st
    | S f => if length (g_joined st) <? n then gloop f n es (gstep n es st) else st
    end.

  Definition greedy (n : nat) (es : list edge) : ptree :=
    g_plan (gloop n n es (mkG [start] [] (PLeaf start))).
End Greedy.

(* ---------- the rule on a flattened inner-join graph ---------- *)
Section Reorder.
  Variable better : table -> N -> entry -> entry -> bool.
  Variable keep_left : table -> N -> N -> bool.
  Variable start : list edge -> nat.
  Variable score : list nat -> edge -> Z.
  Variable gswap : ptree -> nat -> bool.

  Definition reorder (g : graph) : ptree :=
    (* all_conditions = Filter conjuncts, then the join tree's ON pairs; edges from all of them *)
    let es := fst (extract (g_opaque g) (g_all g)) in
    (* conditions that did not become edges: kept only if they came from g_conds *)
    let rem := snd (extract (g_opaque g) (g_conds g)) in
    let n := g_n g in
    let core :=
      match (if (2 <=? n) && (n <=? 12) then dpsize better keep_left n es else None) with
      | Some t => t
      | None => greedy (start es) score gswap n es
      end in
    fold_left (fun pl c => PFilter [c] pl) rem core.
End Reorder.

(* ---------- executable spec: what C32 demands of ANY reordered plan ---------- *)
Fixpoint leaves (t : ptree) : list nat :=
  match t with
  | PLeaf r => [r]
  | PJoin _ _ l r => leaves l ++ leaves r
  | PFilter _ t => leaves t
  end.
Fixpoint tree_preds (t : ptree) : list pred :=
  match t with
  | PLeaf _ => []
  | PJoin _ on l r => on ++ tree_preds l ++ tree_preds r
  | PFilter ps t => ps ++ tree_preds t
  end.
Definition crossing_pred (ll rl : list nat) (p : pred) : bool :=
  (mem (rel (fst p)) ll && mem (rel (snd p)) rl) || (mem (rel (fst p)) rl && mem (rel (snd p)) ll).
Definition is_nil {A} (l : list A) : bool := match l with [] => true | _ => false end.
(* no Cross node; every join has >= 1 equality and each of its equalities has one column on each side;
   a filter only mentions relations below it *)
Fixpoint joins_ok (t : ptree) : bool :=
  match t with
  | PLeaf _ => true
  | PFilter ps t =>
      forallb (fun p => mem (rel (fst p)) (leaves t) && mem (rel (snd p)) (leaves t)) ps && joins_ok t
  | PJoin cross on l r =>
      negb cross && negb (is_nil on) && forallb (crossing_pred (leaves l) (leaves r)) on
      && joins_ok l && joins_ok r
  end.
(* n leaves, and every relation 0..n-1 among them: each relation exactly once (Proofs.all_rels_once_perm) *)
Definition all_rels_once (n : nat) (t : ptree) : bool :=
  (length (leaves t) =? n) && forallb (fun i => mem i (leaves t)) (seq 0 n).
Definition preds_present (conds : list pred) (t : ptree) : bool :=
  forallb (fun p => existsb (pred_same p) (tree_preds t)) conds.

Definition plan_ok (g : graph) (t : ptree) : bool :=
  all_rels_once (g_n g) t && joins_ok t && preds_present (g_all g) t.

(* ---------- "t is a possible output of the DP" (for comparing the engine's tree with the model,
   whose split and orientation choices are cost-dependent and therefore free) ---------- *)
Definition expected_on (es : list edge) (L R : list nat) : list pred :=
  flat_map (fun e =>
    if mem (e_l e) L && mem (e_r e) R then e_conds e
    else if mem (e_r e) L && mem (e_l e) R then map swap_pred (e_conds e) else []) es.
(* exact: node predicates in the order dp_build_plan emits them *)
Fixpoint dp_shape (es : list edge) (t : ptree) : bool :=
  match t with
  | PLeaf _ => true
  | PFilter _ _ => false
  | PJoin cross on l r =>
      negb cross && negb (is_nil on) && list_eqb pred_eqb on (expected_on es (leaves l) (leaves r))
      && dp_shape es l && dp_shape es r
  end.
(* same, up to the order of the predicates inside a node (the rule runs to a fixpoint; a later
   iteration re-extracts the conditions in tree order) *)
Fixpoint dp_shape_perm (es : list edge) (t : ptree) : bool :=
  match t with
  | PLeaf _ => true
  | PFilter _ _ => false
  | PJoin cross on l r =>
      negb cross && negb (is_nil on)
      && list_eqb pred_eqb (isort pred_leb on) (isort pred_leb (expected_on es (leaves l) (leaves r)))
      && dp_shape_perm es l && dp_shape_perm es r
  end.
Definition model_shape (g : graph) (t : ptree) : bool :=
  all_rels_once (g_n g) t && dp_shape_perm (fst (extract (g_opaque g) (g_all g))) t.

(* ---------- connectivity, executable ---------- *)
Definition neighbours (es : list edge) (S : list nat) : list nat :=
  flat_map (fun e => (if mem (e_l e) S then [e_r e] else []) ++ (if mem (e_r e) S then [e_l e] else [])) es.
Fixpoint grow (fuel : nat) (es : list edge) (S : list nat) : list nat :=
  match fuel with O => S | S f => grow f es (S ++ neighbours es S) end.
Definition connectedb (n : nat) (es : list edge) : bool :=
  forallb (fun i => mem i (grow n es [0])) (seq 0 n).
Definition graph_connectedb (g : graph) : bool := connectedb (g_n g) (fst (extract (g_opaque g) (g_all g))).

(* every predicate relates two different relations below n *)
Definition wf_pred (n : nat) (p : pred) : bool :=
  (rel (fst p) <? n) && (rel (snd p) <? n) && negb (rel (fst p) =? rel (snd p)).
Definition wf_graph (g : graph) : bool := forallb (wf_pred (g_n g)) (g_all g).
(* the class in which the rule is known to manufacture cross joins (see Proofs.opaque_relation_cross_join) *)
Definition known_c (g : graph) : bool := negb (is_nil (g_opaque g)).
