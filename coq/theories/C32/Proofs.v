(* C32 proofs.  All theorems hold for EVERY cost / score / orientation function (Section variables). *)
From QV Require Import Base.Util C32.Model.
From Coq Require Import Relations.
Local Open Scope nat_scope.

(* ================= basics ================= *)
Lemma mem_In x l : mem x l = true <-> In x l.
Proof.
  unfold mem. rewrite existsb_exists. split.
  - intros (y & Hy & E). apply Nat.eqb_eq in E. now subst.
  - intros H. exists x. split; [assumption | apply Nat.eqb_refl].
Qed.
Lemma mem_false_In x l : mem x l = false <-> ~ In x l.
Proof. rewrite <- mem_In. destruct (mem x l); split; congruence. Qed.
Lemma mem_perm x l l' : Permutation l l' -> mem x l = mem x l'.
Proof.
  intros P. destruct (mem x l') eqn:E.
  - apply mem_In. apply mem_In in E. now apply Permutation_sym in P; apply (Permutation_in _ P).
  - apply mem_false_In. apply mem_false_In in E. intros H. apply E. now apply (Permutation_in _ P).
Qed.
Lemma mem_app x a b : mem x (a ++ b) = mem x a || mem x b.
Proof. unfold mem. apply existsb_app. Qed.

Lemma col_eqb_eq a b : col_eqb a b = true <-> a = b.
Proof.
  destruct a as [a1 a2], b as [b1 b2]. unfold col_eqb. cbn [fst snd].
  rewrite andb_true_iff, !Nat.eqb_eq. split; [intros [-> ->]; reflexivity | intros E; inversion E; auto].
Qed.
Lemma pred_eqb_eq p q : pred_eqb p q = true <-> p = q.
Proof.
  destruct p as [p1 p2], q as [q1 q2]. unfold pred_eqb. cbn [fst snd].
  rewrite andb_true_iff, !col_eqb_eq. split; [intros [-> ->]; reflexivity | intros E; inversion E; auto].
Qed.
Lemma swap_swap p : swap_pred (swap_pred p) = p.
Proof. now destruct p. Qed.

Lemma norm_swap p : norm_pred (swap_pred p) = norm_pred p.
Proof.
  destruct p as [[a1 a2] [b1 b2]]. unfold norm_pred, swap_pred, col_leb. cbn [fst snd].
  destruct (a1 <? b1) eqn:E1, (b1 <? a1) eqn:E2, (a1 =? b1) eqn:E3, (b1 =? a1) eqn:E4,
           (a2 <=? b2) eqn:E5, (b2 <=? a2) eqn:E6; cbn; try reflexivity;
    repeat match goal with
    | H : (_ <? _) = true |- _ => apply Nat.ltb_lt in H
    | H : (_ <? _) = false |- _ => apply Nat.ltb_ge in H
    | H : (_ =? _) = true |- _ => apply Nat.eqb_eq in H
    | H : (_ =? _) = false |- _ => apply Nat.eqb_neq in H
    | H : (_ <=? _) = true |- _ => apply Nat.leb_le in H
    | H : (_ <=? _) = false |- _ => apply Nat.leb_gt in H
    end; try lia.
  assert (a1 = b1) by lia. assert (a2 = b2) by lia. subst. reflexivity.
Qed.
Lemma norm_cases p : norm_pred p = p \/ norm_pred p = swap_pred p.
Proof. unfold norm_pred. destruct (col_leb _ _); auto. Qed.
Lemma norm_eq_same p q : norm_pred p = norm_pred q -> pred_same p q = true.
Proof.
  intros E. unfold pred_same. apply orb_true_iff.
  destruct (norm_cases p) as [Hp|Hp], (norm_cases q) as [Hq|Hq]; rewrite Hp, Hq in E.
  - left. now apply pred_eqb_eq.
  - right. now apply pred_eqb_eq.
  - right. apply pred_eqb_eq. rewrite <- E. now rewrite swap_swap.
  - left. apply pred_eqb_eq. rewrite <- (swap_swap p), E. now rewrite swap_swap.
Qed.
Lemma map_norm_swap l : map norm_pred (map swap_pred l) = map norm_pred l.
Proof. rewrite map_map. apply map_ext. intros. apply norm_swap. Qed.

Lemma filter_split {A} (f g h : A -> bool) l :
  (forall x, In x l -> f x = g x || h x) -> (forall x, In x l -> g x && h x = false) ->
  Permutation (filter f l) (filter g l ++ filter h l).
Proof.
  induction l as [|a l IH]; intros H1 H2; cbn [filter]; [constructor|].
  assert (IH' := IH (fun x Hx => H1 x (or_intror Hx)) (fun x Hx => H2 x (or_intror Hx))).
  specialize (H1 a (or_introl eq_refl)). specialize (H2 a (or_introl eq_refl)).
  destruct (g a), (h a); cbn in H1, H2; rewrite H1; try discriminate.
  - cbn. now constructor.
  - now apply Permutation_cons_app.
  - assumption.
Qed.

(* ================= bit sets ================= *)
Lemma has_bit i j : has (bit i) j = (i =? j).
Proof.
  unfold has, bit. rewrite N.shiftl_1_l, N.pow2_bits_eqb.
  destruct (i =? j) eqn:E.
  - apply Nat.eqb_eq in E. subst. apply N.eqb_refl.
  - apply N.eqb_neq. intros H. apply Nat.eqb_neq in E. apply E. now apply Nat2N.inj.
Qed.
Lemma in_members n s i : In i (members n s) <-> i < n /\ has s i = true.
Proof. unfold members. rewrite filter_In, in_seq. intuition lia. Qed.
Lemma members_NoDup n s : NoDup (members n s).
Proof. apply NoDup_filter, seq_NoDup. Qed.
Lemma filter_none {A} (f : A -> bool) l : (forall x, In x l -> f x = false) -> filter f l = [].
Proof.
  induction l as [|a l IH]; intros H; cbn; [reflexivity|].
  rewrite (H a (or_introl eq_refl)). apply IH. intros x Hx. apply H. now right.
Qed.
Lemma filter_eqb_seq i n : i < n -> filter (fun j => i =? j) (seq 0 n) = [i].
Proof.
  intros H. replace n with (i + (1 + (n - i - 1))) by lia.
  rewrite !seq_app, !filter_app. cbn [seq filter plus]. rewrite Nat.eqb_refl.
  rewrite !filter_none; [reflexivity| |]; intros x Hx; apply in_seq in Hx; apply Nat.eqb_neq; lia.
Qed.
Lemma members_bit n i : i < n -> members n (bit i) = [i].
Proof.
  intros H. unfold members. rewrite (filter_ext _ (fun j => i =? j)); [now apply filter_eqb_seq|].
  intros j. apply has_bit.
Qed.
Lemma sub_has l s i : N.land l s = l -> has l i = true -> has s i = true.
Proof.
  unfold has. intros H Hi. rewrite <- H in Hi. rewrite N.land_spec in Hi.
  now apply andb_true_iff in Hi.
Qed.
Lemma xor_has l s i : N.land l s = l -> has (N.lxor s l) i = has s i && negb (has l i).
Proof.
  intros H. unfold has. rewrite N.lxor_spec.
  destruct (N.testbit l (N.of_nat i)) eqn:E.
  - assert (E2 := sub_has l s i H E). unfold has in E2. rewrite E2. reflexivity.
  - now destruct (N.testbit s (N.of_nat i)).
Qed.
Lemma lxor_sub_add l s : N.land l s = l -> (N.lxor s l + l = s)%N.
Proof.
  intros H.
  assert (D : N.land (N.lxor s l) l = 0%N).
  { apply N.bits_inj. intros k. rewrite N.land_spec, N.lxor_spec, N.bits_0.
    destruct (N.testbit l k) eqn:E; [|apply andb_false_r].
    rewrite <- H in E. rewrite N.land_spec in E. apply andb_true_iff in E as [E1 E2].
    rewrite E2. reflexivity. }
  rewrite (N.add_nocarry_lxor _ _ D), N.lxor_assoc, N.lxor_nilpotent. apply N.lxor_0_r.
Qed.
Lemma members_split n l s : N.land l s = l ->
  Permutation (members n s) (members n l ++ members n (N.lxor s l)).
Proof.
  intros H. unfold members. apply filter_split; intros x _.
  - rewrite (xor_has l s x H). destruct (has l x) eqn:E; [rewrite (sub_has l s x H E); reflexivity|].
    cbn. now rewrite andb_true_r.
  - rewrite (xor_has l s x H). destruct (has l x); [now rewrite andb_false_r | reflexivity].
Qed.
Lemma has_full n i : has (full n) i = (i <? n).
Proof.
  unfold has, full. destruct (i <? n) eqn:E.
  - apply N.ones_spec_low. apply Nat.ltb_lt in E. lia.
  - apply N.ones_spec_high. apply Nat.ltb_ge in E. lia.
Qed.
Lemma members_full n : members n (full n) = seq 0 n.
Proof.
  unfold members. rewrite (filter_ext_in _ (fun _ => true)).
  - induction (seq 0 n) as [|a l IH]; cbn; [reflexivity | now rewrite IH].
  - intros a Ha. apply in_seq in Ha. rewrite has_full. apply Nat.ltb_lt. lia.
Qed.
Lemma full_lt n : (full n < 2 ^ N.of_nat n)%N.
Proof. unfold full. rewrite N.ones_equiv. apply N.lt_pred_l. apply N.pow_nonzero. discriminate. Qed.
Lemma pow_N_nat n : N.to_nat (2 ^ N.of_nat n) = 2 ^ n.
Proof.
  induction n as [|n IH]; [reflexivity|].
  rewrite Nat2N.inj_succ, N.pow_succ_r', N2Nat.inj_mul, IH. cbn. lia.
Qed.

(* ================= edges and extraction ================= *)
Definition wf_edge (n : nat) (e : edge) : Prop :=
  e_l e < n /\ e_r e < n /\ e_l e <> e_r e /\ e_conds e <> [] /\
  Forall (fun p => rel (fst p) = e_l e /\ rel (snd p) = e_r e) (e_conds e).
Definition all_conds (es : list edge) : list pred := flat_map e_conds es.

Lemma add_cond_wf n es li ri p :
  Forall (wf_edge n) es -> li < n -> ri < n -> li <> ri -> rel (fst p) = li -> rel (snd p) = ri ->
  Forall (wf_edge n) (add_cond es li ri p).
Proof.
  intros W Hl Hr Hne Hp1 Hp2. induction W as [|e es We W IH]; cbn [add_cond].
  - constructor; [|constructor]. unfold wf_edge; cbn. repeat split; auto; try discriminate.
  - destruct (((e_l e =? li) && (e_r e =? ri)) || ((e_l e =? ri) && (e_r e =? li))) eqn:M.
    + constructor; [|assumption].
      destruct We as (A & B & C & D & F).
      apply orb_true_iff in M. rewrite !andb_true_iff, !Nat.eqb_eq in M.
      destruct (e_l e =? li) eqn:E1.
      * apply Nat.eqb_eq in E1. assert (e_r e = ri) by (destruct M as [[_ ?]|[? ?]]; [assumption | congruence]).
        unfold wf_edge; cbn. repeat split; auto.
        { intros X. now apply app_eq_nil in X as [_ X]. }
        { apply Forall_app; split; [assumption|]. constructor; [split; congruence | constructor]. }
      * apply Nat.eqb_neq in E1. destruct M as [[? _]|[M1 M2]]; [congruence|].
        unfold wf_edge; cbn. repeat split; auto.
        { intros X. now apply app_eq_nil in X as [_ X]. }
        { apply Forall_app; split; [assumption|]. constructor; [|constructor]. destruct p; cbn in *. split; congruence. }
    + constructor; assumption.
Qed.

Lemma add_cond_perm es li ri p :
  Permutation (map norm_pred (all_conds (add_cond es li ri p))) (norm_pred p :: map norm_pred (all_conds es)).
Proof.
  induction es as [|e es IH]; cbn [add_cond].
  - cbn. reflexivity.
  - destruct (((e_l e =? li) && (e_r e =? ri)) || ((e_l e =? ri) && (e_r e =? li))).
    + unfold all_conds. cbn [flat_map]. fold (all_conds es).
      assert (X : map norm_pred (e_conds (if e_l e =? li then mkEdge (e_l e) (e_r e) (e_conds e ++ [p])
                       else mkEdge (e_l e) (e_r e) (e_conds e ++ [swap_pred p])))
                  = map norm_pred (e_conds e) ++ [norm_pred p]).
      { destruct (e_l e =? li); cbn [e_conds]; rewrite map_app; cbn [map]; [reflexivity | now rewrite norm_swap]. }
      rewrite !map_app, X, <- app_assoc. cbn [app].
      apply Permutation_sym, Permutation_middle.
    + unfold all_conds. cbn [flat_map]. fold (all_conds es) (all_conds (add_cond es li ri p)).
      rewrite !map_app. rewrite IH. apply Permutation_sym, Permutation_middle.
Qed.

Lemma extract_fold opq n conds : forall es rem,
  Forall (wf_edge n) es -> Forall (fun p => wf_pred n p = true) conds ->
  Forall (wf_edge n) (fst (fold_left (extract_step opq) conds (es, rem))) /\
  Permutation (map norm_pred (all_conds (fst (fold_left (extract_step opq) conds (es, rem)))
                              ++ snd (fold_left (extract_step opq) conds (es, rem))))
              (map norm_pred (all_conds es ++ rem ++ conds)).
Proof.
  induction conds as [|p conds IH]; intros es rem W Wp; cbn [fold_left].
  - split; [assumption|]. now rewrite app_nil_r.
  - inversion Wp as [|? ? Hp Wp']; subst.
    unfold wf_pred in Hp. rewrite !andb_true_iff, !Nat.ltb_lt, negb_true_iff, Nat.eqb_neq in Hp.
    destruct Hp as [[H1 H2] H3].
    unfold extract_step at 2 4 6. cbn [fst snd].
    destruct (mem (rel (fst p)) opq || mem (rel (snd p)) opq).
    { destruct (IH es (rem ++ [p]) W Wp') as [A B]. split; [assumption|].
      rewrite B. rewrite <- (app_assoc rem). reflexivity. }
    destruct (rel (fst p) =? rel (snd p)) eqn:E; [apply Nat.eqb_eq in E; contradiction|].
    destruct (IH (add_cond es (rel (fst p)) (rel (snd p)) p) rem) as [A B]; [now apply add_cond_wf | assumption |].
    split; [assumption|]. rewrite B. rewrite !map_app. cbn [map].
    rewrite add_cond_perm. cbn [app]. rewrite !app_assoc. apply Permutation_middle.
Qed.

Lemma extract_wf opq n conds : Forall (fun p => wf_pred n p = true) conds ->
  Forall (wf_edge n) (fst (extract opq conds)).
Proof. intros W. now apply (extract_fold opq n conds [] []). Qed.
Lemma extract_perm opq n conds : Forall (fun p => wf_pred n p = true) conds ->
  Permutation (map norm_pred (all_conds (fst (extract opq conds)) ++ snd (extract opq conds))) (map norm_pred conds).
Proof. intros W. now apply (extract_fold opq n conds [] [] (Forall_nil _)) in W as [_ W]. Qed.

Lemma extract_rem_nil n conds : Forall (fun p => wf_pred n p = true) conds ->
  snd (extract [] conds) = [].
Proof.
  unfold extract. generalize (@nil edge). induction conds as [|p conds IH]; intros es W; [reflexivity|].
  inversion W as [|? ? Hp W']; subst. cbn [fold_left]. unfold extract_step at 2. cbn [fst snd mem existsb orb].
  unfold wf_pred in Hp. rewrite !andb_true_iff, negb_true_iff in Hp. destruct Hp as [_ Hp]. rewrite Hp.
  now apply IH.
Qed.

(* ================= trees shaped like a DP output ================= *)
Definition inside (L : list nat) (e : edge) : bool := mem (e_l e) L && mem (e_r e) L.
Definition conds_in (es : list edge) (L : list nat) : list pred := all_conds (filter (inside L) es).

Lemma expected_split es L R : (forall x, In x L -> ~ In x R) ->
  Permutation (map norm_pred (conds_in es (L ++ R)))
              (map norm_pred (expected_on es L R) ++ map norm_pred (conds_in es L) ++ map norm_pred (conds_in es R)).
Proof.
  intros D. unfold conds_in, all_conds. induction es as [|e es IH]; [reflexivity|].
  cbn [filter expected_on flat_map]. fold (expected_on es L R).
  assert (I1 : inside (L ++ R) e = (mem (e_l e) L || mem (e_l e) R) && (mem (e_r e) L || mem (e_r e) R))
    by (unfold inside; now rewrite !mem_app).
  assert (I2 : inside L e = mem (e_l e) L && mem (e_r e) L) by reflexivity.
  assert (I3 : inside R e = mem (e_l e) R && mem (e_r e) R) by reflexivity.
  rewrite I1, I2, I3. clear I1 I2 I3.
  assert (DL : mem (e_l e) L && mem (e_l e) R = false).
  { destruct (mem (e_l e) L) eqn:A, (mem (e_l e) R) eqn:B; auto. apply mem_In in A, B. now apply D in A. }
  assert (DR : mem (e_r e) L && mem (e_r e) R = false).
  { destruct (mem (e_r e) L) eqn:A, (mem (e_r e) R) eqn:B; auto. apply mem_In in A, B. now apply D in A. }
  set (X := map norm_pred (flat_map e_conds (filter (inside (L ++ R)) es))) in *.
  set (E := map norm_pred (expected_on es L R)) in *.
  set (A := map norm_pred (flat_map e_conds (filter (inside L) es))) in *.
  set (B := map norm_pred (flat_map e_conds (filter (inside R) es))) in *.
  destruct (mem (e_l e) L), (mem (e_l e) R), (mem (e_r e) L), (mem (e_r e) R); try discriminate;
    cbn [orb andb flat_map]; rewrite ?map_app, ?map_norm_swap, ?app_nil_l; fold X E A B;
    set (C := map norm_pred (e_conds e)); try exact IH.
  - (* both in L *)
    rewrite IH, <- !app_assoc. apply Permutation_app_swap_app.
  - (* l in L, r in R : crossing *)
    rewrite <- app_assoc. now apply Permutation_app_head.
  - (* l in R, r in L : crossing, swapped *)
    rewrite <- app_assoc. now apply Permutation_app_head.
  - (* both in R *)
    rewrite IH. rewrite (app_assoc E A B), (app_assoc E A (C ++ B)). apply Permutation_app_swap_app.
Qed.

Lemma conds_in_single n es r : Forall (wf_edge n) es -> conds_in es [r] = [].
Proof.
  intros W. unfold conds_in, all_conds. induction W as [|e es We W IH]; [reflexivity|].
  cbn [filter]. unfold inside at 1. cbn [mem existsb]. rewrite !orb_false_r.
  destruct (e_l e =? r) eqn:A, (e_r e =? r) eqn:B; cbn [andb]; try exact IH.
  apply Nat.eqb_eq in A, B. destruct We as (_ & _ & Hne & _). congruence.
Qed.

Lemma NoDup_app_inv {A} (l1 l2 : list A) : NoDup (l1 ++ l2) ->
  NoDup l1 /\ NoDup l2 /\ (forall x, In x l1 -> ~ In x l2).
Proof.
  induction l1 as [|a l1 IH]; cbn; intros H.
  - repeat split; [constructor | assumption | intros ? []].
  - inversion H as [|? ? Hn H']; subst. destruct (IH H') as (A1 & A2 & A3).
    repeat split; [constructor; [|assumption] | assumption |].
    + intros X. apply Hn. apply in_or_app. now left.
    + intros x [->|Hx]; [|now apply A3]. intros X. apply Hn. apply in_or_app. now right.
Qed.

Lemma list_eqb_pred a b : list_eqb pred_eqb a b = true <-> a = b.
Proof. apply list_eqb_spec. apply pred_eqb_eq. Qed.

Lemma shape_preds n es t : Forall (wf_edge n) es -> dp_shape es t = true -> NoDup (leaves t) ->
  Permutation (map norm_pred (tree_preds t)) (map norm_pred (conds_in es (leaves t))).
Proof.
  intros W. induction t as [r|cross on l IHl r IHr|ps t IH]; cbn [dp_shape leaves tree_preds]; intros S ND.
  - now rewrite (conds_in_single n es r W).
  - rewrite !andb_true_iff in S. destruct S as [[[[_ _] S1] S2] S3].
    apply list_eqb_pred in S1. subst on.
    apply NoDup_app_inv in ND as (N1 & N2 & D).
    rewrite (expected_split es _ _ D), !map_app, (IHl S2 N1), (IHr S3 N2). reflexivity.
  - discriminate.
Qed.

Lemma expected_on_crossing n es L R p : Forall (wf_edge n) es -> In p (expected_on es L R) ->
  crossing_pred L R p = true.
Proof.
  intros W Hp. unfold expected_on in Hp. apply in_flat_map in Hp as (e & He & Hp).
  rewrite Forall_forall in W. destruct (W e He) as (_ & _ & _ & _ & F). rewrite Forall_forall in F.
  unfold crossing_pred.
  destruct (mem (e_l e) L && mem (e_r e) R) eqn:A.
  - destruct (F p Hp) as [F1 F2]. rewrite F1, F2, A. reflexivity.
  - destruct (mem (e_r e) L && mem (e_l e) R) eqn:B; [|destruct Hp].
    apply in_map_iff in Hp as (q & <- & Hq). destruct (F q Hq) as [F1 F2].
    destruct q as [q1 q2]. cbn [swap_pred fst snd] in *. rewrite F1, F2, B. reflexivity.
Qed.

Lemma shape_joins_ok n es t : Forall (wf_edge n) es -> dp_shape es t = true -> joins_ok t = true.
Proof.
  intros W. induction t as [r|cross on l IHl r IHr|ps t IH]; cbn [dp_shape joins_ok]; intros S; try reflexivity; try discriminate.
  rewrite !andb_true_iff in S. destruct S as [[[[S0 S0'] S1] S2] S3].
  apply list_eqb_pred in S1. rewrite S0, S0', (IHl S2), (IHr S3). cbn [andb]. rewrite !andb_true_r.
  apply forallb_forall. intros p Hp. rewrite S1 in Hp. now apply (expected_on_crossing n es).
Qed.

Lemma conds_in_all n es L : Forall (wf_edge n) es -> (forall i, i < n -> In i L) -> conds_in es L = all_conds es.
Proof.
  intros W HL. unfold conds_in. f_equal. induction W as [|e es We W IH]; [reflexivity|].
  cbn [filter]. unfold inside at 1. destruct We as (A & B & _).
  rewrite (proj2 (mem_In _ _) (HL _ A)), (proj2 (mem_In _ _) (HL _ B)). cbn [andb]. now rewrite IH.
Qed.

(* the executable "each relation exactly once" means what it says *)
Lemma all_rels_once_perm n t : all_rels_once n t = true <-> Permutation (leaves t) (seq 0 n).
Proof.
  unfold all_rels_once. rewrite andb_true_iff, Nat.eqb_eq, forallb_forall. split.
  - intros [HL HM]. apply Permutation_sym. apply NoDup_Permutation_bis.
    + apply seq_NoDup.
    + rewrite seq_length. lia.
    + intros x Hx. apply mem_In. now apply HM.
  - intros P. split.
    + rewrite (Permutation_length P). apply seq_length.
    + intros x Hx. apply mem_In. apply Permutation_sym in P. now apply (Permutation_in _ P).
Qed.

(* ================= Theorem 1: dp_build_plan on any memo satisfying the DP invariant ================= *)
(* what build_join_tree_dpsize maintains: an entry is a base relation, or a split into two proper,
   disjoint, non-empty parts that both have entries and are joined by at least one edge *)
Definition memo_inv (n : nat) (es : list edge) (t : table) : Prop :=
  forall s l r, tget t s = Some (l, r) ->
    (exists i, i < n /\ s = bit i) \/
    ((0 < l)%N /\ (l < s)%N /\ (N.lxor s l < s)%N /\ N.land l s = l /\ r = N.lxor s l /\
     crosses es l r = true /\ tget t l <> None /\ tget t r <> None).

Lemma has_mem n s L i : i < n -> Permutation L (members n s) -> has s i = mem i L.
Proof.
  intros Hi P. rewrite (mem_perm i _ _ P). destruct (has s i) eqn:E.
  - symmetry. apply mem_In, in_members. auto.
  - symmetry. apply mem_false_In. rewrite in_members. intros [_ X]. congruence.
Qed.

Lemma crosses_sym es a b : crosses es a b = crosses es b a.
Proof.
  unfold crosses. induction es as [|e es IH]; [reflexivity|]. cbn [existsb]. rewrite IH. f_equal.
  unfold crosses_edge. apply orb_comm.
Qed.

Lemma on_of_expected n es b p Lb Lp : Forall (wf_edge n) es ->
  Permutation Lb (members n b) -> Permutation Lp (members n p) ->
  on_of es b p = expected_on es Lb Lp.
Proof.
  intros W Pb Pp. unfold on_of, expected_on. induction W as [|e es We W IH]; [reflexivity|].
  cbn [flat_map]. rewrite IH. destruct We as (A & B & _).
  now rewrite (has_mem n b Lb _ A Pb), (has_mem n p Lp _ B Pp), (has_mem n b Lb _ B Pb), (has_mem n p Lp _ A Pp).
Qed.

Lemma on_of_nonempty n es b p : Forall (wf_edge n) es -> crosses es b p = true -> on_of es b p <> [].
Proof.
  intros W C. unfold crosses in C. apply existsb_exists in C as (e & He & C).
  rewrite Forall_forall in W. destruct (W e He) as (_ & _ & _ & Hc & _).
  destruct (e_conds e) as [|c cs] eqn:Ec; [congruence|].
  assert (X : In (if has b (e_l e) && has p (e_r e) then c else swap_pred c) (on_of es b p)).
  { unfold on_of. apply in_flat_map. exists e. split; [assumption|].
    unfold crosses_edge in C. destruct (has b (e_l e) && has p (e_r e)) eqn:A.
    - rewrite Ec. now left.
    - cbn [orb] in C. rewrite andb_comm in C. rewrite C, Ec. now left. }
  intros E. rewrite E in X. destruct X.
Qed.

Lemma singleton_of_length1 (l : list nat) : length l = 1 -> l = [hd 0 l].
Proof. destruct l as [|a [|b l]]; cbn; intros H; try discriminate. reflexivity. Qed.

Section BuildPlan.
  Variable keep_left : table -> N -> N -> bool.
  Variables (n : nat) (es : list edge) (t : table).
  Hypothesis W : Forall (wf_edge n) es.
  Hypothesis INV : memo_inv n es t.

  Lemma build_ok : forall fuel mask, N.to_nat mask < fuel -> tget t mask <> None ->
    exists tr, build_plan keep_left fuel n es t mask = Some tr /\
               Permutation (leaves tr) (members n mask) /\ dp_shape es tr = true.
  Proof.
    induction fuel as [|f IH]; intros mask Hf Hm; [lia|].
    cbn [build_plan]. destruct (tget t mask) as [[l r]|] eqn:Em; [|congruence].
    destruct (popcount n mask =? 1) eqn:Ep.
    - apply Nat.eqb_eq in Ep. exists (PLeaf (tz n mask)). split; [reflexivity|]. split; [|reflexivity].
      cbn [leaves]. unfold tz. unfold popcount in Ep. now rewrite <- (singleton_of_length1 _ Ep).
    - apply Nat.eqb_neq in Ep. destruct (INV mask l r Em) as [(i & Hi & ->)|(L0 & L1 & R1 & Sub & -> & C & Tl & Tr)].
      { exfalso. apply Ep. unfold popcount. now rewrite members_bit. }
      destruct (tget t l) as [el|] eqn:El; [|congruence].
      destruct (tget t (N.lxor mask l)) as [er|] eqn:Er; [|congruence].
      assert (Pm := members_split n l mask Sub).
      destruct (IH l) as (tl & Bl & Pl & Sl); [lia | congruence |].
      destruct (IH (N.lxor mask l)) as (tr & Br & Pr & Sr); [lia | congruence |].
      destruct (keep_left t l (N.lxor mask l)).
      + rewrite Bl, Br.
        assert (NE := on_of_nonempty n es l (N.lxor mask l) W C).
        rewrite (on_of_expected n es l (N.lxor mask l) (leaves tl) (leaves tr) W Pl Pr) in *.
        destruct (expected_on es (leaves tl) (leaves tr)) as [|c cs] eqn:Eo; [congruence|].
        eexists. split; [reflexivity|]. split.
        * cbn [leaves]. rewrite Pl, Pr. now apply Permutation_sym.
        * cbn [dp_shape]. rewrite Eo, Sl, Sr. cbn [negb is_nil andb]. rewrite !andb_true_r.
          now apply list_eqb_pred.
      + rewrite Br, Bl. rewrite crosses_sym in C.
        assert (NE := on_of_nonempty n es (N.lxor mask l) l W C).
        rewrite (on_of_expected n es (N.lxor mask l) l (leaves tr) (leaves tl) W Pr Pl) in *.
        destruct (expected_on es (leaves tr) (leaves tl)) as [|c cs] eqn:Eo; [congruence|].
        eexists. split; [reflexivity|]. split.
        * cbn [leaves]. rewrite Pl, Pr. apply Permutation_sym. rewrite Pm. apply Permutation_app_comm.
        * cbn [dp_shape]. rewrite Eo, Sl, Sr. cbn [negb is_nil andb]. rewrite !andb_true_r.
          now apply list_eqb_pred.
  Qed.

  (* every relation exactly once; no cross join and every join has crossing equalities;
     every edge condition placed at exactly one node *)
  Theorem tree_wellformed : tget t (full n) <> None ->
    exists tr, build_plan keep_left (2 ^ n) n es t (full n) = Some tr /\
      Permutation (leaves tr) (seq 0 n) /\ joins_ok tr = true /\ dp_shape es tr = true /\
      Permutation (map norm_pred (tree_preds tr)) (map norm_pred (all_conds es)).
  Proof.
    intros Hf. destruct (build_ok (2 ^ n) (full n)) as (tr & B & P & S); [|assumption|].
    { rewrite <- pow_N_nat. assert (X := full_lt n). lia. }
    rewrite members_full in P.
    exists tr. split; [assumption|]. split; [assumption|]. split; [now apply (shape_joins_ok n es)|]. split; [assumption|].
    rewrite (shape_preds n es tr W S).
    - rewrite (conds_in_all n es); [reflexivity | assumption |].
      intros i Hi. apply Permutation_sym in P. apply (Permutation_in _ P). apply in_seq. lia.
    - apply Permutation_sym in P. apply (Permutation_NoDup P). apply seq_NoDup.
  Qed.
End BuildPlan.

(* ================= the DP loop ================= *)
(* the subsets the DP can reach: single relations, and unions of two disjoint reachable subsets
   joined by an edge *)
Inductive conn (n : nat) (es : list edge) : N -> Prop :=
| conn_bit i : i < n -> conn n es (bit i)
| conn_join s1 s2 : conn n es s1 -> conn n es s2 -> N.land s1 s2 = 0%N -> crosses es s1 s2 = true ->
    conn n es (N.lor s1 s2).

Lemma nth_map_seq {A} (f : nat -> A) m k d : k < m -> nth k (map f (seq 0 m)) d = f k.
Proof.
  intros H. rewrite (nth_indep _ d (f 0)) by (rewrite map_length, seq_length; lia).
  rewrite map_nth, seq_nth by lia. reflexivity.
Qed.
Lemma init_length n : length (init_table n) = 2 ^ n.
Proof. unfold init_table. now rewrite map_length, seq_length. Qed.
Lemma tget_init n s : N.to_nat s < 2 ^ n ->
  tget (init_table n) s = if existsb (fun i => N.eqb s (bit i)) (seq 0 n) then Some (0%N, 0%N) else None.
Proof. intros H. unfold tget, init_table. rewrite nth_map_seq by assumption. now rewrite N2Nat.id. Qed.
Lemma tget_overflow (t : table) s : length t <= N.to_nat s -> tget t s = None.
Proof. intros H. unfold tget. now apply nth_overflow. Qed.
Lemma bit_pow i : bit i = (2 ^ N.of_nat i)%N.
Proof. unfold bit. apply N.shiftl_1_l. Qed.
Lemma bit_lt n i : i < n -> N.to_nat (bit i) < 2 ^ n.
Proof. intros H. rewrite bit_pow, pow_N_nat. apply Nat.pow_lt_mono_r; lia. Qed.
Lemma init_bit n i : i < n -> tget (init_table n) (bit i) = Some (0%N, 0%N).
Proof.
  intros H. rewrite tget_init by now apply bit_lt.
  replace (existsb _ _) with true; [reflexivity|]. symmetry. apply existsb_exists.
  exists i. split; [apply in_seq; lia | apply N.eqb_refl].
Qed.
Lemma init_some n s e : tget (init_table n) s = Some e -> exists i, i < n /\ s = bit i.
Proof.
  intros H. destruct (Nat.lt_ge_cases (N.to_nat s) (2 ^ n)) as [L|G].
  - rewrite tget_init in H by assumption.
    destruct (existsb _ _) eqn:E; [|discriminate]. apply existsb_exists in E as (i & Hi & E).
    apply in_seq in Hi. apply N.eqb_eq in E. exists i. split; [lia | assumption].
  - rewrite tget_overflow in H; [discriminate | now rewrite init_length].
Qed.
Lemma tget_upd_same (t : table) s f : N.to_nat s < length t -> tget (upd (N.to_nat s) f t) s = f (tget t s).
Proof. intros H. unfold tget. now apply nth_upd_same. Qed.
Lemma tget_upd_other (t : table) s s' f : s' <> s -> tget (upd (N.to_nat s) f t) s' = tget t s'.
Proof. intros H. unfold tget. apply nth_upd_other. intros E. apply H. symmetry. now apply N2Nat.inj. Qed.

Lemma in_splits s s1 : In s1 (splits s) <-> (0 < s1)%N /\ (s1 < s)%N /\ N.land s1 s = s1.
Proof.
  unfold splits. rewrite filter_In, <- in_rev, in_map_iff, N.eqb_eq. split.
  - intros [(x & <- & Hx) E]. apply in_seq in Hx. repeat split; [lia | lia | assumption].
  - intros (A & B & E). split; [|assumption]. exists (N.to_nat s1). split; [apply N2Nat.id|]. apply in_seq. lia.
Qed.

Lemma land_lor_absorb a b : N.land a (N.lor a b) = a.
Proof.
  apply N.bits_inj. intros k. rewrite N.land_spec, N.lor_spec. now destruct (N.testbit a k), (N.testbit b k).
Qed.
Lemma lxor_lor_disjoint a b : N.land a b = 0%N -> N.lxor (N.lor a b) a = b.
Proof.
  intros D. apply N.bits_inj. intros k. rewrite N.lxor_spec, N.lor_spec.
  assert (X : N.testbit (N.land a b) k = false) by (rewrite D; apply N.bits_0).
  rewrite N.land_spec in X. now destruct (N.testbit a k), (N.testbit b k).
Qed.
Lemma lor_disjoint_add a b : N.land a b = 0%N -> N.lor a b = (a + b)%N.
Proof. intros D. now rewrite <- (N.lxor_lor _ _ D), (N.add_nocarry_lxor _ _ D). Qed.
Lemma has_lor a b i : has (N.lor a b) i = has a i || has b i.
Proof. unfold has. apply N.lor_spec. Qed.
Lemma has_zero_false s : (forall i, has s i = false) -> s = 0%N.
Proof.
  intros H. apply N.bits_inj. intros k. rewrite N.bits_0. specialize (H (N.to_nat k)).
  unfold has in H. now rewrite N2Nat.id in H.
Qed.

Lemma conn_has n es s : conn n es s -> exists i, i < n /\ has s i = true.
Proof.
  induction 1 as [i Hi|s1 s2 _ (i & Hi & H1) _ _ _ _].
  - exists i. split; [assumption|]. rewrite has_bit. apply Nat.eqb_refl.
  - exists i. split; [assumption|]. rewrite has_lor, H1. reflexivity.
Qed.
Lemma conn_pos n es s : conn n es s -> (0 < s)%N.
Proof.
  intros C. destruct (conn_has n es s C) as (i & _ & H). destruct s; [|lia].
  unfold has in H. now rewrite N.bits_0 in H.
Qed.
Lemma conn_members n es s : conn n es s -> members n s <> [].
Proof.
  intros C. destruct (conn_has n es s C) as (i & Hi & H). intros E.
  assert (X : In i (members n s)) by (apply in_members; auto). rewrite E in X. destruct X.
Qed.

Section DPRun.
  Variable better : table -> N -> entry -> entry -> bool.
  Variables (n : nat) (es : list edge).
  Notation try := (try_split better es).

  Lemma try_split_cases t s cur s1 :
    try t s cur s1 = cur \/
    (try t s cur s1 = Some (s1, N.lxor s s1) /\ (s1 < N.lxor s s1)%N /\ tget t s1 <> None /\
     tget t (N.lxor s s1) <> None /\ crosses es s1 (N.lxor s s1) = true).
  Proof.
    unfold try_split.
    destruct (s1 <? N.lxor s s1)%N eqn:L; [|now left]. apply N.ltb_lt in L.
    destruct (tget t s1) eqn:T1; [|now left]. destruct (tget t (N.lxor s s1)) eqn:T2; [|now left].
    destruct (crosses es s1 (N.lxor s s1)) eqn:C; [|now left].
    destruct cur as [c|].
    - destruct (better t s (s1, N.lxor s s1) c); [right | now left]. repeat split; congruence.
    - right. repeat split; congruence.
  Qed.
  Lemma try_split_some t s cur s1 : cur <> None -> try t s cur s1 <> None.
  Proof. intros H. destruct (try_split_cases t s cur s1) as [->|(-> & _)]; [assumption | discriminate]. Qed.
  Lemma try_split_hit t s cur s1 : (s1 < N.lxor s s1)%N -> tget t s1 <> None -> tget t (N.lxor s s1) <> None ->
    crosses es s1 (N.lxor s s1) = true -> try t s cur s1 <> None.
  Proof.
    intros L T1 T2 C. unfold try_split. apply N.ltb_lt in L. rewrite L.
    destruct (tget t s1); [|congruence]. destruct (tget t (N.lxor s s1)); [|congruence]. rewrite C.
    destruct cur as [c|]; [destruct (better _ _ _ _)|]; discriminate.
  Qed.
  Lemma fold_try_some t s ss : forall cur, cur <> None -> fold_left (try t s) ss cur <> None.
  Proof. induction ss as [|a ss IH]; intros cur H; [assumption|]. cbn. apply IH. now apply try_split_some. Qed.
  Lemma fold_try_cases t s ss : forall cur,
    fold_left (try t s) ss cur = cur \/
    exists s1, In s1 ss /\ fold_left (try t s) ss cur = Some (s1, N.lxor s s1) /\ (s1 < N.lxor s s1)%N /\
               tget t s1 <> None /\ tget t (N.lxor s s1) <> None /\ crosses es s1 (N.lxor s s1) = true.
  Proof.
    induction ss as [|a ss IH]; intros cur; [now left|]. cbn [fold_left].
    destruct (IH (try t s cur a)) as [E|(s1 & I & E)].
    - rewrite E. destruct (try_split_cases t s cur a) as [->|(E2 & F)]; [now left|].
      right. exists a. split; [now left|]. now rewrite E2.
    - right. exists s1. split; [now right | assumption].
  Qed.
  Lemma fold_try_hit t s ss s1 : In s1 ss -> (s1 < N.lxor s s1)%N -> tget t s1 <> None ->
    tget t (N.lxor s s1) <> None -> crosses es s1 (N.lxor s s1) = true ->
    forall cur, fold_left (try t s) ss cur <> None.
  Proof.
    intros I L T1 T2 C. induction ss as [|a ss IH]; intros cur; [destruct I|]. cbn [fold_left].
    destruct I as [->|I]; [|now apply IH]. apply fold_try_some. now apply try_split_hit.
  Qed.

  Notation step := (dp_step better n es).

  Lemma step_length t s : length (step t s) = length t.
  Proof. unfold dp_step. destruct (_ <? _); [reflexivity | apply upd_length]. Qed.
  Lemma step_mono t s x : N.to_nat s < length t -> tget t x <> None -> tget (step t s) x <> None.
  Proof.
    intros Hs H. unfold dp_step. destruct (_ <? _); [assumption|].
    destruct (N.eq_dec x s) as [->|Ne].
    - rewrite tget_upd_same by assumption. now apply fold_try_some.
    - now rewrite tget_upd_other.
  Qed.
  Lemma step_inv t s : N.to_nat s < length t -> memo_inv n es t -> memo_inv n es (step t s).
  Proof.
    intros Hs INV. unfold dp_step. destruct (popcount n s <? 2) eqn:Pc; [assumption|].
    assert (MONO : forall x, tget t x <> None ->
               tget (upd (N.to_nat s) (fun _ => fold_left (try t s) (splits s) (tget t s)) t) x <> None).
    { intros x Hx. assert (X := step_mono t s x Hs Hx). unfold dp_step in X. now rewrite Pc in X. }
    intros s' l r E.
    destruct (N.eq_dec s' s) as [->|Ne].
    - rewrite tget_upd_same in E by assumption.
      destruct (fold_try_cases t s (splits s) (tget t s)) as [E2|(s1 & I & E2 & L & T1 & T2 & C)].
      + rewrite E2 in E. destruct (INV s l r E) as [B|(A1 & A2 & A3 & A4 & A5 & A6 & A7 & A8)]; [now left | right].
        repeat split; auto.
      + rewrite E2 in E. injection E as <- <-. right. apply in_splits in I as (I1 & I2 & I3).
        assert (X := lxor_sub_add s1 s I3).
        repeat split; auto. lia.
    - rewrite tget_upd_other in E by assumption.
      destruct (INV s' l r E) as [B|(A1 & A2 & A3 & A4 & A5 & A6 & A7 & A8)]; [now left | right].
      repeat split; auto.
  Qed.
  Lemma step_hit t s s1 : N.to_nat s < length t -> 2 <= popcount n s -> In s1 (splits s) ->
    (s1 < N.lxor s s1)%N -> tget t s1 <> None -> tget t (N.lxor s s1) <> None ->
    crosses es s1 (N.lxor s s1) = true -> tget (step t s) s <> None.
  Proof.
    intros Hs Pc I L T1 T2 C. unfold dp_step. destruct (popcount n s <? 2) eqn:E.
    - apply Nat.ltb_lt in E. lia.
    - rewrite tget_upd_same by assumption. now apply (fold_try_hit t s (splits s) s1).
  Qed.

  (* processing s finds an entry whenever s is the union of two smaller reachable subsets *)
  Lemma step_complete t s1 s2 : N.to_nat (N.lor s1 s2) < length t ->
    conn n es s1 -> conn n es s2 -> N.land s1 s2 = 0%N -> crosses es s1 s2 = true ->
    tget t s1 <> None -> tget t s2 <> None -> tget (step t (N.lor s1 s2)) (N.lor s1 s2) <> None.
  Proof.
    intros Hs C1 C2 D Cr T1 T2.
    assert (P1 := conn_pos _ _ _ C1). assert (P2 := conn_pos _ _ _ C2).
    assert (Add := lor_disjoint_add s1 s2 D).
    assert (X1 := lxor_lor_disjoint s1 s2 D).
    assert (D' : N.land s2 s1 = 0%N) by now rewrite N.land_comm.
    assert (X2 := lxor_lor_disjoint s2 s1 D'). rewrite (N.lor_comm s2 s1) in X2.
    assert (Pc : 2 <= popcount n (N.lor s1 s2)).
    { unfold popcount. rewrite (Permutation_length (members_split n s1 _ (land_lor_absorb s1 s2))), X1, app_length.
      assert (Y1 := conn_members _ _ _ C1). assert (Y2 := conn_members _ _ _ C2).
      destruct (members n s1), (members n s2); cbn; try congruence; lia. }
    destruct (N.lt_ge_cases s1 s2) as [L|G].
    - apply (step_hit t _ s1); auto.
      + apply in_splits. repeat split; [assumption | lia | apply land_lor_absorb].
      + now rewrite X1.
      + now rewrite X1.
      + now rewrite X1.
    - assert (s2 < s1)%N.
      { destruct (N.eq_dec s1 s2) as [->|]; [|lia]. rewrite N.land_diag in D. lia. }
      apply (step_hit t _ s2); auto.
      + apply in_splits. repeat split; [assumption | lia |]. rewrite N.lor_comm. apply land_lor_absorb.
      + now rewrite X2.
      + now rewrite X2.
      + rewrite X2. now rewrite crosses_sym.
  Qed.

  Lemma dp_loop : forall m k t, 2 <= k -> k + m <= 2 ^ n -> length t = 2 ^ n -> memo_inv n es t ->
    (forall i, i < n -> tget t (bit i) <> None) ->
    (forall s, conn n es s -> N.to_nat s < k -> tget t s <> None) ->
    let t' := fold_left step (map N.of_nat (seq k m)) t in
    length t' = 2 ^ n /\ memo_inv n es t' /\
    (forall s, conn n es s -> N.to_nat s < k + m -> tget t' s <> None).
  Proof.
    induction m as [|m IH]; intros k t Hk Hkm HL INV HB HJ; cbn [seq map fold_left].
    - repeat split; auto. intros s C Hs. apply HJ; [assumption | lia].
    - assert (Hs : N.to_nat (N.of_nat k) < length t) by (rewrite Nat2N.id; lia).
      destruct (IH (S k) (step t (N.of_nat k))) as (A1 & A2 & A3); try lia.
      + now rewrite step_length.
      + now apply step_inv.
      + intros i Hi. apply step_mono; auto.
      + intros s C Hsk. destruct (Nat.eq_dec (N.to_nat s) k) as [E|Ne].
        * assert (s = N.of_nat k) by (rewrite <- E; now rewrite N2Nat.id). subst s.
          inversion C as [i Hi Eq|s1 s2 C1 C2 D Cr Eq].
          { rewrite Eq. apply step_mono; auto. rewrite <- Eq. now apply HB. }
          { rewrite <- Eq in *.
            assert (P1 := conn_pos _ _ _ C1). assert (P2 := conn_pos _ _ _ C2).
            assert (Add := lor_disjoint_add s1 s2 D).
            apply step_complete; auto; apply HJ; auto; lia. }
        * apply step_mono; auto. apply HJ; [assumption | lia].
      + repeat split; auto. intros s C Hsk. apply A3; [assumption | lia].
  Qed.

  Theorem dp_run_inv : 1 <= n -> memo_inv n es (dp_run better n es).
  Proof.
    intros Hn. unfold dp_run.
    assert (P : 2 <= 2 ^ n) by (destruct n; [lia|]; cbn; assert (1 <= 2 ^ n0) by (apply Nat.neq_0_lt_0, Nat.pow_nonzero; lia); lia).
    apply (dp_loop (2 ^ n - 2) 2 (init_table n)); try lia.
    - apply init_length.
    - intros s l r E. left. now apply (init_some n s (l, r)).
    - intros i Hi. now rewrite init_bit.
    - intros s C Hs. inversion C as [i Hi Eq|s1 s2 C1 C2 D Cr Eq].
      + now rewrite init_bit.
      + assert (P1 := conn_pos _ _ _ C1). assert (P2 := conn_pos _ _ _ C2).
        assert (Add := lor_disjoint_add s1 s2 D). lia.
  Qed.

  Theorem dp_run_complete s : 1 <= n -> conn n es s -> N.to_nat s < 2 ^ n -> tget (dp_run better n es) s <> None.
  Proof.
    intros Hn C Hs. unfold dp_run.
    assert (P : 2 <= 2 ^ n) by (destruct n; [lia|]; cbn; assert (1 <= 2 ^ n0) by (apply Nat.neq_0_lt_0, Nat.pow_nonzero; lia); lia).
    apply (dp_loop (2 ^ n - 2) 2 (init_table n)); try lia; auto.
    - apply init_length.
    - intros s0 l r E. left. now apply (init_some n s0 (l, r)).
    - intros i Hi. now rewrite init_bit.
    - intros s0 C0 Hs0. inversion C0 as [i Hi Eq|s1 s2 C1 C2 D Cr Eq].
      + now rewrite init_bit.
      + assert (P1 := conn_pos _ _ _ C1). assert (P2 := conn_pos _ _ _ C2).
        assert (Add := lor_disjoint_add s1 s2 D). lia.
  Qed.
End DPRun.

(* ================= Theorem 2: a connected join graph always gets a DP plan ================= *)
Definition adj (es : list edge) (a b : nat) : Prop :=
  exists e, In e es /\ ((e_l e = a /\ e_r e = b) \/ (e_l e = b /\ e_r e = a)).
(* the usual notion: any two relations are linked by a path of edges *)
Definition connected (n : nat) (es : list edge) : Prop :=
  forall a b, a < n -> b < n -> clos_refl_trans nat (adj es) a b.

Lemma path_exit es (P : nat -> bool) a b : clos_refl_trans nat (adj es) a b -> P a = true -> P b = false ->
  exists x y, adj es x y /\ P x = true /\ P y = false.
Proof.
  intros H. apply clos_rt_rt1n in H. induction H as [x|x y z Hxy Hyz IH]; intros Pa Pb; [congruence|].
  destruct (P y) eqn:Py; [now apply IH | exists x, y; auto].
Qed.

Lemma filter_length_le' {A} (f : A -> bool) l : length (filter f l) <= length l.
Proof. induction l as [|a l IH]; cbn; [lia|]. destruct (f a); cbn; lia. Qed.
Lemma filter_short {A} (f : A -> bool) l : length (filter f l) < length l -> exists x, In x l /\ f x = false.
Proof.
  induction l as [|a l IH]; cbn; [lia|]. destruct (f a) eqn:E; cbn; intros H.
  - destruct IH as (x & Hx & Fx); [lia|]. exists x. auto.
  - exists a. auto.
Qed.
Lemma filter_whole {A} (f : A -> bool) l : length (filter f l) = length l -> forall x, In x l -> f x = true.
Proof.
  induction l as [|a l IH]; cbn [filter length In]; [intros _ x []|].
  assert (X := filter_length_le' f l).
  destruct (f a) eqn:E; cbn [length]; intros H x [<-|Hx]; try lia.
  - exact E.
  - apply IH; [lia | assumption].
Qed.

Lemma testbit_bit y k : N.testbit (bit y) k = N.eqb (N.of_nat y) k.
Proof. rewrite bit_pow. apply N.pow2_bits_eqb. Qed.
Lemma land_bit_0 s y : has s y = false -> N.land s (bit y) = 0%N.
Proof.
  intros H. apply N.bits_inj. intros k. rewrite N.land_spec, testbit_bit, N.bits_0.
  destruct (N.eqb_spec (N.of_nat y) k) as [<-|]; [|apply andb_false_r]. unfold has in H. now rewrite H.
Qed.
Lemma land_bit_full n y : y < n -> N.land (bit y) (full n) = bit y.
Proof.
  intros H. apply N.bits_inj. intros k. rewrite N.land_spec, testbit_bit.
  destruct (N.eqb_spec (N.of_nat y) k) as [<-|]; [|reflexivity].
  assert (X := has_full n y). unfold has in X. rewrite X. cbn. apply Nat.ltb_lt. assumption.
Qed.

Lemma adj_crosses n es s x y : Forall (wf_edge n) es -> adj es x y -> has s x = true -> has s y = false ->
  y < n /\ crosses es s (bit y) = true.
Proof.
  intros W (e & He & Hxy) Hx Hy. rewrite Forall_forall in W. destruct (W e He) as (A & B & _).
  split; [destruct Hxy as [[_ <-]|[<- _]]; assumption|].
  unfold crosses. apply existsb_exists. exists e. split; [assumption|]. unfold crosses_edge.
  destruct Hxy as [[-> ->]|[-> ->]]; rewrite Hx, !has_bit, Nat.eqb_refl; cbn; [reflexivity | apply orb_true_r].
Qed.

Lemma conn_grow n es : Forall (wf_edge n) es -> connected n es ->
  forall k, 1 <= k <= n -> exists s, conn n es s /\ popcount n s = k /\ N.land s (full n) = s.
Proof.
  intros W CN. induction k as [|k IH]; intros Hk; [lia|].
  destruct (Nat.eq_dec k 0) as [->|Hk0].
  - exists (bit 0). split; [apply conn_bit; lia|]. split; [unfold popcount; rewrite members_bit; [reflexivity | lia]|].
    apply land_bit_full. lia.
  - destruct IH as (s & C & Pc & Sub); [lia|].
    destruct (filter_short (has s) (seq 0 n)) as (v & Hv & Fv).
    { fold (members n s). fold (popcount n s). rewrite seq_length. lia. }
    apply in_seq in Hv. destruct (conn_has n es s C) as (u & Hu & Fu).
    destruct (path_exit es (has s) u v (CN u v Hu ltac:(lia)) Fu Fv) as (x & y & Axy & Px & Py).
    destruct (adj_crosses n es s x y W Axy Px Py) as [Hy Cr].
    assert (D := land_bit_0 s y Py).
    exists (N.lor s (bit y)). split; [apply conn_join; auto; now apply conn_bit|]. split.
    + unfold popcount. rewrite (Permutation_length (members_split n s _ (land_lor_absorb s (bit y)))).
      rewrite (lxor_lor_disjoint s (bit y) D), app_length, members_bit by assumption.
      fold (popcount n s). cbn. lia.
    + rewrite N.land_lor_distr_l, Sub, land_bit_full by assumption. reflexivity.
Qed.

Lemma full_of_popcount n s : popcount n s = n -> N.land s (full n) = s -> s = full n.
Proof.
  intros Pc Sub. apply N.bits_inj. intros k.
  destruct (N.lt_ge_cases k (N.of_nat n)) as [L|G].
  - assert (Hk : N.to_nat k < n) by lia.
    assert (X := filter_whole (has s) (seq 0 n)). fold (members n s) in X. fold (popcount n s) in X.
    rewrite seq_length in X. specialize (X Pc (N.to_nat k)). unfold has in X. rewrite N2Nat.id in X.
    rewrite X by (apply in_seq; lia). symmetry. unfold full. now apply N.ones_spec_low.
  - rewrite <- Sub, N.land_spec. unfold full. rewrite N.ones_spec_high by assumption. apply andb_false_r.
Qed.

Theorem connected_conn_full n es : 1 <= n -> Forall (wf_edge n) es -> connected n es -> conn n es (full n).
Proof.
  intros Hn W CN. destruct (conn_grow n es W CN n) as (s & C & Pc & Sub); [lia|].
  now rewrite <- (full_of_popcount n s Pc Sub).
Qed.

Theorem connected_has_plan better n es : 1 <= n -> Forall (wf_edge n) es -> connected n es ->
  tget (dp_run better n es) (full n) <> None.
Proof.
  intros Hn W CN. apply dp_run_complete; [assumption | now apply connected_conn_full |].
  rewrite <- pow_N_nat. assert (X := full_lt n). lia.
Qed.

(* the executable connectivity test used on the generated cases is sound for `connected` *)
Lemma adj_sym es a b : adj es a b -> adj es b a.
Proof. intros (e & He & H). exists e. split; [assumption | tauto]. Qed.
Lemma reach_sym es a b : clos_refl_trans nat (adj es) a b -> clos_refl_trans nat (adj es) b a.
Proof.
  induction 1 as [x y H|x|x y z _ IH1 _ IH2].
  - apply rt_step. now apply adj_sym.
  - apply rt_refl.
  - now apply rt_trans with y.
Qed.
Lemma neighbours_adj es S x : In x (neighbours es S) -> exists a, In a S /\ adj es a x.
Proof.
  unfold neighbours. intros H. apply in_flat_map in H as (e & He & H). apply in_app_or in H as [H|H].
  - destruct (mem (e_l e) S) eqn:M; [|destruct H]. destruct H as [<-|[]]. apply mem_In in M.
    exists (e_l e). split; [assumption|]. exists e. auto.
  - destruct (mem (e_r e) S) eqn:M; [|destruct H]. destruct H as [<-|[]]. apply mem_In in M.
    exists (e_r e). split; [assumption|]. exists e. auto.
Qed.
Lemma grow_reach es f : forall S, (forall x, In x S -> clos_refl_trans nat (adj es) 0 x) ->
  forall x, In x (grow f es S) -> clos_refl_trans nat (adj es) 0 x.
Proof.
  induction f as [|f IH]; intros S HS x Hx; cbn [grow] in Hx; [now apply HS|].
  apply (IH (S ++ neighbours es S)); [|assumption]. intros y Hy. apply in_app_or in Hy as [Hy|Hy]; [now apply HS|].
  apply neighbours_adj in Hy as (a & Ha & Ay). apply rt_trans with a; [now apply HS | now apply rt_step].
Qed.
Lemma connectedb_sound n es : connectedb n es = true -> connected n es.
Proof.
  unfold connectedb. rewrite forallb_forall. intros H a b Ha Hb.
  assert (R : forall x, x < n -> clos_refl_trans nat (adj es) 0 x).
  { intros x Hx. apply (grow_reach es n [0]).
    - intros y [<-|[]]. apply rt_refl.
    - apply mem_In. apply H. apply in_seq. lia. }
  apply rt_trans with 0; [apply reach_sym|]; now apply R.
Qed.

(* ================= Theorem 3: the greedy fallback ================= *)
Fixpoint count_cross (t : ptree) : nat :=
  match t with
  | PLeaf _ => 0
  | PJoin c _ l r => (if c then 1 else 0) + count_cross l + count_cross r
  | PFilter _ t => count_cross t
  end.

Lemma combine_seq_in {A} (l : list A) d : forall k i e, In (i, e) (combine (seq k (length l)) l) ->
  k <= i /\ i - k < length l /\ nth (i - k) l d = e.
Proof.
  induction l as [|a l IH]; intros k i e H; cbn in H; [destruct H|]. destruct H as [H|H].
  - injection H as <- <-. rewrite Nat.sub_diag. cbn. repeat split; lia.
  - apply IH in H as (A1 & A2 & A3). replace (i - k) with (S (i - S k)) by lia. cbn. repeat split; auto; lia.
Qed.
Lemma combine_seq_nth {A} (l : list A) d : forall k i, i < length l -> In (k + i, nth i l d) (combine (seq k (length l)) l).
Proof.
  induction l as [|a l IH]; intros k i H; cbn in H; [lia|]. destruct i as [|i]; cbn.
  - left. f_equal. lia.
  - right. replace (k + S i) with (S k + i) by lia. apply IH. lia.
Qed.
Lemma in_indexed es i e : In (i, e) (indexed es) -> i < length es /\ nth i es dedge = e.
Proof. intros H. apply (combine_seq_in es dedge) in H as (_ & A & B). rewrite Nat.sub_0_r in *. auto. Qed.
Lemma indexed_in es e : In e es -> exists i, In (i, e) (indexed es).
Proof.
  intros H. apply (In_nth _ _ dedge) in H as (i & Hi & <-). exists i.
  apply (combine_seq_nth es dedge 0 i Hi).
Qed.
Lemma filter_nil_all {A} (f : A -> bool) l : filter f l = [] -> forall x, In x l -> f x = false.
Proof.
  intros H x Hx. destruct (f x) eqn:E; [|reflexivity].
  assert (X : In x (filter f l)) by (apply filter_In; auto). rewrite H in X. destruct X.
Qed.

Section GreedyProofs.
  Variable score : list nat -> edge -> Z.
  Variable gswap : ptree -> nat -> bool.
  (* the i32 scores never equal i32::MIN (a candidate with score == i32::MIN loses `score > best_score`) *)
  Hypothesis score_gt_min : forall j e, (i32_min < score j e)%Z.

  Lemma pick_mono joined used ies : forall best bs, best <> None -> pick score joined used ies best bs <> None.
  Proof.
    induction ies as [|[i e] ies IH]; intros best bs H; cbn [pick]; [assumption|].
    destruct (mem i used); [now apply IH|]. destruct (cand joined e); [|now apply IH].
    destruct (_ <? _)%Z; apply IH; [discriminate | assumption].
  Qed.
  (* Theorem 3, local form: while an unused edge links the joined set to an unjoined relation, one is picked *)
  Lemma pick_finds joined used ies : forall best bs, (best = None -> bs = i32_min) ->
    (exists i e, In (i, e) ies /\ mem i used = false /\ cand joined e <> None) ->
    pick score joined used ies best bs <> None.
  Proof.
    induction ies as [|[i e] ies IH]; intros best bs Hb (i0 & e0 & I & U & Cd); [destruct I|]. cbn [pick].
    destruct I as [I|I].
    - injection I as -> ->. rewrite U. destruct (cand joined e0) as [v|]; [|congruence].
      destruct (bs <? score joined e0)%Z eqn:L; [apply pick_mono; discriminate|].
      apply pick_mono. intros ->. rewrite (Hb eq_refl) in L. apply Z.ltb_ge in L.
      specialize (score_gt_min joined e0). lia.
    - assert (X : exists i e, In (i, e) ies /\ mem i used = false /\ cand joined e <> None) by (exists i0, e0; auto).
      destruct (mem i used); [now apply IH|]. destruct (cand joined e) as [v|]; [|now apply IH].
      destruct (bs <? score joined e)%Z; apply IH; auto; discriminate.
  Qed.
  Lemma pick_sound joined used ies : forall best bs i v, pick score joined used ies best bs = Some (i, v) ->
    best = Some (i, v) \/ exists e, In (i, e) ies /\ mem i used = false /\ cand joined e = Some v.
  Proof.
    induction ies as [|[j e] ies IH]; intros best bs i v H; cbn [pick] in H; [now left|].
    assert (R : forall b s, pick score joined used ies b s = Some (i, v) -> b = Some (i, v) \/
                 exists e0, In (i, e0) ((j, e) :: ies) /\ mem i used = false /\ cand joined e0 = Some v).
    { intros b s Hp. destruct (IH b s i v Hp) as [->|(e0 & A & B)]; [now left | right; exists e0; split; [now right | assumption]]. }
    destruct (mem j used) eqn:U; [now apply R in H|].
    destruct (cand joined e) as [w|] eqn:Cd; [|now apply R in H].
    destruct (bs <? score joined e)%Z; [|now apply R in H].
    apply R in H as [H|H]; [|now right]. injection H as -> ->. right. exists e. split; [now left | auto].
  Qed.

  Lemma fold_filter_cross cs pl : count_cross (fold_left (fun pl c => PFilter [c] pl) cs pl) = count_cross pl.
  Proof. revert pl. induction cs as [|c cs IH]; intros pl; [reflexivity|]. cbn [fold_left]. now rewrite IH. Qed.
  Lemma attach_cross v ies : forall st, count_cross (g_plan (attach_extra v ies st)) = count_cross (g_plan st).
  Proof.
    induction ies as [|[j e] ies IH]; intros st; [reflexivity|]. cbn [attach_extra].
    destruct (mem j (g_used st)); [apply IH|]. destruct (_ && _); [|apply IH].
    rewrite IH. cbn [g_plan]. apply fold_filter_cross.
  Qed.
  Lemma attach_joined v ies : forall st, g_joined (attach_extra v ies st) = g_joined st.
  Proof.
    induction ies as [|[j e] ies IH]; intros st; [reflexivity|]. cbn [attach_extra].
    destruct (mem j (g_used st)); [apply IH|]. destruct (_ && _); [|apply IH]. now rewrite IH.
  Qed.

  Variables (n : nat) (es : list edge).
  (* every used edge has both endpoints joined *)
  Definition used_ok (st : gstate) : Prop :=
    forall j, In j (g_used st) -> In (e_l (nth j es dedge)) (g_joined st) /\ In (e_r (nth j es dedge)) (g_joined st).

  Lemma attach_used v ies : (forall j e, In (j, e) ies -> nth j es dedge = e) ->
    forall st, In v (g_joined st) -> used_ok st -> used_ok (attach_extra v ies st).
  Proof.
    intros Hi. induction ies as [|[j e] ies IH]; intros st Hv U; [assumption|]. cbn [attach_extra].
    assert (Hi' : forall j0 e0, In (j0, e0) ies -> nth j0 es dedge = e0) by (intros; apply Hi; now right).
    destruct (mem j (g_used st)); [now apply IH|].
    destruct (((e_l e =? v) || (e_r e =? v)) && mem (if e_l e =? v then e_r e else e_l e) (g_joined st)) eqn:C; [|now apply IH].
    apply IH; [assumption | assumption |].
    intros j0 [<-|H0]; cbn [g_joined]; [|now apply U].
    rewrite (Hi j e (or_introl eq_refl)). apply andb_true_iff in C as [C1 C2]. apply mem_In in C2.
    destruct (e_l e =? v) eqn:E1.
    - apply Nat.eqb_eq in E1. rewrite E1. auto.
    - cbn [orb] in C1. apply Nat.eqb_eq in C1. rewrite C1. auto.
  Qed.

  Lemma cand_some joined e v : cand joined e = Some v ->
    ~ In v joined /\ ((v = e_r e /\ In (e_l e) joined) \/ (v = e_l e /\ In (e_r e) joined)).
  Proof.
    unfold cand. destruct (mem (e_l e) joined) eqn:A, (mem (e_r e) joined) eqn:B; cbn; intros H; try discriminate;
      injection H as <-.
    - split; [now apply mem_false_In | left; split; [reflexivity | now apply mem_In]].
    - split; [now apply mem_false_In | right; split; [reflexivity | now apply mem_In]].
  Qed.

  Hypothesis W : Forall (wf_edge n) es.
  Hypothesis CN : connected n es.

  Definition ginv (st : gstate) : Prop :=
    g_joined st <> [] /\ (forall x, In x (g_joined st) -> x < n) /\ used_ok st.

  Lemma crossing_edge_exists st : ginv st -> length (g_joined st) < n ->
    exists i e, In (i, e) (indexed es) /\ mem i (g_used st) = false /\ cand (g_joined st) e <> None.
  Proof.
    intros (NE & Lt & U) Hl.
    destruct (filter (fun i => negb (mem i (g_joined st))) (seq 0 n)) as [|v rest] eqn:F.
    { exfalso. assert (X := filter_nil_all _ _ F).
      assert (I : incl (seq 0 n) (g_joined st)).
      { intros x Hx. apply mem_In. specialize (X x Hx). now apply negb_false_iff in X. }
      apply (NoDup_incl_length (seq_NoDup n 0)) in I. rewrite seq_length in I. lia. }
    assert (Hv : In v (filter (fun i => negb (mem i (g_joined st))) (seq 0 n))) by (rewrite F; now left).
    apply filter_In in Hv as [Hv1 Hv2]. apply in_seq in Hv1. apply negb_true_iff in Hv2.
    destruct (g_joined st) as [|u js] eqn:J; [congruence|]. rewrite <- J in *.
    assert (Hu : In u (g_joined st)) by (rewrite J; now left).
    destruct (path_exit es (fun i => mem i (g_joined st)) u v (CN u v (Lt u Hu) ltac:(lia))) as (x & y & (e & He & Hxy) & Px & Py);
      [now apply mem_In | assumption |].
    destruct (indexed_in es e He) as (i & Hi). exists i, e. split; [assumption|]. split.
    - destruct (mem i (g_used st)) eqn:M; [|reflexivity]. exfalso. apply mem_In in M. destruct (U i M) as [U1 U2].
      apply in_indexed in Hi as [_ Hi]. rewrite Hi in *. apply mem_false_In in Py.
      destruct Hxy as [[_ <-]|[<- _]]; contradiction.
    - unfold cand. destruct Hxy as [[-> ->]|[-> ->]]; rewrite Px, Py; cbn; discriminate.
  Qed.

  Lemma gstep_ok st : ginv st -> length (g_joined st) < n ->
    ginv (gstep score gswap n es st) /\
    count_cross (g_plan (gstep score gswap n es st)) = count_cross (g_plan st).
  Proof.
    intros G Hl. assert (Ex := crossing_edge_exists st G Hl). destruct G as (NE & Lt & U).
    unfold gstep. destruct (pick score (g_joined st) (g_used st) (indexed es) None i32_min) as [[ei v]|] eqn:P.
    2:{ exfalso. revert P. now apply pick_finds. }
    apply pick_sound in P as [P|(e & Ie & Ue & Ce)]; [discriminate|].
    apply in_indexed in Ie as [Hei He]. rewrite He.
    apply cand_some in Ce as [Nv Ce].
    assert (Hvn : v < n).
    { rewrite Forall_forall in W. destruct (W e) as (A & B & _); [rewrite <- He; now apply nth_In|].
      destruct Ce as [[-> _]|[-> _]]; assumption. }
    split.
    - split; [|split].
      + rewrite attach_joined. discriminate.
      + intros x. rewrite attach_joined. cbn [g_joined]. intros [<-|Hx]; [assumption | now apply Lt].
      + apply attach_used.
        * intros j e0 H. now apply in_indexed in H.
        * now left.
        * intros j [<-|Hj]; cbn [g_joined].
          { rewrite He. destruct Ce as [[Ev Hj]|[Ev Hj]]; rewrite Ev; split; first [now left | now right]. }
          { destruct (U j Hj). split; now right. }
    - rewrite attach_cross. cbn [g_plan]. destruct (gswap (g_plan st) v); cbn [count_cross]; lia.
  Qed.

  Lemma gloop_ok : forall fuel st, ginv st ->
    count_cross (g_plan (gloop score gswap fuel n es st)) = count_cross (g_plan st).
  Proof.
    induction fuel as [|f IH]; intros st G; [reflexivity|]. cbn [gloop].
    destruct (length (g_joined st) <? n) eqn:L; [|reflexivity]. apply Nat.ltb_lt in L.
    destruct (gstep_ok st G L) as [G' C']. rewrite IH by assumption. exact C'.
  Qed.

  (* Theorem 3, whole run: on a connected graph the greedy fallback never emits a Cross node *)
  Theorem greedy_connected_no_cross start : start < n -> count_cross (greedy start score gswap n es) = 0.
  Proof.
    intros Hs. unfold greedy. rewrite gloop_ok; [reflexivity|].
    split; [discriminate|]. split; [intros x [<-|[]]; assumption | intros j []].
  Qed.
End GreedyProofs.

(* ================= the rule as a whole ================= *)
Lemma wf_graph_Forall g : wf_graph g = true -> Forall (fun p => wf_pred (g_n g) p = true) (g_all g).
Proof. unfold wf_graph. rewrite forallb_forall, Forall_forall. auto. Qed.

Section Main.
  Variable better : table -> N -> entry -> entry -> bool.
  Variable keep_left : table -> N -> N -> bool.
  Variable start : list edge -> nat.
  Variable score : list nat -> edge -> Z.
  Variable gswap : ptree -> nat -> bool.

  (* For every cost function, orientation rule, greedy start/score: on a connected graph of 2..12
     relations whose columns all resolve, the rule's output is the DP tree: every relation exactly once,
     no Cross node, every join node carries exactly the equalities crossing its two sides (>= 1),
     every predicate of the query appears exactly once (up to orientation), nothing is left in a Filter. *)
  Theorem reorder_connected_ok g :
    wf_graph g = true -> known_c g = false -> 2 <= g_n g <= 12 ->
    connected (g_n g) (fst (extract [] (g_all g))) ->
    let t := reorder better keep_left start score gswap g in
    plan_ok g t = true /\ model_shape g t = true /\ count_cross t = 0 /\
    dp_shape (fst (extract [] (g_all g))) t = true /\
    Permutation (map norm_pred (tree_preds t)) (map norm_pred (g_all g)).
  Proof.
    intros WF K Hn CN. destruct g as [n conds ons opq]. unfold g_all in *. cbn [g_n g_conds g_on g_opaque] in *.
    unfold known_c in K. cbn [g_opaque] in K. destruct opq; [|discriminate]. clear K.
    assert (WP := wf_graph_Forall _ WF). unfold g_all in WP. cbn [g_n g_conds g_on] in WP.
    assert (We := extract_wf [] n _ WP). assert (Pe := extract_perm [] n _ WP).
    assert (Re := extract_rem_nil n _ WP).
    assert (Rc : snd (extract [] conds) = []).
    { apply (extract_rem_nil n). apply Forall_app in WP. tauto. }
    unfold reorder, g_all. cbn [g_n g_conds g_on g_opaque]. rewrite Rc.
    destruct (extract [] (conds ++ ons)) as [es rem] eqn:Ex. cbn [fst snd] in *. subst rem. rewrite app_nil_r in Pe.
    replace ((2 <=? n) && (n <=? 12)) with true
      by (symmetry; apply andb_true_iff; split; apply Nat.leb_le; lia).
    unfold dpsize.
    assert (Hp := connected_has_plan better n es ltac:(lia) We CN).
    destruct (tget (dp_run better n es) (full n)) as [e|] eqn:Ef; [|congruence].
    destruct (tree_wellformed keep_left n es (dp_run better n es) We (dp_run_inv better n es ltac:(lia)))
      as (tr & B & PL & J & S & PP); [congruence|].
    rewrite B. cbn [fold_left].
    assert (A1 : all_rels_once n tr = true) by now apply all_rels_once_perm.
    assert (Cz : forall t, dp_shape es t = true -> count_cross t = 0 /\ dp_shape_perm es t = true).
    { induction t as [r|c on l IHl r IHr|ps t IH]; cbn [dp_shape dp_shape_perm count_cross]; intros H; auto; try discriminate.
      rewrite !andb_true_iff in H. destruct H as [[[[H0 H0'] H1] H2] H3].
      destruct (IHl H2) as [-> ->], (IHr H3) as [-> ->]. apply negb_true_iff in H0. rewrite H0, H0'. apply list_eqb_pred in H1. rewrite H1.
      split; [reflexivity|]. cbn. rewrite !andb_true_r. now apply list_eqb_pred. }
    destruct (Cz tr S) as [Cz1 Cz2].
    split; [|split; [|split; [|split]]]; auto.
    - unfold plan_ok, g_all. cbn [g_n g_conds g_on]. rewrite A1, J. cbn [andb].
      unfold preds_present. apply forallb_forall. intros p Hp'. apply existsb_exists.
      assert (X : In (norm_pred p) (map norm_pred (tree_preds tr))).
      { rewrite PP, Pe. now apply in_map. }
      apply in_map_iff in X as (q & Eq & Hq). exists q. split; [assumption|]. now apply norm_eq_same.
    - unfold model_shape, g_all. cbn [g_n g_conds g_on g_opaque]. rewrite Ex, A1. exact Cz2.
    - now rewrite PP.
  Qed.

  (* same, with the executable connectivity test that the check evaluates on every generated case *)
  Theorem reorder_ok g :
    wf_graph g = true -> known_c g = false -> graph_connectedb g = true -> 2 <= g_n g <= 12 ->
    plan_ok g (reorder better keep_left start score gswap g) = true.
  Proof.
    intros WF K C Hn. apply reorder_connected_ok; auto.
    unfold graph_connectedb in C. unfold known_c in K. destruct (g_opaque g); [|discriminate].
    now apply connectedb_sound.
  Qed.
End Main.

(* ---------- the code's submask iteration is the decreasing list of proper non-empty submasks ---------- *)
Lemma splits_iter_small : forall s, (s < 128)%N -> splits_iter s = splits s.
Proof.
  assert (H : forallb (fun s => list_eqb N.eqb (splits_iter s) (splits s)) (map N.of_nat (seq 0 128)) = true) by (vm_compute; reflexivity).
  intros s Hs. rewrite forallb_forall in H. apply (list_eqb_spec N.eqb N.eqb_eq). apply H.
  apply in_map_iff. exists (N.to_nat s). split; [apply N2Nat.id | apply in_seq; lia].
Qed.

(* ---------- finite-domain guards: ALL graphs on 2..5 relations, three cost/orientation choices ---------- *)
Fixpoint sublists {A} (l : list A) : list (list A) :=
  match l with [] => [[]] | a :: l => sublists l ++ map (cons a) (sublists l) end.
Definition pairs (n : nat) : list pred :=
  flat_map (fun i => map (fun j => ((i, 0), (j, 0))) (seq (S i) (n - S i))) (seq 0 n).
(* composite keys: each pair of relations may also be linked by a second, oppositely written equality *)
Definition pairs2 (n : nat) : list pred :=
  flat_map (fun i => flat_map (fun j => [((i, 0), (j, 0)); ((j, 1), (i, 1))]) (seq (S i) (n - S i))) (seq 0 n).

Definition b_never (t : table) (s : N) (a b : entry) : bool := false.
Definition b_always (t : table) (s : N) (a b : entry) : bool := true.
Definition b_mix (t : table) (s : N) (a b : entry) : bool := N.odd (fst a + s).
Definition k_true (t : table) (l r : N) : bool := true.
Definition k_false (t : table) (l r : N) : bool := false.
Definition k_mix (t : table) (l r : N) : bool := N.odd l.
Definition sc0 (j : list nat) (e : edge) : Z := 0%Z.
Definition sc1 (j : list nat) (e : edge) : Z := (Z.of_nat (e_l e) * 7 - Z.of_nat (e_r e) * 3 + Z.of_nat (length j))%Z.

Definition dp_small_ok (n : nat) (conds : list pred) : bool :=
  let g := mkGraph n conds [] [] in
  if graph_connectedb g then
    forallb (fun bk => let t := reorder (fst bk) (snd bk) (fun _ => 0) sc0 (fun _ _ => false) g in
                       plan_ok g t && model_shape g t)
            [(b_never, k_true); (b_always, k_false); (b_mix, k_mix)]
  else true.
Definition greedy_small_ok (n : nat) (conds : list pred) : bool :=
  let g := mkGraph n conds [] [] in
  let es := fst (extract [] conds) in
  if graph_connectedb g then
    forallb (fun st => forallb (fun sg => plan_ok g (greedy st (fst sg) (snd sg) n es))
                         [(sc0, fun _ _ => false); (sc1, fun _ _ => true); (sc1, fun _ v => Nat.even v)])
            (seq 0 n)
  else true.

Lemma dp_small : forall n conds, In n [2; 3; 4; 5] -> In conds (sublists (pairs n)) -> dp_small_ok n conds = true.
Proof.
  assert (H : forallb (fun n => forallb (dp_small_ok n) (sublists (pairs n))) [2; 3; 4; 5] = true) by (vm_compute; reflexivity).
  intros n conds Hn Hc. rewrite forallb_forall in H. specialize (H n Hn). rewrite forallb_forall in H. now apply H.
Qed.
Lemma dp_small_composite : forall n conds, In n [2; 3; 4] -> In conds (sublists (pairs2 n)) -> dp_small_ok n conds = true.
Proof.
  assert (H : forallb (fun n => forallb (dp_small_ok n) (sublists (pairs2 n))) [2; 3; 4] = true) by (vm_compute; reflexivity).
  intros n conds Hn Hc. rewrite forallb_forall in H. specialize (H n Hn). rewrite forallb_forall in H. now apply H.
Qed.
(* the greedy fallback, run on its own on every connected graph: complete plan_ok (relations once,
   no cross join, every predicate present in a join or a filter) for every start relation *)
Lemma greedy_small : forall n conds, In n [2; 3; 4; 5] -> In conds (sublists (pairs n)) -> greedy_small_ok n conds = true.
Proof.
  assert (H : forallb (fun n => forallb (greedy_small_ok n) (sublists (pairs n))) [2; 3; 4; 5] = true) by (vm_compute; reflexivity).
  intros n conds Hn Hc. rewrite forallb_forall in H. specialize (H n Hn). rewrite forallb_forall in H. now apply H.
Qed.
Lemma greedy_small_composite : forall n conds, In n [2; 3; 4] -> In conds (sublists (pairs2 n)) -> greedy_small_ok n conds = true.
Proof.
  assert (H : forallb (fun n => forallb (greedy_small_ok n) (sublists (pairs2 n))) [2; 3; 4] = true) by (vm_compute; reflexivity).
  intros n conds Hn Hc. rewrite forallb_forall in H. specialize (H n Hn). rewrite forallb_forall in H. now apply H.
Qed.

(* ---------- the known deviations: a relation whose qualified columns do not resolve ---------- *)
(* chain 0 - 1 - 2, relation 1 reaches the rule wrapped in a Project ("project".c never matches "t1.c"):
   both predicates stop being edges, the DP finds nothing, the greedy fallback emits Cross joins
   (the predicates survive as Filters: a cross product, same answer). *)
Definition g_opaque_chain : graph := mkGraph 3 [((0, 0), (1, 1)); ((1, 0), (2, 1))] [] [1].
Lemma opaque_relation_cross_join :
  exists g, wf_graph g = true /\ graph_connectedb (mkGraph (g_n g) (g_conds g) (g_on g) []) = true /\ known_c g = true /\
    let t := reorder b_never k_true (fun _ => 0) sc0 (fun _ _ => false) g in
    count_cross t = 2 /\ plan_ok g t = false /\ preds_present (g_all g) t = true.
Proof. exists g_opaque_chain. vm_compute. repeat split; reflexivity. Qed.
(* two relations joined by an ON pair below a Filter, relation 0 wrapped: the ON pair is not an edge and,
   on the reorder_filter_with_join path, is never re-applied: the join predicate is LOST (wrong answer). *)
Definition g_opaque_lost : graph := mkGraph 2 [] [((0, 0), (1, 0))] [0].
Lemma opaque_relation_lost_predicate :
  exists g, wf_graph g = true /\ graph_connectedb (mkGraph (g_n g) (g_conds g) (g_on g) []) = true /\ known_c g = true /\
    let t := reorder b_never k_true (fun _ => 0) sc0 (fun _ _ => false) g in
    t = PJoin true [] (PLeaf 0) (PLeaf 1) /\ preds_present (g_all g) t = false.
Proof. exists g_opaque_lost. vm_compute. repeat split; reflexivity. Qed.

(* ---------- the hypotheses are satisfiable ---------- *)
Example chain3_connected : connected 3 (fst (extract [] [((0, 0), (1, 1)); ((1, 0), (2, 1))])).
Proof. apply connectedb_sound. vm_compute. reflexivity. Qed.
Example chain3_plan :
  reorder b_never k_true (fun _ => 0) sc0 (fun _ _ => false) (mkGraph 3 [((0, 0), (1, 1)); ((1, 0), (2, 1))] [] [])
  = PJoin false [((1, 0), (2, 1))] (PJoin false [((0, 0), (1, 1))] (PLeaf 0) (PLeaf 1)) (PLeaf 2).
Proof. vm_compute. reflexivity. Qed.
Example memo_inv_instance : memo_inv 3 (fst (extract [] [((0, 0), (1, 1)); ((1, 0), (2, 1))]))
                                     (dp_run b_mix 3 (fst (extract [] [((0, 0), (1, 1)); ((1, 0), (2, 1))]))).
Proof. apply dp_run_inv. lia. Qed.
Example sc0_gt_min : forall j e, (i32_min < sc0 j e)%Z.
Proof. intros. unfold sc0, i32_min. lia. Qed.
Example greedy_chain3_no_cross :
  count_cross (greedy 1 sc0 (fun _ _ => false) 3 (fst (extract [] [((0, 0), (1, 1)); ((1, 0), (2, 1))]))) = 0.
Proof.
  apply greedy_connected_no_cross; [apply sc0_gt_min | | apply chain3_connected | lia].
  apply (extract_wf [] 3). repeat constructor.
Qed.
