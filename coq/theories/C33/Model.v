(* C33 model: execution::memory::{MemoryPool, MemoryReservation}, transcribed as a small-step
   concurrent system.  anchors: src/execution/memory.rs: MemoryPool::try_allocate (load + CAS loop),
   MemoryPool::allocate (fetch_add), MemoryReservation::resize (fetch_add / fetch_sub, then self.size = ..),
   Drop for MemoryReservation -> MemoryPool::release (fetch_sub).

   Atomics.  `used : AtomicUsize` is one location.  Read-modify-write operations (compare_exchange_weak,
   fetch_add, fetch_sub) act on the latest value of the location (guaranteed for RMWs by the C++/Rust memory
   model whatever the ordering argument).  A plain `load(Relaxed)` and the value handed back by a FAILED
   compare_exchange_weak are modelled as returning ANY usize (an oracle value carried by the event): weaker
   than Relaxed, so every real behaviour (stale reads, spurious weak-CAS failures) is covered; reading the
   current value (SeqCst-like) is the special case used by the sequential refinement.
   fetch_add / fetch_sub are unchecked in Rust: they wrap modulo 2^64 (usize on the 64-bit target); the wrap is
   explicit here (`usz`).

   Reservations.  A `MemoryReservation` is Send, so it is not tied to a thread: live reservations that no method
   currently borrows sit in one ghost table `resv`; a method taking `&mut self` / `self` (resize, drop) takes the
   entry out of the table for its duration (Rust's exclusive borrow) and carries the size in its program counter. *)
From QV Require Export Base.Util.
Local Open Scope Z_scope.

Definition W : Z := 2 ^ 64.
Definition usz (z : Z) : Z := z mod W.     (* usize wrap *)

(* ---------- operations a thread can be scripted to run ---------- *)
Inductive op :=
| OTry (r : nat) (n : Z)       (* let r = pool.try_allocate(n)   (kept only when Some) *)
| OAlloc (r : nat) (n : Z)     (* let r = pool.allocate(n) *)
| OResize (r : nat) (n : Z)    (* r.resize(n)    (no-op when r is not live / is borrowed) *)
| ODrop (r : nat).             (* drop(r)        (no-op when r is not live / is borrowed) *)

(* ---------- program counters: one constructor per point between two steps of a method ---------- *)
Inductive pc :=
| PIdle
| PTryLoad (r : nat) (n : Z)              (* about to: let mut current = self.used.load(Relaxed) *)
| PTryCheck (r : nat) (n cur : Z)         (* loop head: current.checked_add(size)? ; > max_memory => None *)
| PTryCas (r : nat) (n cur new : Z)       (* about to: used.compare_exchange_weak(current, new_usage) *)
| PTryRet (r : nat) (n : Z)               (* Ok(_): about to return Some(MemoryReservation{pool,size}) *)
| PAllocAdd (r : nat) (n : Z)             (* about to: used.fetch_add(size) *)
| PAllocRet (r : nat) (n : Z)             (* about to return MemoryReservation{pool,size} *)
| PResizeAdd (r : nat) (size new : Z)     (* new > size; diff = new - size; about to fetch_add(diff) *)
| PResizeSub (r : nat) (size new : Z)     (* else;       diff = size - new; about to fetch_sub(diff) *)
| PResizeSet (r : nat) (new : Z)          (* about to: self.size = new_size *)
| PDropSub (r : nat) (size : Z).          (* Drop -> release(size): about to used.fetch_sub(size) *)

(* shared state: the atomic counter + ghost bookkeeping *)
Record shared := mkSh {
  used : Z;                    (* AtomicUsize used *)
  resv : list (nat * Z);       (* ghost: live reservations not currently borrowed by a method: (id, size) *)
  grants : list Z;             (* ghost log: value stored by every successful CAS of try_allocate, newest first *)
  forced : bool                (* ghost: has any unchecked fetch_add (allocate / growing resize) executed? *)
}.

Record thread := mkTh { t_pc : pc; t_script : list op }.

Fixpoint take (r : nat) (l : list (nat * Z)) : option (Z * list (nat * Z)) :=
  match l with
  | [] => None
  | (k, s) :: t =>
      if Nat.eqb k r then Some (s, t)
      else match take r t with
           | Some (s', t') => Some (s', (k, s) :: t')
           | None => None
           end
  end.

Definition push (r : nat) (n : Z) (s : shared) : shared :=
  mkSh (used s) ((r, n) :: resv s) (grants s) (forced s).
Definition set_resv (s : shared) (l : list (nat * Z)) : shared :=
  mkSh (used s) l (grants s) (forced s).
Definition with_pc (th : thread) (p : pc) : thread := mkTh p (t_script th).

(* method entry (thread-local: argument evaluation, reads of self.size under the exclusive borrow, branch) *)
Definition begin (s : shared) (o : op) : shared * pc :=
  match o with
  | OTry r n => (s, PTryLoad r (usz n))
  | OAlloc r n => (s, PAllocAdd r (usz n))
  | OResize r n =>
      let new := usz n in
      match take r (resv s) with
      | None => (s, PIdle)
      | Some (size, rest) =>
          if new >? size then (set_resv s rest, PResizeAdd r size new)
          else (set_resv s rest, PResizeSub r size new)
      end
  | ODrop r =>
      match take r (resv s) with
      | None => (s, PIdle)
      | Some (size, rest) => (set_resv s rest, PDropSub r size)
      end
  end.

(* one step of one thread.  v = oracle value for load / failed-CAS result, fail = spurious weak-CAS failure *)
Definition tstep (limit : Z) (s : shared) (th : thread) (v : Z) (fail : bool) : shared * thread :=
  match t_pc th with
  | PIdle =>
      match t_script th with
      | [] => (s, th)
      | o :: rest => let '(s', p) := begin s o in (s', mkTh p rest)
      end
  | PTryLoad r n => (s, with_pc th (PTryCheck r n (usz v)))
  | PTryCheck r n cur =>
      let new := cur + n in
      if W <=? new then (s, with_pc th PIdle)              (* checked_add overflow: `?` returns None *)
      else if new >? limit then (s, with_pc th PIdle)       (* return None *)
      else (s, with_pc th (PTryCas r n cur new))
  | PTryCas r n cur new =>
      if (used s =? cur) && negb fail
      then (mkSh new (resv s) (new :: grants s) (forced s), with_pc th (PTryRet r n))
      else (s, with_pc th (PTryCheck r n (usz v)))          (* Err(actual) => current = actual *)
  | PTryRet r n => (push r n s, with_pc th PIdle)
  | PAllocAdd r n => (mkSh (usz (used s + n)) (resv s) (grants s) true, with_pc th (PAllocRet r n))
  | PAllocRet r n => (push r n s, with_pc th PIdle)
  | PResizeAdd r size new =>
      (mkSh (usz (used s + (new - size))) (resv s) (grants s) true, with_pc th (PResizeSet r new))
  | PResizeSub r size new =>
      (mkSh (usz (used s - (size - new))) (resv s) (grants s) (forced s), with_pc th (PResizeSet r new))
  | PResizeSet r new => (push r new s, with_pc th PIdle)
  | PDropSub r size =>
      (mkSh (usz (used s - size)) (resv s) (grants s) (forced s), with_pc th PIdle)
  end.

(* ---------- the concurrent system: any number of threads, arbitrary scheduler ---------- *)
Record config := mkCfg { c_limit : Z; c_sh : shared; c_threads : list thread }.
Record event := mkEv { e_tid : nat; e_val : Z; e_fail : bool }.

(* the scheduler picks a thread (and the oracle values); a non-existent thread id is a stutter *)
Definition step (c : config) (e : event) : config :=
  match nth_error (c_threads c) (e_tid e) with
  | None => c
  | Some th =>
      let '(s', th') := tstep (c_limit c) (c_sh c) th (e_val e) (e_fail e) in
      mkCfg (c_limit c) s' (upd (e_tid e) (fun _ => th') (c_threads c))
  end.

Definition run (c : config) (evs : list event) : config := fold_left step evs c.

(* MemoryPool::new(limit) and one idle thread per script *)
Definition init (limit : Z) (scripts : list (list op)) : config :=
  mkCfg (usz limit) (mkSh 0 [] [] false) (map (mkTh PIdle) scripts).

Inductive reachable (c0 : config) : config -> Prop :=
| reach_refl : reachable c0 c0
| reach_step : forall c e, reachable c0 c -> reachable c0 (step c e).

(* ---------- accounting ---------- *)
(* bytes a mid-flight method is accountable for (reservation it holds / has paid for but not yet published) *)
Definition inflight (p : pc) : Z :=
  match p with
  | PTryRet _ n => n
  | PAllocRet _ n => n
  | PResizeAdd _ size _ => size
  | PResizeSub _ size _ => size
  | PResizeSet _ new => new
  | PDropSub _ size => size
  | _ => 0
  end.

Definition live_sum (s : shared) : Z := zsum (map snd (resv s)).
Definition inflight_sum (ths : list thread) : Z := zsum (map (fun th => inflight (t_pc th)) ths).
(* the true (unbounded) number of reserved bytes *)
Definition total (c : config) : Z := live_sum (c_sh c) + inflight_sum (c_threads c).

Definition is_idle (p : pc) : bool := match p with PIdle => true | _ => false end.
Definition quiescent (c : config) : bool := forallb (fun th => is_idle (t_pc th)) (c_threads c).

(* the fetch_sub a thread is about to execute *)
Definition pending_sub (p : pc) : option Z :=
  match p with
  | PDropSub _ size => Some size
  | PResizeSub _ size new => Some (size - new)
  | _ => None
  end.

(* the compare-exchange a thread is about to execute: (expected, new) *)
Definition pending_cas (p : pc) : option (Z * Z) :=
  match p with PTryCas _ _ cur new => Some (cur, new) | _ => None end.

(* ---------- sequential executable model: one whole method at a time ---------- *)
Definition try_fits (limit : Z) (s : shared) (n : Z) : bool :=
  negb ((W <=? used s + n) || (used s + n >? limit)).

Definition seq_step (limit : Z) (s : shared) (o : op) : shared :=
  match o with
  | OTry r n0 =>
      let n := usz n0 in
      if try_fits limit s n
      then push r n (mkSh (used s + n) (resv s) ((used s + n) :: grants s) (forced s))
      else s
  | OAlloc r n0 => push r (usz n0) (mkSh (usz (used s + usz n0)) (resv s) (grants s) true)
  | OResize r n0 =>
      let new := usz n0 in
      match take r (resv s) with
      | None => s
      | Some (size, rest) =>
          if new >? size then push r new (mkSh (usz (used s + (new - size))) rest (grants s) true)
          else push r new (mkSh (usz (used s - (size - new))) rest (grants s) (forced s))
      end
  | ODrop r =>
      match take r (resv s) with
      | None => s
      | Some (size, rest) => mkSh (usz (used s - size)) rest (grants s) (forced s)
      end
  end.

(* did the method take effect: Some(..) for try_allocate, always for allocate, id live for resize/drop *)
Definition seq_result (limit : Z) (s : shared) (o : op) : bool :=
  match o with
  | OTry _ n0 => try_fits limit s (usz n0)
  | OAlloc _ _ => true
  | OResize r _ | ODrop r => match take r (resv s) with Some _ => true | None => false end
  end.

(* the schedule that makes thread t run op o alone to completion, every load reading the current value *)
Definition seq_steps (limit : Z) (s : shared) (o : op) : nat :=
  match o with
  | OTry _ n0 => if try_fits limit s (usz n0) then 5%nat else 3%nat
  | OAlloc _ _ => 3%nat
  | OResize r _ => match take r (resv s) with Some _ => 3%nat | None => 1%nat end
  | ODrop r => match take r (resv s) with Some _ => 2%nat | None => 1%nat end
  end.
Definition seq_events (t : nat) (limit : Z) (s : shared) (o : op) : list event :=
  repeat (mkEv t (used s) false) (seq_steps limit s o).

(* ---------- observations and the executable spec ---------- *)
(* what the harness reports after every op: did it take effect, pool.used(), live reservations sorted by id *)
Record obs := mkObs { o_ok : bool; o_used : Z; o_live : list (nat * Z) }.

Definition resv_le (a b : nat * Z) : bool :=
  if Nat.eqb (fst a) (fst b) then snd a <=? snd b else Nat.leb (fst a) (fst b).
Definition pair_eqb (a b : nat * Z) : bool := Nat.eqb (fst a) (fst b) && (snd a =? snd b).
Definition resv_eqb (a b : list (nat * Z)) : bool :=
  list_eqb pair_eqb (isort resv_le a) (isort resv_le b).

Definition obs_eqb (a b : obs) : bool :=
  Bool.eqb (o_ok a) (o_ok b) && (o_used a =? o_used b) && resv_eqb (o_live a) (o_live b).

Fixpoint seq_obs (limit : Z) (s : shared) (ops : list op) : list obs :=
  match ops with
  | [] => []
  | o :: rest =>
      let s' := seq_step limit s o in
      mkObs (seq_result limit s o) (used s') (resv s') :: seq_obs limit s' rest
  end.

Definition s0 : shared := mkSh 0 [] [] false.
Definition model (limit : Z) (ops : list op) : list obs := seq_obs (usz limit) s0 ops.
Definition model_eqb (impl m : list obs) : bool := list_eqb obs_eqb impl m.

(* Spec, independent of the model: the set of live reservations is reconstructed from the implementation's own
   ok/None answers; after every op
     - a granted try_allocate leaves used <= limit,
     - allocate always takes effect; resize/drop take effect exactly on live ids,
     - the reported live reservations are the expected ones,
     - used = sum of live sizes: exactly when the sum fits usize, modulo 2^64 otherwise (`usz`), in particular
       used = 0 when nothing is live and used never wraps below 0 while the sum fits. *)
Definition spec_live (live : list (nat * Z)) (o : op) (ok : bool) : list (nat * Z) :=
  match o with
  | OTry r n => if ok then (r, usz n) :: live else live
  | OAlloc r n => (r, usz n) :: live
  | OResize r n => match take r live with Some (_, rest) => (r, usz n) :: rest | None => live end
  | ODrop r => match take r live with Some (_, rest) => rest | None => live end
  end.
Definition spec_okflag (limit : Z) (live : list (nat * Z)) (o : op) (b : obs) : bool :=
  match o with
  | OTry _ _ => implb (o_ok b) (o_used b <=? limit)
  | OAlloc _ _ => o_ok b
  | OResize r _ | ODrop r => Bool.eqb (o_ok b) (match take r live with Some _ => true | None => false end)
  end.
Fixpoint spec_walk (limit : Z) (live : list (nat * Z)) (ops : list op) (os : list obs) : bool :=
  match ops, os with
  | [], [] => true
  | o :: ops', b :: os' =>
      let live' := spec_live live o (o_ok b) in
      spec_okflag limit live o b
      && resv_eqb (o_live b) live'
      && (o_used b =? usz (zsum (map snd live')))
      && spec_walk limit live' ops' os'
  | _, _ => false
  end.
Definition spec_ok (limit : Z) (ops : list op) (impl : list obs) : bool :=
  spec_walk (usz limit) [] ops impl.
