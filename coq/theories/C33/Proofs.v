(* C33 proofs: accounting invariants of the concurrent pool model, for every schedule and any number of threads. *)
From QV Require Import C33.Model.
Local Open Scope Z_scope.

(* ---------- arithmetic ---------- *)
Lemma W_pos : 0 < W. Proof. reflexivity. Qed.
Global Opaque W.
Arguments usz : simpl never.

Definition inrange (z : Z) : Prop := 0 <= z < W.

Lemma usz_range z : inrange (usz z).
Proof. unfold inrange, usz. apply Z.mod_pos_bound, W_pos. Qed.
Lemma usz_small z : inrange z -> usz z = z.
Proof. unfold inrange, usz. intros. now apply Z.mod_small. Qed.
Lemma usz_add_l a b : usz (usz a + b) = usz (a + b).
Proof. unfold usz. apply Zplus_mod_idemp_l. Qed.
Lemma usz_sub_l a b : usz (usz a - b) = usz (a - b).
Proof. unfold usz. apply Zminus_mod_idemp_l. Qed.

(* ---------- lists ---------- *)
Lemma upd_app_mid {A} (l1 l2 : list A) x g : upd (length l1) g (l1 ++ x :: l2) = l1 ++ g x :: l2.
Proof. induction l1 as [|h t IH]; cbn [length app upd]; congruence. Qed.
Lemma nth_error_app_mid {A} (l1 l2 : list A) x : nth_error (l1 ++ x :: l2) (length l1) = Some x.
Proof. induction l1 as [|h t IH]; cbn [length app nth_error]; auto. Qed.

Lemma inflight_sum_mid l1 th l2 :
  inflight_sum (l1 ++ th :: l2) = inflight_sum l1 + inflight (t_pc th) + inflight_sum l2.
Proof. unfold inflight_sum. rewrite map_app, zsum_app. cbn [map]. rewrite zsum_cons. lia. Qed.

(* ---------- local well-formedness ---------- *)
Definition pc_ok (limit : Z) (p : pc) : Prop :=
  match p with
  | PIdle => True
  | PTryLoad _ n => inrange n
  | PTryCheck _ n cur => inrange n /\ inrange cur
  | PTryCas _ n cur new => inrange n /\ inrange cur /\ new = cur + n /\ new <= limit
  | PTryRet _ n => inrange n
  | PAllocAdd _ n => inrange n
  | PAllocRet _ n => inrange n
  | PResizeAdd _ size new => inrange size /\ inrange new /\ size < new
  | PResizeSub _ size new => inrange size /\ inrange new /\ new <= size
  | PResizeSet _ new => inrange new
  | PDropSub _ size => inrange size
  end.

Lemma pc_ok_inflight limit p : pc_ok limit p -> 0 <= inflight p.
Proof. destruct p; cbn [pc_ok inflight]; unfold inrange; lia. Qed.

Definition resv_ok (l : list (nat * Z)) : Prop := Forall (fun kv => inrange (snd kv)) l.

Lemma take_sum r l size rest : take r l = Some (size, rest) ->
  zsum (map snd l) = size + zsum (map snd rest).
Proof.
  revert size rest; induction l as [|[k s] t IH]; intros size rest H; cbn [take] in H; [discriminate|].
  destruct (Nat.eqb k r).
  - inversion H; subst. cbn [map snd]. now rewrite zsum_cons.
  - destruct (take r t) as [[s' t']|] eqn:T; [|discriminate]. inversion H; subst.
    cbn [map snd]. rewrite !zsum_cons. rewrite (IH _ _ eq_refl). lia.
Qed.
Lemma take_ok r l size rest : take r l = Some (size, rest) -> resv_ok l -> inrange size /\ resv_ok rest.
Proof.
  revert size rest; induction l as [|[k s] t IH]; intros size rest H Hok; cbn [take] in H; [discriminate|].
  inversion Hok as [|x y Hx Hy]; subst. cbn [snd] in Hx.
  destruct (Nat.eqb k r).
  - inversion H; subst. auto.
  - destruct (take r t) as [[s' t']|] eqn:T; [|discriminate]. inversion H; subst.
    destruct (IH _ _ eq_refl Hy) as [A B]. split; [exact A|]. constructor; auto.
Qed.
Lemma resv_ok_sum l : resv_ok l -> 0 <= zsum (map snd l).
Proof.
  induction 1 as [|x l Hx Hl IH]; cbn [map]; [cbn; lia|]. rewrite zsum_cons. unfold inrange in Hx. lia.
Qed.

(* invariant seen from one thread; R = bytes the OTHER threads are accountable for *)
Record linv (limit : Z) (s : shared) (p : pc) (R : Z) : Prop := mkLinv {
  li_lim : inrange limit;
  li_R : 0 <= R;
  li_used : used s = usz (live_sum s + inflight p + R);
  li_pc : pc_ok limit p;
  li_resv : resv_ok (resv s);
  li_grants : Forall (fun g => 0 <= g <= limit) (grants s);
  li_forced : forced s = false -> live_sum s + inflight p + R <= limit
}.

Ltac li_fin Hu Hf :=
  first [ assumption | solve [auto using usz_range] | discriminate
        | (rewrite Hu, ?usz_add_l, ?usz_sub_l; f_equal; lia)
        | (let F := fresh "F" in intros F; specialize (Hf F); unfold inrange in *; lia)
        | (unfold inrange in *; lia) | tauto
        | solve [constructor; auto; unfold inrange in *; cbn [snd]; first [assumption | tauto | lia]] ].
Ltac li_go Hu Hf :=
  constructor; unfold live_sum, push, with_pc; cbn [t_pc t_script inflight pc_ok used resv grants forced map snd];
  rewrite ?zsum_cons; li_fin Hu Hf.

Lemma begin_linv limit s o R s' p :
  linv limit s PIdle R -> begin s o = (s', p) -> linv limit s' p R.
Proof.
  intros [Hl HR Hu Hp Hr Hg Hf] B. cbn [inflight] in *.
  destruct o as [r n|r n|r n|r]; cbn [begin] in B.
  - inversion B; subst. constructor; cbn [inflight pc_ok]; auto using usz_range.
  - inversion B; subst. constructor; cbn [inflight pc_ok]; auto using usz_range.
  - destruct (take r (resv s)) as [[size rest]|] eqn:T.
    + pose proof (take_sum _ _ _ _ T) as Hs. destruct (take_ok _ _ _ _ T Hr) as [Hsz Hrest].
      pose proof (usz_range n) as Hn. unfold live_sum in *.
      destruct (usz n >? size) eqn:G; inversion B; subst s' p; unfold set_resv.
      * apply Z.gtb_lt in G.
        constructor; unfold live_sum; cbn [inflight pc_ok used resv grants forced]; li_fin Hu Hf.
      * rewrite Z.gtb_ltb in G; apply Z.ltb_ge in G.
        constructor; unfold live_sum; cbn [inflight pc_ok used resv grants forced]; li_fin Hu Hf.
    + inversion B; subst. constructor; auto.
  - destruct (take r (resv s)) as [[size rest]|] eqn:T.
    + pose proof (take_sum _ _ _ _ T) as Hs. destruct (take_ok _ _ _ _ T Hr) as [Hsz Hrest].
      unfold live_sum in *. inversion B; subst s' p; unfold set_resv.
      constructor; unfold live_sum; cbn [inflight pc_ok used resv grants forced]; li_fin Hu Hf.
    + inversion B; subst. constructor; auto.
Qed.

Lemma tstep_linv limit s th v f R s' th' :
  linv limit s (t_pc th) R -> tstep limit s th v f = (s', th') -> linv limit s' (t_pc th') R.
Proof.
  intros I E. destruct th as [p scr]. unfold tstep, with_pc in E. cbn [t_pc t_script] in *.
  destruct p.
  - (* idle *) destruct scr as [|o rest].
    + inversion E; subst. exact I.
    + destruct (begin s o) as [s1 p1] eqn:B. inversion E; subst. cbn [t_pc]. eapply begin_linv; eauto.
  - (* load *) inversion E; subst s' th'. destruct I as [Hl HR Hu Hp Hr Hg Hf]. unfold live_sum in *.
    cbn [inflight pc_ok t_pc] in *. li_go Hu Hf.
  - (* check *) destruct I as [Hl HR Hu Hp Hr Hg Hf]. unfold live_sum in *. cbn [inflight pc_ok] in *.
    destruct (W <=? cur + n) eqn:C1; [inversion E; subst s' th'; li_go Hu Hf|].
    destruct (cur + n >? limit) eqn:C2; inversion E; subst s' th'; [li_go Hu Hf|].
    rewrite Z.gtb_ltb in C2. apply Z.ltb_ge in C2. li_go Hu Hf.
  - (* cas *) destruct I as [Hl HR Hu Hp Hr Hg Hf]. unfold live_sum in *. cbn [inflight pc_ok] in *.
    destruct Hp as (Hn & Hc & Hnew & Hle).
    assert (Hs : 0 <= zsum (map snd (resv s))) by now apply resv_ok_sum.
    destruct ((used s =? cur) && negb f) eqn:C.
    + apply andb_true_iff in C as [C _]. apply Z.eqb_eq in C.
      inversion E; subst s' th'.
      assert (Hnr : inrange new) by (unfold inrange in *; lia).
      constructor; unfold live_sum, with_pc; cbn [t_pc t_script inflight pc_ok used resv grants forced]; auto.
      * rewrite <- (usz_small new Hnr). rewrite Hnew, <- C, Hu, usz_add_l. f_equal. lia.
      * constructor; auto. unfold inrange in *; lia.
      * intros F. specialize (Hf F).
        rewrite usz_small in Hu by (unfold inrange in *; lia). lia.
    + inversion E; subst s' th'. li_go Hu Hf.
  - (* try ret *) inversion E; subst s' th'. destruct I as [Hl HR Hu Hp Hr Hg Hf]. unfold live_sum in *.
    cbn [inflight pc_ok t_pc] in *. li_go Hu Hf.
  - (* alloc add *) inversion E; subst s' th'. destruct I as [Hl HR Hu Hp Hr Hg Hf]. unfold live_sum in *.
    cbn [inflight pc_ok t_pc] in *. li_go Hu Hf.
  - (* alloc ret *) inversion E; subst s' th'. destruct I as [Hl HR Hu Hp Hr Hg Hf]. unfold live_sum in *.
    cbn [inflight pc_ok t_pc] in *. li_go Hu Hf.
  - (* resize add *) inversion E; subst s' th'. destruct I as [Hl HR Hu Hp Hr Hg Hf]. unfold live_sum in *.
    cbn [inflight pc_ok t_pc] in *. li_go Hu Hf.
  - (* resize sub *) inversion E; subst s' th'. destruct I as [Hl HR Hu Hp Hr Hg Hf]. unfold live_sum in *.
    cbn [inflight pc_ok t_pc] in *. li_go Hu Hf.
  - (* resize set *) inversion E; subst s' th'. destruct I as [Hl HR Hu Hp Hr Hg Hf]. unfold live_sum in *.
    cbn [inflight pc_ok t_pc] in *. li_go Hu Hf.
  - (* drop *) inversion E; subst s' th'. destruct I as [Hl HR Hu Hp Hr Hg Hf]. unfold live_sum in *.
    cbn [inflight pc_ok t_pc] in *. li_go Hu Hf.
Qed.

(* ---------- global invariant ---------- *)
Definition Inv (c : config) : Prop :=
  inrange (c_limit c) /\
  used (c_sh c) = usz (total c) /\
  Forall (fun th => pc_ok (c_limit c) (t_pc th)) (c_threads c) /\
  resv_ok (resv (c_sh c)) /\
  Forall (fun g => 0 <= g <= c_limit c) (grants (c_sh c)) /\
  (forced (c_sh c) = false -> total c <= c_limit c).

Lemma inflight_sum_nonneg limit ths :
  Forall (fun th => pc_ok limit (t_pc th)) ths -> 0 <= inflight_sum ths.
Proof.
  unfold inflight_sum. induction 1 as [|x l Hx Hl IH]; cbn [map]; [cbn; lia|].
  rewrite zsum_cons. apply pc_ok_inflight in Hx. lia.
Qed.

Lemma Inv_step c e : Inv c -> Inv (step c e).
Proof.
  intros H. unfold step.
  destruct (nth_error (c_threads c) (e_tid e)) as [th|] eqn:N; [|exact H].
  destruct H as (Hl & Hu & Hp & Hr & Hg & Hf).
  destruct (nth_error_split _ _ N) as (l1 & l2 & Hths & Hlen).
  destruct (tstep (c_limit c) (c_sh c) th (e_val e) (e_fail e)) as [s' th'] eqn:E.
  rewrite Hths in Hp. apply Forall_app in Hp as [Hp1 Hp2]. inversion Hp2 as [|x y Hpt Hp3]; subst x y.
  unfold total in *. rewrite Hths in Hu, Hf. rewrite inflight_sum_mid in Hu, Hf.
  assert (R1 : 0 <= inflight_sum l1) by (eapply inflight_sum_nonneg; eauto).
  assert (R2 : 0 <= inflight_sum l2) by (eapply inflight_sum_nonneg; eauto).
  assert (I : linv (c_limit c) (c_sh c) (t_pc th) (inflight_sum l1 + inflight_sum l2)).
  { constructor; auto; try lia.
    - rewrite Hu. f_equal. lia.
    - intros F. specialize (Hf F). lia. }
  pose proof (tstep_linv _ _ _ _ _ _ _ _ I E) as [Jl JR Ju Jp Jr Jg Jf].
  rewrite Hths, <- Hlen, upd_app_mid.
  unfold Inv, total. cbn [c_limit c_sh c_threads]. rewrite inflight_sum_mid.
  split; [exact Hl|]. split; [rewrite Ju; f_equal; lia|]. split; [apply Forall_app; split; auto|].
  split; [exact Jr|]. split; [exact Jg|]. intros F. specialize (Jf F). lia.
Qed.

Lemma Inv_run evs : forall c, Inv c -> Inv (run c evs).
Proof.
  induction evs as [|e evs IH]; intros c H; cbn [run fold_left]; auto.
  apply IH. now apply Inv_step.
Qed.

Lemma inflight_sum_idle scripts : inflight_sum (map (mkTh PIdle) scripts) = 0.
Proof. unfold inflight_sum. induction scripts as [|a l IH]; cbn [map t_pc inflight]; [reflexivity|]. rewrite zsum_cons. lia. Qed.

Lemma Inv_init limit scripts : Inv (init limit scripts).
Proof.
  unfold Inv, init, total, live_sum. cbn [c_limit c_sh c_threads used resv grants forced map].
  rewrite inflight_sum_idle. split; [apply usz_range|]. split; [reflexivity|]. split.
  { apply Forall_forall. intros th Hin. apply in_map_iff in Hin as (scr & <- & _). exact I. }
  split; [constructor|]. split; [constructor|]. intros _. cbn. apply usz_range.
Qed.

Lemma reachable_Inv c0 c : Inv c0 -> reachable c0 c -> Inv c.
Proof. intros H0; induction 1; auto using Inv_step. Qed.

Lemma reachable_run c0 evs : reachable c0 (run c0 evs).
Proof.
  assert (G : forall c, reachable c0 c -> reachable c0 (run c evs)).
  { induction evs as [|e evs IH]; intros c H; cbn [run fold_left]; auto. apply IH. now constructor. }
  apply G. constructor.
Qed.
Lemma reachable_is_run c0 c : reachable c0 c -> exists evs, c = run c0 evs.
Proof.
  induction 1 as [|c e H [evs ->]]; [exists []; reflexivity|].
  exists (evs ++ [e]). unfold run. now rewrite fold_left_app.
Qed.
Lemma reachable_limit c0 c : reachable c0 c -> c_limit c = c_limit c0.
Proof.
  induction 1 as [|c e H IH]; auto. unfold step.
  destruct (nth_error (c_threads c) (e_tid e)); auto. destruct (tstep _ _ _ _ _); auto.
Qed.
Lemma reachable_nthreads c0 c : reachable c0 c -> length (c_threads c) = length (c_threads c0).
Proof.
  induction 1 as [|c e H IH]; auto. unfold step.
  destruct (nth_error (c_threads c) (e_tid e)); auto. destruct (tstep _ _ _ _ _); cbn [c_threads].
  now rewrite upd_length.
Qed.

Lemma total_nonneg c : Inv c -> 0 <= total c.
Proof.
  intros (Hl & Hu & Hp & Hr & _). unfold total, live_sum.
  pose proof (resv_ok_sum _ Hr). pose proof (inflight_sum_nonneg _ _ Hp). lia.
Qed.

Lemma quiescent_inflight ths :
  forallb (fun th => is_idle (t_pc th)) ths = true -> inflight_sum ths = 0.
Proof.
  unfold inflight_sum. induction ths as [|th l IH]; cbn [forallb map]; [reflexivity|].
  intros H. apply andb_true_iff in H as [H1 H2]. rewrite zsum_cons, IH by auto.
  destruct (t_pc th); cbn in H1; try discriminate. reflexivity.
Qed.

(* ---------- the theorems ---------- *)
Section Reach.
  Variables (limit : Z) (scripts : list (list op)) (c : config).
  Hypothesis R : reachable (init limit scripts) c.

  Lemma reach_Inv : Inv c.
  Proof. eapply reachable_Inv; [apply Inv_init | exact R]. Qed.

  (* general invariant, with the in-flight terms: the counter is the true total modulo 2^64 *)
  Theorem used_is_total_mod : used (c_sh c) = (total c) mod 2 ^ 64.
  Proof. destruct reach_Inv as (_ & Hu & _). exact Hu. Qed.

  (* ... and it is the true total whenever that fits a usize *)
  Theorem used_exact : total c < 2 ^ 64 -> used (c_sh c) = total c.
  Proof.
    intros H. rewrite used_is_total_mod. apply Z.mod_small. split; [apply total_nonneg, reach_Inv | exact H].
  Qed.

  Theorem used_quiescent : quiescent c = true ->
    used (c_sh c) = (live_sum (c_sh c)) mod 2 ^ 64 /\
    (live_sum (c_sh c) < 2 ^ 64 -> used (c_sh c) = live_sum (c_sh c)).
  Proof.
    intros Q. pose proof (quiescent_inflight _ Q) as Z0.
    assert (T : total c = live_sum (c_sh c)) by (unfold total; lia).
    split; [rewrite <- T; apply used_is_total_mod | rewrite <- T; apply used_exact].
  Qed.

  Theorem all_dropped_zero : quiescent c = true -> resv (c_sh c) = [] -> used (c_sh c) = 0.
  Proof.
    intros Q E. destruct (used_quiescent Q) as [_ H]. unfold live_sum in H. rewrite E in H. cbn in H.
    apply H. reflexivity.
  Qed.

  (* every value ever stored by a successful compare-exchange of try_allocate is within the limit *)
  Theorem grant_within_limit : Forall (fun g => 0 <= g <= c_limit c) (grants (c_sh c)).
  Proof. destruct reach_Inv as (_ & _ & _ & _ & Hg & _). exact Hg. Qed.

  (* the same, step-wise: a thread about to CAS(cur,new) has new = cur + size <= limit; the step either leaves
     `used` alone (failure) or found used = cur and stores new *)
  Theorem grant_step_within_limit : forall e th cur new,
    nth_error (c_threads c) (e_tid e) = Some th -> pending_cas (t_pc th) = Some (cur, new) ->
    new <= c_limit c /\
    (used (c_sh (step c e)) = used (c_sh c) \/
     (used (c_sh c) = cur /\ used (c_sh (step c e)) = new /\ grants (c_sh (step c e)) = new :: grants (c_sh c))).
  Proof.
    intros e th cur new N P. destruct reach_Inv as (_ & _ & Hp & _).
    rewrite Forall_forall in Hp. specialize (Hp th (nth_error_In _ _ N)).
    destruct th as [p scr]. cbn [t_pc] in *. destruct p; cbn [pending_cas] in P; try discriminate.
    inversion P; subst. cbn [pc_ok] in Hp. split; [tauto|].
    unfold step. rewrite N. unfold tstep. cbn [t_pc].
    destruct ((used (c_sh c) =? cur) && negb (e_fail e)) eqn:C; cbn [c_sh used grants]; [right|left; reflexivity].
    apply andb_true_iff in C as [C _]. apply Z.eqb_eq in C. auto.
  Qed.

  (* whichever fetch_sub runs next, it does not subtract more than the counter holds *)
  Theorem no_underflow : total c < 2 ^ 64 -> forall t th d,
    nth_error (c_threads c) t = Some th -> pending_sub (t_pc th) = Some d -> 0 <= d <= used (c_sh c).
  Proof.
    intros T t th d N P. rewrite (used_exact T). destruct reach_Inv as (_ & _ & Hp & Hr & _).
    destruct (nth_error_split _ _ N) as (l1 & l2 & Hths & _).
    rewrite Hths in Hp. apply Forall_app in Hp as [Hp1 Hp2]. inversion Hp2 as [|x y Hpt Hp3]; subst x y.
    unfold total. rewrite Hths, inflight_sum_mid.
    pose proof (inflight_sum_nonneg _ _ Hp1). pose proof (inflight_sum_nonneg _ _ Hp3).
    pose proof (resv_ok_sum _ Hr). unfold live_sum.
    destruct (t_pc th); cbn [pending_sub] in P; try discriminate; inversion P; subst;
      cbn [pc_ok inflight] in *; unfold inrange in *; lia.
  Qed.

  (* as long as no unchecked fetch_add (allocate / growing resize) has run, the true total is within the limit,
     the counter is exact, and no fetch_sub can underflow *)
  Theorem unforced_within_limit : forced (c_sh c) = false ->
    total c <= c_limit c /\ used (c_sh c) = total c /\
    forall t th d, nth_error (c_threads c) t = Some th -> pending_sub (t_pc th) = Some d -> 0 <= d <= used (c_sh c).
  Proof.
    intros F. destruct reach_Inv as (Hl & _ & _ & _ & _ & Hf). specialize (Hf F).
    assert (T : total c < 2 ^ 64) by (unfold inrange in Hl; change (2 ^ 64) with W; lia).
    split; [exact Hf|]. split; [now apply used_exact | now apply no_underflow].
  Qed.
End Reach.

(* ---------- witnesses: what the unchecked paths can do (outside the "conditional reservation" clause) ---------- *)
Definition ev (t : nat) := mkEv t 0 false.

(* allocate ignores the limit *)
Lemma forced_allocate_exceeds_limit : exists c,
  reachable (init 10 [[OAlloc 0 20]]) c /\ quiescent c = true /\ used (c_sh c) = 20 /\ c_limit c = 10.
Proof.
  exists (run (init 10 [[OAlloc 0 20]]) [ev 0; ev 0; ev 0]). split; [apply reachable_run|]. vm_compute. auto.
Qed.

(* a growing resize is an unchecked fetch_add too: there is no conditional resize in the code *)
Lemma grow_resize_exceeds_limit : exists c,
  reachable (init 10 [[OTry 0 5; OResize 0 100]]) c /\ quiescent c = true /\
  used (c_sh c) = 100 /\ c_limit c = 10 /\ grants (c_sh c) = [5].
Proof.
  exists (run (init 10 [[OTry 0 5; OResize 0 100]]) (repeat (mkEv 0 0 false) 8)).
  split; [apply reachable_run|]. vm_compute. auto.
Qed.

(* two forced allocations of 2^63 bytes wrap the counter to 0 while 2^64 bytes are live; a try_allocate(7) is then
   granted (used = 7 <= 100) although the true total is far beyond the limit, and the next drop subtracts 2^63
   from 7 (underflow, the counter wraps to 2^63 + 7).
   Needs live reservations totalling >= 2^64 bytes, hence the `total c < 2^64` premise of the theorems. *)
Lemma forced_allocate_wrap : exists c,
  reachable (init 100 [[OAlloc 0 (2 ^ 63); OAlloc 1 (2 ^ 63); ODrop 0]; [OTry 2 7]]) c /\
  used (c_sh c) = 7 /\ total c = 2 ^ 64 + 7 /\ c_limit c = 100 /\ grants (c_sh c) = [7] /\
  (exists th, nth_error (c_threads c) 0 = Some th /\ pending_sub (t_pc th) = Some (2 ^ 63)) /\
  used (c_sh (step c (ev 0))) = 2 ^ 63 + 7.
Proof.
  exists (run (init 100 [[OAlloc 0 (2 ^ 63); OAlloc 1 (2 ^ 63); ODrop 0]; [OTry 2 7]])
              (repeat (ev 0) 6 ++ repeat (ev 1) 4 ++ [ev 0; mkEv 1 0 false; ev 1; ev 1; ev 1; ev 1; ev 1])).
  split; [apply reachable_run|]. vm_compute. repeat split; eauto.
Qed.

(* ---------- the sequential model is a special case of the concurrent one ---------- *)
Fixpoint titer (limit v : Z) (k : nat) (s : shared) (th : thread) : shared * thread :=
  match k with
  | O => (s, th)
  | S k' => let '(s', th') := tstep limit s th v false in titer limit v k' s' th'
  end.

Lemma run_repeat_thread k : forall c l1 l2 th v, c_threads c = l1 ++ th :: l2 ->
  run c (repeat (mkEv (length l1) v false) k) =
  mkCfg (c_limit c) (fst (titer (c_limit c) v k (c_sh c) th)) (l1 ++ snd (titer (c_limit c) v k (c_sh c) th) :: l2).
Proof.
  induction k as [|k IH]; intros c l1 l2 th v H.
  - cbn [repeat run fold_left titer fst snd]. destruct c; cbn in *; subst; reflexivity.
  - cbn [repeat run fold_left titer]. fold (run (step c (mkEv (length l1) v false)) (repeat (mkEv (length l1) v false) k)).
    unfold step at 1. cbn [e_tid e_val e_fail]. rewrite H, nth_error_app_mid.
    destruct (tstep (c_limit c) (c_sh c) th v false) as [s' th'] eqn:E.
    rewrite upd_app_mid.
    rewrite (IH _ l1 l2 th' v) by reflexivity. reflexivity.
Qed.

Lemma titer_seq limit s o rest : inrange (used s) ->
  titer limit (used s) (seq_steps limit s o) s (mkTh PIdle (o :: rest)) = (seq_step limit s o, mkTh PIdle rest).
Proof.
  intros Hu. destruct o as [r n|r n|r n|r]; cbn [seq_steps seq_step].
  - destruct (try_fits limit s (usz n)) eqn:F.
    + unfold try_fits in F. apply negb_true_iff, orb_false_iff in F as [F1 F2].
      cbn [titer tstep t_pc t_script begin with_pc]. rewrite (usz_small _ Hu), F1, F2.
      cbn [titer tstep t_pc t_script with_pc]. rewrite Z.eqb_refl. cbn [andb negb titer tstep t_pc t_script with_pc].
      reflexivity.
    + unfold try_fits in F. apply negb_false_iff in F.
      cbn [titer tstep t_pc t_script begin with_pc]. rewrite (usz_small _ Hu).
      destruct (W <=? used s + usz n) eqn:F1; [reflexivity|]. cbn [orb] in F. rewrite F. reflexivity.
  - cbn [titer tstep t_pc t_script begin with_pc]. reflexivity.
  - destruct (take r (resv s)) as [[size rest']|] eqn:T.
    + cbn [titer tstep t_pc t_script begin with_pc]. rewrite T.
      destruct (usz n >? size); cbn [titer tstep t_pc t_script with_pc set_resv push used resv grants forced]; reflexivity.
    + cbn [titer tstep t_pc t_script begin with_pc]. rewrite T. reflexivity.
  - destruct (take r (resv s)) as [[size rest']|] eqn:T.
    + cbn [titer tstep t_pc t_script begin with_pc]. rewrite T.
      cbn [titer tstep t_pc t_script with_pc set_resv push used resv grants forced]. reflexivity.
    + cbn [titer tstep t_pc t_script begin with_pc]. rewrite T. reflexivity.
Qed.

(* thread t, idle with `o` next in its script, running alone with SeqCst-like loads, performs exactly seq_step *)
Theorem seq_refines : forall c t o rest,
  nth_error (c_threads c) t = Some (mkTh PIdle (o :: rest)) -> 0 <= used (c_sh c) < 2 ^ 64 ->
  run c (seq_events t (c_limit c) (c_sh c) o) =
  mkCfg (c_limit c) (seq_step (c_limit c) (c_sh c) o) (upd t (fun _ => mkTh PIdle rest) (c_threads c)).
Proof.
  intros c t o rest N Hu. destruct (nth_error_split _ _ N) as (l1 & l2 & Hths & Hlen). subst t.
  unfold seq_events. rewrite (run_repeat_thread _ c l1 l2 _ _ Hths).
  rewrite titer_seq by exact Hu. cbn [fst snd]. rewrite Hths, upd_app_mid. reflexivity.
Qed.

Lemma seq_step_Inv limit s o rest :
  Inv (mkCfg limit s [mkTh PIdle (o :: rest)]) -> Inv (mkCfg limit (seq_step limit s o) [mkTh PIdle rest]).
Proof.
  intros H.
  assert (Hu : 0 <= used s < 2 ^ 64).
  { destruct H as (_ & Hu & _). cbn [c_sh] in Hu. rewrite Hu. apply usz_range. }
  pose proof (seq_refines (mkCfg limit s [mkTh PIdle (o :: rest)]) 0 o rest eq_refl Hu) as E.
  cbn [c_limit c_sh c_threads upd] in E. rewrite <- E. now apply Inv_run.
Qed.

(* a whole op list run by one thread: every sequential state is a reachable state of the concurrent system *)
Theorem seq_run_reachable : forall limit ops,
  reachable (init limit [ops]) (mkCfg (usz limit) (fold_left (seq_step (usz limit)) ops s0) [mkTh PIdle []]).
Proof.
  intros limit ops.
  assert (G : forall ops s, Inv (mkCfg (usz limit) s [mkTh PIdle ops]) ->
              exists evs, run (mkCfg (usz limit) s [mkTh PIdle ops]) evs =
                          mkCfg (usz limit) (fold_left (seq_step (usz limit)) ops s) [mkTh PIdle []]).
  { induction ops0 as [|o rest IH]; intros s H; [exists []; reflexivity|].
    assert (Hu : 0 <= used s < 2 ^ 64).
    { destruct H as (_ & Hu & _). cbn [c_sh] in Hu. rewrite Hu. apply usz_range. }
    pose proof (seq_refines (mkCfg (usz limit) s [mkTh PIdle (o :: rest)]) 0 o rest eq_refl Hu) as E.
    cbn [c_limit c_sh c_threads upd] in E.
    destruct (IH _ (seq_step_Inv _ _ _ _ H)) as [evs Hevs].
    exists (seq_events 0 (usz limit) s o ++ evs). unfold run in *. rewrite fold_left_app.
    cbn [fold_left]. rewrite E. exact Hevs. }
  destruct (G ops s0) as [evs Hevs]; [apply (Inv_init limit [ops])|].
  unfold init. cbn [map]. fold s0. rewrite <- Hevs. apply reachable_run.
Qed.

(* ---------- the sequential model meets the executable spec on every input ---------- *)
Lemma pair_eqb_spec x y : pair_eqb x y = true <-> x = y.
Proof.
  destruct x as [a b], y as [a' b']. unfold pair_eqb. cbn [fst snd].
  rewrite andb_true_iff, Nat.eqb_eq, Z.eqb_eq. split; [intros [-> ->]; reflexivity | intros H; inversion H; auto].
Qed.
Lemma resv_eqb_refl l : resv_eqb l l = true.
Proof. unfold resv_eqb. apply (list_eqb_spec pair_eqb pair_eqb_spec). reflexivity. Qed.

Lemma spec_live_model limit s o :
  spec_live (resv s) o (seq_result limit s o) = resv (seq_step limit s o).
Proof.
  destruct o as [r n|r n|r n|r]; cbn [spec_live seq_result seq_step].
  - destruct (try_fits limit s (usz n)); reflexivity.
  - reflexivity.
  - destruct (take r (resv s)) as [[size rest]|]; [|reflexivity].
    destruct (usz n >? size); reflexivity.
  - destruct (take r (resv s)) as [[size rest]|]; reflexivity.
Qed.

Lemma spec_walk_model limit : forall ops s,
  Inv (mkCfg limit s [mkTh PIdle ops]) -> spec_walk limit (resv s) ops (seq_obs limit s ops) = true.
Proof.
  induction ops as [|o rest IH]; intros s H; [reflexivity|].
  pose proof (seq_step_Inv _ _ _ _ H) as H'.
  cbn [seq_obs spec_walk o_ok o_used o_live]. rewrite spec_live_model, resv_eqb_refl, IH by exact H'.
  assert (Hus : used (seq_step limit s o) = usz (zsum (map snd (resv (seq_step limit s o))))).
  { destruct H' as (_ & Hu & _). unfold total, live_sum, inflight_sum in Hu.
    cbn [c_sh c_threads map t_pc inflight] in Hu. rewrite Hu. f_equal. cbn. lia. }
  rewrite <- Hus, Z.eqb_refl, !andb_true_r.
  destruct o as [r n|r n|r n|r]; cbn [spec_okflag seq_result seq_step o_ok o_used].
  - destruct (try_fits limit s (usz n)) eqn:F; [|reflexivity]. cbn [implb push used].
    unfold try_fits in F. apply negb_true_iff, orb_false_iff in F as [_ F2].
    rewrite Z.gtb_ltb in F2. apply Z.ltb_ge in F2. now apply Z.leb_le.
  - reflexivity.
  - apply eqb_reflx.
  - apply eqb_reflx.
Qed.

Theorem model_meets_spec : forall limit ops, spec_ok limit ops (model limit ops) = true.
Proof.
  intros limit ops. unfold spec_ok, model. apply (spec_walk_model (usz limit) ops s0).
  apply (Inv_init limit [ops]).
Qed.

(* the hypotheses are satisfiable / the definitions are not vacuous *)
Example ex_two_threads_race :
  let c := run (init 10 [[OTry 0 6]; [OTry 1 6]])
               [mkEv 0 0 false; mkEv 1 0 false; mkEv 0 0 false; mkEv 1 0 false; mkEv 0 0 false; mkEv 1 0 false;
                mkEv 0 0 false; mkEv 1 6 false; mkEv 0 0 false; mkEv 1 0 false] in
  used (c_sh c) = 6 /\ grants (c_sh c) = [6] /\ quiescent c = true /\ resv (c_sh c) = [(0%nat, 6)].
Proof. vm_compute. auto. Qed.

Example ex_model :
  model 100 [OTry 0 60; OTry 1 50; OAlloc 2 70; OResize 0 10; ODrop 2; ODrop 0; ODrop 7]
  = [mkObs true 60 [(0%nat, 60)]; mkObs false 60 [(0%nat, 60)]; mkObs true 130 [(2%nat, 70); (0%nat, 60)];
     mkObs true 80 [(0%nat, 10); (2%nat, 70)]; mkObs true 10 [(0%nat, 10)]; mkObs true 0 []; mkObs false 0 []].
Proof. vm_compute. reflexivity. Qed.

(* a reachable state with a pending fetch_sub and total < 2^64 (premises of no_underflow are satisfiable) *)
Example ex_pending_sub :
  let c := run (init 10 [[OTry 0 6; ODrop 0]]) (repeat (mkEv 0 0 false) 6) in
  total c = 6 /\ used (c_sh c) = 6 /\ nth_error (c_threads c) 0 = Some (mkTh (PDropSub 0 6) []) /\ forced (c_sh c) = false.
Proof. vm_compute. auto. Qed.
