(* C37 proofs: encodings round-trip (for all arrays, all thresholds) outside two decidable classes,
   the classes are exact, and each codec helper equals the list-level Arrow kernel outside its
   decidable classes (with witnesses inside them). *)
From QV Require Import Base.Util C37.Model.

(* ---------- reflection of the equality tests ---------- *)
Lemma zlist_eqb_spec (a b : list Z) : list_eqb Z.eqb a b = true <-> a = b.
Proof. apply list_eqb_spec. intros x y. apply Z.eqb_eq. Qed.
Lemma value_eqb_spec a b : value_eqb a b = true <-> a = b.
Proof.
  destruct a as [x|x], b as [y|y]; cbn [value_eqb]; split; intros H; try congruence.
  - apply Z.eqb_eq in H. congruence.
  - inversion H. apply Z.eqb_refl.
  - apply zlist_eqb_spec in H. congruence.
  - inversion H. now apply zlist_eqb_spec.
Qed.
Lemma optv_eqb_spec a b : optv_eqb a b = true <-> a = b.
Proof.
  destruct a as [x|], b as [y|]; cbn [optv_eqb]; split; intros H; try congruence.
  - apply value_eqb_spec in H. congruence.
  - inversion H. now apply value_eqb_spec.
Qed.
Lemma view_eqb_spec a b : list_eqb optv_eqb a b = true <-> a = b.
Proof. apply list_eqb_spec, optv_eqb_spec. Qed.

(* ---------- slices ---------- *)
Lemma lview_aslice off len a : lview (aslice off len a) = firstn len (skipn off (lview a)).
Proof. unfold lview, aslice. cbn [a_slots]. now rewrite skipn_map, firstn_map. Qed.
Lemma aslice_ty off len a : a_ty (aslice off len a) = a_ty a.
Proof. reflexivity. Qed.
Lemma nth_firstn_lt {A} : forall (l : list A) i n d, (i < n)%nat -> nth i (firstn n l) d = nth i l d.
Proof.
  induction l as [|x l IH]; intros [|i] [|n] d H; cbn [firstn nth]; try lia; try reflexivity.
  apply IH. lia.
Qed.
Lemma nth_skipn_add {A} : forall (l : list A) off i d, nth i (skipn off l) d = nth (off + i) l d.
Proof.
  induction l as [|x l IH]; intros [|off] i d; cbn [skipn Nat.add nth]; try reflexivity.
  - destruct i; reflexivity.
  - apply IH.
Qed.
Lemma aslice_nth off len a i d : (i < len)%nat ->
  nth i (a_slots (aslice off len a)) d = nth (off + i) (a_slots a) d.
Proof.
  intros H. unfold aslice. cbn [a_slots].
  rewrite nth_firstn_lt by exact H. apply nth_skipn_add.
Qed.

(* ---------- run-length lemmas ---------- *)
Lemma repeat_shift {A} (x : A) n l : repeat x n ++ x :: l = repeat x (S n) ++ l.
Proof. induction n as [|n IH]; cbn [repeat app]; [reflexivity|]. f_equal. exact IH. Qed.

Section RleProofs.
  Context {A : Type} (eqb : A -> A -> bool) (cap : Z).

  Lemma rle_go_expand : forall l cur run,
    (forall x y, In x (cur :: l) -> In y (cur :: l) -> eqb x y = true -> x = y) ->
    0 <= run ->
    rle_expand (rle_go eqb cap cur run l) = repeat cur (Z.to_nat run) ++ l.
  Proof.
    induction l as [|v r IH]; intros cur run Hs Hr; cbn [rle_go].
    - unfold rle_expand. cbn [flat_map fst snd]. reflexivity.
    - destruct (eqb v cur && (run <? cap)) eqn:E.
      + apply andb_true_iff in E as [E _].
        assert (v = cur) as -> by (apply Hs; cbn; auto).
        rewrite IH; [| intros x y Hx Hy; apply Hs; cbn in *; tauto | lia].
        replace (Z.to_nat (run + 1)) with (S (Z.to_nat run)) by lia.
        symmetry. apply repeat_shift.
      + unfold rle_expand. cbn [flat_map fst snd]. fold (@rle_expand A (rle_go eqb cap v 1 r)).
        rewrite IH; [| intros x y Hx Hy; apply Hs; cbn in *; tauto | lia].
        reflexivity.
  Qed.

  Lemma rle_expand_compress_gen l :
    (forall x y, In x l -> In y l -> eqb x y = true -> x = y) ->
    rle_expand (rle_compress eqb cap l) = l.
  Proof.
    destruct l as [|v r]; intros Hs; [reflexivity|]. cbn [rle_compress].
    rewrite rle_go_expand; [reflexivity | exact Hs | lia].
  Qed.

  (* every run length is between 1 and max(cap, 1): current_run never exceeds i32::MAX *)
  Lemma rle_go_bounded : forall l cur run, 1 <= run -> run <= Z.max cap 1 ->
    Forall (fun p => 1 <= snd p <= Z.max cap 1) (rle_go eqb cap cur run l).
  Proof.
    induction l as [|v r IH]; intros cur run H1 H2; cbn [rle_go].
    - constructor; [cbn; lia | constructor].
    - destruct (eqb v cur && (run <? cap)) eqn:E.
      + apply andb_true_iff in E as [_ E]. apply Z.ltb_lt in E. apply IH; lia.
      + constructor; [cbn; lia | apply IH; lia].
  Qed.
End RleProofs.

Lemma rle_expand_compress cap (l : list scalar) :
  forallb (fun s => match s with SFloat64 _ => false | _ => true end) l = true ->
  rle_expand (rle_compress scalar_eqb cap l) = l.
Proof.
  intros Hn. apply rle_expand_compress_gen. intros x y Hx Hy E.
  rewrite forallb_forall in Hn. pose proof (Hn x Hx) as Nx.
  destruct x, y; cbn [scalar_eqb] in E; try discriminate; try reflexivity.
  - apply Z.eqb_eq in E. congruence.
  - apply Z.eqb_eq in E. congruence.
  - apply zlist_eqb_spec in E. congruence.
Qed.

(* Float64 runs are cut with `==`, so a run may merge +0.0 and -0.0 and keep only the first bit
   pattern: the (dropped) run vectors do not reproduce the array bit-for-bit.  Harmless only
   because encode_rle returns the original array. *)
Lemma rle_signed_zero_refuted :
  rle_expand (rle_compress scalar_eqb i32_max [SFloat64 0; SFloat64 two63]) <> [SFloat64 0; SFloat64 two63].
Proof. vm_compute. discriminate. Qed.

(* ---------- dictionary lemmas ---------- *)
Lemma dict_decode_seq_gen : forall (l pre : list (option value)),
  map (fun k => nth k (pre ++ l) None) (seq (length pre) (length l)) = l.
Proof.
  induction l as [|x l IH]; intros pre; [reflexivity|].
  cbn [length seq map]. f_equal.
  - rewrite app_nth2 by lia. now rewrite Nat.sub_diag.
  - specialize (IH (pre ++ [x])). rewrite <- app_assoc in IH. cbn [app] in IH.
    rewrite app_length in IH. cbn [length] in IH. rewrite Nat.add_1_r in IH. exact IH.
Qed.
Lemma dict_decode_seq l : dict_decode (seq 0 (length l)) l = l.
Proof. unfold dict_decode. exact (dict_decode_seq_gen l []). Qed.
Lemma dict_keys_valid n : Forall (fun k => (k < n)%nat) (seq 0 n).
Proof. apply Forall_forall. intros k H. apply in_seq in H. lia. Qed.

(* ---------- per-encoding round trips ---------- *)
Lemma map_const {A B} (f : A -> B) c l : (forall x, In x l -> f x = c) -> map f l = repeat c (length l).
Proof.
  induction l as [|x l IH]; intros H; [reflexivity|]. cbn [map length repeat].
  rewrite (H x) by (now left). f_equal. apply IH. intros y Hy. apply H. now right.
Qed.

Lemma encode_flat_ok a : encode_as Flat a = EOk Flat (lview a) false.
Proof. reflexivity. Qed.

Lemma encode_dictionary_ok a : a_ty a = TUtf8 -> encode_as Dictionary a = EOk Dictionary (lview a) true.
Proof.
  intros T. unfold encode_as. rewrite T. f_equal.
  replace (length (a_slots a)) with (length (lview a)) by (unfold lview; apply map_length).
  apply dict_decode_seq.
Qed.

Lemma extract_some t s : well_typed_slot t s = true -> (t <> TInt32 \/ fst s = false) ->
  exists sc, extract t s = Some sc.
Proof.
  intros W H. unfold extract. destruct (fst s) eqn:V; cbn [negb]; [|eauto].
  unfold well_typed_slot in W. destruct t, (snd s); try discriminate; eauto.
  destruct H as [H|H]; congruence.
Qed.

Lemma encode_rle_ok a : well_typed a = true ->
  (a_ty a <> TInt32 \/ existsb fst (a_slots a) = false) ->
  encode_as RLE a = EOk RLE (lview a) false.
Proof.
  intros W H. unfold encode_as.
  replace (forallb _ (a_slots a)) with true; [reflexivity|].
  symmetry. apply forallb_forall. intros s Hs.
  unfold well_typed in W. rewrite forallb_forall in W.
  destruct (extract_some (a_ty a) s (W s Hs)) as [sc ->]; [|reflexivity].
  destruct H as [H|H]; [now left|right].
  destruct (fst s) eqn:V; [|reflexivity].
  assert (existsb fst (a_slots a) = true) by (apply existsb_exists; eauto). congruence.
Qed.

Lemma all_eq_repeat (f : option value) l :
  forallb (fun v => optv_eqb v f) l = true -> l = repeat f (length l).
Proof.
  intros H. rewrite forallb_forall in H. rewrite <- (map_id l) at 1.
  apply map_const. intros x Hx. now apply optv_eqb_spec, H.
Qed.

Lemma has_null_false a : has_null a = false -> forall s, In s (a_slots a) -> fst s = true.
Proof.
  unfold has_null. intros H. apply negb_false_iff in H. rewrite forallb_forall in H. exact H.
Qed.

Lemma encode_constant_ok a : well_typed a = true -> is_constant a = true -> has_null a = false ->
  ty_in (a_ty a) [TInt64; TFloat64; TUtf8] = true ->
  encode_as Constant a = EOk Constant (lview a) false.
Proof.
  intros W C N T. pose proof (has_null_false a N) as V.
  unfold well_typed in W. rewrite forallb_forall in W.
  unfold encode_as, is_constant in *. unfold lview in *.
  destruct (a_slots a) as [|s0 r] eqn:SL; [reflexivity|].
  assert (V0 : fst s0 = true) by (apply V; now left).
  assert (W0 := W s0 (or_introl eq_refl)).
  destruct r as [|s1 r'].
  - (* a single valid slot *)
    cbn [map length]. unfold extract, lslot. rewrite V0. cbn [negb].
    unfold well_typed_slot in W0.
    destruct (a_ty a), (snd s0); try discriminate; reflexivity.
  - cbn [length Nat.leb] in C.
    destruct (a_ty a) eqn:TY; try discriminate.
    + (* Int64: raw values all equal, all valid *)
      unfold extract. rewrite V0. cbn [negb]. unfold well_typed_slot in W0.
      destruct (snd s0) as [z|] eqn:S0; [|discriminate]. cbn [const_to_arrow].
      f_equal. symmetry. rewrite <- (map_length lslot). rewrite map_length.
      apply map_const. intros s Hs. rewrite forallb_forall in C.
      unfold lslot. rewrite (V s Hs). f_equal. now apply value_eqb_spec, C.
    + (* Utf8: logical items all equal to the first *)
      apply all_eq_repeat in C. rewrite map_length in C.
      unfold extract. rewrite V0. cbn [negb]. unfold well_typed_slot in W0.
      destruct (snd s0) as [|x] eqn:S0; [discriminate|]. cbn [const_to_arrow].
      f_equal. rewrite C at 1. unfold lslot at 1. rewrite V0, S0. reflexivity.
Qed.

(* ---------- the chosen encoding round-trips ---------- *)
Theorem encode_roundtrip : forall trle tdict a,
  well_typed a = true -> known_const_null a = false -> known_enc_unsupported trle a = false ->
  exists e dt, encode_optimal trle tdict a = EOk e (lview a) dt.
Proof.
  intros trle tdict a W K1 K2. unfold encode_optimal, analyze.
  destruct (alen a =? 0)%nat eqn:L0; [eauto using encode_flat_ok|].
  apply Nat.eqb_neq in L0.
  destruct (is_constant a) eqn:C.
  - exists Constant, false. apply encode_constant_ok; auto.
    + unfold known_const_null in K1. rewrite C in K1.
      destruct (ty_in (a_ty a) [TInt64; TFloat64; TUtf8]) eqn:T; cbn [andb] in K1; [exact K1|].
      exfalso. unfold known_enc_unsupported in K2. unfold is_constant, alen in *.
      destruct (a_slots a) as [|s0 [|s1 r]]; cbn [length] in *; try lia;
        destruct (a_ty a); cbn in T, K2, C; congruence.
    + unfold known_const_null in K1. rewrite C in K1.
      destruct (ty_in (a_ty a) [TInt64; TFloat64; TUtf8]) eqn:T; [reflexivity|].
      exfalso. unfold known_enc_unsupported in K2. unfold is_constant, alen in *.
      destruct (a_slots a) as [|s0 [|s1 r]]; cbn [length] in *; try lia;
        destruct (a_ty a); cbn in T, K2, C; congruence.
  - destruct (rle_selected trle a) eqn:R.
    + exists RLE, false. apply encode_rle_ok; [exact W|].
      destruct (a_ty a) eqn:TY; try (left; discriminate). right.
      unfold known_enc_unsupported in K2. rewrite TY, R in K2.
      assert (2 <= alen a)%nat as L2.
      { unfold is_constant, alen in *. destruct (length (a_slots a) <=? 1)%nat eqn:E; [discriminate|].
        apply Nat.leb_gt in E. lia. }
      apply Nat.leb_le in L2. rewrite L2 in K2. cbn [andb] in K2.
      apply orb_false_iff in K2 as [_ K2]. exact K2.
    + destruct (dict_selected tdict a) eqn:D; [|eauto using encode_flat_ok].
      exists Dictionary, true. apply encode_dictionary_ok.
      unfold dict_selected in D. destruct (a_ty a); congruence.
Qed.

Corollary encode_roundtrip_spec : forall trle tdict a,
  well_typed a = true -> known_const_null a = false -> known_enc_unsupported trle a = false ->
  enc_spec_ok a (encode_optimal trle tdict a) = true.
Proof.
  intros trle tdict a W K1 K2. destruct (encode_roundtrip trle tdict a W K1 K2) as (e & dt & ->).
  cbn [enc_spec_ok]. now apply view_eqb_spec.
Qed.

(* sliced arrays are arrays: the statement above instantiated at a window *)
Corollary encode_roundtrip_sliced : forall trle tdict off len a,
  well_typed (aslice off len a) = true -> known_const_null (aslice off len a) = false ->
  known_enc_unsupported trle (aslice off len a) = false ->
  exists e dt, encode_optimal trle tdict (aslice off len a)
               = EOk e (firstn len (skipn off (lview a))) dt.
Proof.
  intros. rewrite <- lview_aslice. now apply encode_roundtrip.
Qed.

(* ---------- the two classes are exact: inside them the round trip fails ---------- *)
Lemma const_to_arrow_shape sc t n d : const_to_arrow sc t n = Some d -> exists x, d = repeat (Some x) n.
Proof.
  unfold const_to_arrow. destruct sc, t; intros H; inversion H; eauto.
Qed.
Lemma repeat_some_all_valid : forall (sl : list slot) x n,
  list_eqb optv_eqb (repeat (Some x) n) (map lslot sl) = true -> forallb fst sl = true.
Proof.
  induction sl as [|s sl IH]; intros x n H; [reflexivity|].
  destruct n as [|n]; cbn [repeat map list_eqb] in H; [discriminate|].
  apply andb_true_iff in H as [H1 H2]. cbn [forallb].
  unfold lslot in H1. destruct (fst s); [|discriminate]. cbn [andb]. eapply IH; eauto.
Qed.

Theorem known_const_null_exact : forall trle tdict a,
  known_const_null a = true -> enc_spec_ok a (encode_optimal trle tdict a) = false.
Proof.
  intros trle tdict a K. unfold known_const_null in K.
  apply andb_true_iff in K as [K N]. apply andb_true_iff in K as [T C].
  unfold encode_optimal, analyze. rewrite C.
  assert (alen a =? 0 = false)%nat as ->.
  { apply Nat.eqb_neq. unfold alen, has_null in *. destruct (a_slots a); [discriminate | cbn; lia]. }
  unfold encode_as. destruct (a_slots a) as [|s0 r] eqn:SL.
  - unfold has_null in N. rewrite SL in N. discriminate.
  - destruct (extract (a_ty a) s0) as [sc|]; [|reflexivity].
    destruct (const_to_arrow sc (a_ty a) (length (s0 :: r))) as [d|] eqn:E; [|reflexivity].
    apply const_to_arrow_shape in E as [x ->]. cbn [enc_spec_ok].
    destruct (list_eqb optv_eqb _ (lview a)) eqn:Q; [|reflexivity].
    unfold lview in Q. apply repeat_some_all_valid in Q. unfold has_null in N. rewrite Q in N. discriminate.
Qed.

Theorem known_enc_unsupported_exact : forall trle tdict a,
  known_enc_unsupported trle a = true -> enc_spec_ok a (encode_optimal trle tdict a) = false.
Proof.
  intros trle tdict a K. unfold known_enc_unsupported in K.
  unfold encode_optimal, analyze, is_constant, alen in *.
  destruct (a_ty a) eqn:TY; try discriminate.
  - (* Int32 *)
    apply orb_true_iff in K as [K|K].
    + apply Nat.eqb_eq in K. destruct (a_slots a) as [|s0 [|s1 r]] eqn:SL; cbn [length] in K; try lia.
      cbn [length Nat.eqb Nat.leb]. unfold encode_as. rewrite SL, TY. unfold extract.
      destruct (fst s0); cbn [negb]; [destruct (snd s0)|]; reflexivity.
    + apply andb_true_iff in K as [K E]. apply andb_true_iff in K as [L R].
      apply Nat.leb_le in L.
      destruct (length (a_slots a) =? 0)%nat eqn:L0; [apply Nat.eqb_eq in L0; lia|].
      destruct (length (a_slots a) <=? 1)%nat eqn:L1; [apply Nat.leb_le in L1; lia|].
      unfold alen in R. rewrite R. unfold encode_as. rewrite TY.
      replace (forallb _ (a_slots a)) with false; [reflexivity|].
      symmetry. apply not_true_iff_false. intros F. rewrite forallb_forall in F.
      apply existsb_exists in E as (s & Hs & V). specialize (F s Hs). unfold extract in F.
      rewrite V in F. cbn [negb] in F. destruct (snd s); discriminate.
  - (* Boolean *)
    apply Nat.eqb_eq in K. destruct (a_slots a) as [|s0 [|s1 r]] eqn:SL; cbn [length] in K; try lia.
    cbn [length Nat.eqb Nat.leb]. unfold encode_as. rewrite SL, TY. unfold extract.
    destruct (fst s0); cbn [negb]; [destruct (snd s0)|]; reflexivity.
Qed.

Lemma const_null_refuted :
  exists a, well_typed a = true /\
    encode_optimal default_rle_thr default_dict_thr a = EOk Constant [Some (VI 7); Some (VI 7)] false /\
    lview a = [Some (VI 7); None].
Proof. exists (mkArr TInt64 [(true, VI 7); (false, VI 7)]). vm_compute. auto. Qed.
Lemma const_all_null_refuted :
  exists a, well_typed a = true /\
    encode_optimal default_rle_thr default_dict_thr a = EOk Constant [Some (VS []); Some (VS [])] false /\
    lview a = [None; None].
Proof. exists (mkArr TUtf8 [(false, VS []); (false, VS [])]). vm_compute. auto. Qed.
Lemma enc_unsupported_refuted :
  encode_optimal default_rle_thr default_dict_thr (mkArr TInt32 [(true, VI 5)]) = EErr /\
  encode_optimal default_rle_thr default_dict_thr (mkArr TBool [(true, VI 1)]) = EPanic /\
  encode_optimal default_rle_thr default_dict_thr
     (mkArr TInt32 (repeat (true, VI 1) 10)) = EErr.
Proof. vm_compute. auto. Qed.

(* ------------------------------------------------------------------ *)
(* kernels *)
Lemma zip_in {A B} : forall (l : list A) (r : list B) p, In p (zip l r) -> In (fst p) l /\ In (snd p) r.
Proof.
  induction l as [|x l IH]; intros [|y r] p H; cbn [zip] in H; try contradiction.
  destruct H as [<-|H]; cbn; auto. apply IH in H. tauto.
Qed.
Lemma all_some_neq (l l' : list (option value)) :
  ~ In None l -> In None l' -> l <> l'.
Proof. intros H1 H2 E. subst. contradiction. Qed.

(* filter *)
Theorem filter_matches_arrow : forall a pred,
  ty_in (a_ty a) [TInt64; TFloat64; TBool] = true -> known_filter_null a pred = false ->
  filter_simd a pred = arrow_filter a pred.
Proof.
  intros a pred T K. unfold filter_simd, arrow_filter. rewrite T.
  destruct (negb (alen a =? length pred)%nat); [reflexivity|]. f_equal.
  unfold known_filter_null in K. induction (zip (a_slots a) pred) as [|p ps IH]; [reflexivity|].
  cbn [existsb] in K. apply orb_false_iff in K as [K1 K2]. cbn [filter].
  destruct p as [s b]. cbn [fst snd] in *. destruct b; cbn [andb] in *.
  - apply negb_false_iff in K1. rewrite K1. cbn [map fst snd]. unfold lslot at 1. rewrite K1. f_equal. now apply IH.
  - now apply IH.
Qed.

Theorem known_filter_null_exact : forall a pred,
  ty_in (a_ty a) [TInt64; TFloat64; TBool] = true -> alen a = length pred ->
  known_filter_null a pred = true -> filter_simd a pred <> arrow_filter a pred.
Proof.
  intros a pred T L K. unfold filter_simd, arrow_filter. rewrite T, L, Nat.eqb_refl. cbn [negb].
  intros E. inversion E as [E']. revert E'. apply all_some_neq.
  - intros H. apply in_map_iff in H as (p & Hp & _). discriminate.
  - unfold known_filter_null in K. apply existsb_exists in K as ([[v x] b] & Hp & Q).
    cbn [fst snd] in Q. apply andb_true_iff in Q as [Q1 Q2]. apply negb_true_iff in Q2. subst.
    apply in_map_iff. exists (false, x, true). split; [reflexivity|].
    apply filter_In. auto.
Qed.

Lemma filter_refuted :
  let a := mkArr TInt64 [(true, VI 1); (false, VI 0); (true, VI 3)] in
  filter_simd a [true; true; false] = KOk [Some (VI 1)] /\
  arrow_filter a [true; true; false] = KOk [Some (VI 1); None].
Proof. vm_compute. auto. Qed.
Lemma filter_type_refuted :
  let a := mkArr TInt32 [(true, VI 1)] in
  filter_simd a [true] = KErr /\ arrow_filter a [true] = KOk [Some (VI 1)].
Proof. vm_compute. auto. Qed.

(* compare *)
Lemma cmp_table (ka kb : Z) (op : cmpop) :
  match op with
  | OEq => ka =? kb
  | ONe => negb (ka =? kb)
  | OLt => ka <? kb
  | OLe => (ka <? kb) || (ka =? kb)
  | OGt => kb <? ka
  | OGe => (kb <? ka) || (kb =? ka)
  end =
  match op, ka ?= kb with
  | OEq, Eq => true | OEq, _ => false
  | ONe, Eq => false | ONe, _ => true
  | OLt, Lt => true | OLt, _ => false
  | OLe, Gt => false | OLe, _ => true
  | OGt, Gt => true | OGt, _ => false
  | OGe, Lt => false | OGe, _ => true
  end.
Proof.
  destruct (Z.compare_spec ka kb) as [E|E|E], op;
    repeat match goal with
    | |- context [?x =? ?y] => destruct (Z.eqb_spec x y)
    | |- context [?x <? ?y] => destruct (Z.ltb_spec x y)
    end; cbn; try reflexivity; lia.
Qed.

Definition bits_ok (b : Z) : Prop := 0 <= b < two64.

Lemma f_mag_cases b : bits_ok b ->
  (f_neg b = false /\ f_mag b = b /\ b < two63) \/ (f_neg b = true /\ f_mag b = b - two63 /\ two63 <= b).
Proof.
  unfold bits_ok, f_neg, f_mag, two64. intros H.
  destruct (Z.leb_spec two63 b) as [L|L]; [right|left]; repeat split; try lia.
  - replace b with ((b - two63) + 1 * two63) at 1 by lia. rewrite Z.mod_add by (unfold two63; lia).
    apply Z.mod_small. unfold two63 in *. lia.
  - apply Z.mod_small. lia.
Qed.

Lemma float_cmp_agree a b : bits_ok a -> bits_ok b ->
  (f_zero a && f_zero b && negb (a =? b)) = false ->
  (f_key a ?= f_key b) = (tot_key a ?= tot_key b).
Proof.
  intros Ha Hb Z0. unfold f_key, tot_key.
  destruct (f_mag_cases a Ha) as [(Na & Ma & La)|(Na & Ma & La)];
  destruct (f_mag_cases b Hb) as [(Nb & Mb & Lb)|(Nb & Mb & Lb)];
  rewrite Na, Nb, Ma, Mb.
  - reflexivity.
  - unfold bits_ok in *.
    assert (a = 0 /\ b = two63 -> False) as NZ.
    { intros [-> ->]. vm_compute in Z0. discriminate. }
    destruct (Z.compare_spec a (- (b - two63))); destruct (Z.compare_spec a (- (b - two63) - 1));
      try reflexivity; try lia.
  - unfold bits_ok in *.
    assert (a = two63 /\ b = 0 -> False) as NZ.
    { intros [-> ->]. vm_compute in Z0. discriminate. }
    destruct (Z.compare_spec (- (a - two63)) b); destruct (Z.compare_spec (- (a - two63) - 1) b);
      try reflexivity; try lia.
  - destruct (Z.compare_spec (- (a - two63)) (- (b - two63)));
      destruct (Z.compare_spec (- (a - two63) - 1) (- (b - two63) - 1)); try reflexivity; lia.
Qed.

Lemma code_cmp_int op x y : code_cmp TInt64 op x y = arrow_cmp_val TInt64 op x y.
Proof.
  unfold code_cmp, code_eq, code_lt, arrow_cmp_val, arrow_ord.
  pose proof (cmp_table (vz x) (vz y) op) as H.
  destruct x, y; exact H.
Qed.

Lemma code_cmp_float op x y : bits_ok x -> bits_ok y ->
  float_special_pair ((true, VI x), (true, VI y)) = false ->
  code_cmp TFloat64 op (VI x) (VI y) = arrow_cmp_val TFloat64 op (VI x) (VI y).
Proof.
  intros Hx Hy S. unfold float_special_pair in S. cbn [fst snd vz] in S.
  apply orb_false_iff in S as [S Z0]. apply orb_false_iff in S as [Nx Ny].
  unfold code_cmp, code_eq, code_lt, arrow_cmp_val, arrow_ord, ieee_eq, ieee_lt. cbn [vz].
  rewrite Nx, Ny. cbn [negb andb].
  rewrite <- (float_cmp_agree x y Hx Hy Z0).
  exact (cmp_table (f_key x) (f_key y) op).
Qed.

Definition f64_bits_ok (a : arr) : Prop :=
  a_ty a = TFloat64 -> forall s, In s (a_slots a) -> exists b, snd s = VI b /\ bits_ok b.

Theorem compare_matches_arrow : forall l r op,
  ty_in (a_ty l) [TInt64; TFloat64] = true -> a_ty r = a_ty l ->
  f64_bits_ok l -> f64_bits_ok r ->
  known_cmp_null l r = false -> known_cmp_float_order l r = false ->
  compare_simd l r op = arrow_cmp l r op.
Proof.
  intros l r op T TR Bl Br KN KF. unfold compare_simd, arrow_cmp. rewrite T, TR.
  assert (dtype_eqb (a_ty l) (a_ty l) = true) as -> by (destruct (a_ty l); reflexivity).
  cbn [andb negb]. destruct (negb (alen l =? alen r)%nat); [reflexivity|]. f_equal.
  unfold known_cmp_null in KN. apply orb_false_iff in KN as [Nl Nr].
  pose proof (has_null_false l Nl) as Vl. pose proof (has_null_false r Nr) as Vr.
  apply map_ext_in. intros p Hp. apply zip_in in Hp as Hq. destruct Hq as [Hpl Hpr].
  rewrite (Vl _ Hpl), (Vr _ Hpr). cbn [andb]. do 2 f_equal.
  destruct (a_ty l) eqn:TY; try discriminate.
  - apply code_cmp_int.
  - unfold known_cmp_float_order in KF. rewrite TY in KF. cbn [dtype_eqb andb] in KF.
    assert (float_special_pair p = false) as SP.
    { apply not_true_iff_false. intros F. apply not_true_iff_false in KF. apply KF.
      apply existsb_exists. eauto. }
    destruct (Bl TY _ Hpl) as (x & Ex & Hx).
    destruct (Br TR _ Hpr) as (y & Ey & Hy).
    destruct p as [[v1 x1] [v2 y1]]. cbn [fst snd] in *. subst x1 y1.
    apply code_cmp_float; auto.
Qed.

Lemma compare_null_refuted :
  let l := mkArr TInt64 [(true, VI 1); (false, VI 0)] in
  let r := mkArr TInt64 [(true, VI 1); (true, VI 0)] in
  compare_simd l r OEq = KOk [Some (VI 1); Some (VI 1)] /\ arrow_cmp l r OEq = KOk [Some (VI 1); None].
Proof. vm_compute. auto. Qed.
(* NaN == NaN is false for the helper, true for arrow; -0.0 == +0.0 is true for the helper, false for arrow *)
Lemma compare_float_order_refuted :
  let nan := 9221120237041090560 in
  let l := mkArr TFloat64 [(true, VI nan); (true, VI two63)] in
  let r := mkArr TFloat64 [(true, VI nan); (true, VI 0)] in
  compare_simd l r OEq = KOk [Some (VI 0); Some (VI 1)] /\ arrow_cmp l r OEq = KOk [Some (VI 1); Some (VI 0)].
Proof. vm_compute. auto. Qed.
Lemma compare_type_refuted :
  let l := mkArr TInt32 [(true, VI 1)] in
  compare_simd l l OEq = KErr /\ arrow_cmp l l OEq = KOk [Some (VI 1)].
Proof. vm_compute. auto. Qed.

Lemma null_pair_exists : forall (xs ys : list slot), length xs = length ys ->
  negb (forallb fst xs) || negb (forallb fst ys) = true ->
  exists p, In p (zip xs ys) /\ fst (fst p) && fst (snd p) = false.
Proof.
  induction xs as [|x xs IH]; intros [|y ys] L K; cbn [length] in L; try lia.
  - cbn in K. discriminate.
  - cbn [zip]. destruct (fst x && fst y) eqn:Q.
    + apply andb_true_iff in Q as [Qx Qy]. cbn [forallb] in K. rewrite Qx, Qy in K. cbn [andb] in K.
      destruct (IH ys) as (p & Hp & Hq); [lia | exact K |]. exists p. split; [now right | exact Hq].
    + exists (x, y). split; [now left | exact Q].
Qed.

Theorem known_cmp_null_exact : forall l r op,
  ty_in (a_ty l) [TInt64; TFloat64] = true -> a_ty r = a_ty l -> alen l = alen r ->
  known_cmp_null l r = true -> compare_simd l r op <> arrow_cmp l r op.
Proof.
  intros l r op T TR L K. unfold compare_simd, arrow_cmp. rewrite T, TR, L, Nat.eqb_refl.
  assert (dtype_eqb (a_ty l) (a_ty l) = true) as -> by (destruct (a_ty l); reflexivity).
  unfold alen in L. unfold known_cmp_null, has_null in K.
  cbn [andb negb]. intros E. inversion E as [E']. revert E'. apply all_some_neq.
  - intros H. apply in_map_iff in H as (p & Hp & _). discriminate.
  - destruct (null_pair_exists (a_slots l) (a_slots r) L K) as (p & Hp & Q).
    destruct p as [[v1 x1] [v2 y1]]. cbn [fst snd] in Q.
    apply in_map_iff. exists (v1, x1, (v2, y1)). split; [cbn [fst snd]; now rewrite Q | exact Hp].
Qed.

(* add / multiply *)
Lemma forallb_map' {A B} (f : B -> bool) (g : A -> B) l : forallb f (map g l) = forallb (fun x => f (g x)) l.
Proof. induction l as [|x l IH]; [reflexivity|]. cbn [map forallb]. now rewrite IH. Qed.
Section ArithProofs.
  Variable iop fop : Z -> Z -> Z.

  Lemma pairs_valid l r : known_arith_null l r = false ->
    forall p, In p (zip (a_slots l) (a_slots r)) -> fst (fst p) && fst (snd p) = true.
  Proof.
    intros K p Hp. unfold known_arith_null in K. apply orb_false_iff in K as [Nl Nr].
    apply zip_in in Hp as [Hl Hr].
    now rewrite (has_null_false l Nl _ Hl), (has_null_false r Nr _ Hr).
  Qed.

  (* against the checked kernels numeric::add / numeric::mul, for either build mode *)
  Theorem arith_matches_arrow : forall checks l r,
    ty_in (a_ty l) [TInt64; TFloat64] = true -> a_ty r = a_ty l -> alen l = alen r ->
    known_arith_null l r = false -> known_arith_overflow iop l r = false ->
    arith_simd checks iop fop l r = arrow_arith iop fop false l r.
  Proof.
    intros checks l r T TR L KN KO. pose proof (pairs_valid l r KN) as V.
    unfold arith_simd, arrow_arith. rewrite TR, L, Nat.eqb_refl, Nat.ltb_irrefl.
    assert (dtype_eqb (a_ty l) (a_ty l) = true) as -> by (destruct (a_ty l); reflexivity).
    cbn [negb]. unfold known_arith_overflow in KO.
    destruct (a_ty l) eqn:TY; try discriminate; cbn [dtype_eqb ty_in existsb orb negb andb] in *.
    - rewrite forallb_map'. apply negb_false_iff in KO. rewrite KO. cbn [negb andb].
      replace (forallb _ (zip (a_slots l) (a_slots r))) with true.
      + cbn [negb]. rewrite map_map, ?andb_false_r. f_equal. apply map_ext_in. intros p Hp. now rewrite (V p Hp).
      + symmetry. apply forallb_forall. intros p Hp. rewrite forallb_forall in KO.
        pose proof (KO p Hp) as Q. destruct p as [[v1 x1] [v2 y1]]. cbn [fst snd] in *.
        rewrite Q. apply orb_true_r.
    - f_equal. apply map_ext_in. intros p Hp. now rewrite (V p Hp).
  Qed.

  (* without overflow checks (release profile) the helper is numeric::add_wrapping / mul_wrapping
     on NULL-free inputs, overflow or not *)
  Theorem arith_matches_arrow_wrapping : forall l r,
    ty_in (a_ty l) [TInt64; TFloat64] = true -> a_ty r = a_ty l -> alen l = alen r ->
    known_arith_null l r = false ->
    arith_simd false iop fop l r = arrow_arith iop fop true l r.
  Proof.
    intros l r T TR L KN. pose proof (pairs_valid l r KN) as V.
    unfold arith_simd, arrow_arith. rewrite TR, L, Nat.eqb_refl, Nat.ltb_irrefl.
    assert (dtype_eqb (a_ty l) (a_ty l) = true) as -> by (destruct (a_ty l); reflexivity).
    cbn [negb andb].
    destruct (a_ty l) eqn:TY; try discriminate; cbn [dtype_eqb ty_in existsb orb negb andb] in *.
    - rewrite map_map. f_equal. apply map_ext_in. intros p Hp. now rewrite (V p Hp).
    - f_equal. apply map_ext_in. intros p Hp. now rewrite (V p Hp).
  Qed.
End ArithProofs.

Lemma add_null_refuted :
  let l := mkArr TInt64 [(true, VI 1); (false, VI 5)] in
  let r := mkArr TInt64 [(true, VI 2); (true, VI 2)] in
  (forall c, arith_simd c Z.add Z.add l r = KOk [Some (VI 3); Some (VI 7)]) /\
  arrow_arith Z.add Z.add false l r = KOk [Some (VI 3); None].
Proof. split; [intros []|]; vm_compute; reflexivity. Qed.
Lemma add_overflow_refuted :
  let l := mkArr TInt64 [(true, VI i64_max)] in
  let r := mkArr TInt64 [(true, VI 1)] in
  arith_simd true Z.add Z.add l r = KPanic /\
  arith_simd false Z.add Z.add l r = KOk [Some (VI i64_min)] /\
  arrow_arith Z.add Z.add false l r = KErr.
Proof. vm_compute. auto. Qed.
Lemma mul_overflow_refuted :
  let l := mkArr TInt64 [(true, VI 4294967296)] in
  let r := mkArr TInt64 [(true, VI 4294967296)] in
  arith_simd true Z.mul Z.mul l r = KPanic /\
  arith_simd false Z.mul Z.mul l r = KOk [Some (VI 0)] /\
  arrow_arith Z.mul Z.mul false l r = KErr.
Proof. vm_compute. auto. Qed.
Lemma arith_type_refuted :
  let l := mkArr TInt32 [(true, VI 1)] in
  arith_simd true Z.add Z.add l l = KErr /\ arrow_arith Z.add Z.add false l l = KOk [Some (VI 2)].
Proof. vm_compute. auto. Qed.

(* sum *)
Definition E64 (x : Z) : Z := (x + two63) mod two64.
Lemma wrap64_range z : in_i64 (wrap64 z) = true.
Proof.
  unfold in_i64, wrap64, i64_min, i64_max.
  pose proof (Z.mod_pos_bound (z + two63) two64 ltac:(unfold two64; lia)) as H.
  apply andb_true_iff. split; apply Z.leb_le; unfold two63, two64 in *; lia.
Qed.
Lemma wrap64_id z : in_i64 z = true -> wrap64 z = z.
Proof.
  unfold in_i64, wrap64, i64_min, i64_max. intros H. apply andb_true_iff in H as [H1 H2].
  apply Z.leb_le in H1, H2. rewrite Z.mod_small; unfold two63, two64 in *; lia.
Qed.
Lemma wrap64_unique s z : in_i64 s = true -> E64 s = E64 z -> s = wrap64 z.
Proof.
  unfold in_i64, wrap64, E64, i64_min, i64_max. intros H E. apply andb_true_iff in H as [H1 H2].
  apply Z.leb_le in H1, H2. rewrite <- E. rewrite Z.mod_small; unfold two63, two64 in *; lia.
Qed.
Lemma E64_wrap t x : E64 (wrap64 t + x) = E64 (t + x).
Proof.
  unfold E64, wrap64.
  replace ((t + two63) mod two64 - two63 + x + two63) with ((t + two63) mod two64 + x) by lia.
  rewrite Z.add_mod_idemp_l by (unfold two64; lia). f_equal. lia.
Qed.

Definition svals (l : list slot) : list Z := map (fun s => vz (snd s)) (filter fst l).

Lemma sum_go_spec checks : forall l acc,
  in_i64 acc = true -> (checks = false \/ partial_overflow acc (svals l) = false) ->
  exists s, sum_i64_go checks acc l = Some s /\ in_i64 s = true /\ E64 s = E64 (acc + zsum (svals l)).
Proof.
  induction l as [|x l IH]; intros acc Hacc Hc.
  - exists acc. cbn. rewrite Z.add_0_r. auto.
  - cbn [sum_i64_go]. unfold svals in *. destruct x as [v xv]. cbn [filter fst snd] in *. destruct v.
    + cbn [map fst snd] in *. rewrite zsum_cons.
      destruct (in_i64 (acc + vz xv)) eqn:R.
      * destruct (IH (acc + vz xv) R) as (s & E1 & E2 & E3).
        { destruct Hc as [Hc|Hc]; [now left|right]. cbn [partial_overflow] in Hc. rewrite R in Hc.
          cbn [negb orb] in Hc. now rewrite wrap64_id in Hc. }
        exists s. repeat split; auto. rewrite E3. f_equal. lia.
      * destruct Hc as [->|Hc]; [|cbn [partial_overflow] in Hc; rewrite R in Hc; discriminate].
        destruct (IH (wrap64 (acc + vz xv)) (wrap64_range _) (or_introl eq_refl)) as (s & E1 & E2 & E3).
        exists s. repeat split; auto. rewrite E3, E64_wrap. f_equal. lia.
    + apply IH; auto.
Qed.

Theorem sum_matches_arrow : forall checks fadd a,
  ty_in (a_ty a) [TInt64; TFloat64] = true -> known_sum_all_null a = false ->
  (checks = false \/ known_sum_overflow a = false) ->
  sum_simd checks fadd a = arrow_sum fadd a.
Proof.
  intros checks fadd a T KN KO. unfold known_sum_all_null in KN. rewrite T in KN. cbn [andb] in KN.
  apply negb_false_iff in KN. unfold sum_simd, arrow_sum. rewrite KN.
  destruct (a_ty a) eqn:TY; try discriminate; [|reflexivity].
  destruct (sum_go_spec checks (a_slots a) 0 eq_refl) as (s & E1 & E2 & E3).
  { destruct KO as [KO|KO]; [now left|right]. unfold known_sum_overflow in KO. rewrite TY in KO. exact KO. }
  rewrite E1. cbn [Z.add] in E3.
  replace s with (wrap64 (zsum (valid_vals a))); [reflexivity|].
  symmetry. apply wrap64_unique; [exact E2 | exact E3].
Qed.

Lemma sum_go_all_null checks : forall l acc, existsb fst l = false -> sum_i64_go checks acc l = Some acc.
Proof.
  induction l as [|x l IH]; intros acc H; [reflexivity|]. cbn [existsb] in H.
  apply orb_false_iff in H as [H1 H2]. cbn [sum_i64_go]. rewrite H1. now apply IH.
Qed.
Theorem known_sum_all_null_exact : forall checks fadd a,
  known_sum_all_null a = true ->
  arrow_sum fadd a = KOk [None] /\ exists v, sum_simd checks fadd a = KOk [Some v].
Proof.
  intros checks fadd a K. unfold known_sum_all_null in K. apply andb_true_iff in K as [T N].
  apply negb_true_iff in N. unfold sum_simd, arrow_sum. rewrite N.
  destruct (a_ty a); try discriminate; split; try reflexivity.
  - rewrite sum_go_all_null by exact N. eauto.
  - eauto.
Qed.
Lemma sum_all_null_refuted :
  let a := mkArr TInt64 [(false, VI 9); (false, VI 9)] in
  (forall c f, sum_simd c f a = KOk [Some (VI 0)]) /\ (forall f, arrow_sum f a = KOk [None]).
Proof. split; [intros [] f|intros f]; vm_compute; reflexivity. Qed.
Lemma sum_empty_refuted :
  let a := mkArr TFloat64 [] in
  (forall c f, sum_simd c f a = KOk [Some (VI 0)]) /\ (forall f, arrow_sum f a = KOk [None]).
Proof. split; [intros [] f|intros f]; vm_compute; reflexivity. Qed.
(* with overflow checks the helper panics where arrow::compute::sum wraps *)
Lemma sum_overflow_refuted :
  let a := mkArr TInt64 [(true, VI i64_max); (true, VI 1)] in
  sum_simd true Z.add a = KPanic /\ sum_simd false Z.add a = KOk [Some (VI i64_min)] /\
  arrow_sum Z.add a = KOk [Some (VI i64_min)].
Proof. vm_compute. auto. Qed.
Lemma sum_type_refuted :
  let a := mkArr TInt32 [(true, VI 1)] in
  sum_simd true Z.add a = KErr /\ arrow_sum Z.add a = KOk [Some (VI 1)].
Proof. vm_compute. auto. Qed.

(* count: every type, NULLs, slices *)
Lemma filter_partition {A} (f : A -> bool) l :
  (length (filter f l) + length (filter (fun x => negb (f x)) l) = length l)%nat.
Proof. induction l as [|x l IH]; [reflexivity|]. cbn [filter]. destruct (f x); cbn [negb length]; lia. Qed.
Theorem count_matches_arrow : forall a, count_simd a = arrow_count a.
Proof.
  intros a. unfold count_simd, arrow_count, alen.
  pose proof (filter_partition (@fst bool value) (a_slots a)) as H. unfold slot in *.
  rewrite <- H at 1. rewrite Nat2Z.inj_add, Z.add_simpl_r. reflexivity.
Qed.

(* ---------- non-vacuity ---------- *)
Example encode_roundtrip_example :
  let a := aslice 1 12 (mkArr TUtf8 ((true, VS [120]) :: repeat (true, VS [97]) 6 ++ repeat (true, VS [98]) 6 ++ [(false, VS [])])) in
  well_typed a = true /\ known_const_null a = false /\ known_enc_unsupported default_rle_thr a = false /\
  analyze default_rle_thr default_dict_thr a = RLE /\
  enc_spec_ok a (encode_optimal default_rle_thr default_dict_thr a) = true.
Proof. vm_compute. auto 6. Qed.
Example encode_dictionary_example :
  let a := mkArr TUtf8 [(true, VS [97]); (true, VS [98]); (true, VS [97]); (true, VS [97]); (true, VS [98]); (true, VS [97])] in
  encode_optimal default_rle_thr default_dict_thr a = EOk Dictionary (lview a) true.
Proof. vm_compute. reflexivity. Qed.
Example compare_example :
  let l := mkArr TFloat64 [(true, VI 4607182418800017408); (true, VI 13830554455654793216)] in
  let r := mkArr TFloat64 [(true, VI 4611686018427387904); (true, VI 0)] in
  known_cmp_null l r = false /\ known_cmp_float_order l r = false /\
  compare_simd l r OLt = KOk [Some (VI 1); Some (VI 1)] /\ arrow_cmp l r OLt = KOk [Some (VI 1); Some (VI 1)].
Proof. vm_compute. auto. Qed.
Example sum_example :
  let a := aslice 1 3 (mkArr TInt64 [(true, VI 100); (true, VI 5); (false, VI 77); (true, VI (-9)); (true, VI 1)]) in
  known_sum_all_null a = false /\ known_sum_overflow a = false /\
  sum_simd true Z.add a = KOk [Some (VI (-4))] /\ arrow_sum Z.add a = KOk [Some (VI (-4))].
Proof. vm_compute. auto. Qed.
