(* C37 model: arrow_ffi::array (analyze_encoding / encode_optimal / EncodedArray::decode) and
   arrow_ffi::codec (filter_simd, compare_simd, add_simd, multiply_simd, sum_simd, count_simd),
   transcribed with their quirks, plus list-level definitions of the Arrow kernels they are
   compared with (arrow 58: compute::filter, cmp::{eq,neq,lt,lt_eq,gt,gt_eq}, numeric::{add,mul}
   (checked) and {add,mul}_wrapping, compute::sum (wrapping), len - null_count).
   anchors: src/arrow_ffi/array.rs, src/arrow_ffi/codec.rs

   Arrays are lists of slots (validity bit, PHYSICAL value).  The physical value is kept under
   NULL slots too because the code reads it there (Int64 `values()` in is_constant, `value(i)` in
   compare/add/multiply).  Float64 values are 64-bit patterns (Z in [0,2^64)); they are never
   given a numeric meaning except for IEEE / totalOrder COMPARISON (sign-magnitude order) and
   NaN detection.  Float addition/multiplication is a parameter (fadd/fmul). *)
From QV Require Export Base.Util.

Inductive dtype := TInt32 | TInt64 | TFloat64 | TUtf8 | TBool.
Inductive value := VI (z : Z) | VS (s : list Z).     (* ints, f64 bits, bool 0/1 | utf8 bytes *)
Definition slot := (bool * value)%type.
Record arr := mkArr { a_ty : dtype; a_slots : list slot }.

Definition dtype_eqb (a b : dtype) : bool :=
  match a, b with
  | TInt32, TInt32 | TInt64, TInt64 | TFloat64, TFloat64 | TUtf8, TUtf8 | TBool, TBool => true
  | _, _ => false
  end.
Definition value_eqb (a b : value) : bool :=
  match a, b with
  | VI x, VI y => x =? y
  | VS x, VS y => list_eqb Z.eqb x y
  | _, _ => false
  end.
Definition optv_eqb (a b : option value) : bool :=
  match a, b with
  | Some x, Some y => value_eqb x y
  | None, None => true
  | _, _ => false
  end.

(* Array::slice(off,len): a window; every accessor the code uses (value(i), is_null(i), values(),
   iter(), len()) is relative to the window, so the window IS the array the code sees. *)
Definition aslice (off len : nat) (a : arr) : arr :=
  mkArr (a_ty a) (firstn len (skipn off (a_slots a))).
Definition alen (a : arr) : nat := length (a_slots a).
Definition lslot (s : slot) : option value := if fst s then Some (snd s) else None.
Definition lview (a : arr) : list (option value) := map lslot (a_slots a).
Definition has_null (a : arr) : bool := negb (forallb fst (a_slots a)).
Definition well_typed_slot (t : dtype) (s : slot) : bool :=
  match t, snd s with
  | TUtf8, VS _ => true
  | TUtf8, VI _ => false
  | _, VI _ => true
  | _, VS _ => false
  end.
Definition well_typed (a : arr) : bool := forallb (well_typed_slot (a_ty a)) (a_slots a).

(* ------------------------------------------------------------------ *)
(* f64 bit patterns *)
Definition two63 : Z := 9223372036854775808.
Definition two64 : Z := 18446744073709551616.
Definition f_mag (b : Z) : Z := b mod two63.
Definition f_neg (b : Z) : bool := two63 <=? b.
Definition is_nan64 (b : Z) : bool := 9218868437227405312 <? f_mag b.   (* 0x7FF0_0000_0000_0000 *)
Definition f_zero (b : Z) : bool := (b =? 0) || (b =? two63).
(* IEEE-754 order (Rust `==`, `<` on f64): NaN unordered, -0 = +0 *)
Definition f_key (b : Z) : Z := if f_neg b then - f_mag b else f_mag b.
Definition ieee_eq (a b : Z) : bool := negb (is_nan64 a) && negb (is_nan64 b) && (f_key a =? f_key b).
Definition ieee_lt (a b : Z) : bool := negb (is_nan64 a) && negb (is_nan64 b) && (f_key a <? f_key b).
(* totalOrder (f64::total_cmp, used by arrow's cmp kernels): -NaN < -inf < .. < -0 < +0 < .. < +NaN *)
Definition tot_key (b : Z) : Z := if f_neg b then - f_mag b - 1 else f_mag b.

(* ------------------------------------------------------------------ *)
(* array.rs *)
Inductive encoding := Flat | Dictionary | RLE | Constant.
Definition encoding_eqb (a b : encoding) : bool :=
  match a, b with
  | Flat, Flat | Dictionary, Dictionary | RLE, RLE | Constant, Constant => true
  | _, _ => false
  end.

(* fn is_constant: len<=1 => true; Int64 compares the raw `values()` buffer (validity ignored);
   StringArray compares `iter()` items (Option<&str>, validity respected); everything else false *)
Definition is_constant (a : arr) : bool :=
  let sl := a_slots a in
  if (length sl <=? 1)%nat then true else
  match a_ty a with
  | TInt64 => match sl with
              | s0 :: _ => forallb (fun s => value_eqb (snd s) (snd s0)) sl
              | [] => false
              end
  | TUtf8 => match lview a with
             | f :: _ => forallb (fun v => optv_eqb v f) (lview a)
             | [] => false
             end
  | _ => false
  end.

(* fn array_value_to_string, up to injectivity: "NULL" for a NULL slot; Int64 decimal; Float64
   Display (all NaNs print "NaN", otherwise injective on bit patterns: "-0" vs "0"); Utf8 the value
   (so the string "NULL" collides with a NULL slot); any other type prints the WHOLE array
   (format!("{:?}", array)), i.e. the same string for every non-NULL slot. *)
Inductive skey := KStr (s : list Z) | KInt (z : Z) | KFloat (b : Z) | KNaN | KWhole.
Definition str_NULL : list Z := [78; 85; 76; 76].
Definition key_of (t : dtype) (s : slot) : skey :=
  if negb (fst s) then KStr str_NULL else
  match t, snd s with
  | TInt64, VI z => KInt z
  | TFloat64, VI b => if is_nan64 b then KNaN else KFloat b
  | TUtf8, VS x => KStr x
  | _, _ => KWhole
  end.
Definition skey_eqb (a b : skey) : bool :=
  match a, b with
  | KStr x, KStr y => list_eqb Z.eqb x y
  | KInt x, KInt y => x =? y
  | KFloat x, KFloat y => x =? y
  | KNaN, KNaN => true
  | KWhole, KWhole => true
  | _, _ => false
  end.

(* fn calculate_rle_savings: run_count starts at 1 and is incremented again at i = 0
   (prev_value = None differs from everything), so run_count = number of runs + 1 *)
Fixpoint run_count_go (t : dtype) (prev : option skey) (l : list slot) (rc : nat) : nat :=
  match l with
  | [] => rc
  | s :: r =>
      let k := key_of t s in
      match prev with
      | Some p => if skey_eqb p k then run_count_go t prev r rc else run_count_go t (Some k) r (S rc)
      | None => run_count_go t (Some k) r (S rc)
      end
  end.
Definition run_count (a : arr) : nat := run_count_go (a_ty a) None (a_slots a) 1.

(* thresholds as exact rationals (num, den); `1.0 - (x / len) > thr` with len > 0 is
   den * (len - x) > num * len.  (The f64 evaluation agrees with the exact one: see checks/C37.py.) *)
Definition ratio_gt (thr : Z * Z) (x len : Z) : bool := fst thr * len <? snd thr * (len - x).

Definition rle_selected (thr : Z * Z) (a : arr) : bool :=
  ratio_gt thr (Z.of_nat (run_count a)) (Z.of_nat (alen a)).

Fixpoint count_distinct (l : list value) : nat :=
  match l with
  | [] => O
  | x :: r => if existsb (value_eqb x) r then count_distinct r else S (count_distinct r)
  end.
(* fn calculate_dict_savings: StringArray only; `val?` returns None at the first NULL *)
Definition dict_selected (thr : Z * Z) (a : arr) : bool :=
  match a_ty a with
  | TUtf8 => forallb fst (a_slots a)
             && ratio_gt thr (Z.of_nat (count_distinct (map snd (a_slots a)))) (Z.of_nat (alen a))
  | _ => false
  end.

Definition default_rle_thr : Z * Z := (7, 10).
Definition default_dict_thr : Z * Z := (5, 10).

Definition analyze (trle tdict : Z * Z) (a : arr) : encoding :=
  if (alen a =? 0)%nat then Flat
  else if is_constant a then Constant
  else if rle_selected trle a then RLE
  else if dict_selected tdict a then Dictionary
  else Flat.

Inductive scalar := SNull | SBool (b : Z) | SInt64 (z : Z) | SFloat64 (b : Z) | SUtf8 (s : list Z).
(* fn extract_scalar_value: None = Err("Unsupported array type") *)
Definition extract (t : dtype) (s : slot) : option scalar :=
  if negb (fst s) then Some SNull else
  match t, snd s with
  | TInt64, VI z => Some (SInt64 z)
  | TFloat64, VI b => Some (SFloat64 b)
  | TUtf8, VS x => Some (SUtf8 x)
  | TBool, VI b => Some (SBool b)
  | _, _ => None
  end.
(* ConstantArray::to_arrow_array: None = panic!("Unsupported data type for constant array") *)
Definition const_to_arrow (sc : scalar) (t : dtype) (n : nat) : option (list (option value)) :=
  match sc with
  | SInt64 v => Some (repeat (Some (VI v)) n)
  | SFloat64 v => Some (repeat (Some (VI v)) n)
  | SUtf8 s => Some (repeat (Some (VS s)) n)
  | _ => match t with
         | TInt64 => Some (repeat (Some (VI 0)) n)
         | TFloat64 => Some (repeat (Some (VI 0)) n)
         | TUtf8 => Some (repeat (Some (VS [])) n)
         | _ => None
         end
  end.

(* derive(PartialEq) on ScalarValue: f64 `==` inside Float64 *)
Definition scalar_eqb (a b : scalar) : bool :=
  match a, b with
  | SNull, SNull => true
  | SBool x, SBool y => x =? y
  | SInt64 x, SInt64 y => x =? y
  | SFloat64 x, SFloat64 y => ieee_eq x y
  | SUtf8 x, SUtf8 y => list_eqb Z.eqb x y
  | _, _ => false
  end.

(* the (values, run_lengths) vectors encode_rle computes (and then drops) *)
Section Rle.
  Context {A : Type} (eqb : A -> A -> bool) (cap : Z).
  Fixpoint rle_go (cur : A) (run : Z) (l : list A) : list (A * Z) :=
    match l with
    | [] => [(cur, run)]
    | v :: r => if eqb v cur && (run <? cap) then rle_go cur (run + 1) r
                else (cur, run) :: rle_go v 1 r
    end.
  Definition rle_compress (l : list A) : list (A * Z) :=
    match l with [] => [] | v :: r => rle_go v 1 r end.
End Rle.
Definition rle_expand {A} (runs : list (A * Z)) : list A :=
  flat_map (fun p => repeat (fst p) (Z.to_nat (snd p))) runs.
Definition i32_max : Z := 2147483647.

(* DictionaryArray<Int32>(keys, values) read back logically *)
Definition dict_decode (keys : list nat) (values : list (option value)) : list (option value) :=
  map (fun k => nth k values None) keys.

(* result of encode_optimal(..) followed by decode(): the decoded array's logical view and whether
   it is Dictionary-typed rather than of the input's type *)
Inductive eres := EErr | EPanic | EOk (e : encoding) (decoded : list (option value)) (dict_typed : bool).

Definition encode_as (e : encoding) (a : arr) : eres :=
  let sl := a_slots a in
  match e with
  | Flat => EOk Flat (lview a) false
  | Constant =>
      match sl with
      | [] => EOk Constant (lview a) false
      | s0 :: _ =>
          match extract (a_ty a) s0 with
          | None => EErr
          | Some sc => match const_to_arrow sc (a_ty a) (length sl) with
                       | None => EPanic
                       | Some d => EOk Constant d false
                       end
          end
      end
  | Dictionary =>
      match a_ty a with
      | TUtf8 => EOk Dictionary (dict_decode (seq 0 (length sl)) (lview a)) true
      | _ => EErr
      end
  | RLE =>
      (* extract_scalar_value(i)? for every i, runs computed and dropped, Ok(array) *)
      if forallb (fun s => match extract (a_ty a) s with Some _ => true | None => false end) sl
      then EOk RLE (lview a) false else EErr
  end.

Definition encode_optimal (trle tdict : Z * Z) (a : arr) : eres :=
  encode_as (analyze trle tdict a) a.

(* ---- executable spec for the encoding half: decoding returns an equal (logical) array ---- *)
Definition enc_spec_ok (a : arr) (r : eres) : bool :=
  match r with
  | EOk _ d _ => list_eqb optv_eqb d (lview a)
  | _ => false
  end.
Definition eres_eqb (x y : eres) : bool :=
  match x, y with
  | EErr, EErr => true
  | EPanic, EPanic => true
  | EOk e d t, EOk e' d' t' => encoding_eqb e e' && list_eqb optv_eqb d d' && Bool.eqb t t'
  | _, _ => false
  end.

(* known classes (decided by the input alone) *)
Definition ty_in (t : dtype) (l : list dtype) : bool := existsb (dtype_eqb t) l.
(* an array judged constant that contains a NULL: NULLs come back as the value / 0 / "" *)
Definition known_const_null (a : arr) : bool :=
  ty_in (a_ty a) [TInt64; TFloat64; TUtf8] && is_constant a && has_null a.
(* Int32 / Boolean arrays routed through extract_scalar_value / to_arrow_array: Err or panic *)
Definition known_enc_unsupported (trle : Z * Z) (a : arr) : bool :=
  match a_ty a with
  | TInt32 => (alen a =? 1)%nat
              || ((2 <=? alen a)%nat && rle_selected trle a && existsb fst (a_slots a))
  | TBool => (alen a =? 1)%nat
  | _ => false
  end.

(* ------------------------------------------------------------------ *)
(* codec.rs *)
Inductive kres := KErr | KPanic | KOk (l : list (option value)).
Definition kres_eqb (x y : kres) : bool :=
  match x, y with
  | KErr, KErr => true
  | KPanic, KPanic => true
  | KOk a, KOk b => list_eqb optv_eqb a b
  | _, _ => false
  end.
Definition vbool (b : bool) : value := VI (if b then 1 else 0).
Definition vz (v : value) : Z := match v with VI z => z | VS _ => 0 end.

Fixpoint zip {A B} (l : list A) (r : list B) : list (A * B) :=
  match l, r with
  | x :: l', y :: r' => (x, y) :: zip l' r'
  | _, _ => []
  end.

(* fn filter_simd *)
Definition filter_simd (a : arr) (pred : list bool) : kres :=
  if negb (alen a =? length pred)%nat then KErr else
  if ty_in (a_ty a) [TInt64; TFloat64; TBool] then
    KOk (map (fun p => Some (snd (fst p)))
             (filter (fun p => snd p && fst (fst p)) (zip (a_slots a) pred)))
  else KErr.
(* arrow::compute::filter with a NULL-free predicate of the same length *)
Definition arrow_filter (a : arr) (pred : list bool) : kres :=
  if negb (alen a =? length pred)%nat then KErr else
  KOk (map (fun p => lslot (fst p)) (filter (fun p => snd p) (zip (a_slots a) pred))).
Definition known_filter_null (a : arr) (pred : list bool) : bool :=
  existsb (fun p => snd p && negb (fst (fst p))) (zip (a_slots a) pred).
(* helper returns Err for a type the Arrow kernel handles *)
Definition known_filter_type (a : arr) : bool := ty_in (a_ty a) [TInt32; TUtf8].

(* fn compare_simd *)
Inductive cmpop := OEq | ONe | OLt | OLe | OGt | OGe.
Definition code_eq (t : dtype) (x y : value) : bool :=
  match t with TFloat64 => ieee_eq (vz x) (vz y) | _ => vz x =? vz y end.
Definition code_lt (t : dtype) (x y : value) : bool :=
  match t with TFloat64 => ieee_lt (vz x) (vz y) | _ => vz x <? vz y end.
Definition code_cmp (t : dtype) (op : cmpop) (x y : value) : bool :=
  match op with
  | OEq => code_eq t x y
  | ONe => negb (code_eq t x y)
  | OLt => code_lt t x y
  | OLe => code_lt t x y || code_eq t x y
  | OGt => code_lt t y x
  | OGe => code_lt t y x || code_eq t y x
  end.
Definition compare_simd (l r : arr) (op : cmpop) : kres :=
  if negb (alen l =? alen r)%nat then KErr else
  if ty_in (a_ty l) [TInt64; TFloat64] && dtype_eqb (a_ty l) (a_ty r) then
    KOk (map (fun p => Some (vbool (code_cmp (a_ty l) op (snd (fst p)) (snd (snd p)))))
             (zip (a_slots l) (a_slots r)))
  else KErr.
(* arrow::compute::kernels::cmp::{eq,neq,lt,lt_eq,gt,gt_eq}: NULL if either side is NULL;
   floats by totalOrder; strings bytewise; false < true *)
Definition arrow_ord (t : dtype) (x y : value) : comparison :=
  match t, x, y with
  | TFloat64, VI a, VI b => tot_key a ?= tot_key b
  | TUtf8, VS a, VS b => bytes_cmp a b
  | _, _, _ => vz x ?= vz y
  end.
Definition arrow_cmp_val (t : dtype) (op : cmpop) (x y : value) : bool :=
  match op, arrow_ord t x y with
  | OEq, Eq => true | OEq, _ => false
  | ONe, Eq => false | ONe, _ => true
  | OLt, Lt => true | OLt, _ => false
  | OLe, Gt => false | OLe, _ => true
  | OGt, Gt => true | OGt, _ => false
  | OGe, Lt => false | OGe, _ => true
  end.
Definition arrow_cmp (l r : arr) (op : cmpop) : kres :=
  if negb (alen l =? alen r)%nat then KErr else
  if negb (dtype_eqb (a_ty l) (a_ty r)) then KErr else
  KOk (map (fun p => if fst (fst p) && fst (snd p)
                     then Some (vbool (arrow_cmp_val (a_ty l) op (snd (fst p)) (snd (snd p))))
                     else None)
           (zip (a_slots l) (a_slots r))).
Definition known_cmp_null (l r : arr) : bool := has_null l || has_null r.
Definition known_cmp_type (l : arr) : bool := ty_in (a_ty l) [TInt32; TUtf8; TBool].
(* Float64 pairs where IEEE and totalOrder comparison disagree: a NaN, or zeros of opposite sign *)
Definition float_special_pair (p : slot * slot) : bool :=
  let x := vz (snd (fst p)) in let y := vz (snd (snd p)) in
  is_nan64 x || is_nan64 y || (f_zero x && f_zero y && negb (x =? y)).
Definition known_cmp_float_order (l r : arr) : bool :=
  dtype_eqb (a_ty l) TFloat64 && existsb float_special_pair (zip (a_slots l) (a_slots r)).

(* fn add_simd / multiply_simd: plain `+` / `*` on value(i), validity ignored, all-valid result.
   `checks` = the crate is compiled with overflow checks (dev profile): overflow panics, otherwise wraps. *)
Definition i64_min : Z := - two63.
Definition i64_max : Z := two63 - 1.
Definition in_i64 (z : Z) : bool := (i64_min <=? z) && (z <=? i64_max).
Definition wrap64 (z : Z) : Z := (z + two63) mod two64 - two63.
Definition in_i32 (z : Z) : bool := (-2147483648 <=? z) && (z <=? 2147483647).
Definition wrap32 (z : Z) : Z := (z + 2147483648) mod 4294967296 - 2147483648.

Section Arith.
  Variable checks : bool.
  Variable iop : Z -> Z -> Z.        (* Z.add or Z.mul *)
  Variable fop : Z -> Z -> Z.        (* IEEE binary64 add or mul on bit patterns (not interpreted) *)

  Definition arith_simd (l r : arr) : kres :=
    match a_ty l with
    | TInt64 =>
        if negb (dtype_eqb (a_ty r) TInt64) then KErr else
        if (alen r <? alen l)%nat then KPanic else         (* right_arr.value(i) out of bounds *)
        let raw := map (fun p => iop (vz (snd (fst p))) (vz (snd (snd p)))) (zip (a_slots l) (a_slots r)) in
        if checks && negb (forallb in_i64 raw) then KPanic
        else KOk (map (fun z => Some (VI (wrap64 z))) raw)
    | TFloat64 =>
        if negb (dtype_eqb (a_ty r) TFloat64) then KErr else
        if (alen r <? alen l)%nat then KPanic else
        KOk (map (fun p => Some (VI (fop (vz (snd (fst p))) (vz (snd (snd p)))))) (zip (a_slots l) (a_slots r)))
    | _ => KErr
    end.

  (* arrow numeric::add / mul (checked: Err on integer overflow of a VALID pair) and *_wrapping *)
  Definition arrow_arith (wrapping : bool) (l r : arr) : kres :=
    if negb (dtype_eqb (a_ty l) (a_ty r)) then KErr else
    if negb (ty_in (a_ty l) [TInt32; TInt64; TFloat64]) then KErr else
    if negb (alen l =? alen r)%nat then KErr else
    let inr := match a_ty l with TInt32 => in_i32 | _ => in_i64 end in
    let wr := match a_ty l with TInt32 => wrap32 | _ => wrap64 end in
    let pairs := zip (a_slots l) (a_slots r) in
    let valid (p : slot * slot) := fst (fst p) && fst (snd p) in
    match a_ty l with
    | TFloat64 =>
        KOk (map (fun p => if valid p then Some (VI (fop (vz (snd (fst p))) (vz (snd (snd p))))) else None) pairs)
    | _ =>
        if negb wrapping
           && negb (forallb (fun p => negb (valid p) || inr (iop (vz (snd (fst p))) (vz (snd (snd p))))) pairs)
        then KErr
        else KOk (map (fun p => if valid p then Some (VI (wr (iop (vz (snd (fst p))) (vz (snd (snd p)))))) else None) pairs)
    end.

  Definition known_arith_overflow (l r : arr) : bool :=
    dtype_eqb (a_ty l) TInt64
    && negb (forallb (fun p => in_i64 (iop (vz (snd (fst p))) (vz (snd (snd p))))) (zip (a_slots l) (a_slots r))).
End Arith.
Definition known_arith_null (l r : arr) : bool := has_null l || has_null r.
Definition known_arith_type (l : arr) : bool := dtype_eqb (a_ty l) TInt32.

(* fn sum_simd: accumulates over non-NULL slots from 0 / +0.0, ALWAYS Some(sum) *)
Fixpoint sum_i64_go (checks : bool) (acc : Z) (l : list slot) : option Z :=   (* None = overflow panic *)
  match l with
  | [] => Some acc
  | s :: r =>
      if fst s then
        let t := acc + vz (snd s) in
        if in_i64 t then sum_i64_go checks t r
        else if checks then None else sum_i64_go checks (wrap64 t) r
      else sum_i64_go checks acc r
  end.
Definition sum_f64 (fadd : Z -> Z -> Z) (l : list slot) : Z :=
  fold_left (fun (acc : Z) (s : slot) => if fst s then fadd acc (vz (snd s)) else acc) l 0.
Definition sum_simd (checks : bool) (fadd : Z -> Z -> Z) (a : arr) : kres :=
  match a_ty a with
  | TInt64 => match sum_i64_go checks 0 (a_slots a) with
              | Some s => KOk [Some (VI s)]
              | None => KPanic
              end
  | TFloat64 => KOk [Some (VI (sum_f64 fadd (a_slots a)))]
  | _ => KErr
  end.
(* arrow::compute::sum: None when there is no valid value, wrapping integer addition.  For Float64
   arrow adds in a lane order of its own; the generated inputs have order-independent (exact)
   sums, for which the sequential fold below is what arrow returns (assumption named in the check). *)
Definition valid_vals (a : arr) : list Z := map (fun s => vz (snd s)) (filter fst (a_slots a)).
Definition arrow_sum (fadd : Z -> Z -> Z) (a : arr) : kres :=
  match a_ty a with
  | TInt32 => if existsb fst (a_slots a) then KOk [Some (VI (wrap32 (zsum (valid_vals a))))] else KOk [None]
  | TInt64 => if existsb fst (a_slots a) then KOk [Some (VI (wrap64 (zsum (valid_vals a))))] else KOk [None]
  | TFloat64 => if existsb fst (a_slots a) then KOk [Some (VI (sum_f64 fadd (a_slots a)))] else KOk [None]
  | _ => KErr                                  (* no Arrow sum kernel for Utf8 / Boolean *)
  end.
Definition known_sum_all_null (a : arr) : bool :=
  ty_in (a_ty a) [TInt64; TFloat64] && negb (existsb fst (a_slots a)).
Fixpoint partial_overflow (acc : Z) (l : list Z) : bool :=
  match l with
  | [] => false
  | v :: r => negb (in_i64 (acc + v)) || partial_overflow (wrap64 (acc + v)) r
  end.
Definition known_sum_overflow (a : arr) : bool :=
  dtype_eqb (a_ty a) TInt64 && partial_overflow 0 (valid_vals a).
Definition known_sum_type (a : arr) : bool := dtype_eqb (a_ty a) TInt32.

(* fn count_simd vs len - null_count *)
Definition count_simd (a : arr) : kres :=
  KOk [Some (VI (Z.of_nat (length (filter fst (a_slots a)))))].
Definition arrow_count (a : arr) : kres :=
  KOk [Some (VI (Z.of_nat (alen a) - Z.of_nat (length (filter (fun s => negb (fst s)) (a_slots a)))))].

(* finite IEEE operation table supplied by the check (computed by CPython's binary64 arithmetic);
   a miss yields -1, which is not a bit pattern and therefore shows up as a difference *)
Fixpoint ftable (t : list (Z * Z * Z)) (a b : Z) : Z :=
  match t with
  | [] => -1
  | p :: t' => if (fst (fst p) =? a) && (snd (fst p) =? b) then snd p else ftable t' a b
  end.
