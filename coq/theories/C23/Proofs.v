(* C23: subqueries. The engine models of Sql/Sub.v (row-by-row executor, decorrelated plan) return the
   reference three-valued result for every statement outside the decidable classes of `known_sub`;
   inside each class a concrete witness shows the deviation is real. *)
From QV Require Import Sql.Sub Sql.QueryProofs C02.Proofs C24.Proofs.

(* ---------- lists ---------- *)
Lemma filter_filter {A} (f g : A -> bool) l : filter f (filter g l) = filter (fun x => g x && f x) l.
Proof.
  induction l as [|a l IH]; cbn; [reflexivity|].
  destruct (g a); cbn; [destruct (f a); now rewrite IH | exact IH].
Qed.

Lemma nonnil_filter {A} (f : A -> bool) l : negb (is_nil (filter f l)) = existsb f l.
Proof.
  induction l as [|a l IH]; cbn; [reflexivity|]. destruct (f a); cbn; [reflexivity | exact IH].
Qed.

Lemma concat_map_filter {A} (f : A -> bool) (bs : list (list A)) :
  concat (map (filter f) bs) = filter f (concat bs).
Proof. induction bs as [|b bs IH]; cbn; [reflexivity|]. now rewrite filter_app, IH. Qed.

Lemma length_filter_filter {A} (p g : A -> bool) l :
  (length (filter p (filter g l)) <= length (filter p l))%nat.
Proof.
  induction l as [|a l IH]; cbn; [lia|].
  destruct (g a); cbn; destruct (p a); cbn; lia.
Qed.

Lemma hd_in {A} (d : A) l x : In x l -> In (hd d l) l.
Proof. destruct l; cbn; [tauto | now left]. Qed.

Lemma flat_map_repeat_one {A} (l : list A) : flat_map (fun s => repeat s 1) l = l.
Proof. induction l as [|a l IH]; [reflexivity|]. cbn [flat_map repeat app]. f_equal. exact IH. Qed.

Lemma forallb_ext_in {A} (f g : A -> bool) l : (forall x, In x l -> f x = g x) -> forallb f l = forallb g l.
Proof.
  induction l as [|a l IH]; cbn; intros H; [reflexivity|].
  rewrite (H a) by now left. f_equal. apply IH. intros; apply H; now right.
Qed.

(* three disjoint groups cover a list *)
Lemma forallb_split3 {A} (P p q : A -> bool) l :
  (forall b, p b = true -> q b = false) ->
  forallb P (filter p l) && forallb P (filter q l) && forallb P (filter (fun b => negb (p b) && negb (q b)) l)
  = forallb P l.
Proof.
  intros D. induction l as [|a l IH]; cbn; [reflexivity|].
  destruct (p a) eqn:Ep; [rewrite (D a Ep)|destruct (q a) eqn:Eq]; cbn; rewrite <- IH;
    destruct (P a); cbn; try reflexivity;
    repeat match goal with |- context [forallb P ?l] => destruct (forallb P l) end; reflexivity.
Qed.

(* ---------- truth values ---------- *)
Lemma keeps_and3 x y : keeps (lift2 and3 x y) = keeps x && keeps y.
Proof. destruct x as [| | | |[|]| |], y as [| | | |[|]| |]; reflexivity. Qed.
Lemma keeps_and_strict x y : keeps (lift2 and_strict x y) = keeps x && keeps y.
Proof. destruct x as [| | | |[|]| |], y as [| | | |[|]| |]; reflexivity. Qed.

Lemma conj_keep_sql aev r w :
  keeps (sbool_val sql_sem aev r w) = forallb (fun b => keeps (sbool_val sql_sem aev r b)) (conjuncts w).
Proof.
  induction w as [p|e|x IHx y IHy|x IHx y IHy|x IHx]; cbn [conjuncts forallb]; rewrite ?andb_true_r; try reflexivity.
  cbn [sbool_val s_and sql_sem]. now rewrite keeps_and3, IHx, IHy, forallb_app.
Qed.
Lemma conj_keep_eng aev r w :
  keeps (sbool_val eng_sem aev r w) = forallb (fun b => keeps (sbool_val eng_sem aev r b)) (conjuncts w).
Proof.
  induction w as [p|e|x IHx y IHy|x IHx y IHy|x IHx]; cbn [conjuncts forallb]; rewrite ?andb_true_r; try reflexivity.
  cbn [sbool_val s_and eng_sem]. now rewrite keeps_and_strict, IHx, IHy, forallb_app.
Qed.

(* ---------- comparison ---------- *)
Lemma Qcompare_refl' q : q_cmp q q = Eq.
Proof. unfold q_cmp, Qcompare. apply Z.compare_refl. Qed.

Lemma keeps_eq_refl x y : keeps (compare_op CEq x y) = true -> keeps (compare_op CEq x x) = true.
Proof.
  destruct x as [|a|a|a|[|]|a|]; destruct y as [|b|b|b|[|]|b|]; cbn; try discriminate; intros _;
    rewrite ?Z.compare_refl, ?Qcompare_refl'; try reflexivity.
  - assert (bytes_cmp a a = Eq) as -> by now apply bytes_cmp_eq. reflexivity.
Qed.

(* ---------- record batches ---------- *)
Lemma concat_qbatches B Q q : concat (qbatches B Q q) = qeval Q (flat B) q.
Proof.
  induction q; cbn [qbatches qeval]; try apply app_nil_r.
  - unfold flat. symmetry. exact (map_nth (@concat row) B [] n).
  - rewrite concat_map_filter. now rewrite IHq.
Qed.

Lemma qbatches_agree B q :
  known_q (flat B) q = false -> qbatches B eng_qsem q = qbatches B sql_qsem q.
Proof.
  induction q; intros K; cbn [qbatches]; try (now rewrite (eng_query_agrees _ _ K)); try reflexivity.
  unfold known_q in *. cbn [known_with dom_on andb] in K. apply orb_false_iff in K as [K1 K2].
  rewrite (IHq K1). apply map_ext_in. intros b Hb. cbn [q_esem eng_qsem sql_qsem].
  apply filter_agree. intros r Hr. eapply dom_false; [exact K2| |now left].
  rewrite <- concat_qbatches. apply in_concat. eauto.
Qed.

(* ---------- IN: two-valued executor vs three-valued reference ---------- *)
Lemma not3_bool b : lift1 not3 (VBool b) = VBool (negb b).
Proof. destruct b; reflexivity. Qed.

(* in a value position they agree unless the answer is NULL or a NULL left side meets NOT IN *)
Lemma in2_value neg x vals :
  tv_is_u (in3 x vals) || (neg && is_null x) = false -> in2 neg x vals = in_sql neg x vals.
Proof.
  unfold in2, in_sql, in3. intros H. apply orb_false_iff in H as [HU HN].
  destruct (is_null x) eqn:Ex.
  - destruct x; try discriminate. rewrite andb_true_r in HN. subst neg. cbn [negate_if].
    assert (existsb (fun v => keeps (compare_op CEq VNull v)) vals = false) as E0.
    { clear. induction vals as [|v l IH]; cbn [existsb]; [reflexivity|]. rewrite IH. now destruct v. }
    rewrite E0 in *.
    destruct (existsb (fun v => is_null (compare_op CEq VNull v)) vals); [discriminate | reflexivity].
  - destruct (existsb (fun v => keeps (compare_op CEq x v)) vals); cbn.
    + destruct neg; cbn; reflexivity.
    + destruct (existsb (fun v => is_null (compare_op CEq x v)) vals); [discriminate|].
      destruct neg; cbn; reflexivity.
Qed.

(* as a top-level WHERE conjunct the two-valued IN keeps the same rows as the three-valued one ... *)
Theorem in_positive_keep_equiv x vals : keeps (in2 false x vals) = keeps (in_sql false x vals).
Proof.
  unfold in2, in_sql, in3, negate_if.
  destruct (existsb (fun v => keeps (compare_op CEq x v)) vals) eqn:E.
  - destruct (is_null x) eqn:Ex; [|reflexivity]. destruct x; try discriminate. exfalso.
    clear Ex. induction vals as [|v l IH]; cbn [existsb] in E; [discriminate|].
    apply orb_true_iff in E as [E|E]; [now destruct v | auto].
  - destruct (is_null x), (existsb (fun v => is_null (compare_op CEq x v)) vals); reflexivity.
Qed.

(* ... and so does NOT IN unless a NULL decides the answer *)
Lemma in2_top neg x vals :
  neg && ((negb (is_null x) && tv_is_u (in3 x vals)) || (is_null x && tv_is_f (in3 x vals))) = false ->
  keeps (in2 neg x vals) = keeps (in_sql neg x vals).
Proof.
  destruct neg; [|intros _; apply in_positive_keep_equiv].
  cbn [andb]. unfold in2, in_sql, in3, negate_if. intros H.
  destruct (is_null x) eqn:Ex; cbn [negb andb orb] in H.
  - destruct (existsb (fun v => keeps (compare_op CEq x v)) vals); cbn in *; [reflexivity|].
    destruct (existsb (fun v => is_null (compare_op CEq x v)) vals); cbn in *; [reflexivity | discriminate].
  - rewrite orb_false_r in H.
    destruct (existsb (fun v => keeps (compare_op CEq x v)) vals); cbn in *; [reflexivity|].
    destruct (existsb (fun v => is_null (compare_op CEq x v)) vals); cbn in *; [discriminate | reflexivity].
Qed.

(* the Semi / Anti join on `e = col` against the three-valued IN *)
Lemma in3_true_iff x vals : tv_of_bool (existsb (fun v => keeps (compare_op CEq x v)) vals) = T <-> in3 x vals = T.
Proof.
  unfold in3. destruct (existsb (fun v => keeps (compare_op CEq x v)) vals); cbn; [tauto|].
  destruct (existsb _ vals); split; discriminate.
Qed.
Lemma semi_keeps x vals : existsb (fun v => keeps (compare_op CEq x v)) vals = keeps (in_sql false x vals).
Proof.
  unfold in_sql, in3, negate_if. destruct (existsb (fun v => keeps (compare_op CEq x v)) vals); cbn; [reflexivity|].
  now destruct (existsb _ vals).
Qed.
Lemma anti_keeps x vals :
  tv_is_u (in3 x vals) = false ->
  negb (existsb (fun v => keeps (compare_op CEq x v)) vals) = keeps (in_sql true x vals).
Proof.
  unfold in_sql, in3, negate_if. destruct (existsb (fun v => keeps (compare_op CEq x v)) vals); cbn; [reflexivity|].
  destruct (existsb _ vals); cbn; [discriminate | reflexivity].
Qed.

Lemma existsb_filter_map {A B} (f : A -> bool) (g : A -> B) (h : B -> bool) l :
  existsb (fun s => f s && h (g s)) l = existsb h (map g (filter f l)).
Proof.
  induction l as [|a l IH]; cbn; [reflexivity|]. destruct (f a); cbn; now rewrite IH.
Qed.

Lemma retained_all vcol c : all_retained vcol c = true -> retained vcol c = c.
Proof. intros H. apply filter_all. intros x Hx. unfold all_retained in H. rewrite forallb_forall in H. auto. Qed.

Ltac split_or :=
  repeat match goal with H : _ || _ = false |- _ => apply orb_false_iff in H as [? ?] end.

(* ---------- agreement outside the classes ---------- *)
Section Agree.
  Variable qk : sclass -> bool.
  Variable B : list (list rel).
  Let on := with_base qk.
  Let db := flat B.
  Variable rows : rel.     (* the outer rows: every batch the executor sees is a sub-list *)

  Lemma sub_rows_agree sub c r :
    known_q db sub = false -> sub_rows B eng_qsem sub c r = sub_rows B sql_qsem sub c r.
  Proof. intros K. unfold sub_rows. fold db. now rewrite (eng_query_agrees _ _ K). Qed.

  Lemma sub_bat_concat Q sub c r : concat (sub_bat B Q sub c r) = sub_rows B Q sub c r.
  Proof. unfold sub_bat, sub_rows. now rewrite concat_map_filter, concat_qbatches. Qed.

  Lemma one_row_sql vcol corr M :
    qk KScalarMulti && corr && Nat.ltb 1 (length M) = false -> one_row qk vcol corr M = scalar_sql None vcol M.
  Proof.
    destruct M as [|s [|s' M]]; cbn; auto. intros H. rewrite andb_true_r in H. rewrite andb_comm in H. now rewrite H.
  Qed.

  (* what scalar_dev demands of one row, the first-NULL part aside *)
  Definition sc_ok (agg : sagg) (sub : query) (c : corr) (x : row) : Prop :=
    match agg with
    | Some (f, a) => existsb (fun s => dominated s a) (sub_rows B sql_qsem sub c x) = false
    | None => qk KScalarBatches && Nat.ltb 1 (length (qbatches B sql_qsem sub)) = false /\
              qk KScalarMulti && negb (is_nil c) && Nat.ltb 1 (length (sub_rows B sql_qsem sub c x)) = false
    end.

  Lemma scalar_eng_agree agg sub vcol c r :
    known_q db sub = false -> sc_ok agg sub c r ->
    scalar_eng qk agg vcol (negb (is_nil c)) (sub_bat B eng_qsem sub c r)
    = scalar_sql agg vcol (sub_rows B sql_qsem sub c r).
  Proof.
    intros K H. destruct agg as [[f a]|]; cbn [scalar_eng sc_ok] in *.
    - rewrite sub_bat_concat, (sub_rows_agree _ _ _ K). cbn [scalar_sql]. f_equal. apply map_ext_in. intros s Hs.
      apply expr_agree. exact (existsb_false_forall _ _ H s Hs).
    - destruct H as [Hb Hm]. destruct (qk KScalarBatches) eqn:Eb.
      + cbn [andb] in Hb. unfold sub_bat. fold db in K. rewrite (qbatches_agree _ _ K).
        assert (sub_rows B sql_qsem sub c r = concat (map (filter (corr_ok c r)) (qbatches B sql_qsem sub))) as EM
          by (unfold sub_rows; now rewrite concat_map_filter, concat_qbatches).
        rewrite EM in *. destruct (qbatches B sql_qsem sub) as [|b0 [|b1 l]]; cbn [map concat length] in *.
        * reflexivity.
        * rewrite app_nil_r in *. apply one_row_sql. exact Hm.
        * discriminate Hb.
      + rewrite sub_bat_concat, (sub_rows_agree _ _ _ K). apply one_row_sql. exact Hm.
  Qed.

  Lemma scalar_row_agree agg sub vcol c r0 r :
    In r0 rows -> In r rows -> known_q db sub = false ->
    (forall x, In x rows -> sc_ok agg sub c x) ->
    qk KFirstNull && negb (is_nil c) && existsb is_null (scalar_ref B rows agg sub vcol c)
      && existsb (fun v => negb (is_null v)) (scalar_ref B rows agg sub vcol c) = false ->
    scalar_row qk B r0 r agg sub vcol c = scalar_sql agg vcol (sub_rows B sql_qsem sub c r).
  Proof.
    intros H0 Hr K Hall HF. unfold scalar_row.
    rewrite (scalar_eng_agree agg sub vcol c r0 K (Hall r0 H0)), (scalar_eng_agree agg sub vcol c r K (Hall r Hr)).
    destruct (qk KFirstNull && negb (is_nil c) && is_null (scalar_sql agg vcol (sub_rows B sql_qsem sub c r0))) eqn:E;
      [|reflexivity].
    apply andb_true_iff in E as [E1 E2]. rewrite E1 in HF. cbn [andb] in HF.
    assert (existsb is_null (scalar_ref B rows agg sub vcol c) = true) as EN.
    { apply existsb_exists. exists (scalar_sql agg vcol (sub_rows B sql_qsem sub c r0)). split; [|exact E2].
      unfold scalar_ref. now apply (in_map (fun x => scalar_sql agg vcol (sub_rows B sql_qsem sub c x))). }
    rewrite EN in HF. cbn [andb] in HF.
    assert (In (scalar_sql agg vcol (sub_rows B sql_qsem sub c r)) (scalar_ref B rows agg sub vcol c)) as Hin
      by (unfold scalar_ref; now apply (in_map (fun x => scalar_sql agg vcol (sub_rows B sql_qsem sub c x)))).
    pose proof (existsb_false_forall _ _ HF _ Hin) as Hn.
    destruct (scalar_sql agg vcol (sub_rows B sql_qsem sub c r)); try discriminate. reflexivity.
  Qed.

  Lemma scalar_dev_ok agg sub vcol c x :
    scalar_dev on B rows agg sub vcol c x = false ->
    sc_ok agg sub c x /\
    qk KFirstNull && negb (is_nil c) && existsb is_null (scalar_ref B rows agg sub vcol c)
      && existsb (fun v => negb (is_null v)) (scalar_ref B rows agg sub vcol c) = false.
  Proof.
    unfold scalar_dev, sc_ok. intros H. apply orb_false_iff in H as [H1 H2]. split; [|exact H1].
    destruct agg as [[f a]|]; [exact H2|]. apply orb_false_iff in H2. exact H2.
  Qed.

  Lemma sub_known_q sub : sub_known on B sub = false -> known_q db sub = false.
  Proof. unfold sub_known. now cbn. Qed.

  Lemma atom_agree p r0 r :
    In r0 rows -> In r rows -> (forall x, In x rows -> atom_dev on B rows x p = false) ->
    atom_row qk B r0 r p = atom_sql B r p.
  Proof.
    intros H0 Hr H. pose proof (H r Hr) as Hd. destruct p as [neg sub c|neg e sub vcol c|agg sub vcol c|op e agg sub vcol c];
      cbn [atom_dev atom_row atom_sql] in *.
    - now rewrite (sub_rows_agree _ _ _ (sub_known_q _ Hd)).
    - split_or. match goal with H : sub_known _ _ _ = false |- _ => apply sub_known_q in H; rename H into K end.
      match goal with H : on KBase && dominated r e = false |- _ => cbn in H; rename H into De end.
      match goal with H : on KUnsupported && _ = false |- _ => cbn in H; apply negb_false_iff in H; rewrite H end.
      rewrite (sub_rows_agree _ _ _ K), (expr_agree _ _ De). unfold in_eng.
      match goal with H : on KInNull && _ = false |- _ => change (on KInNull) with (qk KInNull) in H; rename H into Hn end.
      destruct (qk KInNull); [|reflexivity]. apply in2_value. exact Hn.
    - split_or. match goal with H : sub_known _ _ _ = false |- _ => apply sub_known_q in H; rename H into K end.
      match goal with H : scalar_dev _ _ _ _ _ _ _ _ = false |- _ => apply scalar_dev_ok in H as [_ HF] end.
      apply scalar_row_agree; auto. intros x Hx. pose proof (H x Hx) as Hx'. split_or.
      match goal with H : scalar_dev _ _ _ _ _ _ _ _ = false |- _ => now apply scalar_dev_ok in H as [? _] end.
    - split_or. match goal with H : sub_known _ _ _ = false |- _ => apply sub_known_q in H; rename H into K end.
      match goal with H : on KBase && dominated r e = false |- _ => cbn in H; rename H into De end.
      match goal with H : scalar_dev _ _ _ _ _ _ _ _ = false |- _ => apply scalar_dev_ok in H as [_ HF] end.
      rewrite (expr_agree _ _ De). f_equal.
      apply scalar_row_agree; auto. intros x Hx. pose proof (H x Hx) as Hx'. split_or.
      match goal with H : scalar_dev _ _ _ _ _ _ _ _ = false |- _ => now apply scalar_dev_ok in H as [? _] end.
  Qed.

  Lemma val_agree b r0 r :
    In r0 rows -> In r rows -> (forall x, In x rows -> known_val on B rows x b = false) ->
    sbool_val eng_sem (atom_row qk B r0 r) r b = sbool_val sql_sem (atom_sql B r) r b.
  Proof.
    intros H0 Hr. induction b as [p|e|x IHx y IHy|x IHx y IHy|x IHx]; intros H; cbn [sbool_val known_val] in *.
    - now apply atom_agree.
    - apply expr_agree. exact (H r Hr).
    - assert (forall z, In z rows -> known_val on B rows z x = false) as Hx by (intros z Hz; pose proof (H z Hz); now split_or).
      assert (forall z, In z rows -> known_val on B rows z y = false) as Hy by (intros z Hz; pose proof (H z Hz); now split_or).
      rewrite (IHx Hx), (IHy Hy). cbn [s_and eng_sem sql_sem]. apply and_agree.
      pose proof (H r Hr) as Hd. split_or. assumption.
    - assert (forall z, In z rows -> known_val on B rows z x = false) as Hx by (intros z Hz; pose proof (H z Hz); now split_or).
      assert (forall z, In z rows -> known_val on B rows z y = false) as Hy by (intros z Hz; pose proof (H z Hz); now split_or).
      rewrite (IHx Hx), (IHy Hy). cbn [s_or eng_sem sql_sem]. apply or_agree.
      pose proof (H r Hr) as Hd. split_or. assumption.
    - now rewrite (IHx H).
  Qed.
End Agree.

Lemma keeps_cmp_null op x : keeps (compare_op op x VNull) = false.
Proof. destruct x; reflexivity. Qed.
Lemma agg_empty f : agg_apply f [] 0 = if is_count f then VInt 0 else VNull.
Proof. destruct f; reflexivity. Qed.
Lemma filter_true {A} (l : list A) : filter (fun _ => true) l = l.
Proof. induction l as [|a l IH]; cbn; [reflexivity | now rewrite IH]. Qed.
Lemma length_filter_pos {A} (f : A -> bool) l r : In r l -> f r = true -> (1 <= length (filter f l))%nat.
Proof.
  induction l as [|a l IH]; cbn; [tauto|]. intros [->|H] E.
  - rewrite E. cbn. lia.
  - destruct (f a); cbn; [lia | auto].
Qed.
Lemma same_key_refl c r s : corr_ok c r s = true -> same_key c r r = true.
Proof.
  unfold corr_ok, same_key. rewrite !forallb_forall. intros H ij Hij. eapply keeps_eq_refl. exact (H ij Hij).
Qed.

Section Top.
  Variable qk : sclass -> bool.
  Variable B : list (list rel).
  Let on := with_base qk.
  Variable rows : rel.

  (* ----- a conjunct evaluated by the executor ----- *)
  Lemma in_exec neg e sub vcol c r0 r :
    sub_known on B sub = false -> on KBase && dominated r e = false ->
    on KUnsupported && negb (is_nil c) = false ->
    on KInNull && in_null_top neg (eval sql_sem r e) (sub_vals B sub vcol c r) = false ->
    keep_row qk B r0 (BAtom (SIn neg e sub vcol c)) r = keep_sql B (BAtom (SIn neg e sub vcol c)) r.
  Proof.
    intros K De Hc Hn. apply sub_known_q in K. cbn in De, Hc. apply negb_false_iff in Hc.
    unfold keep_row, keep_sql. cbn [sbool_val atom_row atom_sql]. rewrite Hc.
    rewrite (sub_rows_agree B _ _ _ K), (expr_agree _ _ De). unfold in_eng.
    change (on KInNull) with (qk KInNull) in Hn. destruct (qk KInNull); [|reflexivity].
    apply in2_top. exact Hn.
  Qed.

  Lemma conj_rowwise b r0 r :
    In r0 rows -> In r rows -> (forall x, In x rows -> known_conj qk on B Rowwise rows x b = false) ->
    keep_row qk B r0 b r = keep_sql B b r.
  Proof.
    intros H0 Hr H. unfold keep_row, keep_sql.
    destruct b as [p|e|x y|x y|x]; try (f_equal; apply (val_agree qk B rows); auto; fail).
    destruct p as [neg sub c|neg e sub vcol c|agg sub vcol c|op e agg sub vcol c];
      try (f_equal; apply (val_agree qk B rows); auto; fail).
    - pose proof (H r Hr) as Hd. cbn [known_conj] in Hd. split_or. now apply in_exec.
    - f_equal. apply (val_agree qk B rows); auto. intros x Hx. pose proof (H x Hx) as Hd.
      destruct agg as [[f a]|]; [destruct c|]; cbn [known_conj] in Hd; try exact Hd.
      now rewrite orb_false_r in Hd.
  Qed.

  (* ----- the comparison with a Left-joined aggregate ----- *)
  Lemma agg_cmp_agree op e f a sub vcol c r k :
    known_q (flat B) sub = false -> dominated r e = false ->
    existsb (fun s => dominated s a) (sub_rows B sql_qsem sub c r) = false ->
    is_count f && is_nil (sub_rows B sql_qsem sub c r) && keeps (compare_op op (eval sql_sem r e) (VInt 0)) = false ->
    (sub_rows B sql_qsem sub c r <> [] -> k = 1%nat) ->
    keeps (compare_op op (eval eng_sem r e) (left_agg_value B k f a sub c r))
    = keep_sql B (BAtom (SCmp op e (Some (f, a)) sub vcol c)) r.
  Proof.
    intros K De Da Hc Hk. unfold keep_sql, left_agg_value. cbn [sbool_val atom_sql scalar_sql].
    rewrite (sub_rows_agree B _ _ _ K), (expr_agree _ _ De).
    destruct (sub_rows B sql_qsem sub c r) as [|s M] eqn:EM.
    - cbn [flat_map is_nil map length]. rewrite keeps_cmp_null, agg_empty.
      destruct (is_count f); cbn [andb is_nil] in *; [now rewrite Hc|]. now rewrite keeps_cmp_null.
    - rewrite (Hk ltac:(discriminate)). rewrite flat_map_repeat_one. cbn [is_nil]. do 3 f_equal.
      apply map_ext_in. intros x Hx. apply expr_agree. exact (existsb_false_forall _ _ Da x Hx).
  Qed.

  (* ----- the decorrelated conjuncts ----- *)
  Lemma dec_run_spec ds : forall sel first g,
    (forall b, In b ds -> is_dec qk b = true) ->
    (forall b x, In b ds -> In x rows -> known_conj qk on B Decorr rows x b = false) ->
    (qk KScalarName = false \/ (first = None /\ (length (filter is_agg_cmp ds) <= 1)%nat) \/ filter is_agg_cmp ds = []) ->
    dec_run qk B sel first (filter g rows) ds
    = filter (fun r => forallb (fun b => keep_sql B b r) ds) (filter g rows).
  Proof.
    induction ds as [|b ds IH]; intros sel first g Hdec Hk Hn; cbn [dec_run forallb]; [now rewrite filter_true|].
    assert (forall b', In b' ds -> is_dec qk b' = true) as Hdec' by (intros; apply Hdec; now right).
    assert (forall b' x, In b' ds -> In x rows -> known_conj qk on B Decorr rows x b' = false) as Hk'
      by (intros; apply Hk; auto; now right).
    pose proof (Hdec b ltac:(now left)) as Db.
    assert (forall x, In x rows -> known_conj qk on B Decorr rows x b = false) as Kb by (intros; apply Hk; auto; now left).
    assert (forall r, In r (filter g rows) -> In r rows) as Hsub by (intros r Hr; apply filter_In in Hr; tauto).
    destruct b as [p|e|x y|x y|x]; try discriminate Db.
    destruct p as [neg sub c|neg e sub vcol c|agg sub vcol c|op e agg sub vcol c]; try discriminate Db.
    - (* EXISTS -> Semi / Anti join *)
      assert (filter is_agg_cmp (BAtom (SExists neg sub c) :: ds) = filter is_agg_cmp ds) as EA by reflexivity.
      rewrite EA in Hn.
      set (k := fun r => if neg then negb (existsb (corr_ok c r) (qeval eng_qsem (flat B) sub))
                         else existsb (corr_ok c r) (qeval eng_qsem (flat B) sub)).
      assert (join_gen (if neg then JAnti else JSemi) 0 0 (corr_ok c) (filter g rows) (qeval eng_qsem (flat B) sub)
              = filter k (filter g rows)) as -> by (unfold k; destruct neg; reflexivity).
      rewrite filter_filter, (IH true first _ Hdec' Hk' Hn), <- filter_filter, filter_filter.
      apply filter_ext_in. intros r Hr. f_equal.
      pose proof (Kb r (Hsub r Hr)) as Hd. destruct c; cbn [known_conj known_val atom_dev] in Hd.
      + discriminate Db.
      + apply sub_known_q in Hd. unfold k, keep_sql. cbn [sbool_val atom_sql].
        rewrite (eng_query_agrees _ _ Hd). unfold sub_rows. rewrite nonnil_filter.
        destruct neg, (existsb (corr_ok (p :: c) r) (qeval sql_qsem (flat B) sub)); reflexivity.
    - (* IN -> Semi / Anti join *)
      assert (filter is_agg_cmp (BAtom (SIn neg e sub vcol c) :: ds) = filter is_agg_cmp ds) as EA by reflexivity.
      rewrite EA in Hn.
      set (k := fun r => if neg then negb (existsb (in_join_ok e vcol c r) (qeval eng_qsem (flat B) sub))
                         else existsb (in_join_ok e vcol c r) (qeval eng_qsem (flat B) sub)).
      assert (join_gen (if neg then JAnti else JSemi) 0 0 (in_join_ok e vcol c) (filter g rows) (qeval eng_qsem (flat B) sub)
              = filter k (filter g rows)) as -> by (unfold k; destruct neg; reflexivity).
      rewrite filter_filter, (IH true first _ Hdec' Hk' Hn), <- filter_filter, filter_filter.
      apply filter_ext_in. intros r Hr. f_equal.
      pose proof (Kb r (Hsub r Hr)) as Hd. cbn [known_conj] in Hd. cbn [is_dec] in Db. rewrite Db in Hd.
      split_or.
      match goal with H : sub_known _ _ _ = false |- _ => apply sub_known_q in H; rename H into K end.
      match goal with H : on KBase && dominated r e = false |- _ => cbn in H; rename H into De end.
      assert (all_retained vcol c = true) as AR.
      { unfold in_dec in Db. apply andb_true_iff in Db as [_ Db].
        match goal with H : on KInCorr && _ = false |- _ => change (on KInCorr) with (qk KInCorr) in H end.
        destruct (qk KInCorr); cbn in *; [|assumption].
        match goal with H : negb (all_retained vcol c) = false |- _ => now apply negb_false_iff in H end. }
      assert (neg = true -> tv_is_u (in3 (eval sql_sem r e) (sub_vals B sub vcol c r)) = false) as NU.
      { intros ->. unfold in_dec in Db. apply andb_true_iff in Db as [Db _].
        match goal with H : on KInNull && _ && _ = false |- _ => change (on KInNull) with (qk KInNull) in H end.
        destruct (qk KInNull); cbn in *; [assumption | discriminate]. }
      unfold k, keep_sql, in_join_ok. cbn [sbool_val atom_sql]. rewrite (retained_all _ _ AR).
      rewrite (eng_query_agrees _ _ K), (expr_agree _ _ De).
      rewrite (existsb_filter_map (corr_ok c r) (cell vcol) (fun v => keeps (compare_op CEq (eval sql_sem r e) v))).
      change (map (cell vcol) (filter (corr_ok c r) (qeval sql_qsem (flat B) sub))) with (sub_vals B sub vcol c r).
      destruct neg; [apply anti_keeps; now apply NU | apply semi_keeps].
    - (* correlated aggregate comparison -> Left join *)
      destruct agg as [[f a]|]; [|discriminate Db]. destruct c as [|ij c]; [discriminate Db|].
      cbn [is_dec] in Db.
      assert (qk KScalarName = false \/ (first = None /\ filter is_agg_cmp ds = [])) as EA'.
      { destruct Hn as [Hn|[[Hf Hn]|Hn]]; cbn [filter is_agg_cmp] in *; [now left| |discriminate Hn].
        right. split; [exact Hf|]. destruct (filter is_agg_cmp ds); [reflexivity | cbn in Hn; lia]. }
      cbv zeta.
      set (own := fun r => left_agg_value B (mult qk sel (filter g rows) (ij :: c) r) f a sub (ij :: c) r).
      set (fst_col := match first with Some g0 => g0 | None => own end).
      rewrite (IH sel (Some fst_col) g Hdec' Hk'); [|destruct EA' as [E|[_ E]]; [now left | now right; right]].
      rewrite filter_filter. apply filter_ext_in. intros r Hr. rewrite andb_comm. f_equal.
      assert ((if qk KScalarName then fst_col else own) r = own r) as ->.
      { destruct EA' as [->|[-> _]]; [reflexivity|]. unfold fst_col. now destruct (qk KScalarName). }
      pose proof (Kb r (Hsub r Hr)) as Hd. cbn [known_conj known_val atom_dev] in Hd. split_or.
      match goal with H : sub_known _ _ _ = false |- _ => apply sub_known_q in H; rename H into K end.
      match goal with H : on KBase && dominated r e = false |- _ => cbn in H; rename H into De end.
      match goal with H : scalar_dev _ _ _ _ _ _ _ _ = false |- _ => apply (scalar_dev_ok qk) in H as [Da _] end.
      cbn [sc_ok] in Da. unfold own. apply agg_cmp_agree; auto.
      + match goal with H : on KCountBug && _ && _ && _ = false |- _ => change (on KCountBug) with (qk KCountBug) in H; rename H into Hc end.
        destruct (qk KCountBug); cbn [andb orb] in *; [exact Hc|]. rewrite orb_false_r in Db.
        apply negb_true_iff in Db. now rewrite Db.
      + intros Hne. unfold mult. destruct (qk KAggDup && sel) eqn:Es; [|reflexivity].
        apply andb_true_iff in Es as [Eq _].
        match goal with H : on KAggDup && _ = false |- _ => change (on KAggDup) with (qk KAggDup) in H; rewrite Eq in H; cbn [andb] in H; rename H into Hl end.
        apply Nat.ltb_ge in Hl.
        pose proof (length_filter_filter (fun o => same_key (ij :: c) o r) g rows) as Hle.
        assert (same_key (ij :: c) r r = true) as Er.
        { destruct (sub_rows B sql_qsem sub (ij :: c) r) as [|s M] eqn:EM; [congruence|].
          assert (In s (sub_rows B sql_qsem sub (ij :: c) r)) as Hs by (rewrite EM; now left).
          unfold sub_rows in Hs. apply filter_In in Hs as [_ Hs]. eapply same_key_refl. exact Hs. }
        pose proof (length_filter_pos (fun o => same_key (ij :: c) o r) _ r Hr Er). lia.
  Qed.

  (* a conjunct the rewrite leaves to the executor (plain predicates included) *)
  Lemma conj_rest b r0 r :
    In r0 rows -> In r rows -> is_dec qk b = false ->
    (forall x, In x rows -> known_conj qk on B Decorr rows x b = false) ->
    keep_row qk B r0 b r = keep_sql B b r.
  Proof.
    intros H0 Hr Db H. unfold keep_row, keep_sql.
    destruct b as [p|e|x y|x y|x]; try (f_equal; apply (val_agree qk B rows); auto; fail).
    destruct p as [neg sub c|neg e sub vcol c|agg sub vcol c|op e agg sub vcol c];
      try (f_equal; apply (val_agree qk B rows); auto; fail).
    - pose proof (H r Hr) as Hd. cbn [known_conj] in Hd. cbn [is_dec] in Db. rewrite Db in Hd. split_or. now apply in_exec.
    - f_equal. apply (val_agree qk B rows); auto. intros x Hx. pose proof (H x Hx) as Hd.
      destruct agg as [[f a]|]; [destruct c|]; cbn [known_conj] in Hd; try exact Hd.
      now apply orb_false_iff in Hd as [Hd _].
  Qed.

  Lemma plain_not_dec b : is_plain b = true -> is_dec qk b = false.
  Proof. destruct b; try discriminate. reflexivity. Qed.

  Lemma where_dec_agree w :
    (forall b x, In b (conjuncts w) -> In x rows -> known_conj qk on B Decorr rows x b = false) ->
    on KScalarName && Nat.ltb 1 (length (filter is_agg_cmp (filter (is_dec qk) (conjuncts w)))) = false ->
    where_dec qk B w rows = filter (keep_sql B w) rows.
  Proof.
    intros H Hname. unfold where_dec, dec_joined. set (cs := conjuncts w) in *.
    set (F1 := fun r => forallb (fun b => keep_sql B b r) (filter is_plain cs)).
    assert (filter (fun r => forallb (fun b => keep_row qk B r b r) (filter is_plain cs)) rows = filter F1 rows) as ->.
    { apply filter_ext_in. intros r Hr. apply forallb_ext_in. intros b Hb. apply filter_In in Hb as [Hb Hp].
      apply conj_rest; auto. now apply plain_not_dec. }
    rewrite (dec_run_spec (filter (is_dec qk) cs) _ None F1).
    2: { intros b Hb. apply filter_In in Hb. tauto. }
    2: { intros b x Hb Hx. apply filter_In in Hb as [Hb _]. now apply H. }
    2: { change (on KScalarName) with (qk KScalarName) in Hname. destruct (qk KScalarName); [|now left].
         right. left. split; [reflexivity|]. now apply Nat.ltb_ge in Hname. }
    set (F2 := fun r => forallb (fun b => keep_sql B b r) (filter (is_dec qk) cs)).
    set (joined := filter F2 (filter F1 rows)).
    set (rest := filter (fun b => negb (is_plain b) && negb (is_dec qk b)) cs).
    assert (filter (fun r => forallb (fun b => keep_row qk B (first_row joined) b r) rest) joined
            = filter (fun r => forallb (fun b => keep_sql B b r) rest) joined) as ->.
    { apply filter_ext_in. intros r Hr. apply forallb_ext_in. intros b Hb. apply filter_In in Hb as [Hb Hp].
      assert (forall z, In z joined -> In z rows) as Hin
        by (intros z Hz; unfold joined in Hz; apply filter_In in Hz as [Hz _]; apply filter_In in Hz; tauto).
      apply conj_rest; auto.
      - apply Hin. unfold first_row. eapply hd_in. exact Hr.
      - apply andb_true_iff in Hp as [_ Hp]. now apply negb_true_iff in Hp. }
    unfold joined. rewrite !filter_filter. apply filter_ext_in. intros r Hr.
    transitivity (forallb (fun b => keep_sql B b r) cs).
    - unfold F1, F2, rest. rewrite andb_assoc. apply (forallb_split3 (fun b => keep_sql B b r) is_plain (is_dec qk) cs). exact plain_not_dec.
    - unfold keep_sql, cs. symmetry. apply conj_keep_sql.
  Qed.

  Lemma where_row_agree w :
    (forall b x, In b (conjuncts w) -> In x rows -> known_conj qk on B Rowwise rows x b = false) ->
    filter (keep_row qk B (first_row rows) w) rows = filter (keep_sql B w) rows.
  Proof.
    intros H. apply filter_ext_in. intros r Hr. unfold keep_row, keep_sql. rewrite conj_keep_eng, conj_keep_sql.
    apply forallb_ext_in. intros b Hb. apply (conj_rowwise b (first_row rows) r); auto.
    unfold first_row. eapply hd_in. exact Hr.
  Qed.

  Lemma sel_agree items g :
    (forall b x, In b items -> In x rows -> known_val on B rows x b = false) ->
    sel_eng qk B items (filter g rows)
    = map (fun r => map (sbool_val sql_sem (atom_sql B r) r) items) (filter g rows).
  Proof.
    intros H. unfold sel_eng. apply map_ext_in. intros r Hr. apply map_ext_in. intros b Hb.
    assert (forall z, In z (filter g rows) -> In z rows) as Hin by (intros z Hz; apply filter_In in Hz; tauto).
    apply (val_agree qk B rows); auto.
    apply Hin. unfold first_row. eapply hd_in. exact Hr.
  Qed.
End Top.

(* ---------- the agreement theorem ---------- *)
Theorem sub_agree qk B m sq :
  known_sub qk B m sq = false -> sub_eval_eng qk B m sq = sub_eval_sql B sq.
Proof.
  destruct sq as [outer w items]. unfold known_sub. cbn [known_sub_with]. intros K.
  apply orb_false_iff in K as [K Krows]. apply orb_false_iff in K as [K0 Kname]. cbn in K0.
  set (rows := qeval sql_qsem (flat B) outer) in *.
  assert (forall b x, In b (conjuncts w) -> In x rows -> known_conj qk (with_base qk) B m rows x b = false) as Hc.
  { intros b x Hb Hx. pose proof (existsb_false_forall _ _ Krows x Hx) as Hx'. apply orb_false_iff in Hx' as [Hx' _].
    exact (existsb_false_forall _ _ Hx' b Hb). }
  assert (forall b x, In b items -> In x rows -> known_val (with_base qk) B rows x b = false) as Hi.
  { intros b x Hb Hx. pose proof (existsb_false_forall _ _ Krows x Hx) as Hx'. apply orb_false_iff in Hx' as [_ Hx'].
    exact (existsb_false_forall _ _ Hx' b Hb). }
  destruct m; cbn [sub_eval_eng sub_eval_row sub_eval_dec sub_eval_sql]; rewrite (eng_query_agrees _ _ K0); fold rows.
  - rewrite (where_row_agree qk B rows w Hc). now apply sel_agree.
  - rewrite (where_dec_agree qk B rows w Hc Kname). now apply sel_agree.
Qed.

Corollary decorrelated_eq_rowwise qk B sq :
  known_sub qk B Decorr sq = false -> known_sub qk B Rowwise sq = false ->
  sub_eval_eng qk B Decorr sq = sub_eval_eng qk B Rowwise sq.
Proof. intros H1 H2. now rewrite (sub_agree _ _ _ _ H1), (sub_agree _ _ _ _ H2). Qed.

(* ---------- the rewrites at the relational level ---------- *)
Lemma decorrelate_exists_semi wl wr c (O S : rel) :
  filter (fun r => negb (is_nil (filter (corr_ok c r) S))) O = join_gen JSemi wl wr (corr_ok c) O S.
Proof. cbn [join_gen]. apply filter_ext. intros r. apply nonnil_filter. Qed.

Lemma decorrelate_not_exists_anti wl wr c (O S : rel) :
  filter (fun r => is_nil (filter (corr_ok c r) S)) O = join_gen JAnti wl wr (corr_ok c) O S.
Proof. cbn [join_gen]. apply filter_ext. intros r. rewrite <- nonnil_filter. now rewrite negb_involutive. Qed.

(* x IN (SELECT col FROM S), kept as a WHERE conjunct = Semi join on x = col, NULLs or not *)
Lemma decorrelate_in_semi wl wr (x : row -> value) col (O S : rel) :
  filter (fun r => keeps (in_sql false (x r) (map (cell col) S))) O
  = join_gen JSemi wl wr (fun r s => keeps (compare_op CEq (x r) (cell col s))) O S.
Proof.
  cbn [join_gen]. apply filter_ext. intros r. rewrite <- semi_keeps. now rewrite existsb_map.
Qed.

Lemma cmp_null_operand x v : is_null (compare_op CEq x v) = true -> is_null x || is_null v = true.
Proof.
  destruct x, v; cbn; intros H; try reflexivity; try discriminate;
    repeat match type of H with context [match ?c with _ => _ end] => destruct c end; discriminate.
Qed.

(* x NOT IN (SELECT col FROM S) = Anti join on x = col only when no NULL is involved *)
Lemma decorrelate_not_in_anti_no_nulls wl wr (x : row -> value) col (O S : rel) :
  (forall r, In r O -> is_null (x r) = false) -> (forall s, In s S -> is_null (cell col s) = false) ->
  filter (fun r => keeps (in_sql true (x r) (map (cell col) S))) O
  = join_gen JAnti wl wr (fun r s => keeps (compare_op CEq (x r) (cell col s))) O S.
Proof.
  intros HO HS. cbn [join_gen]. apply filter_ext_in. intros r Hr. rewrite <- anti_keeps; [now rewrite existsb_map|].
  unfold in3. destruct (existsb _ (map (cell col) S)); [reflexivity|].
  destruct (existsb (fun v => is_null (compare_op CEq (x r) v)) (map (cell col) S)) eqn:E; [|reflexivity].
  apply existsb_exists in E as (v & Hv & E). apply in_map_iff in Hv as (s & <- & Hs).
  apply cmp_null_operand in E. rewrite (HO r Hr), (HS s Hs) in E. discriminate.
Qed.

(* ---------- inside the classes the deviations are real ---------- *)
Definition t1 (rows : rel) : list rel := [rows].
Definition sel0 : list sbool := [BExpr (ECol 0)].

(* NOT IN over a set containing NULL must keep no row; the Anti join keeps both (also the NULL left operand),
   the executor keeps the non-NULL one *)
Definition w_not_in := SSelect (QTable 0 1) (BAtom (SIn true (ECol 0) (QTable 1 1) 0 [])) sel0.
Definition B_not_in : list (list rel) := [t1 [[VNull]; [VInt 2]]; t1 [[VInt 1]; [VNull]]].
Lemma not_in_null_refuted :
  sub_eval_sql B_not_in w_not_in = [] /\
  sub_eval_eng eng_quirks B_not_in Decorr w_not_in = [[VNull]; [VInt 2]] /\
  sub_eval_eng eng_quirks B_not_in Rowwise w_not_in = [[VInt 2]] /\
  sub_known_bits eng_quirks B_not_in Decorr w_not_in = [true; false; false; false; false; false; false; false; false; false].
Proof. vm_compute. auto. Qed.

(* NOT IN over an empty set keeps every row, a NULL left operand too; the executor drops it *)
Definition B_not_in_empty : list (list rel) := [t1 [[VNull]]; t1 []].
Lemma not_in_empty_refuted :
  sub_eval_sql B_not_in_empty w_not_in = [[VNull]] /\
  sub_eval_eng eng_quirks B_not_in_empty Decorr w_not_in = [[VNull]] /\
  sub_eval_eng eng_quirks B_not_in_empty Rowwise w_not_in = [] /\
  sub_known_bits eng_quirks B_not_in_empty Rowwise w_not_in = [true; false; false; false; false; false; false; false; false; false].
Proof. vm_compute. auto. Qed.

(* NOT (NULL IN (1)) is NULL; the two-valued IN makes it TRUE (both plans: NOT(..) is never decorrelated) *)
Definition w_not_of_in := SSelect (QTable 0 1) (BNot (BAtom (SIn false (ECol 0) (QTable 1 1) 0 []))) sel0.
Definition B_not_of_in : list (list rel) := [t1 [[VNull]]; t1 [[VInt 1]]].
Lemma in_under_not_refuted :
  sub_eval_sql B_not_of_in w_not_of_in = [] /\
  sub_eval_eng eng_quirks B_not_of_in Decorr w_not_of_in = [[VNull]] /\
  sub_eval_eng eng_quirks B_not_of_in Rowwise w_not_of_in = [[VNull]].
Proof. vm_compute. auto. Qed.

(* c0 >= 0 AND 1 = (SELECT SUM(d0) FROM s WHERE d0 = c0), two outer rows with the same key: the reduction join
   feeds every inner row twice into the aggregate (COUNT comparisons are no longer decorrelated, SUM still is) *)
Definition w_dup_sum :=
  SSelect (QTable 0 1)
    (BAnd (BExpr (ECmp CGe (ECol 0) (ELit (VInt 0))))
          (BAtom (SCmp CEq (ELit (VInt 1)) (Some (ASum, ECol 0)) (QTable 1 1) 0 [(0%nat, 0%nat)]))) sel0.
Definition B_dup : list (list rel) := [t1 [[VInt 1]; [VInt 1]]; t1 [[VInt 1]]].
Lemma agg_reduction_dup_refuted :
  sub_eval_sql B_dup w_dup_sum = [[VInt 1]; [VInt 1]] /\
  sub_eval_eng eng_quirks B_dup Rowwise w_dup_sum = [[VInt 1]; [VInt 1]] /\
  sub_eval_eng eng_quirks B_dup Decorr w_dup_sum = [] /\
  sub_known_bits eng_quirks B_dup Decorr w_dup_sum = [false; false; false; true; false; false; false; false; false; false].
Proof. vm_compute. auto. Qed.

(* SELECT (SELECT d0 FROM s WHERE d0 = c0): two matching rows must be an error; the executor answers NULL *)
Definition w_multi := SSelect (QTable 0 1) (BExpr (ELit (VBool true))) [BAtom (SScalar None (QTable 1 1) 0 [(0%nat, 0%nat)])].
Definition B_multi : list (list rel) := [t1 [[VInt 1]]; t1 [[VInt 1]; [VInt 1]]].
Lemma scalar_multirow_refuted :
  sub_must_err_sql B_multi w_multi = true /\
  sub_err_eng eng_quirks B_multi Rowwise w_multi = false /\
  sub_eval_eng eng_quirks B_multi Rowwise w_multi = [[VNull]] /\
  sub_eval_eng eng_quirks B_multi Decorr w_multi = [[VNull]] /\
  sub_known_bits eng_quirks B_multi Rowwise w_multi = [false; false; false; false; false; false; true; false; false; false].
Proof. vm_compute. auto. Qed.

(* ---------- regression theorems: the repaired defects (`fixed:` entries of known_findings.txt).
   Each states what the engine did before the repair (eng_quirks_before_fix) and that the engine model as it stands
   (eng_quirks) answers the witness like the reference. ---------- *)

(* c1 IN (SELECT d1 FROM s WHERE d0 = c0): the rewrite dropped `d0 = c0` (d0 is not selected); now it gives up and the
   executor refuses the correlated IN (the statement fails: an allowed error, class `unsupported`) *)
Definition w_in_corr :=
  SSelect (QTable 0 2) (BAtom (SIn false (ECol 1) (QTable 1 2) 1 [(0%nat, 0%nat)])) [BExpr (ECol 0); BExpr (ECol 1)].
Definition B_in_corr : list (list rel) := [t1 [[VInt 1; VInt 5]]; t1 [[VInt 2; VInt 5]]].
Lemma in_corr_dropped_regression :
  sub_eval_sql B_in_corr w_in_corr = [] /\
  sub_eval_eng eng_quirks_before_fix B_in_corr Decorr w_in_corr = [[VInt 1; VInt 5]] /\
  sub_known_bits eng_quirks_before_fix B_in_corr Decorr w_in_corr = [false; true; false; false; false; false; false; false; false; false] /\
  sub_eval_eng eng_quirks B_in_corr Decorr w_in_corr = [] /\ sub_err_eng eng_quirks B_in_corr Decorr w_in_corr = true.
Proof. vm_compute. auto. Qed.

(* 0 = (SELECT COUNT( * ) FROM s WHERE d0 = c0) over an empty s: the Left join yielded NULL, not 0 *)
Definition w_count :=
  SSelect (QTable 0 1) (BAtom (SCmp CEq (ELit (VInt 0)) (Some (ACountStar, ELit (VInt 1))) (QTable 1 1) 0 [(0%nat, 0%nat)])) sel0.
Definition B_count : list (list rel) := [t1 [[VInt 7]]; t1 []].
Lemma decorrelate_scalar_count_bug_regression :
  sub_eval_sql B_count w_count = [[VInt 7]] /\
  sub_eval_eng eng_quirks_before_fix B_count Decorr w_count = [] /\
  sub_known_bits eng_quirks_before_fix B_count Decorr w_count = [false; false; true; false; false; false; false; false; false; false] /\
  sub_eval_eng eng_quirks B_count Decorr w_count = [[VInt 7]] /\
  sub_eval_eng eng_quirks B_count Rowwise w_count = [[VInt 7]].
Proof. vm_compute. auto. Qed.

(* the COUNT form of the duplicate-key reduction: gone with the COUNT repair (the SUM form above remains) *)
Definition w_dup :=
  SSelect (QTable 0 1)
    (BAnd (BExpr (ECmp CGe (ECol 0) (ELit (VInt 0))))
          (BAtom (SCmp CEq (ELit (VInt 1)) (Some (ACountStar, ELit (VInt 1))) (QTable 1 1) 0 [(0%nat, 0%nat)]))) sel0.
Lemma agg_reduction_dup_count_regression :
  sub_eval_sql B_dup w_dup = [[VInt 1]; [VInt 1]] /\
  sub_eval_eng eng_quirks_before_fix B_dup Decorr w_dup = [] /\
  sub_eval_eng eng_quirks B_dup Decorr w_dup = [[VInt 1]; [VInt 1]].
Proof. vm_compute. auto. Qed.

(* 2 = COUNT( * ) AND 2 = MAX(d0): the second comparison read the first `__scalar_result` *)
Definition w_name :=
  SSelect (QTable 0 1)
    (BAnd (BAtom (SCmp CEq (ELit (VInt 2)) (Some (ACountStar, ELit (VInt 1))) (QTable 1 1) 0 [(0%nat, 0%nat)]))
          (BAtom (SCmp CEq (ELit (VInt 2)) (Some (AMax, ECol 0)) (QTable 1 1) 0 [(0%nat, 0%nat)]))) sel0.
Definition B_name : list (list rel) := [t1 [[VInt 1]]; t1 [[VInt 1]; [VInt 1]]].
Lemma scalar_name_regression :
  sub_eval_sql B_name w_name = [] /\
  sub_eval_eng eng_quirks_before_fix B_name Decorr w_name = [[VInt 1]] /\
  sub_known_bits eng_quirks_before_fix B_name Decorr w_name = [false; false; false; false; true; false; false; false; false; false] /\
  sub_eval_eng eng_quirks B_name Decorr w_name = [] /\
  sub_eval_eng eng_quirks B_name Rowwise w_name = [].
Proof. vm_compute. auto. Qed.

(* c0 = (SELECT d0 FROM s WHERE d0 = 7), s stored as two batches (5) (7): the first batch is empty => was NULL *)
Definition w_batches :=
  SSelect (QTable 0 1)
    (BAtom (SCmp CEq (ECol 0) None (QFilter (QTable 1 1) (ECmp CEq (ECol 0) (ELit (VInt 7)))) 0 [])) sel0.
Definition B_batches : list (list rel) := [t1 [[VInt 7]]; [[[VInt 5]]; [[VInt 7]]]].
Lemma scalar_batches_regression :
  sub_eval_sql B_batches w_batches = [[VInt 7]] /\
  sub_eval_eng eng_quirks_before_fix B_batches Rowwise w_batches = [] /\
  sub_eval_eng eng_quirks_before_fix B_batches Decorr w_batches = [] /\
  sub_known_bits eng_quirks_before_fix B_batches Rowwise w_batches = [false; false; false; false; false; true; false; false; false; false] /\
  sub_eval_eng eng_quirks B_batches Rowwise w_batches = [[VInt 7]] /\
  sub_eval_eng eng_quirks B_batches Decorr w_batches = [[VInt 7]].
Proof. vm_compute. repeat split. Qed.

(* SELECT (SELECT d0 FROM s WHERE d0 = c0) over outer rows 5, 1: the NULL of the first row nulled the second *)
Definition B_first : list (list rel) := [t1 [[VInt 5]; [VInt 1]]; t1 [[VInt 1]]].
Lemma scalar_first_null_regression :
  sub_eval_sql B_first w_multi = [[VNull]; [VInt 1]] /\
  sub_eval_eng eng_quirks_before_fix B_first Rowwise w_multi = [[VNull]; [VNull]] /\
  sub_eval_eng eng_quirks_before_fix B_first Decorr w_multi = [[VNull]; [VNull]] /\
  sub_known_bits eng_quirks_before_fix B_first Rowwise w_multi = [false; false; false; false; false; false; false; true; false; false] /\
  sub_eval_eng eng_quirks B_first Rowwise w_multi = [[VNull]; [VInt 1]] /\
  sub_eval_eng eng_quirks B_first Decorr w_multi = [[VNull]; [VInt 1]].
Proof. vm_compute. repeat split. Qed.

(* every witness is answered correctly once the defects are switched off *)
Lemma repaired_model_answers_witnesses :
  let q0 := fun _ : sclass => false in
  sub_eval_eng q0 B_not_in Rowwise w_not_in = sub_eval_sql B_not_in w_not_in /\
  sub_eval_eng q0 B_not_in Decorr w_not_in = sub_eval_sql B_not_in w_not_in /\
  sub_eval_eng q0 B_count Decorr w_count = sub_eval_sql B_count w_count /\
  sub_eval_eng q0 B_dup Decorr w_dup = sub_eval_sql B_dup w_dup /\
  sub_eval_eng q0 B_name Decorr w_name = sub_eval_sql B_name w_name /\
  sub_eval_eng q0 B_batches Rowwise w_batches = sub_eval_sql B_batches w_batches /\
  sub_eval_eng q0 B_first Rowwise w_multi = sub_eval_sql B_first w_multi.
Proof. vm_compute. repeat split. Qed.

(* non-vacuity: NULLs on both sides, duplicate correlation values, an empty match, two subquery conjuncts and a
   scalar COUNT in the SELECT list, outside every class for both plans *)
Definition B_ok : list (list rel) :=
  [t1 [[VInt 1; VInt 10]; [VInt 1; VInt 10]; [VInt 2; VNull]; [VNull; VInt 30]];
   t1 [[VInt 1; VInt 10]; [VInt 3; VNull]; [VNull; VInt 30]]].
Definition w_ok :=
  SSelect (QTable 0 2)
    (BAnd (BAtom (SExists false (QTable 1 2) [(0%nat, 0%nat)]))
          (BAtom (SIn false (ECol 1) (QFilter (QTable 1 2) (EIsNotNull (ECol 1))) 1 [])))
    [BExpr (ECol 0); BAtom (SScalar (Some (ACountStar, ELit (VInt 1))) (QTable 1 2) 0 [(0%nat, 0%nat)])].
Example sub_agree_nontrivial :
  known_sub eng_quirks B_ok Decorr w_ok = false /\ known_sub eng_quirks B_ok Rowwise w_ok = false /\
  sub_eval_sql B_ok w_ok = [[VInt 1; VInt 1]; [VInt 1; VInt 1]].
Proof. vm_compute. auto. Qed.

(* the engine as it stands: only these classes can still make `known_sub eng_quirks` true
   (order of `sclasses`: in-null, in-corr, count-bug, agg-dup, scalar-name, scalar-batches, scalar-multirow,
   scalar-first-null, unsupported, base) *)
Lemma eng_classes_remaining :
  map (with_base eng_quirks) sclasses = [true; false; false; true; false; false; true; false; true; true].
Proof. reflexivity. Qed.

Corollary sub_agree_eng B m sq :
  known_sub eng_quirks B m sq = false -> sub_eval_eng eng_quirks B m sq = sub_eval_sql B sq.
Proof. apply sub_agree. Qed.
