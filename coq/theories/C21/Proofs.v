(* C21 — Aggregates follow SQL NULL and empty-input rules on every path.
   The reference semantics (sql_qsem) and the engine model (eng_qsem) share `group_rows` / `agg_apply`
   (Sql/Query.v); their agreement on whole queries is `eng_query_agrees` (Sql/QueryProofs.v). This file proves
   the NULL / empty-input rules of that shared definition, and the partial-aggregation (merge) algebra that
   makes the morsel / parallel / disjoint / spilled evaluation orders legitimate.
   anchors: src/physical/operators/hash_agg.rs (AccumulatorState, update_accumulator, build_agg_array,
            extract_group_value), src/physical/morsel_agg.rs (AccumulatorState::{update,merge,finalize},
            AggregationState::{process_batch,merge}, merge_states_to_batches),
            src/physical/operators/spillable.rs (fused streaming / disjoint / spilled paths) *)
From QV Require Import Sql.Query Sql.QueryProofs C24.Proofs.

(* ================= 1. aggregates ignore NULL inputs ================= *)

Lemma filter_idem {A} (p : A -> bool) l : filter p (filter p l) = filter p l.
Proof.
  induction l as [|h t IH]; cbn [filter]; [reflexivity|].
  destruct (p h) eqn:E; cbn [filter]; [rewrite E; now f_equal | exact IH].
Qed.

Lemma non_null_idem vs : non_null (non_null vs) = non_null vs.
Proof. apply filter_idem. Qed.

Lemma non_null_app a b : non_null (a ++ b) = non_null a ++ non_null b.
Proof. apply filter_app. Qed.

(* every aggregate sees its argument list only through the non-NULL values (COUNT( * ) sees only the row count) *)
Lemma agg_ignores_nulls f args n : agg_apply f args n = agg_apply f (non_null args) n.
Proof. unfold agg_apply. now rewrite non_null_idem. Qed.

(* adding or removing NULL inputs anywhere does not change COUNT(e)/SUM/AVG/MIN/MAX/COUNT(DISTINCT e) *)
Lemma agg_null_insensitive f a b n m :
  f <> ACountStar -> agg_apply f (a ++ VNull :: b) n = agg_apply f (a ++ b) m.
Proof.
  intros Hf. unfold agg_apply. rewrite !non_null_app. cbn [non_null filter is_null negb].
  fold (non_null b). destruct f; try reflexivity. now contradiction Hf.
Qed.

Lemma non_null_map_filter {A} (g : A -> value) l :
  non_null (map g l) = map g (filter (fun x => negb (is_null (g x))) l).
Proof.
  induction l as [|h t IH]; [reflexivity|]. cbn [map filter non_null]. fold (non_null (map g t)).
  destruct (negb (is_null (g h))); cbn [map]; now rewrite IH.
Qed.

(* query level: a global aggregate f(e) equals the same aggregate over the rows WHERE e IS NOT NULL *)
Lemma global_agg_filter_not_null Q f e rows :
  f <> ACountStar ->
  group_rows Q [] [(f, e)] rows
  = group_rows Q [] [(f, e)] (filter (fun r => negb (is_null (eval (q_esem Q) r e))) rows).
Proof.
  intros Hf. unfold group_rows. cbn [map fst snd app]. do 2 f_equal.
  set (g := fun r => eval (q_esem Q) r e).
  rewrite (agg_ignores_nulls f (map g rows)), (agg_ignores_nulls f (map g (filter _ rows))).
  rewrite !non_null_map_filter, filter_idem.
  unfold agg_apply. destruct f; try reflexivity. now contradiction Hf.
Qed.

(* ================= 2. groups with no non-NULL input ================= *)

Definition empty_result (f : aggfn) (nrows : nat) : value :=
  match f with
  | ACountStar => VInt (Z.of_nat nrows)
  | ACount | ACountDistinct => VInt 0
  | ASum | AAvg | AMin | AMax => VNull
  end.

Lemma agg_no_non_null f args n : non_null args = [] -> agg_apply f args n = empty_result f n.
Proof. intros H. unfold agg_apply. rewrite H. now destruct f. Qed.

Lemma non_null_repeat_null k : non_null (repeat VNull k) = [].
Proof. induction k as [|k IH]; [reflexivity | exact IH]. Qed.

(* an all-NULL group: NULL from SUM/AVG/MIN/MAX, 0 from COUNT / COUNT DISTINCT, the row count from COUNT( * ) *)
Lemma agg_all_null f k n : agg_apply f (repeat VNull k) n = empty_result f n.
Proof. apply agg_no_non_null, non_null_repeat_null. Qed.

(* ... and conversely COUNT(e) = 0 exactly when the group has no non-NULL input *)
Lemma count_zero_iff args n : agg_apply ACount args n = VInt 0 <-> non_null args = [].
Proof.
  unfold agg_apply. split; intros H.
  - destruct (non_null args); [reflexivity|]. cbn [length] in H. injection H as H. lia.
  - now rewrite H.
Qed.

(* ================= 3. global aggregates always return exactly one row ================= *)

Lemma global_one_row Q aggs rows : length (group_rows Q [] aggs rows) = 1%nat.
Proof. reflexivity. Qed.

Lemma global_empty_row Q aggs :
  group_rows Q [] aggs [] = [map (fun fa => empty_result (fst fa) 0) aggs].
Proof.
  unfold group_rows. cbn [app map length]. f_equal; try (apply map_ext; intros [f e]; now destruct f).
Qed.

Lemma global_over_empty Q aggs :
  group_rows Q [] aggs []
  = [map (fun fa => match fst fa with
                    | ACountStar | ACount | ACountDistinct => VInt 0
                    | ASum | AAvg | AMin | AMax => VNull end) aggs].
Proof. rewrite global_empty_row. f_equal; try (apply map_ext; intros [f e]; now destruct f). Qed.

(* a grouped aggregate over no rows has no groups *)
Lemma grouped_empty_no_rows Q k keys aggs : group_rows Q (k :: keys) aggs [] = [].
Proof. reflexivity. Qed.

Lemma global_empty_query Q db n w aggs :
  nth n db [] = [] ->
  qeval Q db (QAgg (QTable n w) [] aggs) = [map (fun fa => empty_result (fst fa) 0) aggs].
Proof.
  intros H. change (qeval Q db (QAgg (QTable n w) [] aggs)) with (group_rows Q [] aggs (nth n db [])).
  rewrite H. apply global_empty_row.
Qed.

(* ================= 4. NULL grouping keys form exactly one group ================= *)

Definition all_null (r : row) : bool := forallb is_null r.

Lemma value_same_null_eq a b : value_same a b = true -> is_null a = is_null b.
Proof. destruct a, b; cbn; congruence. Qed.

Lemma row_same_all_null a : forall b, row_same a b = true -> all_null a = all_null b.
Proof.
  induction a as [|x a IH]; intros [|y b] H; cbn [row_same] in H; try discriminate; [reflexivity|].
  apply andb_true_iff in H as [H1 H2]. unfold all_null in *. cbn [forallb].
  now rewrite (value_same_null_eq _ _ H1), (IH _ H2).
Qed.

Lemma all_null_is_nulls r : all_null r = true -> r = nulls (length r).
Proof.
  induction r as [|x r IH]; cbn; [reflexivity|]. intros H. apply andb_true_iff in H as [H1 H2].
  destruct x; try discriminate. unfold nulls in *. cbn [repeat]. f_equal. now apply IH.
Qed.

Lemma all_null_nulls k : all_null (nulls k) = true.
Proof. induction k as [|k IH]; [reflexivity | exact IH]. Qed.

Lemma row_same_nulls r : row_same r (nulls (length r)) = all_null r.
Proof.
  induction r as [|x r IH]; [reflexivity|]. cbn [length nulls repeat row_same all_null forallb].
  fold (nulls (length r)). fold (all_null r). rewrite IH. now destruct x.
Qed.

Lemma row_same_refl_nulls k : row_same (nulls k) (nulls k) = true.
Proof. induction k as [|k IH]; [reflexivity | exact IH]. Qed.

Lemma distinct_by_incl eq l x : In x (distinct_by eq l) -> In x l.
Proof.
  revert x. induction l as [|h t IH]; cbn [distinct_by]; intros x H; [exact H|].
  destruct H as [H|H]; [now left|]. right. apply filter_In in H. now apply IH.
Qed.

Lemma mem_by_filter eq p x l : mem_by eq x (filter p l) = true -> mem_by eq x l = true.
Proof.
  unfold mem_by. rewrite !existsb_exists. intros [y [Hy E]]. apply filter_In in Hy. exists y. tauto.
Qed.

Lemma has_dups_filter p l : has_dups l = false -> has_dups (filter p l) = false.
Proof.
  induction l as [|h t IH]; cbn [has_dups filter]; [auto|]. intros H.
  apply orb_false_iff in H as [H1 H2]. destruct (p h); [|now apply IH].
  cbn [has_dups]. apply orb_false_iff. split; [|now apply IH].
  destruct (mem_by row_same h (filter p t)) eqn:E; [|reflexivity].
  apply mem_by_filter in E. congruence.
Qed.

(* DISTINCT / the list of groups never contains two rows that are "not distinct" from each other *)
Lemma distinct_no_dups l : has_dups (distinct l) = false.
Proof.
  unfold distinct. induction l as [|h t IH]; [reflexivity|]. cbn [distinct_by has_dups].
  apply orb_false_iff. split; [|now apply has_dups_filter].
  unfold mem_by. destruct (existsb _ _) eqn:E; [|reflexivity].
  apply existsb_exists in E as [y [Hy E]]. apply filter_In in Hy as [_ Hy]. now rewrite E in Hy.
Qed.

(* among key tuples of one width, the all-NULL tuple survives DISTINCT exactly once — iff it occurs at all *)
Lemma distinct_all_null k l :
  (forall r, In r l -> length r = k) ->
  filter all_null (distinct l) = if existsb all_null l then [nulls k] else [].
Proof.
  unfold distinct. induction l as [|h t IH]; intros HL; [reflexivity|].
  assert (forall r, In r t -> length r = k) as HT by (intros; apply HL; now right).
  assert (length h = k) as Hh by (apply HL; now left).
  specialize (IH HT). cbn [distinct_by filter existsb].
  destruct (all_null h) eqn:Eh; cbn [orb].
  - rewrite (all_null_is_nulls _ Eh), Hh. f_equal. apply filter_none. intros y Hy.
    apply filter_In in Hy as [Hy Hn]. destruct (all_null y) eqn:Ey; [|reflexivity].
    apply distinct_by_incl in Hy. rewrite (all_null_is_nulls _ Ey), (HT _ Hy), row_same_refl_nulls in Hn.
    discriminate.
  - rewrite <- IH. clear IH. induction (distinct_by row_same t) as [|y ys IHy]; [reflexivity|].
    cbn [filter]. destruct (row_same h y) eqn:Es; cbn [negb filter].
    + apply row_same_all_null in Es. rewrite <- Es, Eh. exact IHy.
    + destruct (all_null y); [now f_equal | exact IHy].
Qed.

Lemma filter_map_comm {A B} (p : B -> bool) (q : A -> bool) (g : A -> B) l :
  (forall x, In x l -> p (g x) = q x) -> filter p (map g l) = map g (filter q l).
Proof.
  induction l as [|h t IH]; intros H; [reflexivity|]. cbn [map filter].
  rewrite (H h) by now left. destruct (q h); cbn [map]; rewrite IH; auto; intros; apply H; now right.
Qed.

Lemma all_null_firstn_app ks rest : all_null (firstn (length ks) (ks ++ rest)) = all_null ks.
Proof. now rewrite firstn_app, Nat.sub_diag, firstn_all, firstn_O, app_nil_r. Qed.

Lemma existsb_all_null_members {A} (g : A -> list value) l :
  existsb all_null (map g l) = negb (match filter (fun r => all_null (g r)) l with [] => true | _ => false end).
Proof.
  induction l as [|r rs IH]; [reflexivity|].
  cbn [map existsb filter]. destruct (all_null (g r)); [reflexivity | exact IH].
Qed.

(* the rows whose key tuple is NULL in every key column *)
Definition null_key_members (Q : qsem) (keys : list expr) (rows : rel) : rel :=
  filter (fun r => all_null (map (eval (q_esem Q) r) keys)) rows.

(* NULL grouping keys form exactly one group: the output has at most one row whose key columns are all NULL;
   it exists iff some input row has an all-NULL key, and it aggregates exactly ALL such rows. *)
Lemma null_keys_one_group Q keys aggs rows :
  keys <> [] ->
  filter (fun o => all_null (firstn (length keys) o)) (group_rows Q keys aggs rows)
  = match null_key_members Q keys rows with
    | [] => []
    | ms => [nulls (length keys)
             ++ map (fun fa => agg_apply (fst fa) (map (fun r => eval (q_esem Q) r (snd fa)) ms) (length ms)) aggs]
    end.
Proof.
  intros Hk.
  set (S := q_esem Q). set (k := length keys). set (kv := fun r : row => map (eval S r) keys).
  set (out := fun ks => ks ++ map (fun fa => agg_apply (fst fa)
               (map (fun r => eval S r (snd fa)) (filter (fun r => row_same (kv r) ks) rows))
               (length (filter (fun r => row_same (kv r) ks) rows))) aggs).
  assert (forall r, length (kv r) = k) as Hkv by (intros r; unfold kv, k; apply map_length).
  assert (group_rows Q keys aggs rows = map out (distinct (map kv rows))) as EG.
  { unfold group_rows. destruct keys; [congruence | reflexivity]. }
  rewrite EG. change (null_key_members Q keys rows) with (filter (fun r => all_null (kv r)) rows).
  assert (forall ks, In ks (distinct (map kv rows)) -> length ks = k) as HL.
  { intros ks H. apply distinct_by_incl, in_map_iff in H as [r [<- _]]. apply Hkv. }
  rewrite (filter_map_comm _ all_null out).
  2:{ intros ks H. unfold out. rewrite <- (HL _ H). apply all_null_firstn_app. }
  rewrite (distinct_all_null k).
  2:{ intros r H. apply in_map_iff in H as [r0 [<- _]]. apply Hkv. }
  assert (filter (fun r => row_same (kv r) (nulls k)) rows = filter (fun r => all_null (kv r)) rows) as EM.
  { apply filter_ext. intros r. rewrite <- (Hkv r). apply row_same_nulls. }
  rewrite (existsb_all_null_members kv rows).
  destruct (filter (fun r => all_null (kv r)) rows) as [|m ms] eqn:EN; cbn [negb map]; [reflexivity|].
  unfold out. now rewrite EM.
Qed.

(* ================= 5. partial aggregation: the merge algebra =================
   Inputs are nullable exact integers (option Z); `inj` embeds them into SQL values. A partial state carries
   what every path's accumulators carry: row count (COUNT( * )), non-NULL count (COUNT(e), AVG's divisor, and the
   "seen" bit of SUM), exact sum, running MIN / MAX (None = no value yet), and the set of distinct values. *)

Definition inj (o : option Z) : value := match o with Some z => VInt z | None => VNull end.

Fixpoint somes (l : list (option Z)) : list Z :=
  match l with [] => [] | Some z :: t => z :: somes t | None :: t => somes t end.

Definition omerge (f : Z -> Z -> Z) (a b : option Z) : option Z :=
  match a, b with Some x, Some y => Some (f x y) | Some x, None => Some x | None, y => y end.

Fixpoint lbest (f : Z -> Z -> Z) (zs : list Z) : option Z :=
  match zs with [] => None | z :: t => omerge f (Some z) (lbest f t) end.

Definition zmem (z : Z) (l : list Z) : bool := existsb (Z.eqb z) l.

Fixpoint dz (zs : list Z) : list Z :=
  match zs with [] => [] | z :: t => z :: filter (fun y => negb (z =? y)) (dz t) end.

Record pstate := mkP {
  p_rows : nat; p_cnt : nat; p_sum : Z; p_min : option Z; p_max : option Z; p_dist : list Z }.

Definition pempty : pstate := mkP 0 0 0 None None [].

Definition partial (l : list (option Z)) : pstate :=
  let zs := somes l in
  mkP (length l) (length zs) (zsum zs) (lbest Z.min zs) (lbest Z.max zs) (dz zs).

Definition dmerge (a b : list Z) : list Z := a ++ filter (fun y => negb (zmem y a)) b.

Definition merge (a b : pstate) : pstate :=
  mkP (p_rows a + p_rows b) (p_cnt a + p_cnt b) (p_sum a + p_sum b)
      (omerge Z.min (p_min a) (p_min b)) (omerge Z.max (p_max a) (p_max b))
      (dmerge (p_dist a) (p_dist b)).

Definition finish (f : aggfn) (s : pstate) : value :=
  match f with
  | ACountStar => VInt (Z.of_nat (p_rows s))
  | ACount => VInt (Z.of_nat (p_cnt s))
  | ASum => match p_cnt s with O => VNull | _ => VInt (p_sum s) end
  | AAvg => match p_cnt s with
            | O => VNull
            | _ => VDbl (Qred (inject_Z (p_sum s) / inject_Z (Z.of_nat (p_cnt s)))%Q) end
  | AMin => match p_min s with Some z => VInt z | None => VNull end
  | AMax => match p_max s with Some z => VInt z | None => VNull end
  | ACountDistinct => VInt (Z.of_nat (length (p_dist s)))
  end.

(* ---- merge is a monoid operation, literally ---- *)
Lemma omerge_assoc f (Hf : forall x y z, f x (f y z) = f (f x y) z) a b c :
  omerge f a (omerge f b c) = omerge f (omerge f a b) c.
Proof. destruct a, b, c; cbn; try reflexivity. now rewrite Hf. Qed.

Lemma omerge_comm f (Hf : forall x y, f x y = f y x) a b : omerge f a b = omerge f b a.
Proof. destruct a, b; cbn; try reflexivity. now rewrite Hf. Qed.

Lemma zmem_app z a b : zmem z (a ++ b) = zmem z a || zmem z b.
Proof. apply existsb_app. Qed.

Lemma zmem_filter z p l : zmem z (filter p l) = zmem z l && p z.
Proof.
  unfold zmem. induction l as [|h t IH]; [reflexivity|]. cbn [filter existsb].
  destruct (p h) eqn:E; cbn [existsb]; rewrite IH; destruct (z =? h) eqn:Ez; cbn [orb andb]; try reflexivity.
  - apply Z.eqb_eq in Ez. subst. now rewrite E.
  - apply Z.eqb_eq in Ez. subst. rewrite E. now rewrite andb_false_r.
Qed.

Lemma filter_filter {A} (p q : A -> bool) l : filter p (filter q l) = filter (fun x => q x && p x) l.
Proof.
  induction l as [|h t IH]; [reflexivity|]. cbn [filter]. destruct (q h); cbn [filter andb]; [|exact IH].
  destruct (p h); now rewrite IH.
Qed.

Lemma dmerge_assoc a b c : dmerge a (dmerge b c) = dmerge (dmerge a b) c.
Proof.
  unfold dmerge. rewrite filter_app, <- app_assoc. do 2 f_equal.
  rewrite filter_filter. apply filter_ext. intros y.
  rewrite zmem_app, zmem_filter. destruct (zmem y a), (zmem y b); reflexivity.
Qed.

Lemma merge_assoc a b c : merge a (merge b c) = merge (merge a b) c.
Proof.
  unfold merge. cbn [p_rows p_cnt p_sum p_min p_max p_dist]. f_equal; try lia.
  - apply omerge_assoc, Z.min_assoc.
  - apply omerge_assoc, Z.max_assoc.
  - apply dmerge_assoc.
Qed.

Lemma merge_empty_l s : merge pempty s = s.
Proof.
  destruct s as [r c sm mn mx d]. unfold merge, pempty, dmerge. cbn [p_rows p_cnt p_sum p_min p_max p_dist app omerge].
  f_equal. apply filter_all. reflexivity.
Qed.

Lemma merge_empty_r s : merge s pempty = s.
Proof.
  destruct s as [r c sm mn mx d]. unfold merge, pempty, dmerge. cbn [p_rows p_cnt p_sum p_min p_max p_dist filter].
  rewrite app_nil_r. f_equal; try lia; now destruct mn + destruct mx.
Qed.

Lemma merge_identity s : merge pempty s = s /\ merge s pempty = s.
Proof. split; [apply merge_empty_l | apply merge_empty_r]. Qed.

(* ---- ... and commutative up to the order in which the distinct set is listed ---- *)
Definition pequiv (a b : pstate) : Prop :=
  p_rows a = p_rows b /\ p_cnt a = p_cnt b /\ p_sum a = p_sum b /\ p_min a = p_min b /\ p_max a = p_max b
  /\ Permutation (p_dist a) (p_dist b).

Lemma zmem_In z l : zmem z l = true <-> In z l.
Proof.
  unfold zmem. rewrite existsb_exists. split.
  - intros [y [H E]]. apply Z.eqb_eq in E. now subst.
  - intros H. exists z. split; [exact H | apply Z.eqb_refl].
Qed.

Lemma NoDup_filter {A} (p : A -> bool) l : NoDup l -> NoDup (filter p l).
Proof.
  induction 1 as [|x l Hx Hn IH]; cbn [filter]; [constructor|].
  destruct (p x); [constructor; [|exact IH] | exact IH]. intros H. apply filter_In in H. tauto.
Qed.

Lemma dz_NoDup zs : NoDup (dz zs).
Proof.
  induction zs as [|z t IH]; cbn [dz]; constructor; [|now apply NoDup_filter].
  intros H. apply filter_In in H as [_ H]. now rewrite Z.eqb_refl in H.
Qed.

Lemma dz_In zs x : In x (dz zs) <-> In x zs.
Proof.
  induction zs as [|z t IH]; cbn [dz]; [tauto|]. cbn [In]. rewrite filter_In, IH. split.
  - tauto.
  - intros [H|H]; [now left|]. destruct (Z.eq_dec z x) as [E|E]; [now left|]. right. split; [exact H|].
    apply Z.eqb_neq in E. now rewrite E.
Qed.

Lemma NoDup_app_intro {A} (a b : list A) :
  NoDup a -> NoDup b -> (forall x, In x a -> In x b -> False) -> NoDup (a ++ b).
Proof.
  induction 1 as [|x a Hx Ha IH]; intros Hb HD; cbn [app]; [exact Hb|]. constructor.
  - rewrite in_app_iff. intros [H|H]; [exact (Hx H) | exact (HD x (or_introl eq_refl) H)].
  - apply IH; [exact Hb|]. intros y Hy. apply HD. now right.
Qed.

Lemma dmerge_NoDup a b : NoDup a -> NoDup b -> NoDup (dmerge a b).
Proof.
  intros Ha Hb. unfold dmerge. apply NoDup_app_intro; [exact Ha | now apply NoDup_filter |].
  intros x Hx Hy. apply filter_In in Hy as [_ Hy]. apply zmem_In in Hx. now rewrite Hx in Hy.
Qed.

Lemma dmerge_In a b x : In x (dmerge a b) <-> In x a \/ In x b.
Proof.
  unfold dmerge. rewrite in_app_iff, filter_In. split; [tauto|]. intros [H|H]; [now left|].
  destruct (zmem x a) eqn:E.
  - left. now apply zmem_In.
  - right. split; [exact H | reflexivity].
Qed.

Lemma dmerge_comm a b : NoDup a -> NoDup b -> Permutation (dmerge a b) (dmerge b a).
Proof.
  intros Ha Hb. apply NoDup_Permutation; try now apply dmerge_NoDup.
  intros x. rewrite !dmerge_In. tauto.
Qed.

(* well-formed states: the distinct set lists no value twice (true of every state built by partial / merge) *)
Definition wf (s : pstate) : Prop := NoDup (p_dist s).
Lemma wf_partial l : wf (partial l). Proof. apply dz_NoDup. Qed.
Lemma wf_merge a b : wf a -> wf b -> wf (merge a b). Proof. apply dmerge_NoDup. Qed.

Lemma merge_comm a b : wf a -> wf b -> pequiv (merge a b) (merge b a).
Proof.
  intros Ha Hb. unfold pequiv, merge. cbn [p_rows p_cnt p_sum p_min p_max p_dist].
  repeat split; try lia.
  - apply omerge_comm, Z.min_comm.
  - apply omerge_comm, Z.max_comm.
  - now apply dmerge_comm.
Qed.

Lemma finish_pequiv f a b : pequiv a b -> finish f a = finish f b.
Proof.
  intros (H1 & H2 & H3 & H4 & H5 & H6). unfold finish.
  rewrite H1, H2, H3, H4, H5, (Permutation_length H6). reflexivity.
Qed.

Lemma merge_comm_finish f a b : wf a -> wf b -> finish f (merge a b) = finish f (merge b a).
Proof. intros Ha Hb. now apply finish_pequiv, merge_comm. Qed.

Lemma merge_comm_both f a b :
  NoDup (p_dist a) -> NoDup (p_dist b) ->
  pequiv (merge a b) (merge b a) /\ finish f (merge a b) = finish f (merge b a).
Proof. intros Ha Hb. split; [now apply merge_comm | now apply merge_comm_finish]. Qed.

(* ---- partial is a monoid homomorphism: any split of the input merges to the state of the whole ---- *)
Lemma somes_app a b : somes (a ++ b) = somes a ++ somes b.
Proof. induction a as [|[z|] a IH]; cbn [somes app]; now rewrite ?IH. Qed.

Lemma lbest_app f (Hf : forall x y z, f x (f y z) = f (f x y) z) a b :
  lbest f (a ++ b) = omerge f (lbest f a) (lbest f b).
Proof.
  induction a as [|z a IH]; cbn [lbest app]; [now destruct (lbest f b)|].
  now rewrite IH, omerge_assoc.
Qed.

Lemma dz_app a b : dz (a ++ b) = dmerge (dz a) (dz b).
Proof.
  unfold dmerge. induction a as [|z a IH]; cbn [dz app].
  - symmetry. apply filter_all. reflexivity.
  - rewrite IH, filter_app. cbn [app]. do 2 f_equal.
    rewrite filter_filter. apply filter_ext. intros y.
    cbn [zmem existsb]. fold (zmem y (filter (fun y0 => negb (z =? y0)) (dz a))).
    rewrite zmem_filter, (Z.eqb_sym y z). destruct (z =? y), (zmem y (dz a)); reflexivity.
Qed.

Lemma partial_nil : partial [] = pempty.
Proof. reflexivity. Qed.

Lemma partial_app a b : partial (a ++ b) = merge (partial a) (partial b).
Proof.
  unfold partial, merge. cbn [p_rows p_cnt p_sum p_min p_max p_dist].
  rewrite somes_app, !app_length, zsum_app, dz_app.
  rewrite (lbest_app Z.min Z.min_assoc), (lbest_app Z.max Z.max_assoc). reflexivity.
Qed.

Lemma fold_merge_from parts : forall s,
  fold_left merge (map partial parts) s = merge s (partial (concat parts)).
Proof.
  induction parts as [|p ps IH]; intros s; cbn [map fold_left concat].
  - now rewrite partial_nil, merge_empty_r.
  - now rewrite IH, partial_app, merge_assoc.
Qed.

Lemma fold_merge_partial parts : fold_left merge (map partial parts) pempty = partial (concat parts).
Proof. now rewrite fold_merge_from, merge_empty_l. Qed.

(* ---- finishing the state of the whole input is the reference aggregate ---- *)
Lemma non_null_inj l : non_null (map inj l) = map VInt (somes l).
Proof.
  induction l as [|[z|] l IH]; [reflexivity| |];
    cbn [map inj somes non_null filter is_null negb]; fold (non_null (map inj l)); now rewrite IH.
Qed.

Lemma all_int_map zs : forallb (fun v => match v with VInt _ => true | _ => false end) (map VInt zs) = true.
Proof. induction zs as [|z t IH]; [reflexivity | exact IH]. Qed.

Lemma int_fold zs : forall a,
  fold_left (fun a v => match v with VInt z => a + z | _ => a end) (map VInt zs) a = a + zsum zs.
Proof.
  induction zs as [|z t IH]; intros a; cbn [map fold_left]; [unfold zsum; cbn; lia|].
  rewrite IH, zsum_cons. lia.
Qed.

Lemma sum_values_ints zs :
  sum_values (map VInt zs) = match zs with [] => VNull | _ => VInt (zsum zs) end.
Proof.
  destruct zs as [|z t]; [reflexivity|]. unfold sum_values.
  change (map VInt (z :: t)) with (VInt z :: map VInt t) at 1.
  rewrite all_int_map, int_fold. reflexivity.
Qed.

Lemma q_fold zs : forall q,
  exists q', fold_left (fun a v => match a, to_q v with Some x, Some y => Some (x + y)%Q | _, _ => None end)
                       (map VInt zs) (Some q) = Some q'
             /\ (q' == q + inject_Z (zsum zs))%Q.
Proof.
  induction zs as [|z t IH]; intros q; cbn [map fold_left to_q].
  - exists q. split; [reflexivity|]. unfold zsum; cbn. ring.
  - destruct (IH (q + inject_Z z)%Q) as [q' [E H]]. exists q'. split; [exact E|].
    rewrite H, zsum_cons, inject_Z_plus. ring.
Qed.

Lemma avg_values_ints zs :
  avg_values (map VInt zs)
  = match zs with [] => VNull
    | _ => VDbl (Qred (inject_Z (zsum zs) / inject_Z (Z.of_nat (length zs)))%Q) end.
Proof.
  destruct zs as [|z t]; [reflexivity|]. unfold avg_values.
  change (map VInt (z :: t)) with (VInt z :: map VInt t) at 1.
  destruct (q_fold (z :: t) 0%Q) as [q' [E H]]. rewrite E, map_length. f_equal.
  apply Qred_complete. unfold Qdiv. rewrite H. ring.
Qed.

Definition pick (want : comparison) : Z -> Z -> Z := match want with Lt => Z.min | _ => Z.max end.

Lemma best_fold want (Hw : want = Lt \/ want = Gt) zs : forall z,
  fold_left (fun a x => match cmp_values x a with
                        | Some c => if match c, want with Lt, Lt | Gt, Gt => true | _, _ => false end then x else a
                        | None => VErr end) (map VInt zs) (VInt z)
  = VInt (fold_left (pick want) zs z).
Proof.
  induction zs as [|x t IH]; intros z; cbn [map fold_left]; [reflexivity|].
  cbn [cmp_values]. rewrite <- IH. f_equal.
  destruct Hw as [-> | ->]; cbn [pick]; destruct (x ?= z) eqn:E; f_equal;
    try apply Z.compare_eq in E; try (rewrite Z.compare_lt_iff in E); try (rewrite Z.compare_gt_iff in E); lia.
Qed.

Lemma lbest_fold f (Hf : forall x y z, f x (f y z) = f (f x y) z) zs : forall z,
  Some (fold_left f zs z) = lbest f (z :: zs).
Proof.
  induction zs as [|x t IH]; intros z; cbn [fold_left]; [reflexivity|].
  rewrite IH. cbn [lbest]. now rewrite (omerge_assoc f Hf (Some z) (Some x)).
Qed.

Lemma best_value_ints want (Hw : want = Lt \/ want = Gt) zs :
  best_value want (map VInt zs) = match lbest (pick want) zs with Some z => VInt z | None => VNull end.
Proof.
  destruct zs as [|z t]; [reflexivity|]. unfold best_value.
  cbn [map].
  rewrite (best_fold want Hw), <- lbest_fold; [reflexivity|].
  destruct Hw as [-> | ->]; cbn [pick]; [apply Z.min_assoc | apply Z.max_assoc].
Qed.

Lemma distinct_values_ints zs : distinct_values (map VInt zs) = map VInt (dz zs).
Proof.
  induction zs as [|z t IH]; [reflexivity|]. cbn [map distinct_values dz]. f_equal. rewrite IH.
  apply filter_map_comm. intros y _. cbn [value_same cmp_values]. f_equal.
  destruct (Z.eqb_spec z y) as [->|N]; [now rewrite Z.compare_refl|].
  destruct (z ?= y) eqn:E; try reflexivity. apply Z.compare_eq in E. contradiction.
Qed.

Lemma finish_partial f l : finish f (partial l) = agg_apply f (map inj l) (length l).
Proof.
  unfold agg_apply. rewrite non_null_inj. unfold finish, partial. cbn [p_rows p_cnt p_sum p_min p_max p_dist].
  destruct f.
  - reflexivity.
  - now rewrite map_length.
  - rewrite sum_values_ints. now destruct (somes l).
  - rewrite avg_values_ints. now destruct (somes l).
  - now rewrite (best_value_ints Lt) by now left.
  - now rewrite (best_value_ints Gt) by now right.
  - now rewrite distinct_values_ints, map_length.
Qed.

(* THE partial-aggregation theorem: split the input into any parts (batches, morsels, row groups, spill
   partitions, per-thread shares), aggregate each part on its own, merge the partial states left to right,
   finish: the result is the aggregate of the whole input. *)
Theorem partial_aggregation_sound f parts :
  finish f (fold_left merge (map partial parts) pempty)
  = agg_apply f (map inj (concat parts)) (length (concat parts)).
Proof. now rewrite fold_merge_partial, finish_partial. Qed.

(* the same for any SHAPE of merging (a tree: threads merge pairwise, shards merge into a root, ...) *)
Inductive mtree := Leaf (l : list (option Z)) | Node (a b : mtree).
Fixpoint flat (t : mtree) : list (option Z) :=
  match t with Leaf l => l | Node a b => flat a ++ flat b end.
Fixpoint mstate (t : mtree) : pstate :=
  match t with Leaf l => partial l | Node a b => merge (mstate a) (mstate b) end.

Lemma mstate_flat t : mstate t = partial (flat t).
Proof. induction t as [l|a IHa b IHb]; cbn [mstate flat]; [reflexivity|]. now rewrite IHa, IHb, partial_app. Qed.

Theorem merge_tree_sound f t : finish f (mstate t) = agg_apply f (map inj (flat t)) (length (flat t)).
Proof. now rewrite mstate_flat, finish_partial. Qed.

(* ... and for any ORDER in which the rows reach the accumulators *)
Lemma somes_perm a b : Permutation a b -> Permutation (somes a) (somes b).
Proof.
  induction 1 as [|x a b H IH|x y a|a b c H1 IH1 H2 IH2]; cbn [somes].
  - constructor.
  - destruct x; [now constructor | exact IH].
  - destruct x, y; try apply Permutation_refl. apply perm_swap.
  - now transitivity (somes b).
Qed.

Lemma lbest_perm f (Ha : forall x y z, f x (f y z) = f (f x y) z) (Hc : forall x y, f x y = f y x) a b :
  Permutation a b -> lbest f a = lbest f b.
Proof.
  induction 1 as [|x a b H IH|x y a|a b c H1 IH1 H2 IH2]; cbn [lbest].
  - reflexivity.
  - now rewrite IH.
  - rewrite !(omerge_assoc f Ha). f_equal. cbn [omerge]. now rewrite Hc.
  - congruence.
Qed.

Lemma partial_perm a b : Permutation a b -> pequiv (partial a) (partial b).
Proof.
  intros H. pose proof (somes_perm _ _ H) as HS. unfold pequiv, partial. cbn [p_rows p_cnt p_sum p_min p_max p_dist].
  repeat split.
  - now apply Permutation_length.
  - now apply Permutation_length.
  - now apply zsum_perm.
  - apply lbest_perm; [apply Z.min_assoc | apply Z.min_comm | exact HS].
  - apply lbest_perm; [apply Z.max_assoc | apply Z.max_comm | exact HS].
  - apply NoDup_Permutation; try apply dz_NoDup. intros x. rewrite !dz_In.
    split; apply Permutation_in; [exact HS | now apply Permutation_sym].
Qed.

Theorem merge_order_irrelevant f t1 t2 :
  Permutation (flat t1) (flat t2) -> finish f (mstate t1) = finish f (mstate t2).
Proof. intros H. rewrite !mstate_flat. now apply finish_pequiv, partial_perm. Qed.

(* the reference aggregate itself does not depend on the row order (integers) *)
Corollary agg_apply_perm f a b :
  Permutation a b -> agg_apply f (map inj a) (length a) = agg_apply f (map inj b) (length b).
Proof. intros H. rewrite <- !finish_partial. now apply finish_pequiv, partial_perm. Qed.

(* ---- the NULL rules, restated on the partial state (what each path's accumulators must implement) ---- *)
Lemma partial_null_step l : (* a NULL input changes nothing but the row count *)
  partial (None :: l) = let s := partial l in mkP (S (p_rows s)) (p_cnt s) (p_sum s) (p_min s) (p_max s) (p_dist s).
Proof. reflexivity. Qed.

Lemma finish_all_null f n : finish f (partial (repeat None n)) = empty_result f n.
Proof.
  rewrite finish_partial, repeat_length.
  replace (map inj (repeat None n)) with (repeat VNull n)
    by (induction n as [|n IH]; [reflexivity | cbn [repeat map inj]; now rewrite <- IH]).
  apply agg_all_null.
Qed.

(* a SUM accumulator without the "seen" bit (a bare running total) cannot be finished correctly:
   the all-NULL group and a group summing to 0 have the same total but different SQL answers *)
Lemma sum_needs_seen_bit :
  p_sum (partial [None; None]) = p_sum (partial [Some 1; Some (-1)]) /\
  finish ASum (partial [None; None]) = VNull /\ finish ASum (partial [Some 1; Some (-1)]) = VInt 0.
Proof. repeat split. Qed.

(* ================= 6. examples (hypotheses are satisfiable, statements are not vacuous) ================= *)
Definition ex_rows : rel :=
  [[VNull; VInt 1]; [VInt (-1); VInt 2]; [VNull; VInt 3]; [VInt (-1); VInt 4]; [VInt 5; VInt 5]; [VInt 7; VNull]].

(* the replayed engine defect (NULL key merged into the -1 group) is NOT what the semantics says *)
Example null_and_minus_one_are_two_groups :
  group_rows sql_qsem [ECol 0] [(ASum, ECol 1); (ACountStar, ELit (VInt 1)); (ACount, ECol 1)] ex_rows
  = [[VNull; VInt 4; VInt 2; VInt 2]; [VInt (-1); VInt 6; VInt 2; VInt 2]; [VInt 5; VInt 5; VInt 1; VInt 1];
     [VInt 7; VNull; VInt 1; VInt 0]]
  /\ group_rows eng_qsem [ECol 0] [(ASum, ECol 1); (ACountStar, ELit (VInt 1)); (ACount, ECol 1)] ex_rows
     = group_rows sql_qsem [ECol 0] [(ASum, ECol 1); (ACountStar, ELit (VInt 1)); (ACount, ECol 1)] ex_rows.
Proof. split; reflexivity. Qed.

Example null_key_members_ex : null_key_members sql_qsem [ECol 0] ex_rows = [[VNull; VInt 1]; [VNull; VInt 3]].
Proof. reflexivity. Qed.

Example partial_ex :
  let parts := [[Some 3; None]; []; [None; Some (-1); Some 3]] in
  map (fun f => finish f (fold_left merge (map partial parts) pempty))
      [ACountStar; ACount; ASum; AMin; AMax; ACountDistinct; AAvg]
  = [VInt 5; VInt 3; VInt 5; VInt (-1); VInt 3; VInt 2; VDbl (5 # 3)].
Proof. reflexivity. Qed.

Example global_empty_ex :
  qeval eng_qsem [[]] (QAgg (QTable 0 1) [] [(ACountStar, ELit (VInt 1)); (ASum, ECol 0); (AMin, ECol 0); (ACountDistinct, ECol 0)])
  = [[VInt 0; VNull; VNull; VInt 0]].
Proof. reflexivity. Qed.
