(* C24: the engine's Semi/Anti-join lowering of INTERSECT / EXCEPT equals the multiset reference
   semantics outside two decidable classes; UNION [ALL] always. *)
From QV Require Import Sql.Query.

Ltac case_cmp :=
  repeat match goal with
  | |- context [Z.compare ?a ?b] => destruct (Z.compare a b)
  | |- context [bytes_cmp ?a ?b] => destruct (bytes_cmp a b)
  | |- context [q_cmp ?a ?b] => destruct (q_cmp a b)
  end.

Lemma value_strict_same x y : keeps (compare_op CEq x y) = true -> value_same x y = true.
Proof.
  unfold compare_op, value_same. destruct x as [|?|?|?|[|]|?|], y as [|?|?|?|[|]|?|]; cbn;
    case_cmp; cbn; intros; try discriminate; reflexivity.
Qed.

Lemma value_nonnull_strict_same x y : is_null x = false -> keeps (compare_op CEq x y) = value_same x y.
Proof.
  unfold compare_op, value_same. destruct x as [|?|?|?|[|]|?|], y as [|?|?|?|[|]|?|]; cbn;
    case_cmp; cbn; intros; try discriminate; reflexivity.
Qed.

Lemma row_strict_same a : forall b, row_eq_strict a b = true -> row_same a b = true.
Proof.
  induction a as [|x a IH]; intros [|y b]; cbn; try discriminate; auto.
  intros H. apply andb_true_iff in H as [H1 H2]. rewrite (value_strict_same _ _ H1). cbn. auto.
Qed.

Lemma row_nonnull_strict_same a : forall b, has_null a = false -> row_eq_strict a b = row_same a b.
Proof.
  induction a as [|x a IH]; intros [|y b] H; cbn; auto.
  unfold has_null in H. cbn in H. apply orb_false_iff in H as [H1 H2].
  rewrite (value_nonnull_strict_same x y H1). f_equal. now apply IH.
Qed.

Lemma mem_strict_same x R : mem_by row_eq_strict x R = true -> mem_by row_same x R = true.
Proof.
  unfold mem_by. rewrite !existsb_exists. intros (y & Hy & E). exists y. split; auto. now apply row_strict_same.
Qed.

Lemma existsb_ext {A} (f g : A -> bool) l : (forall x, f x = g x) -> existsb f l = existsb g l.
Proof. intros H. induction l as [|a l IH]; cbn; [reflexivity|]. now rewrite H, IH. Qed.

Lemma mem_agree x R : has_null x && mem_by row_same x R = false -> mem_by row_eq_strict x R = mem_by row_same x R.
Proof.
  intros H. apply andb_false_iff in H as [H|H].
  - unfold mem_by. apply existsb_ext. intros y. now apply row_nonnull_strict_same.
  - rewrite H. destruct (mem_by row_eq_strict x R) eqn:E; auto. apply mem_strict_same in E. congruence.
Qed.

Lemma existsb_false_forall {A} (f : A -> bool) l : existsb f l = false -> forall x, In x l -> f x = false.
Proof.
  induction l as [|a l IH]; cbn; intros H x Hx; [destruct Hx|].
  apply orb_false_iff in H as [H1 H2]. destruct Hx as [<-|Hx]; auto.
Qed.

Lemma remove_one_none x R : mem_by row_same x R = false -> remove_one row_same x R = None.
Proof.
  induction R as [|y R IH]; cbn; auto. intros H. apply orb_false_iff in H as [H1 H2].
  rewrite H1. now rewrite IH.
Qed.

Lemma intersect_all_disjoint L R : (forall x, In x L -> mem_by row_same x R = false) -> intersect_all L R = [].
Proof.
  induction L as [|x L IH]; cbn; auto. intros H.
  rewrite remove_one_none by (apply H; now left). apply IH. intros; apply H; now right.
Qed.
Lemma except_all_disjoint L R : (forall x, In x L -> mem_by row_same x R = false) -> except_all L R = L.
Proof.
  induction L as [|x L IH]; cbn; auto. intros H.
  rewrite remove_one_none by (apply H; now left). f_equal. apply IH. intros; apply H; now right.
Qed.
Lemma filter_none {A} (f : A -> bool) l : (forall x, In x l -> f x = false) -> filter f l = [].
Proof. induction l as [|a l IH]; cbn; auto. intros H. rewrite H by now left. apply IH. intros; apply H; now right. Qed.
Lemma filter_all {A} (f : A -> bool) l : (forall x, In x l -> f x = true) -> filter f l = l.
Proof. induction l as [|a l IH]; cbn; auto. intros H. rewrite H by now left. f_equal. apply IH. intros; apply H; now right. Qed.

Theorem setop_agree op all L R :
  setop_null_class op L R = false -> setop_all_class op all L R = false ->
  eng_setop op all L R = sql_setop op all L R.
Proof.
  intros Hn Ha. destruct op; cbn [eng_setop sql_setop].
  - destruct all; reflexivity.
  - (* INTERSECT *)
    cbn [setop_null_class setop_all_class] in *. destruct all; cbn [andb] in Ha.
    + pose proof (existsb_false_forall _ _ Ha) as Hd.
      rewrite intersect_all_disjoint by exact Hd.
      apply filter_none. intros x Hx. destruct (mem_by row_eq_strict x R) eqn:E; auto.
      apply mem_strict_same in E. rewrite (Hd x Hx) in E. discriminate.
    + f_equal. apply filter_ext_in. intros x Hx. apply mem_agree. exact (existsb_false_forall _ _ Hn x Hx).
  - (* EXCEPT *)
    cbn [setop_null_class setop_all_class] in *. destruct all; cbn [andb] in Ha.
    + pose proof (existsb_false_forall _ _ Ha) as Hd.
      rewrite except_all_disjoint by exact Hd.
      apply filter_all. intros x Hx. destruct (mem_by row_eq_strict x R) eqn:E; auto.
      apply mem_strict_same in E. rewrite (Hd x Hx) in E. discriminate.
    + f_equal. apply filter_ext_in. intros x Hx. f_equal. apply mem_agree. exact (existsb_false_forall _ _ Hn x Hx).
Qed.

(* ---------- the reference really is the multiset semantics (for rows without error values) ---------- *)
Definition count_row (x : row) (l : rel) : nat := length (filter (row_same x) l).

Lemma union_all_count x L R : count_row x (sql_setop SUnion true L R) = (count_row x L + count_row x R)%nat.
Proof. unfold count_row. cbn. now rewrite filter_app, app_length. Qed.

(* ---------- inside the classes the lowering is wrong (the recorded findings) ---------- *)
Definition rN : row := [VNull].
Definition r1 : row := [VInt 1].

Lemma intersect_null_refuted :
  setop_null_class SIntersect [rN] [rN] = true /\
  sql_setop SIntersect false [rN] [rN] = [rN] /\ eng_setop SIntersect false [rN] [rN] = [].
Proof. vm_compute. auto. Qed.
Lemma except_null_refuted :
  setop_null_class SExcept [rN] [rN] = true /\
  sql_setop SExcept false [rN] [rN] = [] /\ eng_setop SExcept false [rN] [rN] = [rN].
Proof. vm_compute. auto. Qed.
(* {1,1} INTERSECT ALL {1} = {1}; the semi join keeps both copies *)
Lemma intersect_all_multiplicity_refuted :
  setop_all_class SIntersect true [r1; r1] [r1] = true /\
  sql_setop SIntersect true [r1; r1] [r1] = [r1] /\ eng_setop SIntersect true [r1; r1] [r1] = [r1; r1].
Proof. vm_compute. auto. Qed.
(* {1,1} EXCEPT ALL {1} = {1}; the anti join removes both copies *)
Lemma except_all_multiplicity_refuted :
  setop_all_class SExcept true [r1; r1] [r1] = true /\
  sql_setop SExcept true [r1; r1] [r1] = [r1] /\ eng_setop SExcept true [r1; r1] [r1] = [].
Proof. vm_compute. auto. Qed.

(* non-vacuity: an INTERSECT with NULLs on one side only and duplicates is outside both classes *)
Example setop_nontrivial :
  let L := [[VInt 1; VNull]; [VInt 2; VInt 3]; [VInt 2; VInt 3]] in
  let R := [[VInt 2; VInt 3]; [VInt 9; VNull]] in
  setop_null_class SIntersect L R = false /\ setop_all_class SIntersect false L R = false /\
  eng_setop SIntersect false L R = [[VInt 2; VInt 3]].
Proof. vm_compute. auto. Qed.
