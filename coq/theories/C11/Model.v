(* C11 model: distributed::splits::{target_split_bytes, enumerate_parquet, file_key, SplitSet::digest},
   transcribed (quirks kept: i64 cast of div_ceil, `n == 0 => continue`, u128 product, `as u64`,
   saturating_sub, stable sorts).
   anchors: src/distributed/splits.rs:109 (target_split_bytes), :121 (enumerate_parquet),
            :220 (file_key), :233 (SplitSet::digest) *)
From QV Require Export Base.Util C12.Model.

(* ---------- machine arithmetic ---------- *)
Definition W64 : Z := 18446744073709551616.                         (* 2^64 *)
Definition W63 : Z := 9223372036854775808.                          (* 2^63 *)
Definition W128 : Z := 340282366920938463463374607431768211456.      (* 2^128 *)
Definition wrap64 (x : Z) : Z := x mod W64.                          (* `as u64` *)
Definition to_i64 (x : Z) : Z := if x <? W63 then x else x - W64.    (* u64 `as i64` *)
(* u64::div_ceil: let d = a / b; let r = a % b; if r > 0 { d + 1 } else { d } *)
Definition div_ceil (a b : Z) : Z := if 0 <? a mod b then a / b + 1 else a / b.
Definition sat_sub (a b : Z) : Z := Z.max (a - b) 0.                 (* u64::saturating_sub *)
(* Ord::clamp: if self < min { min } else if self > max { max } else { self } *)
Definition clamp (x lo hi : Z) : Z := if x <? lo then lo else if hi <? x then hi else x.

(* the three constants of splits.rs; the check re-reads them from the source at every run and
   passes them in, every theorem below holds for ALL values of them *)
Record consts := mkConsts { c_min : Z; c_max : Z; c_spn : Z }.
Definition engine_consts : consts := mkConsts (4 * 1024 * 1024) (64 * 1024 * 1024) 32.
Definition consts_eqb (a b : consts) : bool :=
  (c_min a =? c_min b) && (c_max a =? c_max b) && (c_spn a =? c_spn b).

(* pub fn target_split_bytes(total_bytes: u64, nodes: usize) -> u64 *)
Definition target_split_bytes (c : consts) (total nodes0 : Z) : Z :=
  let nodes := Z.max nodes0 1 in
  let floor := Z.max (Z.min (c_min c) (div_ceil total nodes)) 1 in
  let ideal := total / Z.max (c_spn c * nodes) 1 in
  clamp ideal floor (Z.max (c_max c) floor).

(* ---------- pass 1: inventory ---------- *)
(* a file as the enumeration sees it: file_key (bytes of the final path component) and the footer's
   row groups (num_rows : i64, total_byte_size : i64) *)
Definition file := (list Z * list (Z * Z))%type.
(* a file with the directory it is mounted under; file_key ignores the directory *)
Definition pfile := (list Z * file)%type.
Definition strip_dir (p : pfile) : file := snd p.

Record rowgroup := mkRG { g_file : list Z; g_index : Z; g_rows : Z; g_bytes : Z }.

(* for (index, rg) in row_groups().iter().enumerate() { if rows <= 0 { continue } bytes = tbs.max(0) as u64 ... } *)
Fixpoint rgs_of (name : list Z) (idx : Z) (rgs : list (Z * Z)) : list rowgroup :=
  match rgs with
  | [] => []
  | (rows, b) :: t =>
      if rows <=? 0 then rgs_of name (idx + 1) t
      else mkRG name idx rows (Z.max b 0) :: rgs_of name (idx + 1) t
  end.

(* ordered.sort_by_key(|p| file_key(p)) : stable, String order = byte order *)
Definition file_le (a b : file) : bool := cmp_le (bytes_cmp (fst a) (fst b)).
Definition inventory (files : list file) : list rowgroup :=
  flat_map (fun f => rgs_of (fst f) 0 (snd f)) (isort file_le files).

(* ---------- pass 2: cutting ---------- *)
Definition pieces_of (target rows bytes : Z) : Z :=
  if bytes <=? target then 1
  else Z.max (Z.min (to_i64 (div_ceil bytes target)) rows) 1.

(* for piece in 0..pieces { ... } ; result entries are (row_offset, num_rows, bytes) *)
Fixpoint cut_loop (fuel : nat) (piece pieces base rem rows bytes offset bytes_left : Z)
  : list (Z * Z * Z) :=
  match fuel with
  | O => []
  | S f =>
      let n := base + (if piece <? rem then 1 else 0) in
      if n =? 0 then cut_loop f (piece + 1) pieces base rem rows bytes offset bytes_left
      else
        let b := if piece + 1 =? pieces then bytes_left
                 else wrap64 (((bytes * n) mod W128) / rows) in
        (offset, n, b) :: cut_loop f (piece + 1) pieces base rem rows bytes (offset + n) (sat_sub bytes_left b)
  end.

Definition cut (target rows bytes : Z) : list (Z * Z * Z) :=
  let pieces := pieces_of target rows bytes in
  let base := Z.quot rows pieces in      (* i64 `/` truncates *)
  let rem := Z.rem rows pieces in        (* i64 `%` *)
  cut_loop (Z.to_nat pieces) 0 pieces base rem rows bytes 0 bytes.

Definition splits_of_rg (table : list Z) (target : Z) (g : rowgroup) : list split :=
  map (fun p => mkSplit table (g_file g) (g_index g) (fst (fst p)) (snd (fst p)) (snd p))
      (cut target (g_rows g) (g_bytes g)).

Record splitset := mkSS {
  ss_table : list Z; ss_splits : list split;
  ss_total_bytes : Z; ss_total_rows : Z; ss_target : Z }.

(* splits.sort_by(|a, b| a.canonical_key().cmp(&b.canonical_key())) : stable *)
Definition split_le (x y : split) : bool := cmp_le (key_cmp x y).

Definition enumerate_c (c : consts) (table : list Z) (files : list file) (nodes : Z) : splitset :=
  let inv := inventory files in
  let total_bytes := zsum (map g_bytes inv) in
  let total_rows := zsum (map g_rows inv) in
  let target := target_split_bytes c total_bytes nodes in
  mkSS table (isort split_le (flat_map (splits_of_rg table target) inv)) total_bytes total_rows target.

Definition enumerate := enumerate_c engine_consts.

(* what enumerate_parquet sees when handed paths: only file_key of each path *)
Definition enumerate_paths (c : consts) (table : list Z) (pfiles : list pfile) (nodes : Z) : splitset :=
  enumerate_c c table (map strip_dir pfiles) nodes.

(* the u64 / i64 accumulators and the u64 product SPLITS_PER_NODE * nodes stay in range
   (outside: debug build panics, release build wraps; the model says nothing there) *)
Definition fits (c : consts) (files : list file) (nodes : Z) : bool :=
  let inv := inventory files in
  (zsum (map g_bytes inv) <? W64) && (zsum (map g_rows inv) <? W63) && (c_spn c * Z.max nodes 1 <? W64).

Definition enumerate_checked (c : consts) (table : list Z) (files : list file) (nodes : Z) : option splitset :=
  if fits c files nodes then Some (enumerate_c c table files nodes) else None.

(* ---------- digest: FNV-1a 64 ---------- *)
Definition fnv_offset : Z := 14695981039346656037.   (* 0xcbf29ce484222325 *)
Definition fnv_prime : Z := 1099511628211.            (* 0x100000001b3 *)
(* h ^= b as u64; h = h.wrapping_mul(prime) *)
Definition fnv_step (h b : Z) : Z := (Z.lxor h b * fnv_prime) mod W64.
Definition feed (h : Z) (bytes : list Z) : Z := fold_left fnv_step bytes h.

Fixpoint le_bytes (n : nat) (x : Z) : list Z :=
  match n with O => [] | S k => x mod 256 :: le_bytes k (x / 256) end.
(* u64::to_le_bytes / i64::to_le_bytes (two's complement) *)
Definition le8 (x : Z) : list Z := le_bytes 8 (x mod W64).

Definition feed_split (h : Z) (s : split) : Z :=
  feed (feed (feed (feed (feed h (s_file s)) (le8 (s_rg s))) (le8 (s_off s))) (le8 (s_rows s))) (le8 (s_bytes s)).

Definition digest (ss : splitset) : Z :=
  fold_left feed_split (ss_splits ss) (feed fnv_offset (ss_table ss)).

(* the canonical byte string the digest is taken over *)
Definition split_enc (s : split) : list Z :=
  s_file s ++ le8 (s_rg s) ++ le8 (s_off s) ++ le8 (s_rows s) ++ le8 (s_bytes s).
Definition encoding (ss : splitset) : list Z := ss_table ss ++ flat_map split_enc (ss_splits ss).

(* the same digest with the bit operations the VM evaluates quickly (land/shiftr instead of mod/div by
   powers of two); C11_digest_fast_eq proves digest_fast = digest, the check evaluates this one *)
Definition fnv_step_fast (h b : Z) : Z := Z.land (Z.lxor h b * fnv_prime) (Z.ones 64).
Definition feed_fast (h : Z) (bytes : list Z) : Z := fold_left fnv_step_fast bytes h.
Fixpoint le_bytes_fast (n : nat) (x : Z) : list Z :=
  match n with O => [] | S k => Z.land x 255 :: le_bytes_fast k (Z.shiftr x 8) end.
Definition le8_fast (x : Z) : list Z := le_bytes_fast 8 (Z.land x (Z.ones 64)).
Definition feed_split_fast (h : Z) (s : split) : Z :=
  feed_fast (feed_fast (feed_fast (feed_fast (feed_fast h (s_file s)) (le8_fast (s_rg s))) (le8_fast (s_off s)))
                       (le8_fast (s_rows s))) (le8_fast (s_bytes s)).
Definition digest_fast (ss : splitset) : Z :=
  fold_left feed_split_fast (ss_splits ss) (feed_fast fnv_offset (ss_table ss)).

(* ---------- comparing an implementation output with the model ---------- *)
Definition bytes_eqb := list_eqb Z.eqb.
Definition split_eqb (a b : split) : bool :=
  bytes_eqb (s_table a) (s_table b) && bytes_eqb (s_file a) (s_file b) && (s_rg a =? s_rg b)
  && (s_off a =? s_off b) && (s_rows a =? s_rows b) && (s_bytes a =? s_bytes b).
Definition ss_eqb (a b : splitset) : bool :=
  bytes_eqb (ss_table a) (ss_table b) && list_eqb split_eqb (ss_splits a) (ss_splits b)
  && (ss_total_bytes a =? ss_total_bytes b) && (ss_total_rows a =? ss_total_rows b)
  && (ss_target a =? ss_target b).

(* ---------- executable specification: what C11 demands of ANY enumeration ---------- *)
(* every row group of the input, empty ones included: (file name, index, rows, raw byte size) *)
Fixpoint groups_of (name : list Z) (idx : Z) (rgs : list (Z * Z)) : list (list Z * Z * Z * Z) :=
  match rgs with
  | [] => []
  | (rows, b) :: t => (name, idx, rows, b) :: groups_of name (idx + 1) t
  end.
Definition all_groups (files : list file) : list (list Z * Z * Z * Z) :=
  flat_map (fun f => groups_of (fst f) 0 (snd f)) files.

Fixpoint contiguous_b (o : Z) (g : list split) : bool :=
  match g with
  | [] => true
  | s :: t => (s_off s =? o) && (0 <? s_rows s) && contiguous_b (o + s_rows s) t
  end.

Definition in_group (name : list Z) (idx : Z) (s : split) : bool :=
  bytes_eqb (s_file s) name && (s_rg s =? idx).

(* the splits of one row group, in output order: none if it is empty; otherwise contiguous from 0,
   each positive, rows summing to the group's rows, bytes summing to its (clamped) byte size *)
Definition group_ok (out : list split) (g : list Z * Z * Z * Z) : bool :=
  let '(name, idx, rows, b) := g in
  let mine := filter (in_group name idx) out in
  if rows <=? 0 then match mine with [] => true | _ => false end
  else match mine with [] => false | _ => true end
       && contiguous_b 0 mine && (zsum (map s_rows mine) =? rows)
       && (zsum (map s_bytes mine) =? Z.max b 0).

Fixpoint strictly_sorted_b (l : list split) : bool :=
  match l with
  | [] => true
  | x :: t => match t with
              | [] => true
              | y :: _ => match key_cmp x y with Lt => true | _ => false end
              end && strictly_sorted_b t
  end.

Definition live_rows (files : list file) : Z :=
  zsum (map (fun g => let '(_, _, rows, _) := g in if rows <=? 0 then 0 else rows) (all_groups files)).
Definition live_bytes (files : list file) : Z :=
  zsum (map (fun g => let '(_, _, rows, b) := g in if rows <=? 0 then 0 else Z.max b 0) (all_groups files)).

Definition spec_ok (table : list Z) (files : list file) (out : splitset) : bool :=
  bytes_eqb (ss_table out) table
  && forallb (fun s => bytes_eqb (s_table s) table) (ss_splits out)
  && strictly_sorted_b (ss_splits out)
  && forallb (group_ok (ss_splits out)) (all_groups files)
  && forallb (fun s => existsb (fun g => let '(name, idx, rows, _) := g in in_group name idx s && (0 <? rows))
                               (all_groups files)) (ss_splits out)
  && (ss_total_rows out =? live_rows files) && (ss_total_bytes out =? live_bytes files)
  && (zsum (map s_rows (ss_splits out)) =? ss_total_rows out)
  && (zsum (map s_bytes (ss_splits out)) =? ss_total_bytes out).

(* known class: two files with the same file name (necessarily in different directories) *)
Fixpoint has_dup (l : list (list Z)) : bool :=
  match l with
  | [] => false
  | x :: t => existsb (bytes_eqb x) t || has_dup t
  end.
Definition known_c (files : list file) : bool := has_dup (map fst files).
