From QV Require Import Base.Util C12.Model C11.Model.
From Coq Require Import Sorting.Sorted.

(* ================================================================== *)
(* 1. cutting one row group                                            *)

Definition pn (p : Z * Z * Z) : Z := snd (fst p).
Definition pb (p : Z * Z * Z) : Z := snd p.

(* pieces are contiguous from [o] and each holds at least one row *)
Fixpoint contiguous (o : Z) (ps : list (Z * Z * Z)) : Prop :=
  match ps with
  | [] => True
  | p :: t => fst (fst p) = o /\ 0 < pn p /\ contiguous (o + pn p) t
  end.

Lemma pieces_range target rows bytes : 0 < rows -> 1 <= pieces_of target rows bytes <= rows.
Proof. intros H. unfold pieces_of. destruct (bytes <=? target); lia. Qed.

(* rows still to be handed out when the loop is at [piece] with [fuel] iterations left *)
Definition rows_left (fuel : nat) (piece base rem : Z) : Z :=
  Z.of_nat fuel * base + Z.max (rem - piece) 0.

Lemma rows_left_step f piece base rem :
  rows_left (S f) piece base rem
  = (base + (if piece <? rem then 1 else 0)) + rows_left f (piece + 1) base rem.
Proof.
  unfold rows_left. rewrite Nat2Z.inj_succ, Z.mul_succ_l.
  destruct (Z.ltb_spec piece rem); lia.
Qed.

Lemma cut_loop_rows pieces base rem rows bytes : 1 <= base -> 0 <= rem ->
  forall fuel piece offset bl, rem <= piece + Z.of_nat fuel ->
  let ps := cut_loop fuel piece pieces base rem rows bytes offset bl in
  contiguous offset ps /\ zsum (map pn ps) = rows_left fuel piece base rem.
Proof.
  intros Hb Hr. induction fuel as [|f IH]; intros piece offset bl Hrem.
  - cbn [cut_loop contiguous map]. split; [exact I|]. unfold rows_left. cbn. lia.
  - cbn [cut_loop]. set (n := base + (if piece <? rem then 1 else 0)).
    assert (1 <= n) as Hn by (unfold n; destruct (piece <? rem); lia).
    destruct (Z.eqb_spec n 0) as [E|_]; [lia|].
    set (b := if piece + 1 =? pieces then bl else wrap64 ((bytes * n) mod W128 / rows)).
    destruct (IH (piece + 1) (offset + n) (sat_sub bl b)) as [C S]; [lia|].
    cbn [contiguous map zsum fold_right]. unfold pn at 1 2 3. cbn [fst snd].
    split; [repeat split; [lia | exact C]|].
    rewrite rows_left_step. fold n. fold (zsum (map pn (cut_loop f (piece + 1) pieces base rem rows bytes (offset + n) (sat_sub bl b)))).
    rewrite S. reflexivity.
Qed.

Lemma prop_bytes bytes n rows : 0 <= bytes < W64 -> 0 < n <= rows -> rows < W64 ->
  wrap64 ((bytes * n) mod W128 / rows) = bytes * n / rows
  /\ 0 <= bytes * n / rows /\ rows * (bytes * n / rows) <= bytes * n.
Proof.
  intros Hb Hn Hr.
  assert (0 <= bytes * n) by nia.
  assert (bytes * n < W128) by (change W128 with (W64 * W64); nia).
  rewrite (Z.mod_small (bytes * n)) by lia.
  assert (0 <= bytes * n / rows) by (apply Z.div_pos; lia).
  assert (rows * (bytes * n / rows) <= bytes * n) by (apply Z.mul_div_le; lia).
  repeat split; auto. unfold wrap64. apply Z.mod_small. split; [lia|]. nia.
Qed.

(* the saturating subtraction never saturates, and the last piece collects exactly what is left *)
Lemma cut_loop_bytes pieces base rem rows bytes : 1 <= base -> 0 <= rem ->
  0 <= bytes < W64 -> 0 < rows < W64 ->
  forall fuel piece offset bl,
  (0 < fuel)%nat -> piece + Z.of_nat fuel = pieces ->
  offset + rows_left fuel piece base rem = rows -> 0 <= offset ->
  bytes * (rows - offset) <= bl * rows ->
  zsum (map pb (cut_loop fuel piece pieces base rem rows bytes offset bl)) = bl.
Proof.
  intros Hb Hr Hby Hro. induction fuel as [|f IH]; intros piece offset bl Hf Hp Hrows Hoff Hinv; [lia|].
  cbn [cut_loop]. set (n := base + (if piece <? rem then 1 else 0)).
  assert (1 <= n) as Hn by (unfold n; destruct (piece <? rem); lia).
  destruct (Z.eqb_spec n 0) as [E|_]; [lia|].
  rewrite rows_left_step in Hrows. fold n in Hrows.
  assert (0 <= rows_left f (piece + 1) base rem) as Hrl by (unfold rows_left; nia).
  destruct (Z.eqb_spec (piece + 1) pieces) as [Elast|Nlast].
  - assert (f = O) by lia. subst f. cbn [cut_loop map zsum fold_right]. unfold pb. cbn [snd]. lia.
  - destruct (prop_bytes bytes n rows) as (Ew & Hq0 & Hq); try lia.
    rewrite Ew. set (b := bytes * n / rows) in *.
    assert (b <= bl) as Hle by nia.
    cbn [map zsum fold_right]. unfold pb at 1. cbn [snd].
    fold (zsum (map pb (cut_loop f (piece + 1) pieces base rem rows bytes (offset + n) (sat_sub bl b)))).
    assert (sat_sub bl b = bl - b) as Es by (unfold sat_sub; lia). rewrite Es.
    rewrite IH; solve [lia | nia].
Qed.

Section Cut.
  Variables target rows bytes : Z.
  Hypothesis rows_pos : 0 < rows.
  Let pieces := pieces_of target rows bytes.

  Lemma cut_unfold :
    cut target rows bytes = cut_loop (Z.to_nat pieces) 0 pieces (rows / pieces) (rows mod pieces) rows bytes 0 bytes.
  Proof.
    unfold cut. fold pieces. pose proof (pieces_range target rows bytes rows_pos). fold pieces in H.
    rewrite Z.quot_div_nonneg, Z.rem_mod_nonneg by lia. reflexivity.
  Qed.

  Lemma base_rem_facts : 1 <= rows / pieces /\ 0 <= rows mod pieces
     /\ rows_left (Z.to_nat pieces) 0 (rows / pieces) (rows mod pieces) = rows.
  Proof.
    pose proof (pieces_range target rows bytes rows_pos) as H. fold pieces in H.
    assert (0 <= rows mod pieces < pieces) by (apply Z.mod_pos_bound; lia).
    assert (1 <= rows / pieces) by (apply Z.div_le_lower_bound; lia).
    repeat split; try lia. unfold rows_left. rewrite Z2Nat.id by lia.
    pose proof (Z.div_mod rows pieces). lia.
  Qed.

  Theorem cut_cover :
    contiguous 0 (cut target rows bytes) /\ zsum (map pn (cut target rows bytes)) = rows
    /\ cut target rows bytes <> [].
  Proof.
    destruct base_rem_facts as (B & R & T). rewrite cut_unfold.
    pose proof (pieces_range target rows bytes rows_pos) as HP. fold pieces in HP.
    assert (rows mod pieces < pieces) by (apply Z.mod_pos_bound; lia).
    destruct (cut_loop_rows pieces (rows / pieces) (rows mod pieces) rows bytes B R (Z.to_nat pieces) 0 0 bytes) as [C S];
      [rewrite Z2Nat.id; lia|].
    rewrite T in S. repeat split; auto. intros E. rewrite E in S. cbn in S. lia.
  Qed.

  Theorem cut_bytes : rows < W64 -> 0 <= bytes < W64 -> zsum (map pb (cut target rows bytes)) = bytes.
  Proof.
    intros Hr Hb. destruct base_rem_facts as (B & R & T). rewrite cut_unfold.
    pose proof (pieces_range target rows bytes rows_pos) as H. fold pieces in H.
    apply cut_loop_bytes; auto; lia.
  Qed.
End Cut.

(* ================================================================== *)
(* 2. inventory: exactly the non-empty row groups                      *)

Lemma rgs_of_In name rgs : forall idx g,
  In g (rgs_of name idx rgs) <->
  exists i rows b, nth_error rgs i = Some (rows, b) /\ 0 < rows
                   /\ g = mkRG name (idx + Z.of_nat i) rows (Z.max b 0).
Proof.
  induction rgs as [|[r b] t IH]; intros idx g; cbn [rgs_of].
  - split; [intros []|]. intros (i & ? & ? & E & _). destruct i; discriminate.
  - assert (In g (rgs_of name (idx + 1) t) <->
            exists i rows b0, nth_error ((r, b) :: t) (S i) = Some (rows, b0) /\ 0 < rows
                              /\ g = mkRG name (idx + Z.of_nat (S i)) rows (Z.max b0 0)) as Tl.
    { rewrite IH. split; intros (i & rows & b0 & E & P & G); exists i, rows, b0; cbn [nth_error] in *;
        repeat split; auto; rewrite G; f_equal; lia. }
    destruct (Z.leb_spec r 0) as [Le|Gt].
    + rewrite Tl. split.
      * intros (i & rows & b0 & H). exists (S i), rows, b0. exact H.
      * intros ([|i] & rows & b0 & E & P & G).
        -- cbn in E. inversion E; subst. lia.
        -- exists i, rows, b0. auto.
    + cbn [In]. rewrite Tl. split.
      * intros [<-|(i & rows & b0 & H)].
        -- exists O, r, b. cbn. repeat split; auto. f_equal. lia.
        -- exists (S i), rows, b0. exact H.
      * intros ([|i] & rows & b0 & E & P & G).
        -- left. cbn in E. inversion E; subst. f_equal. cbn. lia.
        -- right. exists i, rows, b0. auto.
Qed.

(* every non-empty row group of every file is in the inventory, and nothing else is *)
Theorem inventory_exact files g :
  In g (inventory files) <->
  exists f i rows b, In f files /\ nth_error (snd f) i = Some (rows, b) /\ 0 < rows
                     /\ g = mkRG (fst f) (Z.of_nat i) rows (Z.max b 0).
Proof.
  unfold inventory. rewrite in_flat_map. split.
  - intros (f & Hf & Hg). apply rgs_of_In in Hg. destruct Hg as (i & rows & b & E & P & G).
    exists f, i, rows, b. repeat split; auto.
    eapply Permutation_in; [apply isort_perm | exact Hf].
  - intros (f & i & rows & b & Hf & E & P & G). exists f. split.
    + eapply Permutation_in; [apply Permutation_sym, isort_perm | exact Hf].
    + apply rgs_of_In. exists i, rows, b. repeat split; auto.
Qed.

(* ================================================================== *)
(* 3. cover_exact / bytes_exact / totals on the enumeration            *)

Fixpoint contiguous_s (o : Z) (g : list split) : Prop :=
  match g with
  | [] => True
  | s :: t => s_off s = o /\ 0 < s_rows s /\ contiguous_s (o + s_rows s) t
  end.

Lemma contiguous_map table name idx ps : forall o, contiguous o ps ->
  contiguous_s o (map (fun p => mkSplit table name idx (fst (fst p)) (snd (fst p)) (snd p)) ps).
Proof.
  induction ps as [|p t IH]; intros o H; cbn [map contiguous_s]; [exact I|].
  destruct H as (A & B & C). cbn [s_off s_rows]. repeat split; auto; apply IH; exact C.
Qed.

Lemma splits_of_rg_facts table target g : 0 < g_rows g ->
  let ps := splits_of_rg table target g in
  ps <> [] /\ contiguous_s 0 ps /\ zsum (map s_rows ps) = g_rows g
  /\ (forall s, In s ps -> s_table s = table /\ s_file s = g_file g /\ s_rg s = g_index g).
Proof.
  intros Hr. destruct (cut_cover target (g_rows g) (g_bytes g) Hr) as (C & S & NE).
  unfold splits_of_rg. repeat split.
  - intros E. apply map_eq_nil in E. auto.
  - apply contiguous_map. exact C.
  - rewrite map_map. cbn [s_rows]. exact S.
  - apply in_map_iff in H. destruct H as (p & <- & _). reflexivity.
  - apply in_map_iff in H. destruct H as (p & <- & _). reflexivity.
  - apply in_map_iff in H. destruct H as (p & <- & _). reflexivity.
Qed.

Lemma splits_of_rg_bytes table target g : 0 < g_rows g < W64 -> 0 <= g_bytes g < W64 ->
  zsum (map s_bytes (splits_of_rg table target g)) = g_bytes g.
Proof.
  intros Hr Hb. unfold splits_of_rg. rewrite map_map. cbn [s_bytes].
  apply cut_bytes; lia.
Qed.

Lemma inventory_rows_pos files g : In g (inventory files) -> 0 < g_rows g /\ 0 <= g_bytes g.
Proof.
  intros H. apply inventory_exact in H. destruct H as (f & i & rows & b & _ & _ & P & ->). cbn. lia.
Qed.

(* footer values are i64 *)
Definition i64_files (files : list file) : Prop :=
  forall f r b, In f files -> In (r, b) (snd f) -> r < W63 /\ b < W63.

Lemma inventory_range files g : i64_files files -> In g (inventory files) ->
  0 < g_rows g < W64 /\ 0 <= g_bytes g < W64.
Proof.
  intros W H. apply inventory_exact in H. destruct H as (f & i & rows & b & Hf & E & P & ->).
  apply nth_error_In in E. destruct (W f rows b Hf E). cbn. unfold W63, W64 in *. lia.
Qed.

Lemma zsum_flat_map {A B} (f : B -> Z) (g : A -> list B) l :
  zsum (map f (flat_map g l)) = zsum (map (fun x => zsum (map f (g x))) l).
Proof.
  induction l as [|h t IH]; cbn [flat_map map]; [reflexivity|].
  rewrite map_app, zsum_app, zsum_cons, IH. reflexivity.
Qed.

Lemma zsum_map_ext_in {A} (f g : A -> Z) l : (forall x, In x l -> f x = g x) -> zsum (map f l) = zsum (map g l).
Proof.
  induction l as [|h t IH]; intros H; cbn [map]; [reflexivity|].
  rewrite !zsum_cons, IH, (H h); auto; [now left | intros; apply H; now right].
Qed.

Section Enumerate.
  Variable c : consts.
  Variable table : list Z.
  Variable files : list file.
  Variable nodes : Z.
  Let ss := enumerate_c c table files nodes.

  Lemma enumerate_perm :
    Permutation (ss_splits ss) (flat_map (splits_of_rg table (ss_target ss)) (inventory files)).
  Proof. unfold ss, enumerate_c. cbn [ss_splits ss_target]. apply isort_perm. Qed.

  (* per non-empty row group: its pieces are there, contiguous from offset 0, each with at least one
     row, row counts summing to the group's rows; and the output consists of exactly these pieces *)
  Theorem cover_exact :
    Permutation (ss_splits ss) (flat_map (splits_of_rg table (ss_target ss)) (inventory files))
    /\ forall g, In g (inventory files) ->
         let ps := splits_of_rg table (ss_target ss) g in
         ps <> [] /\ contiguous_s 0 ps /\ zsum (map s_rows ps) = g_rows g
         /\ (forall s, In s ps -> s_table s = table /\ s_file s = g_file g /\ s_rg s = g_index g).
  Proof.
    split; [apply enumerate_perm|]. intros g Hg. apply splits_of_rg_facts.
    apply (inventory_rows_pos files g Hg).
  Qed.

  (* the bytes of a row group's pieces sum exactly to the row group's bytes *)
  Theorem bytes_exact : i64_files files ->
    forall g, In g (inventory files) ->
      zsum (map s_bytes (splits_of_rg table (ss_target ss) g)) = g_bytes g.
  Proof.
    intros W g Hg. destruct (inventory_range files g W Hg). now apply splits_of_rg_bytes.
  Qed.

  Theorem total_rows_exact :
    ss_total_rows ss = zsum (map g_rows (inventory files))
    /\ zsum (map s_rows (ss_splits ss)) = ss_total_rows ss.
  Proof.
    split; [reflexivity|].
    rewrite (zsum_perm _ _ (Permutation_map s_rows enumerate_perm)), zsum_flat_map.
    unfold ss at 2, enumerate_c. cbn [ss_total_rows]. apply zsum_map_ext_in. intros g Hg.
    destruct (splits_of_rg_facts table (ss_target ss) g) as (_ & _ & S & _); auto.
    apply (inventory_rows_pos files g Hg).
  Qed.

  Theorem total_bytes_exact : i64_files files ->
    ss_total_bytes ss = zsum (map g_bytes (inventory files))
    /\ zsum (map s_bytes (ss_splits ss)) = ss_total_bytes ss.
  Proof.
    intros W. split; [reflexivity|].
    rewrite (zsum_perm _ _ (Permutation_map s_bytes enumerate_perm)), zsum_flat_map.
    unfold ss at 2, enumerate_c. cbn [ss_total_bytes]. apply zsum_map_ext_in. intros g Hg.
    now apply bytes_exact.
  Qed.
End Enumerate.

(* target is never 0, so div_ceil never divides by zero *)
Theorem target_pos c total nodes : 1 <= target_split_bytes c total nodes.
Proof.
  unfold target_split_bytes, clamp.
  set (fl := Z.max (Z.min (c_min c) (div_ceil total (Z.max nodes 1))) 1).
  destruct (Z.ltb_spec (total / Z.max (c_spn c * Z.max nodes 1) 1) fl); [lia|].
  destruct (Z.ltb_spec (Z.max (c_max c) fl) (total / Z.max (c_spn c * Z.max nodes 1) 1)); lia.
Qed.

(* ================================================================== *)
(* 4. order independence: sorting a permutation of a list with distinct keys *)

Section SortUnique.
  Context {A : Type} (le : A -> A -> bool).
  Hypothesis le_total : forall x y, le x y = true \/ le y x = true.
  Hypothesis le_trans : forall x y z, le x y = true -> le y z = true -> le x z = true.
  Let R x y := le x y = true.

  Lemma insert_SS x l : StronglySorted R l -> StronglySorted R (insert le x l).
  Proof.
    induction 1 as [|h t SSt IH Fh]; cbn [insert]; [repeat constructor|].
    destruct (le x h) eqn:E.
    - constructor; [constructor; assumption|]. constructor; [exact E|].
      eapply Forall_impl; [|exact Fh]. intros y Hy. unfold R in *. eauto.
    - constructor; [exact IH|].
      assert (R h x) as Hhx by (destruct (le_total x h); [congruence | assumption]).
      eapply Permutation_Forall; [apply Permutation_sym, insert_perm|]. constructor; assumption.
  Qed.

  Lemma isort_SS l : StronglySorted R (isort le l).
  Proof.
    induction l as [|h t IH]; cbn [isort fold_right]; [constructor|]. apply insert_SS. exact IH.
  Qed.

  Lemma SS_perm_unique l1 : forall l2,
    StronglySorted R l1 -> StronglySorted R l2 -> Permutation l1 l2 ->
    (forall x y, In x l1 -> In y l1 -> le x y = true -> le y x = true -> x = y) -> l1 = l2.
  Proof.
    induction l1 as [|a t1 IH]; intros l2 S1 S2 P Anti.
    - apply Permutation_nil in P. now subst.
    - destruct l2 as [|b t2]; [apply Permutation_sym, Permutation_nil in P; discriminate|].
      inversion S1 as [|? ? S1t F1]; inversion S2 as [|? ? S2t F2]; subst.
      assert (In b (a :: t1)) as Hb by (eapply Permutation_in; [apply Permutation_sym; exact P | now left]).
      assert (In a (b :: t2)) as Ha by (eapply Permutation_in; [exact P | now left]).
      assert (le a b = true) as Lab.
      { destruct Hb as [->|Hb]; [destruct (le_total b b); assumption|].
        rewrite Forall_forall in F1. now apply F1. }
      assert (le b a = true) as Lba.
      { destruct Ha as [->|Ha]; [destruct (le_total a a); assumption|].
        rewrite Forall_forall in F2. now apply F2. }
      assert (a = b) by (apply Anti; auto; now left). subst b.
      f_equal. apply IH; auto.
      + eapply Permutation_cons_inv; exact P.
      + intros x y Hx Hy. apply Anti; now right.
  Qed.

  Lemma isort_perm_eq l l' : Permutation l l' ->
    (forall x y, In x l -> In y l -> le x y = true -> le y x = true -> x = y) ->
    isort le l = isort le l'.
  Proof.
    intros P Anti. apply SS_perm_unique; try apply isort_SS.
    - rewrite !isort_perm. exact P.
    - intros x y Hx Hy L1 L2. apply Anti; auto; (eapply Permutation_in; [apply (isort_perm le) | assumption]).
  Qed.
End SortUnique.

Lemma bytes_cmp_antisym a : forall b, bytes_cmp b a = CompOpp (bytes_cmp a b).
Proof.
  induction a as [|x a IH]; intros [|y b]; cbn; auto.
  rewrite (Z.compare_antisym x y). destruct (x ?= y); cbn; auto.
Qed.

Lemma bytes_cmp_refl a : bytes_cmp a a = Eq.
Proof. now apply bytes_cmp_eq. Qed.

Lemma bytes_le_trans a : forall b c, bytes_cmp a b <> Gt -> bytes_cmp b c <> Gt -> bytes_cmp a c <> Gt.
Proof.
  induction a as [|x a IH]; intros [|y b] [|z c]; cbn; try congruence.
  intros H1 H2.
  destruct (Z.compare_spec x y) as [E1|L1|G1]; try congruence;
  destruct (Z.compare_spec y z) as [E2|L2|G2]; try congruence; subst.
  - rewrite Z.compare_refl. eapply IH; eauto.
  - assert (y ?= z = Lt) as -> by (apply Z.compare_lt_iff; lia). congruence.
  - assert (x ?= z = Lt) as -> by (apply Z.compare_lt_iff; lia). congruence.
  - assert (x ?= z = Lt) as -> by (apply Z.compare_lt_iff; lia). congruence.
Qed.

Lemma cmp_le_true c : cmp_le c = true <-> c <> Gt.
Proof. destruct c; cbn; split; congruence. Qed.

Lemma file_le_total x y : file_le x y = true \/ file_le y x = true.
Proof.
  unfold file_le. rewrite (bytes_cmp_antisym (fst x) (fst y)).
  destruct (bytes_cmp (fst x) (fst y)); cbn; auto.
Qed.

Lemma file_le_trans x y z : file_le x y = true -> file_le y z = true -> file_le x z = true.
Proof. unfold file_le. rewrite !cmp_le_true. apply bytes_le_trans. Qed.

Lemma file_le_antisym x y : file_le x y = true -> file_le y x = true -> fst x = fst y.
Proof.
  unfold file_le. rewrite !cmp_le_true, (bytes_cmp_antisym (fst x) (fst y)). intros H1 H2.
  apply bytes_cmp_eq. destruct (bytes_cmp (fst x) (fst y)); cbn in *; congruence.
Qed.

Lemma NoDup_map_inj_in {A B} (f : A -> B) l : NoDup (map f l) ->
  forall x y, In x l -> In y l -> f x = f y -> x = y.
Proof.
  induction l as [|h t IH]; intros ND x y Hx Hy E; [destruct Hx|].
  cbn [map] in ND. inversion ND as [|? ? Nin NDt]; subst.
  destruct Hx as [->|Hx], Hy as [->|Hy]; auto.
  - exfalso. apply Nin. rewrite E. now apply in_map.
  - exfalso. apply Nin. rewrite <- E. now apply in_map.
Qed.

(* files may be handed over in any order: with pairwise distinct file names the result is the same *)
Theorem perm_invariant c table files files' nodes :
  NoDup (map fst files) -> Permutation files files' ->
  enumerate_c c table files nodes = enumerate_c c table files' nodes.
Proof.
  intros ND P. unfold enumerate_c, inventory.
  rewrite (isort_perm_eq file_le file_le_total file_le_trans files files' P); [reflexivity|].
  intros x y Hx Hy L1 L2. apply (NoDup_map_inj_in fst files ND); auto. now apply file_le_antisym.
Qed.

(* the directory a file is mounted under plays no part: inventories equal up to the directory
   prefixes give the same SplitSet (hence the same digest). Trivial by construction of the model:
   file_key drops the directory before anything else looks at the path. *)
Theorem path_independent c table (p1 p2 : list pfile) nodes :
  map strip_dir p1 = map strip_dir p2 ->
  enumerate_paths c table p1 nodes = enumerate_paths c table p2 nodes
  /\ digest (enumerate_paths c table p1 nodes) = digest (enumerate_paths c table p2 nodes).
Proof. intros E. unfold enumerate_paths. rewrite E. split; reflexivity. Qed.

(* ... and with distinct names, neither does the order of the paths *)
Theorem path_and_order_independent c table (p1 p2 : list pfile) nodes :
  NoDup (map (fun p => fst (strip_dir p)) p1) ->
  Permutation (map strip_dir p1) (map strip_dir p2) ->
  enumerate_paths c table p1 nodes = enumerate_paths c table p2 nodes.
Proof.
  intros ND P. unfold enumerate_paths. apply perm_invariant; auto. now rewrite map_map.
Qed.

(* ================================================================== *)
(* 5. the digest                                                        *)

Lemma feed_app h a b : feed h (a ++ b) = feed (feed h a) b.
Proof. unfold feed. apply fold_left_app. Qed.

Lemma feed_split_enc h s : feed_split h s = feed h (split_enc s).
Proof. unfold feed_split, split_enc. now rewrite !feed_app. Qed.

Lemma fold_left_flat_map {S B C} (f : S -> B -> S) (g : C -> list B) (F : S -> C -> S) :
  (forall h s, F h s = fold_left f (g s) h) ->
  forall l h, fold_left F l h = fold_left f (flat_map g l) h.
Proof.
  intros H. induction l as [|s t IH]; intros h; cbn [fold_left flat_map]; [reflexivity|].
  rewrite fold_left_app, IH, H. reflexivity.
Qed.

Lemma fold_left_ext2 {S B} (f g : S -> B -> S) : (forall h b, f h b = g h b) ->
  forall l h, fold_left f l h = fold_left g l h.
Proof.
  intros H. induction l as [|b t IH]; intros h; cbn [fold_left]; [reflexivity|]. now rewrite H, IH.
Qed.

Lemma fold_feed_split l : forall h, fold_left feed_split l h = feed h (flat_map split_enc l).
Proof. intros h. unfold feed. apply fold_left_flat_map. exact feed_split_enc. Qed.

Lemma feed_cons h b t : feed h (b :: t) = feed (fnv_step h b) t.
Proof. reflexivity. Qed.

(* the digest is FNV-1a of one canonical byte string made of (table, splits) only *)
Theorem digest_encoding ss : digest ss = feed fnv_offset (encoding ss).
Proof. unfold digest, encoding. now rewrite fold_feed_split, feed_app. Qed.

Theorem digest_depends_on_canonical_fields a b :
  ss_table a = ss_table b -> ss_splits a = ss_splits b -> digest a = digest b.
Proof. intros E1 E2. unfold digest. now rewrite E1, E2. Qed.

(* fast variant used by the check *)
Lemma fnv_step_fast_eq h b : fnv_step_fast h b = fnv_step h b.
Proof. unfold fnv_step_fast, fnv_step. rewrite Z.land_ones by lia. reflexivity. Qed.

Lemma feed_fast_eq l h : feed_fast h l = feed h l.
Proof. unfold feed_fast, feed. apply fold_left_ext2. exact fnv_step_fast_eq. Qed.

Lemma le_bytes_fast_eq n : forall x, le_bytes_fast n x = le_bytes n x.
Proof.
  induction n as [|k IH]; intros x; cbn [le_bytes_fast le_bytes]; [reflexivity|].
  rewrite IH. f_equal.
  - change 255 with (Z.ones 8). rewrite Z.land_ones by lia. reflexivity.
  - rewrite Z.shiftr_div_pow2 by lia. reflexivity.
Qed.

Lemma le8_fast_eq x : le8_fast x = le8 x.
Proof. unfold le8_fast, le8. rewrite le_bytes_fast_eq, Z.land_ones by lia. reflexivity. Qed.

Lemma feed_split_fast_eq h s : feed_split_fast h s = feed_split h s.
Proof. unfold feed_split_fast, feed_split. now rewrite !feed_fast_eq, !le8_fast_eq. Qed.

Theorem digest_fast_eq ss : digest_fast ss = digest ss.
Proof.
  unfold digest_fast, digest. rewrite feed_fast_eq. apply fold_left_ext2. exact feed_split_fast_eq.
Qed.

(* --- multiplication by the (odd) FNV prime is a bijection mod 2^64 --- *)
Definition fnv_prime_inv : Z := 14886173955864302971.

Lemma fnv_prime_inv_ok : (fnv_prime * fnv_prime_inv) mod W64 = 1.
Proof. vm_compute. reflexivity. Qed.

Lemma mul_prime_cancel z : ((z * fnv_prime) mod W64 * fnv_prime_inv) mod W64 = z mod W64.
Proof.
  rewrite Z.mul_mod_idemp_l by (unfold W64; lia). rewrite <- Z.mul_assoc.
  rewrite <- Z.mul_mod_idemp_r by (unfold W64; lia). rewrite fnv_prime_inv_ok. now rewrite Z.mul_1_r.
Qed.

Lemma mul_prime_inj x y : (x * fnv_prime) mod W64 = (y * fnv_prime) mod W64 -> x mod W64 = y mod W64.
Proof. intros H. rewrite <- (mul_prime_cancel x), <- (mul_prime_cancel y), H. reflexivity. Qed.

Definition u64 (x : Z) : Prop := 0 <= x < W64.
Definition is_byte (x : Z) : Prop := 0 <= x < 256.

Lemma byte_u64 b : is_byte b -> u64 b.
Proof. unfold is_byte, u64, W64. lia. Qed.

Lemma log2_lt64 a : u64 a -> Z.log2 a < 64.
Proof.
  intros [H0 H1]. destruct (Z.eq_dec a 0) as [->|N]; [cbn; lia|].
  apply Z.log2_lt_pow2; [lia|]. change (2 ^ 64) with W64. lia.
Qed.

Lemma lxor_u64 a b : u64 a -> u64 b -> u64 (Z.lxor a b).
Proof.
  intros Ha Hb. pose proof (log2_lt64 a Ha). pose proof (log2_lt64 b Hb).
  destruct Ha as [Ha0 Ha1], Hb as [Hb0 Hb1].
  assert (0 <= Z.lxor a b) as Hn by (apply Z.lxor_nonneg; tauto).
  split; [exact Hn|]. destruct (Z.eq_dec (Z.lxor a b) 0) as [->|N]; [unfold W64; lia|].
  change W64 with (2 ^ 64). apply Z.log2_lt_pow2; [lia|].
  pose proof (Z.log2_lxor a b Ha0 Hb0). lia.
Qed.

Lemma lxor_cancel_l h a b : Z.lxor h a = Z.lxor h b -> a = b.
Proof.
  intros E. rewrite <- (Z.lxor_0_l a), <- (Z.lxor_0_l b), <- (Z.lxor_nilpotent h), !Z.lxor_assoc, E. reflexivity.
Qed.

Lemma fnv_step_u64 h b : u64 (fnv_step h b).
Proof. unfold fnv_step, u64. apply Z.mod_pos_bound. unfold W64. lia. Qed.

(* for a fixed state the step is injective in the byte ... *)
Theorem digest_step_injective_byte h b1 b2 : u64 h -> u64 b1 -> u64 b2 ->
  fnv_step h b1 = fnv_step h b2 -> b1 = b2.
Proof.
  intros Hh H1 H2 E. unfold fnv_step in E. apply mul_prime_inj in E.
  pose proof (lxor_u64 h b1 Hh H1) as U1. pose proof (lxor_u64 h b2 Hh H2) as U2.
  rewrite !Z.mod_small in E by assumption. now apply lxor_cancel_l in E.
Qed.

(* ... and for a fixed byte injective in the state *)
Theorem digest_step_injective_state b h1 h2 : u64 b -> u64 h1 -> u64 h2 ->
  fnv_step h1 b = fnv_step h2 b -> h1 = h2.
Proof.
  intros Hb H1 H2 E. unfold fnv_step in E. apply mul_prime_inj in E.
  pose proof (lxor_u64 h1 b H1 Hb) as U1. pose proof (lxor_u64 h2 b H2 Hb) as U2.
  rewrite !Z.mod_small in E by assumption.
  rewrite (Z.lxor_comm h1), (Z.lxor_comm h2) in E. now apply lxor_cancel_l in E.
Qed.

Lemma feed_u64 l : forall h, u64 h -> u64 (feed h l).
Proof.
  induction l as [|b t IH]; intros h Hh; [exact Hh|]. rewrite feed_cons.
  apply IH. apply fnv_step_u64.
Qed.

Lemma feed_injective_state l : Forall is_byte l -> forall h1 h2, u64 h1 -> u64 h2 ->
  feed h1 l = feed h2 l -> h1 = h2.
Proof.
  induction 1 as [|b t Hb Ht IH]; intros h1 h2 H1 H2 E; [exact E|].
  rewrite !feed_cons in E. apply IH in E; try apply fnv_step_u64.
  apply (digest_step_injective_state b h1 h2); auto. now apply byte_u64.
Qed.

(* two byte strings of equal length that differ in exactly one position never collide *)
Theorem feed_single_byte h pre b1 b2 suf : u64 h -> is_byte b1 -> is_byte b2 -> Forall is_byte suf ->
  b1 <> b2 -> feed h (pre ++ b1 :: suf) <> feed h (pre ++ b2 :: suf).
Proof.
  intros Hh H1 H2 Hs Ne E. rewrite !feed_app in E.
  pose proof (feed_u64 pre h Hh) as Hp. set (h' := feed h pre) in *.
  rewrite !feed_cons in E.
  apply feed_injective_state in E; auto using fnv_step_u64.
  apply Ne. apply (digest_step_injective_byte h' b1 b2); auto using byte_u64.
Qed.

Lemma fnv_offset_u64 : u64 fnv_offset.
Proof. unfold u64, fnv_offset, W64. lia. Qed.

(* PARTIAL. The property's sentence "any change to that content changes the digest" is FALSE for this
   (and any) 64-bit hash: there are more than 2^64 split sets, so two different ones share a digest.
   What holds, and is what is pinned: split sets whose canonical encodings have the same length and
   differ in exactly one byte have different digests. *)
Theorem digest_sensitive_partial a b pre b1 b2 suf :
  encoding a = pre ++ b1 :: suf -> encoding b = pre ++ b2 :: suf ->
  is_byte b1 -> is_byte b2 -> Forall is_byte suf -> b1 <> b2 ->
  digest a <> digest b.
Proof.
  intros Ea Eb H1 H2 Hs Ne. rewrite !digest_encoding, Ea, Eb.
  apply feed_single_byte; auto using fnv_offset_u64.
Qed.

(* the bytes of an encoding are bytes whenever the names are *)
Lemma le_bytes_bytes n : forall x, Forall is_byte (le_bytes n x).
Proof.
  induction n as [|k IH]; intros x; cbn [le_bytes]; constructor; [|apply IH].
  unfold is_byte. apply Z.mod_pos_bound. lia.
Qed.

Lemma encoding_bytes ss : Forall is_byte (ss_table ss) ->
  (forall s, In s (ss_splits ss) -> Forall is_byte (s_file s)) -> Forall is_byte (encoding ss).
Proof.
  intros Ht Hs. unfold encoding. apply Forall_app. split; [exact Ht|].
  induction (ss_splits ss) as [|s t IH]; cbn [flat_map]; [constructor|].
  apply Forall_app. split.
  - unfold split_enc, le8. repeat (apply Forall_app; split); try apply le_bytes_bytes. apply Hs. now left.
  - apply IH. intros s' H. apply Hs. now right.
Qed.

(* a concrete instance: one more row in the last split changes one byte, hence the digest *)
Example digest_sensitive_instance :
  let a := mkSS [116] [mkSplit [116] [102] 0 0 10 100] 100 10 1 in
  let b := mkSS [116] [mkSplit [116] [102] 0 0 11 100] 100 11 1 in
  digest a <> digest b.
Proof.
  intros a b.
  apply (digest_sensitive_partial a b ([116; 102] ++ le8 0 ++ le8 0) 10 11 (le_bytes 7 0 ++ le8 100)).
  - vm_compute. reflexivity.
  - vm_compute. reflexivity.
  - unfold is_byte; lia.
  - unfold is_byte; lia.
  - apply Forall_app. split; apply le_bytes_bytes.
  - lia.
Qed.

(* ================================================================== *)
(* 6. same file name in two directories: REFUTED                        *)

(* Two files with the same file name (d0/x, d1/x) and different footers. file_key makes their sort
   keys equal, both sorts are stable, so the SplitSet and its digest depend on the order in which the
   caller listed the files. *)
Definition dup_files_1 : list file := [([120], [(10, 100)]); ([120], [(20, 300)])].
Definition dup_files_2 : list file := [([120], [(20, 300)]); ([120], [(10, 100)])].

Theorem dup_names_refuted :
  Permutation dup_files_1 dup_files_2
  /\ known_c dup_files_1 = true
  /\ ss_splits (enumerate [116] dup_files_1 1) <> ss_splits (enumerate [116] dup_files_2 1)
  /\ digest (enumerate [116] dup_files_1 1) <> digest (enumerate [116] dup_files_2 1)
  /\ spec_ok [116] dup_files_1 (enumerate [116] dup_files_1 1) = false.
Proof.
  split; [apply perm_swap|]. split; [reflexivity|]. split; [|split].
  - intros E. vm_compute in E. discriminate.
  - intros E. vm_compute in E. discriminate.
  - vm_compute. reflexivity.
Qed.

(* known_c is exactly "file names are not pairwise distinct" *)
Lemma existsb_bytes_eqb x l : existsb (bytes_eqb x) l = true <-> In x l.
Proof.
  rewrite existsb_exists. split.
  - intros (y & Hy & E). apply (list_eqb_spec Z.eqb Z.eqb_eq) in E. now subst.
  - intros H. exists x. split; auto. now apply (list_eqb_spec Z.eqb Z.eqb_eq).
Qed.

Theorem known_c_false_iff files : known_c files = false <-> NoDup (map fst files).
Proof.
  unfold known_c. induction (map fst files) as [|x t IH]; cbn [has_dup].
  - split; [constructor | reflexivity].
  - rewrite orb_false_iff, IH. split.
    + intros [H1 H2]. constructor; auto. intros Hin. apply existsb_bytes_eqb in Hin. congruence.
    + intros H. inversion H as [|? ? Nin ND]; subst. split; auto.
      destruct (existsb (bytes_eqb x) t) eqn:E; auto. apply existsb_bytes_eqb in E. contradiction.
Qed.

(* outside the known class the order of the files does not matter *)
Theorem perm_invariant_unless_known c table files files' nodes :
  known_c files = false -> Permutation files files' ->
  enumerate_c c table files nodes = enumerate_c c table files' nodes
  /\ digest (enumerate_c c table files nodes) = digest (enumerate_c c table files' nodes).
Proof.
  intros K P. apply known_c_false_iff in K.
  rewrite (perm_invariant c table files files' nodes K P). split; reflexivity.
Qed.

(* ================================================================== *)
(* 7. no overflow under the property's bounds                           *)

Definition n_groups (files : list file) : Z := zsum (map (fun f => Z.of_nat (length (snd f))) files).

Lemma rgs_of_bound name R B rgs : 0 <= R -> 0 <= B ->
  (forall r b, In (r, b) rgs -> r <= R /\ b <= B) -> forall idx,
  0 <= zsum (map g_rows (rgs_of name idx rgs)) <= Z.of_nat (length rgs) * R
  /\ 0 <= zsum (map g_bytes (rgs_of name idx rgs)) <= Z.of_nat (length rgs) * B.
Proof.
  intros HR HB. induction rgs as [|[r b] t IH]; intros H idx; [cbn; lia|].
  cbn [rgs_of length]. rewrite Nat2Z.inj_succ.
  destruct (IH (fun r0 b0 Hin => H r0 b0 (or_intror Hin)) (idx + 1)) as [I1 I2].
  destruct (H r b (or_introl eq_refl)).
  destruct (Z.leb_spec r 0); cbn [map]; rewrite ?zsum_cons; cbn [g_rows g_bytes]; nia.
Qed.

Lemma flat_rgs_bound R B (files : list file) : 0 <= R -> 0 <= B ->
  (forall f r b, In f files -> In (r, b) (snd f) -> r <= R /\ b <= B) ->
  let inv := flat_map (fun f => rgs_of (fst f) 0 (snd f)) files in
  0 <= zsum (map g_rows inv) <= n_groups files * R /\ 0 <= zsum (map g_bytes inv) <= n_groups files * B.
Proof.
  intros HR HB. induction files as [|f t IH]; intros H; [cbn; lia|].
  cbn [flat_map]. rewrite !map_app, !zsum_app. unfold n_groups. cbn [map]. rewrite zsum_cons.
  fold (n_groups t).
  destruct (rgs_of_bound (fst f) R B (snd f) HR HB (fun r b Hin => H f r b (or_introl eq_refl) Hin) 0) as [A1 A2].
  destruct (IH (fun f0 r b Hf => H f0 r b (or_intror Hf))) as [B1 B2]. cbv zeta in B1, B2. nia.
Qed.

Lemma inventory_perm files :
  Permutation (inventory files) (flat_map (fun f => rgs_of (fst f) 0 (snd f)) files).
Proof. unfold inventory. apply Permutation_flat_map, isort_perm. Qed.

(* sizes <= 2^40, row counts <= 2^31, at most 2^20 row groups, nodes <= 2^32: no accumulator leaves
   its machine range, so enumerate_checked = Some (enumerate_c ...) *)
Theorem no_overflow c table files nodes :
  (forall f r b, In f files -> In (r, b) (snd f) -> r <= 2 ^ 31 /\ b <= 2 ^ 40) ->
  n_groups files <= 2 ^ 20 -> nodes <= 2 ^ 32 -> 0 <= c_spn c <= 2 ^ 20 ->
  enumerate_checked c table files nodes = Some (enumerate_c c table files nodes).
Proof.
  intros Hb Hn Hnodes Hc. unfold enumerate_checked.
  assert (fits c files nodes = true) as ->; [|reflexivity].
  unfold fits.
  destruct (flat_rgs_bound (2 ^ 31) (2 ^ 40) files) as [R B]; try lia; [exact Hb|]. cbv zeta in R, B.
  rewrite (zsum_perm _ _ (Permutation_map g_bytes (inventory_perm files))).
  rewrite (zsum_perm _ _ (Permutation_map g_rows (inventory_perm files))).
  rewrite !andb_true_iff, !Z.ltb_lt. unfold W64, W63.
  assert (0 <= n_groups files).
  { unfold n_groups. apply zsum_nonneg. intros x Hx. apply in_map_iff in Hx. destruct Hx as (f & <- & _). lia. }
  repeat split; nia.
Qed.

Example no_overflow_instance :
  enumerate_checked engine_consts [116] [([97], [(2 ^ 31, 2 ^ 40); (0, 7); (5, -1)])] 64
  = Some (enumerate [116] [([97], [(2 ^ 31, 2 ^ 40); (0, 7); (5, -1)])] 64).
Proof. apply no_overflow; cbn; try lia. intros f r b [<-|[]] [E|[E|[E|[]]]]; inversion E; subst; lia. Qed.

(* non-vacuity of cover/bytes: a row group that is really cut *)
Example cut_instance : cut 30 10 100 = [(0, 3, 30); (3, 3, 30); (6, 2, 20); (8, 2, 20)].
Proof. vm_compute. reflexivity. Qed.

(* ================================================================== *)
(* 8. with distinct file names the final sort is the identity: the output is, in this order, the
      pieces of each row group of each file in file-name order                                   *)

Section SortedId.
  Context {A : Type} (le : A -> A -> bool).
  Lemma isort_sorted_id l : StronglySorted (fun x y => le x y = true) l -> isort le l = l.
  Proof.
    induction 1 as [|h t SSt IH Fh]; [reflexivity|].
    cbn [isort fold_right]. fold (isort le t). rewrite IH.
    destruct t as [|a t']; [reflexivity|]. cbn [insert].
    inversion Fh as [|? ? Ha _]; subst. now rewrite Ha.
  Qed.
End SortedId.

Lemma SS_app {A} (R : A -> A -> Prop) l1 l2 :
  StronglySorted R l1 -> StronglySorted R l2 -> (forall x y, In x l1 -> In y l2 -> R x y) ->
  StronglySorted R (l1 ++ l2).
Proof.
  induction 1 as [|h t SSt IH Fh]; intros S2 X; cbn [app]; [exact S2|].
  constructor.
  - apply IH; auto. intros x y Hx Hy. apply X; auto. now right.
  - apply Forall_app. split; [exact Fh|]. apply Forall_forall. intros y Hy. apply X; auto. now left.
Qed.

Lemma SS_flat_map {A B} (RA : A -> A -> Prop) (RB : B -> B -> Prop) (f : A -> list B) l :
  StronglySorted RA l -> (forall a, In a l -> StronglySorted RB (f a)) ->
  (forall a b, In a l -> In b l -> RA a b -> forall x y, In x (f a) -> In y (f b) -> RB x y) ->
  StronglySorted RB (flat_map f l).
Proof.
  induction 1 as [|h t SSt IH Fh]; intros Hin Hx; cbn [flat_map]; [constructor|].
  apply SS_app.
  - apply Hin. now left.
  - apply IH; [intros; apply Hin; now right | intros a b Ha Hb; apply Hx; now right].
  - intros x y Hxh Hyt. apply in_flat_map in Hyt. destruct Hyt as (b & Hb & Hy).
    rewrite Forall_forall in Fh. eapply (Hx h b); eauto; [now left | now right].
Qed.

(* strict order on row groups: by file name, then by index *)
Definition rg_lt (g1 g2 : rowgroup) : Prop :=
  bytes_cmp (g_file g1) (g_file g2) = Lt \/ (g_file g1 = g_file g2 /\ g_index g1 < g_index g2).
Definition key_lt (x y : split) : Prop := key_cmp x y = Lt.

Lemma rgs_of_sorted name rgs : forall idx,
  StronglySorted rg_lt (rgs_of name idx rgs)
  /\ Forall (fun g => g_file g = name /\ idx <= g_index g) (rgs_of name idx rgs).
Proof.
  induction rgs as [|[r b] t IH]; intros idx; cbn [rgs_of]; [split; constructor|].
  destruct (IH (idx + 1)) as [S F].
  assert (Forall (fun g => g_file g = name /\ idx <= g_index g) (rgs_of name (idx + 1) t)) as F'.
  { eapply Forall_impl; [|exact F]. cbv beta. intros g [? ?]. split; auto. lia. }
  destruct (r <=? 0); [split; assumption|]. split.
  - constructor; [exact S|]. eapply Forall_impl; [|exact F]. cbv beta. intros g [Hf Hi].
    right. cbn [g_file g_index]. split; [now symmetry | lia].
  - constructor; [cbn; split; [reflexivity | lia] | exact F'].
Qed.

Lemma SS_strict_of_NoDup (files : list file) :
  StronglySorted (fun x y => file_le x y = true) files -> NoDup (map fst files) ->
  StronglySorted (fun x y => bytes_cmp (fst x) (fst y) = Lt) files.
Proof.
  induction 1 as [|h t SSt IH Fh]; intros ND; [constructor|].
  cbn [map] in ND. inversion ND as [|? ? Nin NDt]; subst. constructor; [now apply IH|].
  rewrite Forall_forall in *. intros y Hy. specialize (Fh y Hy). unfold file_le in Fh.
  apply cmp_le_true in Fh. destruct (bytes_cmp (fst h) (fst y)) eqn:E; try congruence.
  apply bytes_cmp_eq in E. exfalso. apply Nin. rewrite E. now apply in_map.
Qed.

Lemma inventory_sorted files : NoDup (map fst files) -> StronglySorted rg_lt (inventory files).
Proof.
  intros ND. unfold inventory.
  apply (SS_flat_map (fun x y : file => bytes_cmp (fst x) (fst y) = Lt)).
  - apply SS_strict_of_NoDup; [apply (isort_SS file_le file_le_total file_le_trans)|].
    eapply Permutation_NoDup; [|exact ND]. apply Permutation_map, Permutation_sym, isort_perm.
  - intros f _. apply rgs_of_sorted.
  - intros f1 f2 _ _ L g1 g2 H1 H2.
    destruct (rgs_of_sorted (fst f1) (snd f1) 0) as [_ F1]. destruct (rgs_of_sorted (fst f2) (snd f2) 0) as [_ F2].
    rewrite Forall_forall in F1, F2. destruct (F1 g1 H1) as [E1 _]. destruct (F2 g2 H2) as [E2 _].
    left. now rewrite E1, E2.
Qed.

Lemma contiguous_s_sorted table name idx ps : forall o,
  contiguous_s o ps -> Forall (fun s => s_table s = table /\ s_file s = name /\ s_rg s = idx) ps ->
  StronglySorted key_lt ps /\ Forall (fun s => o <= s_off s) ps.
Proof.
  induction ps as [|s t IH]; intros o C F; [split; constructor|].
  destruct C as (Eo & Pn & C). apply Forall_cons_iff in F. destruct F as [(Et & Ef & Er) Ft].
  destruct (IH _ C Ft) as [S Lo]. split.
  - constructor; [exact S|]. rewrite Forall_forall in *. intros y Hy.
    destruct (Ft y Hy) as (Et' & Ef' & Er'). specialize (Lo y Hy).
    unfold key_lt, key_cmp. rewrite Et', Et, Ef', Ef, Er', Er, !bytes_cmp_refl, Z.compare_refl. cbn [cmp_then].
    apply Z.compare_lt_iff. lia.
  - constructor; [lia|]. eapply Forall_impl; [|exact Lo]. cbv beta. intros; lia.
Qed.

Theorem enumerate_sorted c table files nodes : NoDup (map fst files) ->
  let ss := enumerate_c c table files nodes in
  ss_splits ss = flat_map (splits_of_rg table (ss_target ss)) (inventory files)
  /\ StronglySorted key_lt (ss_splits ss).
Proof.
  intros ND ss. set (tg := ss_target ss).
  assert (StronglySorted key_lt (flat_map (splits_of_rg table tg) (inventory files))) as S.
  { apply (SS_flat_map rg_lt); [now apply inventory_sorted| |].
    - intros g Hg. destruct (splits_of_rg_facts table tg g) as (_ & C & _ & F); [apply (inventory_rows_pos files g Hg)|].
      eapply (contiguous_s_sorted table (g_file g) (g_index g)); [exact C|]. apply Forall_forall. exact F.
    - intros g1 g2 H1 H2 L x y Hx Hy.
      destruct (splits_of_rg_facts table tg g1) as (_ & _ & _ & F1); [apply (inventory_rows_pos files g1 H1)|].
      destruct (splits_of_rg_facts table tg g2) as (_ & _ & _ & F2); [apply (inventory_rows_pos files g2 H2)|].
      destruct (F1 x Hx) as (Tx & Fx & Rx). destruct (F2 y Hy) as (Ty & Fy & Ry).
      unfold key_lt, key_cmp. rewrite Tx, Ty, Fx, Fy, Rx, Ry, bytes_cmp_refl. cbn [cmp_then].
      destruct L as [L|[E L]].
      + now rewrite L.
      + rewrite E, bytes_cmp_refl. cbn [cmp_then]. assert (g_index g1 ?= g_index g2 = Lt) as -> by now apply Z.compare_lt_iff.
        reflexivity. }
  assert (ss_splits ss = flat_map (splits_of_rg table tg) (inventory files)) as E.
  { unfold ss, enumerate_c. cbn [ss_splits]. apply isort_sorted_id.
    eapply StronglySorted_ind with (P := fun l => StronglySorted (fun x y => split_le x y = true) l); [constructor | | exact S].
    intros a l _ IH Fa. constructor; [exact IH|]. eapply Forall_impl; [|exact Fa]. cbv beta.
    intros y Hy. unfold split_le. unfold key_lt in Hy. now rewrite Hy. }
  split; [exact E | rewrite E; exact S].
Qed.

(* ================================================================== *)
(* 9. the model meets the executable specification (distinct names, i64 footers) *)

Lemma bytes_eqb_refl a : bytes_eqb a a = true.
Proof. now apply (list_eqb_spec Z.eqb Z.eqb_eq). Qed.
Lemma bytes_eqb_eq a b : bytes_eqb a b = true <-> a = b.
Proof. apply (list_eqb_spec Z.eqb Z.eqb_eq). Qed.

Lemma strictly_sorted_of_SS l : StronglySorted key_lt l -> strictly_sorted_b l = true.
Proof.
  induction 1 as [|x t SSt IH Fx]; [reflexivity|]. cbn [strictly_sorted_b]. rewrite IH, andb_true_r.
  destruct t as [|y t']; [reflexivity|]. inversion Fx as [|? ? Hy _]; subst. unfold key_lt in Hy. now rewrite Hy.
Qed.

Lemma contiguous_b_of_s l : forall o, contiguous_s o l -> contiguous_b o l = true.
Proof.
  induction l as [|s t IH]; intros o C; [reflexivity|]. destruct C as (E & P & C).
  cbn [contiguous_b]. rewrite IH by exact C. rewrite E, Z.eqb_refl. cbn [andb].
  destruct (Z.ltb_spec 0 (s_rows s)); [reflexivity | lia].
Qed.

Lemma filter_all {A} (p : A -> bool) l : (forall x, In x l -> p x = true) -> filter p l = l.
Proof.
  induction l as [|h t IH]; intros H; [reflexivity|]. cbn [filter]. rewrite (H h) by now left.
  f_equal. apply IH. intros; apply H; now right.
Qed.
Lemma filter_none {A} (p : A -> bool) l : (forall x, In x l -> p x = false) -> filter p l = [].
Proof.
  induction l as [|h t IH]; intros H; [reflexivity|]. cbn [filter]. rewrite (H h) by now left.
  apply IH. intros; apply H; now right.
Qed.
Lemma filter_flat_map {A B} (p : B -> bool) (f : A -> list B) l :
  filter p (flat_map f l) = flat_map (fun a => filter p (f a)) l.
Proof.
  induction l as [|h t IH]; [reflexivity|]. cbn [flat_map]. rewrite filter_app, IH. reflexivity.
Qed.

Definition rg_key_is (name : list Z) (idx : Z) (g : rowgroup) : Prop := g_file g = name /\ g_index g = idx.

Lemma rg_lt_not_same g1 g2 name idx : rg_lt g1 g2 -> rg_key_is name idx g1 -> rg_key_is name idx g2 -> False.
Proof.
  intros [L|[_ L]] [F1 I1] [F2 I2].
  - rewrite F1, F2, bytes_cmp_refl in L. discriminate.
  - lia.
Qed.

Section Select.
  Variables (table : list Z) (tg : Z) (name : list Z) (idx : Z).
  Let P := splits_of_rg table tg.

  Lemma filter_group g : 0 < g_rows g ->
    filter (in_group name idx) (P g) = if bytes_eqb (g_file g) name && (g_index g =? idx) then P g else [].
  Proof.
    intros Hr. destruct (splits_of_rg_facts table tg g Hr) as (_ & _ & _ & F). fold P in F.
    destruct (bytes_eqb (g_file g) name && (g_index g =? idx)) eqn:E.
    - apply filter_all. intros s Hs. destruct (F s Hs) as (_ & Ef & Er). unfold in_group. now rewrite Ef, Er.
    - apply filter_none. intros s Hs. destruct (F s Hs) as (_ & Ef & Er). unfold in_group. now rewrite Ef, Er.
  Qed.

  Lemma key_is_b g : bytes_eqb (g_file g) name && (g_index g =? idx) = true <-> rg_key_is name idx g.
  Proof. unfold rg_key_is. rewrite andb_true_iff, bytes_eqb_eq, Z.eqb_eq. tauto. Qed.

  Lemma select_none l : (forall g, In g l -> 0 < g_rows g) -> (forall g, In g l -> ~ rg_key_is name idx g) ->
    filter (in_group name idx) (flat_map P l) = [].
  Proof.
    intros Hr Hn. rewrite filter_flat_map. induction l as [|h t IH]; [reflexivity|]. cbn [flat_map].
    rewrite filter_group by (apply Hr; now left).
    destruct (bytes_eqb (g_file h) name && (g_index h =? idx)) eqn:E.
    - apply key_is_b in E. exfalso. apply (Hn h); auto. now left.
    - cbn [app]. apply IH; intros; [apply Hr | apply Hn]; now right.
  Qed.

  Lemma select_one l g0 : StronglySorted rg_lt l -> (forall g, In g l -> 0 < g_rows g) ->
    In g0 l -> rg_key_is name idx g0 -> filter (in_group name idx) (flat_map P l) = P g0.
  Proof.
    induction 1 as [|h t SSt IH Fh]; intros Hr Hin Hk; [destruct Hin|].
    cbn [flat_map]. rewrite filter_app, filter_group by (apply Hr; now left).
    destruct Hin as [->|Hin].
    - apply key_is_b in Hk as Hb. rewrite Hb. rewrite select_none; [apply app_nil_r | intros; apply Hr; now right|].
      intros g Hg Kg. rewrite Forall_forall in Fh. eapply rg_lt_not_same; [apply (Fh g Hg) | exact Hk | exact Kg].
    - destruct (bytes_eqb (g_file h) name && (g_index h =? idx)) eqn:E.
      + apply key_is_b in E. exfalso. rewrite Forall_forall in Fh.
        eapply rg_lt_not_same; [apply (Fh g0 Hin) | exact E | exact Hk].
      + cbn [app]. apply IH; auto. intros; apply Hr; now right.
  Qed.
End Select.

Lemma groups_of_In name rgs : forall idx g,
  In g (groups_of name idx rgs) <-> exists i rows b, nth_error rgs i = Some (rows, b) /\ g = (name, idx + Z.of_nat i, rows, b).
Proof.
  induction rgs as [|[r b] t IH]; intros idx g; cbn [groups_of].
  - split; [intros []|]. intros ([|i] & ? & ? & E & _); discriminate.
  - cbn [In]. rewrite IH. split.
    + intros [<-|(i & rows & b0 & E & ->)].
      * exists O, r, b. split; [reflexivity|]. replace (idx + Z.of_nat 0) with idx by lia. reflexivity.
      * exists (S i), rows, b0. split; [exact E|]. replace (idx + Z.of_nat (S i)) with (idx + 1 + Z.of_nat i) by lia. reflexivity.
    + intros ([|i] & rows & b0 & E & ->).
      * left. cbn in E. inversion E; subst. replace (idx + Z.of_nat 0) with idx by lia. reflexivity.
      * right. exists i, rows, b0. split; [exact E|]. replace (idx + Z.of_nat (S i)) with (idx + 1 + Z.of_nat i) by lia. reflexivity.
Qed.

Lemma all_groups_In files g :
  In g (all_groups files) <-> exists f i rows b, In f files /\ nth_error (snd f) i = Some (rows, b) /\ g = (fst f, Z.of_nat i, rows, b).
Proof.
  unfold all_groups. rewrite in_flat_map. split.
  - intros (f & Hf & Hg). apply groups_of_In in Hg. destruct Hg as (i & rows & b & E & ->). exists f, i, rows, b. auto.
  - intros (f & i & rows & b & Hf & E & ->). exists f. split; auto. apply groups_of_In. exists i, rows, b. auto.
Qed.

Definition live_r (g : list Z * Z * Z * Z) : Z := let '(_, _, rows, _) := g in if rows <=? 0 then 0 else rows.
Definition live_b (g : list Z * Z * Z * Z) : Z := let '(_, _, rows, b) := g in if rows <=? 0 then 0 else Z.max b 0.

Lemma rgs_groups_sums name rgs : forall idx,
  zsum (map g_rows (rgs_of name idx rgs)) = zsum (map live_r (groups_of name idx rgs))
  /\ zsum (map g_bytes (rgs_of name idx rgs)) = zsum (map live_b (groups_of name idx rgs)).
Proof.
  induction rgs as [|[r b] t IH]; intros idx; cbn [rgs_of groups_of map]; [split; reflexivity|].
  destruct (IH (idx + 1)) as [I1 I2]. rewrite !zsum_cons. unfold live_r at 1, live_b at 1.
  destruct (r <=? 0); cbn [map]; rewrite ?zsum_cons; cbn [g_rows g_bytes]; lia.
Qed.

Lemma inventory_totals files :
  zsum (map g_rows (inventory files)) = live_rows files /\ zsum (map g_bytes (inventory files)) = live_bytes files.
Proof.
  rewrite (zsum_perm _ _ (Permutation_map g_rows (inventory_perm files))).
  rewrite (zsum_perm _ _ (Permutation_map g_bytes (inventory_perm files))).
  unfold live_rows, live_bytes, all_groups. fold live_r live_b.
  rewrite !zsum_flat_map. split; apply zsum_map_ext_in; intros f _; apply rgs_groups_sums.
Qed.

Theorem model_meets_spec c table files nodes :
  NoDup (map fst files) -> i64_files files ->
  spec_ok table files (enumerate_c c table files nodes) = true.
Proof.
  intros ND W. set (ss := enumerate_c c table files nodes).
  destruct (enumerate_sorted c table files nodes ND) as [E S]. fold ss in E, S. cbv zeta in E, S.
  set (tg := ss_target ss) in *.
  assert (forall g, In g (inventory files) -> 0 < g_rows g) as Hpos by (intros g Hg; apply (inventory_rows_pos files g Hg)).
  assert (forall s, In s (ss_splits ss) -> exists g, In g (inventory files) /\ In s (splits_of_rg table tg g)) as Hsrc.
  { intros s Hs. rewrite E in Hs. apply in_flat_map in Hs. exact Hs. }
  unfold spec_ok. rewrite !andb_true_iff. repeat split.
  - apply bytes_eqb_refl.
  - apply forallb_forall. intros s Hs. destruct (Hsrc s Hs) as (g & Hg & Hin).
    destruct (splits_of_rg_facts table tg g (Hpos g Hg)) as (_ & _ & _ & F). destruct (F s Hin) as (-> & _). apply bytes_eqb_refl.
  - now apply strictly_sorted_of_SS.
  - apply forallb_forall. intros g4 Hg4. apply all_groups_In in Hg4.
    destruct Hg4 as (f & i & rows & b & Hf & En & ->). unfold group_ok. rewrite E.
    destruct (Z.leb_spec rows 0) as [Le|Gt].
    + rewrite (select_none table tg (fst f) (Z.of_nat i)); auto.
      intros g Hg [Kf Ki]. apply inventory_exact in Hg. destruct Hg as (f' & i' & rows' & b' & Hf' & En' & P' & ->).
      cbn [g_file g_index] in Kf, Ki.
      assert (f' = f) by (apply (NoDup_map_inj_in fst files ND); auto). subst f'.
      assert (i' = i) by lia. subst i'. rewrite En in En'. inversion En'; subst. lia.
    + set (g0 := mkRG (fst f) (Z.of_nat i) rows (Z.max b 0)).
      assert (In g0 (inventory files)) as Hg0 by (apply inventory_exact; exists f, i, rows, b; auto).
      rewrite (select_one table tg (fst f) (Z.of_nat i) (inventory files) g0); auto;
        [|now apply inventory_sorted | split; reflexivity].
      destruct (splits_of_rg_facts table tg g0 (Hpos g0 Hg0)) as (NE & C & Sr & _).
      destruct (inventory_range files g0 W Hg0) as [Rr Rb].
      pose proof (splits_of_rg_bytes table tg g0 Rr Rb) as Sb.
      rewrite (contiguous_b_of_s _ _ C), Sr, Sb. cbn [g_rows g_bytes g0]. rewrite !Z.eqb_refl.
      destruct (splits_of_rg table tg g0); [congruence | reflexivity].
  - apply forallb_forall. intros s Hs. destruct (Hsrc s Hs) as (g & Hg & Hin).
    destruct (splits_of_rg_facts table tg g (Hpos g Hg)) as (_ & _ & _ & F). destruct (F s Hin) as (_ & Ef & Er).
    apply inventory_exact in Hg. destruct Hg as (f & i & rows & b & Hf & En & P & ->).
    apply existsb_exists. exists (fst f, Z.of_nat i, rows, b). split; [apply all_groups_In; exists f, i, rows, b; auto|].
    cbn [g_file g_index] in Ef, Er. unfold in_group. rewrite Ef, Er, bytes_eqb_refl, Z.eqb_refl. cbn [andb].
    now apply Z.ltb_lt.
  - apply Z.eqb_eq. apply (inventory_totals files).
  - apply Z.eqb_eq. apply (inventory_totals files).
  - apply Z.eqb_eq. apply (total_rows_exact c table files nodes).
  - apply Z.eqb_eq. now apply (total_bytes_exact c table files nodes).
Qed.

Example model_meets_spec_instance :
  spec_ok [116] [([98], [(10, 100); (0, 5); (7, -1)]); ([97], [(1000, 1099511627776)])]
          (enumerate [116] [([98], [(10, 100); (0, 5); (7, -1)]); ([97], [(1000, 1099511627776)])] 3) = true.
Proof. vm_compute. reflexivity. Qed.
