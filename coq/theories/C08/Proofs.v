(* C08 — running out of memory budget never changes an answer (model level).
   partition_perm                hash partitions are a rearrangement of the input (any hash function, any partition list that
                                 enumerates its range without duplicates)
   partitioned_join_equiv        partition-wise INNER join = the join, as a bag, when matching rows hash alike
   partitioned_group_equiv       partition-wise GROUP BY = GROUP BY, as a bag, when not-distinct keys hash alike
   partitioned_distinct_equiv    likewise DISTINCT
   merge2_sorted / merge2_perm / kmerge_sorted_perm / kmerge_any_tree
                                 merging sorted runs gives a sorted permutation, for every merge schedule
   ext_sort_rows_correct         external sort with the QUERY's comparator = sorted permutation of the input, for every run split
   eng_merge_agrees              the merge comparator the engine used before fix 0e417e6 is the query's comparator exactly when
                                 every key has NULLS FIRST iff DESC;
   merge_comparator_refuted, spill_ignores_fetch_refuted   regression witnesses of the repaired spilled-sort defects
   run_never_spill, limit_independent, sort_limit_independent, topk_limit_independent   the main statements *)
From QV Require Import Sql.Query Sql.QueryProofs C21.Proofs C22.Proofs C25.Model C25.Proofs C07.Proofs C08.Model.

(* ================= hash partitions ================= *)
Lemma flat_map_app_perm {A B} (f g : A -> list B) l :
  Permutation (flat_map (fun x => f x ++ g x) l) (flat_map f l ++ flat_map g l).
Proof.
  induction l as [|a l IH]; cbn [flat_map]; [reflexivity|]. rewrite IH. rewrite <- !app_assoc.
  apply Permutation_app_head. rewrite !app_assoc. apply Permutation_app_tail. apply Permutation_app_comm.
Qed.

Lemma no_part {A} (h : A -> nat) x ps : ~ In (h x) ps -> flat_map (fun p => if in_part h p x then [x] else []) ps = [].
Proof.
  induction ps as [|q ps IH]; intros Hn; [reflexivity|]. cbn [flat_map]. unfold in_part at 1.
  destruct (Nat.eqb (h x) q) eqn:E.
  - apply Nat.eqb_eq in E. exfalso. apply Hn. now left.
  - cbn [app]. apply IH. intros H. apply Hn. now right.
Qed.

Lemma one_part {A} (h : A -> nat) x ps : NoDup ps -> In (h x) ps ->
  flat_map (fun p => if in_part h p x then [x] else []) ps = [x].
Proof.
  induction ps as [|p ps IH]; intros Hnd Hin; [destruct Hin|].
  inversion Hnd as [|? ? Hnot Hnd']; subst. cbn [flat_map]. unfold in_part at 1.
  destruct (Nat.eqb (h x) p) eqn:E.
  - apply Nat.eqb_eq in E. subst p. cbn [app]. f_equal. now apply no_part.
  - cbn [app]. apply IH; [exact Hnd'|]. destruct Hin as [Hp|H]; [rewrite Hp, Nat.eqb_refl in E; discriminate | exact H].
Qed.

Theorem partition_perm {A} (h : A -> nat) ps (L : list A) :
  NoDup ps -> (forall x, In x L -> In (h x) ps) ->
  Permutation (flat_map (fun p => filter (in_part h p) L) ps) L.
Proof.
  intros Hnd. induction L as [|x L IH]; intros Hc.
  - induction ps as [|p ps IHp]; cbn [flat_map filter]; [constructor|]. inversion Hnd; subst. now apply IHp.
  - rewrite (flat_map_ext _ (fun p => (if in_part h p x then [x] else []) ++ filter (in_part h p) L)).
    2:{ intros p. cbn [filter]. now destruct (in_part h p x). }
    rewrite flat_map_app_perm, one_part by (auto; apply Hc; now left). cbn [app]. constructor.
    apply IH. intros y Hy. apply Hc. now right.
Qed.

Lemma hmod_in_range {A} (h : A -> nat) n x : In (hmod h n x) (seq 0 (S n)).
Proof. apply in_seq. unfold hmod. pose proof (Nat.mod_upper_bound (h x) (S n)). lia. Qed.

Lemma flat_map_flat_map {A B C} (f : B -> list C) (g : A -> list B) l :
  flat_map f (flat_map g l) = flat_map (fun x => flat_map f (g x)) l.
Proof. induction l as [|a l IH]; cbn [flat_map]; [reflexivity|]. now rewrite flat_map_app, IH. Qed.

Lemma map_flat_map {A B C} (f : B -> C) (g : A -> list B) l :
  map f (flat_map g l) = flat_map (fun x => map f (g x)) l.
Proof. induction l as [|a l IH]; cbn [flat_map]; [reflexivity|]. now rewrite map_app, IH. Qed.

(* ---------- join ---------- *)
Theorem partitioned_join_equiv wl wr ok (hl hr : row -> nat) ps L R :
  (forall l r, ok l r = true -> hl l = hr r) -> NoDup ps -> (forall l, In l L -> In (hl l) ps) ->
  Permutation (pjoin wl wr ok hl hr ps L R) (join_gen JInner wl wr ok L R).
Proof.
  intros Hh Hnd Hc. unfold pjoin.
  rewrite (flat_map_ext _ (fun p => join_gen JInner wl wr ok (filter (in_part hl p) L) R)).
  2:{ intros p. cbn [join_gen]. apply flat_map_ext_in. intros l Hl. f_equal. apply filter_filter_implied.
      intros r Hr. apply filter_In in Hl as [_ Hl]. unfold in_part in *. now rewrite <- (Hh l r Hr). }
  cbn [join_gen]. rewrite <- flat_map_flat_map. apply Permutation_flat_map. now apply partition_perm.
Qed.

(* ---------- DISTINCT / GROUP BY ---------- *)
Lemma dby_filter_respects {A} (eq : A -> A -> bool) (P : A -> bool) l :
  respects eq P -> dby eq (filter P l) = filter P (dby eq l).
Proof.
  intros HP. induction l as [|x l IH]; cbn [filter dby]; [reflexivity|]. destruct (P x) eqn:Px; cbn [dby filter]; rewrite ?Px.
  - rewrite IH. f_equal. rewrite !filter_filter. apply filter_ext. intros a. apply andb_comm.
  - rewrite IH. rewrite filter_filter. apply filter_ext_in. intros a Ha.
    destruct (eq x a) eqn:E; cbn [negb andb]; [|reflexivity]. rewrite <- (HP x a E), Px. reflexivity.
Qed.

Lemma in_part_respects (hk : row -> nat) p : (forall a b, row_same a b = true -> hk a = hk b) -> respects row_same (in_part hk p).
Proof. intros H a b Hab. unfold in_part. now rewrite (H a b Hab). Qed.

Theorem partitioned_distinct_equiv (h : row -> nat) ps rows :
  (forall a b, row_same a b = true -> h a = h b) -> NoDup ps -> (forall r, In r rows -> In (h r) ps) ->
  Permutation (pdistinct h ps rows) (distinct rows).
Proof.
  intros Hh Hnd Hc. unfold pdistinct, distinct. rewrite distinct_by_is_dby.
  rewrite (flat_map_ext _ (fun p => filter (in_part h p) (dby row_same rows))).
  2:{ intros p. rewrite distinct_by_is_dby. apply dby_filter_respects. now apply in_part_respects. }
  apply partition_perm; [exact Hnd|]. intros r Hr. apply Hc. now apply dby_incl in Hr.
Qed.

Theorem partitioned_group_equiv Q k keys aggs (hk : row -> nat) ps rows :
  (forall a b, row_same a b = true -> hk a = hk b) -> NoDup ps ->
  (forall r, In r rows -> In (key_hash Q (k :: keys) hk r) ps) ->
  Permutation (pgroup Q (k :: keys) aggs hk ps rows) (group_rows Q (k :: keys) aggs rows).
Proof.
  intros Hh Hnd Hc. unfold pgroup.
  set (kv := fun r : row => map (eval (q_esem Q) r) (k :: keys)).
  set (G := fun ks : row => out_row Q ks aggs (filter (fun r => row_same (kv r) ks) rows)).
  set (D := distinct (map kv rows)).
  assert (Hpart : forall p, group_rows Q (k :: keys) aggs (filter (in_part (key_hash Q (k :: keys) hk) p) rows)
                            = map G (filter (in_part hk p) D)).
  { intros p. rewrite group_rows_unfold. fold kv.
    assert (E : map kv (filter (in_part (key_hash Q (k :: keys) hk) p) rows) = filter (in_part hk p) (map kv rows)).
    { symmetry. apply filter_map_comm. intros x _. reflexivity. }
    rewrite E. unfold distinct at 1. rewrite distinct_by_is_dby, dby_filter_respects by now apply in_part_respects.
    rewrite <- distinct_by_is_dby. fold (distinct (map kv rows)). fold D.
    apply map_ext_in. intros ks Hks. unfold G. f_equal.
    apply filter_In in Hks as [_ Hks]. unfold in_part in Hks. apply Nat.eqb_eq in Hks.
    apply filter_filter_implied. intros r Hr. unfold in_part, key_hash. fold (kv r).
    rewrite (Hh _ _ Hr), Hks. apply Nat.eqb_refl. }
  rewrite (flat_map_ext _ _ Hpart), <- map_flat_map.
  rewrite group_rows_unfold. fold kv. fold D. change (fun ks : row => out_row Q ks aggs (filter (fun r : row => row_same (kv r) ks) rows)) with G.
  apply Permutation_map. apply partition_perm; [exact Hnd|].
  intros ks Hks. unfold D, distinct in Hks. rewrite distinct_by_is_dby in Hks. apply dby_incl in Hks.
  apply in_map_iff in Hks as [r [<- Hr]]. apply (Hc r Hr).
Qed.

(* ================= external sort ================= *)
Section MergeProofs.
  Context {A : Type} (le : A -> A -> bool).
  Let R := fun a b => le a b = true.

  Lemma merge2_nil_l b : merge2 le [] b = b. Proof. reflexivity. Qed.
  Lemma merge2_nil_r a : merge2 le a [] = a. Proof. destruct a; reflexivity. Qed.
  Lemma merge2_cons x a y b :
    merge2 le (x :: a) (y :: b) = if le x y then x :: merge2 le a (y :: b) else y :: merge2 le (x :: a) b.
  Proof. reflexivity. Qed.

  Theorem merge2_perm a : forall b, Permutation (merge2 le a b) (a ++ b).
  Proof.
    induction a as [|x a IHa]; [reflexivity|]. induction b as [|y b IHb].
    - rewrite merge2_nil_r, app_nil_r. reflexivity.
    - rewrite merge2_cons. destruct (le x y).
      + cbn [app]. constructor. apply IHa.
      + rewrite IHb. apply Permutation_middle.
  Qed.

  Lemma merge2_hdrel z a b : HdRel R z a -> HdRel R z b -> HdRel R z (merge2 le a b).
  Proof.
    destruct a as [|x a], b as [|y b]; intros Ha Hb; rewrite ?merge2_nil_l, ?merge2_nil_r; auto.
    rewrite merge2_cons. destruct (le x y); constructor; [now inversion Ha | now inversion Hb].
  Qed.

  Hypothesis le_total : forall a b, le a b = true \/ le b a = true.

  Theorem merge2_sorted a : forall b, Sorted R a -> Sorted R b -> Sorted R (merge2 le a b).
  Proof.
    induction a as [|x a IHa]; [intros; now rewrite merge2_nil_l|]. induction b as [|y b IHb]; intros Ha Hb.
    - now rewrite merge2_nil_r.
    - rewrite merge2_cons. inversion Ha as [|? ? Sa Hxa]; subst. inversion Hb as [|? ? Sb Hyb]; subst.
      destruct (le x y) eqn:E.
      + constructor; [now apply IHa|]. apply merge2_hdrel; [exact Hxa | now constructor].
      + constructor; [now apply IHb|]. apply merge2_hdrel; [|exact Hyb].
        constructor. unfold R. destruct (le_total y x) as [H|H]; [exact H | congruence].
  Qed.

  Theorem kmerge_sorted_perm runs :
    Forall (Sorted R) runs -> Sorted R (kmerge le runs) /\ Permutation (kmerge le runs) (concat runs).
  Proof.
    induction 1 as [|r runs Hr _ [IHs IHp]]; cbn [kmerge fold_right concat]; [split; constructor|].
    fold (kmerge le runs). split; [now apply merge2_sorted|]. rewrite merge2_perm. now apply Permutation_app_head.
  Qed.

  (* any merge schedule: a tree of two-way merges over the runs (several passes, any fan-in) *)
  Inductive mtree := MLeaf (run : list A) | MNode (a b : mtree).
  Fixpoint mflat (t : mtree) : list A := match t with MLeaf r => r | MNode a b => mflat a ++ mflat b end.
  Fixpoint mmerge (t : mtree) : list A := match t with MLeaf r => r | MNode a b => merge2 le (mmerge a) (mmerge b) end.
  Fixpoint mruns_sorted (t : mtree) : Prop := match t with MLeaf r => Sorted R r | MNode a b => mruns_sorted a /\ mruns_sorted b end.

  Theorem kmerge_any_tree t : mruns_sorted t -> Sorted R (mmerge t) /\ Permutation (mmerge t) (mflat t).
  Proof.
    induction t as [r|a IHa b IHb]; cbn [mruns_sorted mmerge mflat].
    - intros H. split; [exact H | reflexivity].
    - intros [Ha Hb]. destruct (IHa Ha) as [Sa Pa], (IHb Hb) as [Sb Pb]. split; [now apply merge2_sorted|].
      rewrite merge2_perm. now apply Permutation_app.
  Qed.

  Lemma isort_sorted l : Sorted R (isort le l).
  Proof. apply Sorted_LocallySorted_iff. apply (isort_locally_sorted le le_total). Qed.

  Theorem ext_sort_correct parts : Sorted R (ext_sort le parts) /\ Permutation (ext_sort le parts) (concat parts).
  Proof.
    unfold ext_sort. destruct (kmerge_sorted_perm (map (isort le) parts)) as [S P].
    { apply Forall_forall. intros r Hr. apply in_map_iff in Hr as [p [<- _]]. apply isort_sorted. }
    split; [exact S|]. rewrite P. clear S P. induction parts as [|p parts IH]; cbn [map concat]; [reflexivity|].
    apply Permutation_app; [apply isort_perm | exact IH].
  Qed.
End MergeProofs.

Lemma merge2_ext {A} (le1 le2 : A -> A -> bool) : (forall a b, le1 a b = le2 a b) ->
  forall a b, merge2 le1 a b = merge2 le2 a b.
Proof.
  intros H. induction a as [|x a IHa]; [reflexivity|]. induction b as [|y b IHb]; [reflexivity|].
  rewrite !merge2_cons, H. destruct (le2 x y); [now rewrite IHa | now rewrite IHb].
Qed.
Lemma kmerge_ext {A} (le1 le2 : A -> A -> bool) : (forall a b, le1 a b = le2 a b) ->
  forall runs, kmerge le1 runs = kmerge le2 runs.
Proof. intros H runs. induction runs as [|r runs IH]; cbn [kmerge fold_right]; [reflexivity|]. fold (kmerge le1 runs) (kmerge le2 runs). rewrite IH. now apply merge2_ext. Qed.

Lemma split_by_concat {A} cuts : forall rows : list A, concat (split_by cuts rows) = rows.
Proof.
  induction cuts as [|c cs IH]; intros rows; cbn [split_by concat]; [apply app_nil_r|]. rewrite IH. apply firstn_skipn.
Qed.

Lemma sort_rows_is_isort Q keys rows : sort_rows Q keys rows = isort (sort_le Q keys) rows.
Proof. reflexivity. Qed.

Lemma sort_le_is_total Q keys a b : sort_le Q keys a b = true \/ sort_le Q keys b a = true.
Proof. unfold sort_le. apply (sort_le_total _ (fun r => map (fun k => eval (q_esem Q) r (k_expr k)) keys)). Qed.

(* external sort with the query's comparator, any run boundaries: a sorted permutation of what the in-memory sort returns *)
Theorem ext_sort_rows_correct Q keys parts :
  Sorted (fun a b => sort_le Q keys a b = true) (ext_sort (sort_le Q keys) parts) /\
  Permutation (ext_sort (sort_le Q keys) parts) (sort_rows Q keys (concat parts)).
Proof.
  destruct (ext_sort_correct (sort_le Q keys) (sort_le_is_total Q keys) parts) as [S P]. split; [exact S|].
  rewrite P, sort_rows_is_isort. symmetry. apply isort_perm.
Qed.

(* ---- the engine's merge comparator ---- *)
Lemma eng_key_cmp_agrees d nf a b : nf = d -> eng_key_cmp d a b = sort_cmp d nf a b.
Proof.
  intros ->. unfold eng_key_cmp, sort_cmp. destruct a, b, d; cbn [CompOpp]; try reflexivity;
    destruct (cmp_values _ _) as [[]|]; reflexivity.
Qed.

Lemma eng_keys_cmp_agrees ks : forallb (fun k => Bool.eqb (snd k) (fst k)) ks = true ->
  forall a b, eng_keys_cmp ks a b = keys_cmp ks a b.
Proof.
  induction ks as [|[d nf] ks IH]; intros H a b; [now destruct a, b|]. cbn [forallb fst snd] in H.
  apply andb_true_iff in H as [H1 H2]. apply Bool.eqb_prop in H1.
  destruct a as [|x a], b as [|y b]; cbn [eng_keys_cmp keys_cmp]; try reflexivity.
  rewrite (eng_key_cmp_agrees d nf x y H1). destruct (sort_cmp d nf x y); auto.
Qed.

Theorem eng_merge_agrees Q keys : merge_flags_agree keys = true -> forall a b, eng_merge_le Q keys a b = sort_le Q keys a b.
Proof.
  intros H a b. unfold eng_merge_le, sort_le. rewrite eng_keys_cmp_agrees; [reflexivity|].
  unfold merge_flags_agree in H. rewrite forallb_forall in *. intros [d nf] Hin. apply in_map_iff in Hin as [k [E Hk]].
  inversion E; subst. cbn [fst snd]. now apply H.
Qed.

(* outside the recorded class the engine's spilled sort is a correct external sort *)
Theorem eng_ext_sort_correct Q keys parts :
  known_spill_sort keys None = false ->
  Sorted (fun a b => sort_le Q keys a b = true) (eng_ext_sort Q keys parts) /\
  Permutation (eng_ext_sort Q keys parts) (sort_rows Q keys (concat parts)).
Proof.
  unfold known_spill_sort. rewrite orb_false_r. intros H. apply negb_false_iff in H.
  unfold eng_ext_sort. rewrite (kmerge_ext _ _ (eng_merge_agrees Q keys H)). apply ext_sort_rows_correct.
Qed.

(* inside it: ORDER BY c0 ASC NULLS FIRST over two runs [NULL] and [1]: the merge puts the NULL last *)
Theorem merge_comparator_refuted :
  let keys := [mkKey (ECol 0) false true] in
  known_spill_sort keys None = true /\
  eng_ext_sort eng_qsem keys [[[VNull]]; [[VInt 1]]] = [[VInt 1]; [VNull]] /\
  sort_rows eng_qsem keys [[VNull]; [VInt 1]] = [[VNull]; [VInt 1]].
Proof. repeat split; reflexivity. Qed.

(* ... and ORDER BY c0 DESC (NULLs last by default) over [NULL] and [1]: the merge puts the NULL first *)
Theorem merge_comparator_refuted_desc :
  let keys := [mkKey (ECol 0) true false] in
  known_spill_sort keys None = true /\
  eng_ext_sort eng_qsem keys [[[VNull]]; [[VInt 1]]] = [[VNull]; [VInt 1]] /\
  sort_rows eng_qsem keys [[VNull]; [VInt 1]] = [[VInt 1]; [VNull]].
Proof. repeat split; reflexivity. Qed.

(* the spilled path returns the whole sorted input where the in-memory path (SortExec::with_fetch) returns `fetch` rows *)
Theorem spill_ignores_fetch_refuted :
  let keys := [mkKey (ECol 0) false false] in
  let rows := [[VInt 3]; [VInt 1]; [VInt 2]] in
  known_spill_sort keys (Some 1%nat) = true /\
  eng_ext_sort eng_qsem keys [[[VInt 3]]; [[VInt 1]; [VInt 2]]] = [[VInt 1]; [VInt 2]; [VInt 3]] /\
  qeval eng_qsem [rows] (QLimit (QSort (QTable 0 1) keys) 0 (Some 1%nat)) = [[VInt 1]].
Proof. repeat split; reflexivity. Qed.

(* ================= the run ================= *)
Section RunProofs.
  Variable Q : qsem.
  Hypothesis union_all_is_app : forall L R, q_setop Q SUnion true L R = L ++ R.
  Variable db : list rel.

  Theorem run_never_spill q : forall path, run Q db never_spill path q = Rows (qeval Q db q).
  Proof.
    induction q as [n w|w rows|q IH p|q IH es|jt l IHl r IHr on|q IH keys aggs|q IH|op all l IHl r IHr|q IH keys|q IH skip fetch];
      intros path; cbn [run qeval]; rewrite ?IH, ?IHl, ?IHr; reflexivity.
  Qed.

  Lemma run_quiet o q : forall path, quiet o path q -> run Q db o path q = Rows (qeval Q db q).
  Proof.
    induction q as [n w|w rows|q IH p|q IH es|jt l IHl r IHr on|q IH keys aggs|q IH|op all l IHl r IHr|q IH keys|q IH skip fetch];
      intros path [Ho Hq]; cbn [run qeval]; try reflexivity;
      try (destruct Hq as [Hl Hr]; rewrite (IHl _ Hl), (IHr _ Hr); cbn [bind]; now rewrite Ho);
      rewrite (IH _ Hq); cbn [bind]; now rewrite ?Ho.
  Qed.

  Definition good (out : outcome) (ref : rel) : Prop := match out with Err => True | Rows r => Permutation r ref end.

  (* scans, filters, projections, joins of every type, UNION ALL — under ANY decisions with consistent hash functions *)
  Theorem bag_limit_independent o q : forall path,
    bag_q q = true -> oracle_ok Q o path q -> good (run Q db o path q) (qeval Q db q).
  Proof.
    induction q as [n w|w rows|q IH p|q IH es|jt l IHl r IHr on|q IH keys aggs|q IH|op all l IHl r IHr|q IH keys|q IH skip fetch];
      intros path Hb Hok; cbn [bag_q] in Hb; try discriminate; cbn [run qeval oracle_ok] in *.
    - cbn [good]. reflexivity.
    - specialize (IH _ Hb Hok). destruct (run Q db o (0%nat :: path) q); cbn [bind good] in *; [now apply filter_perm | exact I].
    - specialize (IH _ Hb Hok). destruct (run Q db o (0%nat :: path) q); cbn [bind good] in *; [now apply Permutation_map | exact I].
    - apply andb_true_iff in Hb as [Hbl Hbr]. destruct Hok as [Hol [Hor Hh]].
      specialize (IHl _ Hbl Hol). specialize (IHr _ Hbr Hor).
      destruct (run Q db o (0%nat :: path) l) as [L|]; cbn [bind good] in *; [|exact I].
      destruct (run Q db o (1%nat :: path) r) as [R|]; cbn [bind good] in *; [|exact I].
      destruct (o path) as [|hl hr n cuts|]; cbn [good]; [now apply join_gen_perm | | exact I].
      destruct jt; cbn [good]; try exact I.
      etransitivity.
      + apply partitioned_join_equiv.
        * intros a b Hab. unfold hmod. now rewrite (Hh a b Hab).
        * apply seq_NoDup.
        * intros a _. apply hmod_in_range.
      + unfold join_rows. now apply join_gen_perm.
    - destruct op, all; try discriminate. apply andb_true_iff in Hb as [Hbl Hbr]. destruct Hok as [Hol Hor].
      specialize (IHl _ Hbl Hol). specialize (IHr _ Hbr Hor).
      destruct (run Q db o (0%nat :: path) l) as [L|]; cbn [bind good] in *; [|exact I].
      destruct (run Q db o (1%nat :: path) r) as [R|]; cbn [bind good] in *; [|exact I].
      destruct (o path); cbn [good]; try exact I; rewrite !union_all_is_app; now apply Permutation_app.
  Qed.

  (* GROUP BY / DISTINCT whose input was produced within budget: any partitioning of the groups *)
  Theorem group_limit_independent o path c k keys aggs :
    quiet o (0%nat :: path) c ->
    (match o path with DSpill hl _ _ _ => forall a b, row_same a b = true -> hl a = hl b | _ => True end) ->
    good (run Q db o path (QAgg c (k :: keys) aggs)) (qeval Q db (QAgg c (k :: keys) aggs)).
  Proof.
    intros Hq Hh. cbn [run qeval]. rewrite (run_quiet _ _ _ Hq). cbn [bind].
    destruct (o path) as [|hl hr n cuts|]; cbn [good]; [reflexivity | | exact I].
    apply partitioned_group_equiv.
    - intros a b Hab. unfold hmod. now rewrite (Hh a b Hab).
    - apply seq_NoDup.
    - intros r _. unfold key_hash. apply hmod_in_range.
  Qed.

  Theorem distinct_limit_independent o path c :
    quiet o (0%nat :: path) c ->
    (match o path with DSpill hl _ _ _ => forall a b, row_same a b = true -> hl a = hl b | _ => True end) ->
    good (run Q db o path (QDistinct c)) (qeval Q db (QDistinct c)).
  Proof.
    intros Hq Hh. cbn [run qeval]. rewrite (run_quiet _ _ _ Hq). cbn [bind].
    destruct (o path) as [|hl hr n cuts|]; cbn [good]; [reflexivity | | exact I].
    apply partitioned_distinct_equiv.
    - intros a b Hab. unfold hmod. now rewrite (Hh a b Hab).
    - apply seq_NoDup.
    - intros r _. apply hmod_in_range.
  Qed.

  (* a global aggregate never depends on the decision *)
  Theorem global_agg_limit_independent o path c aggs :
    quiet o (0%nat :: path) c -> o path <> DFail ->
    run Q db o path (QAgg c [] aggs) = Rows (qeval Q db (QAgg c [] aggs)).
  Proof.
    intros Hq Hf. cbn [run qeval]. rewrite (run_quiet _ _ _ Hq). cbn [bind]. destruct (o path); try reflexivity. congruence.
  Qed.

  (* ORDER BY over a bag body: whatever spilled below and however the runs were cut, the output is sorted by the query's
     comparator and holds the rows of the unlimited run *)
  Theorem sort_limit_independent o path c keys :
    bag_q c = true -> oracle_ok Q o (0%nat :: path) c ->
    match run Q db o path (QSort c keys) with
    | Err => True
    | Rows r => Permutation r (qeval Q db (QSort c keys)) /\ Sorted (fun a b => sort_le Q keys a b = true) r
    end.
  Proof.
    intros Hb Hok. cbn [run qeval]. pose proof (bag_limit_independent o c _ Hb Hok) as H.
    destruct (run Q db o (0%nat :: path) c) as [rows|]; cbn [bind good] in *; [|exact I].
    assert (Href : Permutation rows (sort_rows Q keys (qeval Q db c))).
    { rewrite H. rewrite sort_rows_is_isort. symmetry. apply isort_perm. }
    destruct (o path) as [|hl hr n cuts|]; [| |exact I].
    - split.
      + rewrite sort_rows_is_isort at 1. rewrite isort_perm. exact Href.
      + rewrite sort_rows_is_isort. apply (isort_sorted _ (sort_le_is_total Q keys)).
    - destruct (ext_sort_rows_correct Q keys (split_by cuts rows)) as [S P]. split; [|exact S].
      rewrite P, split_by_concat. rewrite sort_rows_is_isort at 1. rewrite isort_perm. exact Href.
  Qed.

  (* top-k / LIMIT-OFFSET over ORDER BY: the slice of SOME sorted arrangement of the unlimited run's rows *)
  Theorem topk_limit_independent o path c keys skip fetch :
    bag_q c = true -> oracle_ok Q o (0%nat :: 0%nat :: path) c ->
    match run Q db o path (QLimit (QSort c keys) skip fetch) with
    | Err => True
    | Rows r => exists full, Permutation full (qeval Q db (QSort c keys)) /\
                             Sorted (fun a b => sort_le Q keys a b = true) full /\ r = limit_spec skip fetch full
    end.
  Proof.
    intros Hb Hok. pose proof (sort_limit_independent o (0%nat :: path) c keys Hb Hok) as H.
    cbn [run] in *. destruct (bind (run Q db o (0%nat :: 0%nat :: path) c) _) as [full|]; cbn [bind]; [|exact I].
    destruct H as [P S]. exists full. repeat split; assumption.
  Qed.

  (* the umbrella: which plans are covered *)
  Definition covered (o : oracle) (path : list nat) (q : query) : Prop :=
    match q with
    | QAgg c (_ :: _) _ | QDistinct c =>
        quiet o (0%nat :: path) c /\
        match o path with DSpill hl _ _ _ => forall a b, row_same a b = true -> hl a = hl b | _ => True end
    | QSort c _ => bag_q c = true /\ oracle_ok Q o (0%nat :: path) c
    | _ => bag_q q = true /\ oracle_ok Q o path q
    end.

  Theorem limit_independent o q :
    covered o [] q ->
    is_error (run Q db o [] q) = true \/
    exists r r0, run Q db o [] q = Rows r /\ run Q db never_spill [] q = Rows r0 /\ Permutation r r0.
  Proof.
    intros Hc. rewrite run_never_spill.
    assert (G : good (run Q db o [] q) (qeval Q db q)).
    { destruct q as [n w|w rows|q p|q es|jt l r on|q keys aggs|q|op all l r|q keys|q skip fetch]; cbn [covered] in Hc;
        try (destruct Hc as [Hb Hok]; now apply bag_limit_independent).
      - destruct keys as [|k keys]; [destruct Hc as [Hb _]; discriminate|]. destruct Hc as [Hq Hh]. now apply group_limit_independent.
      - destruct Hc as [Hq Hh]. now apply distinct_limit_independent.
      - destruct Hc as [Hb Hok]. pose proof (sort_limit_independent o [] q keys Hb Hok) as H.
        destruct (run Q db o [] (QSort q keys)); cbn [good]; [tauto | exact I]. }
    destruct (run Q db o [] q) as [r|]; cbn [is_error good] in *; [right | now left].
    exists r, (qeval Q db q). split; [reflexivity|]. split; [reflexivity | exact G].
  Qed.
End RunProofs.

(* hypotheses are satisfiable: a spilled inner join below a spilled sort, hash = the key value itself *)
Example run_example :
  let h := fun r : row => match r with VInt z :: _ => Z.to_nat z | _ => 0%nat end in
  let o : oracle := fun path => match path with [] => DSpill h h 0 [1%nat] | _ => DSpill h h 2 [] end in
  let db := [[[VInt 3]; [VInt 1]; [VInt 2]; [VInt 1]]; [[VInt 1]; [VInt 3]; [VInt 4]]] in
  let q := QSort (QJoin JInner (QTable 0 1) (QTable 1 1) (ECmp CEq (ECol 0) (ECol 1))) [mkKey (ECol 0) true true] in
  run eng_qsem db o [] q = Rows [[VInt 3; VInt 3]; [VInt 1; VInt 1]; [VInt 1; VInt 1]] /\
  run eng_qsem db never_spill [] q = Rows [[VInt 3; VInt 3]; [VInt 1; VInt 1]; [VInt 1; VInt 1]] /\
  run eng_qsem db (fun _ => DSpill h h 1 []) [] (QJoin JLeft (QTable 0 1) (QTable 1 1) (ECmp CEq (ECol 0) (ECol 1))) = Err.
Proof. repeat split; vm_compute; reflexivity. Qed.
