(* C08 model: what the spillable operators compute once the memory budget is exceeded, and a `run` of a query whose spill
   decisions come from an arbitrary oracle.
   anchors: src/physical/operators/spillable.rs
     SpillableHashJoinExec::execute (build size > memory_limit*spill_threshold => execute_spill_path: INNER only, no ON filter,
       both sides hash-partitioned by the join key with partition_batch_by_hash, partitions joined one by one)
     SpillableHashAggregateExec::execute / aggregate_with_spilling (rows hash-partitioned by the group key, partitions
       aggregated one by one)
     ExternalSortExec::execute / generate_runs / flush_run (sorted runs of consecutive batches) / merge_runs /
       streaming_k_way_merge (repeatedly takes the run whose head is smallest under compare_rows; ties: lowest run) /
       compare_rows / compare_array_values (NULL placement by the key's NULLS FIRST/LAST flag, typed comparison reversed for DESC)
     src/execution/memory.rs (memory_limit * spill_threshold) *)
From QV Require Export Sql.Query.
From Coq Require Export Sorting.Sorted.

(* ---------- hash partitioning ---------- *)
Definition in_part {A} (h : A -> nat) (p : nat) (x : A) : bool := Nat.eqb (h x) p.
Definition hmod {A} (h : A -> nat) (n : nat) (x : A) : nat := Nat.modulo (h x) (S n).   (* n+1 partitions *)

Definition pjoin (wl wr : nat) (ok : row -> row -> bool) (hl hr : row -> nat) (ps : list nat) (L R : rel) : rel :=
  flat_map (fun p => join_gen JInner wl wr ok (filter (in_part hl p) L) (filter (in_part hr p) R)) ps.

Definition key_hash (Q : qsem) (keys : list expr) (hk : row -> nat) (r : row) : nat := hk (map (eval (q_esem Q) r) keys).

Definition pgroup (Q : qsem) (keys : list expr) (aggs : list (aggfn * expr)) (hk : row -> nat) (ps : list nat) (rows : rel) : rel :=
  flat_map (fun p => group_rows Q keys aggs (filter (in_part (key_hash Q keys hk) p) rows)) ps.

Definition pdistinct (h : row -> nat) (ps : list nat) (rows : rel) : rel :=
  flat_map (fun p => distinct (filter (in_part h p) rows)) ps.

(* ---------- external sort: sorted runs, k-way merge ---------- *)
Section Merge.
  Context {A : Type} (le : A -> A -> bool).
  (* two-way merge; ties take the left (lower-numbered) run *)
  Fixpoint merge2 (a : list A) : list A -> list A :=
    match a with
    | [] => fun b => b
    | x :: a' => fix inner (b : list A) : list A :=
        match b with
        | [] => x :: a'
        | y :: b' => if le x y then x :: merge2 a' (y :: b') else y :: inner b'
        end
    end.
  (* k runs (one pass or several passes of any fan-in: the fold is one such schedule, `kmerge_any_tree` covers the others) *)
  Definition kmerge (runs : list (list A)) : list A := fold_right merge2 [] runs.
End Merge.

(* run boundaries: consecutive pieces of the input *)
Fixpoint split_by {A} (cuts : list nat) (rows : list A) : list (list A) :=
  match cuts with
  | [] => [rows]
  | c :: cs => firstn c rows :: split_by cs (skipn c rows)
  end.

Definition ext_sort {A} (le : A -> A -> bool) (parts : list (list A)) : list A := kmerge le (map (isort le) parts).

(* the query's comparator (the `le` of Sql/Query.v sort_rows) *)
Definition sort_le (Q : qsem) (keys : list sortkey) (a b : row) : bool :=
  match keys_cmp (map (fun k => (k_desc k, k_nulls_first k)) keys)
                 (map (fun k => eval (q_esem Q) a (k_expr k)) keys)
                 (map (fun k => eval (q_esem Q) b (k_expr k)) keys)
  with Gt => false | _ => true end.

(* The comparator streaming_k_way_merge used BEFORE the repairs recorded in known_findings.txt (`fix:` commits 0e417e6 "the
   spilled sort's run merge uses the query's NULL placement" and 00c4928 "a spilled sort honours its fetch"): NULLs last, typed
   comparison, then reversed for DESC — the NULLS FIRST/LAST flag was not consulted. Since the repair the merge compares with
   sort_cmp d nf, i.e. with `sort_le` above, and `ext_sort (sort_le ..)` is the model of the spilled sort. The old comparator
   stays expressible so that the regression witnesses remain theorems (as eng_qsem_before_values_fix does in Sql/Query.v). *)
Definition eng_key_cmp (desc : bool) (a b : value) : comparison :=
  let c := sort_cmp false false a b in if desc then CompOpp c else c.
Fixpoint eng_keys_cmp (ks : list (bool * bool)) (a b : list value) : comparison :=
  match ks, a, b with
  | (d, _) :: ks', x :: a', y :: b' => match eng_key_cmp d x y with Eq => eng_keys_cmp ks' a' b' | c => c end
  | _, _, _ => Eq
  end.
(* "take run i instead of the current minimum only if strictly Less": the left run wins unless the right head is Less *)
Definition eng_merge_le (Q : qsem) (keys : list sortkey) (a b : row) : bool :=
  match eng_keys_cmp (map (fun k => (k_desc k, k_nulls_first k)) keys)
                     (map (fun k => eval (q_esem Q) a (k_expr k)) keys)
                     (map (fun k => eval (q_esem Q) b (k_expr k)) keys)
  with Gt => false | _ => true end.

(* the spilled ORDER BY of the engine before those repairs: runs sorted with the query's options, merged with eng_merge_le,
   `fetch` not applied *)
Definition eng_ext_sort (Q : qsem) (keys : list sortkey) (parts : list rel) : rel :=
  kmerge (eng_merge_le Q keys) (map (isort (sort_le Q keys)) parts).

(* the class in which the unrepaired spilled sort deviated, decided by the statement's shape: some key's NULL placement differs
   from what the old merge comparator assumed (NULLs first iff DESC), or a LIMIT is fused into the sort *)
Definition merge_flags_agree (keys : list sortkey) : bool := forallb (fun k => Bool.eqb (k_nulls_first k) (k_desc k)) keys.
Definition known_spill_sort (keys : list sortkey) (fetch : option nat) : bool :=
  negb (merge_flags_agree keys) || match fetch with Some _ => true | None => false end.

(* ---------- running a query under an arbitrary sequence of spill decisions ---------- *)
Inductive decision :=
| DMem                                                      (* the operator's input fits the budget *)
| DSpill (hl hr : row -> nat) (n : nat) (cuts : list nat)   (* over budget: hash functions (join: left/right rows; aggregate,
                                                               DISTINCT: hl on the key tuple), n+1 partitions, run boundaries *)
| DFail.                                                    (* an explicit error (unsupported spill shape, no disk, ...) *)
Definition oracle := list nat -> decision.                  (* the decision taken at the operator at a path of the plan *)
Inductive outcome := Rows (r : rel) | Err.
Definition bind (o : outcome) (f : rel -> outcome) : outcome := match o with Rows r => f r | Err => Err end.
Definition is_error (o : outcome) : bool := match o with Err => true | Rows _ => false end.
Definition never_spill : oracle := fun _ => DMem.

Section Run.
  Variable Q : qsem.
  Variable db : list rel.
  Variable o : oracle.

  Fixpoint run (path : list nat) (q : query) : outcome :=
    match q with
    | QTable _ _ | QValues _ _ => Rows (qeval Q db q)
    | QFilter c p => bind (run (0%nat :: path) c) (fun r => Rows (filter (fun x => keeps (eval (q_esem Q) x p)) r))
    | QProject c es => bind (run (0%nat :: path) c) (fun r => Rows (map (fun x => map (eval (q_esem Q) x) es) r))
    | QJoin jt l r on =>
        bind (run (0%nat :: path) l) (fun L => bind (run (1%nat :: path) r) (fun R =>
          match o path with
          | DMem => Rows (join_rows Q jt (width l) (width r) on L R)
          | DFail => Err
          | DSpill hl hr n _ =>
              match jt with
              | JInner => Rows (pjoin (width l) (width r) (fun a b => keeps (eval (q_esem Q) (a ++ b) on))
                                      (hmod hl n) (hmod hr n) (seq 0 (S n)) L R)
              | _ => Err                                     (* "the join spill path currently supports only INNER joins" *)
              end
          end))
    | QAgg c keys aggs =>
        bind (run (0%nat :: path) c) (fun rows =>
          match o path with
          | DMem => Rows (group_rows Q keys aggs rows)
          | DFail => Err
          | DSpill hl _ n _ =>
              match keys with
              | [] => Rows (group_rows Q [] aggs rows)        (* one global group: partial states merged, C21 *)
              | _ => Rows (pgroup Q keys aggs (hmod hl n) (seq 0 (S n)) rows)
              end
          end)
    | QDistinct c =>
        bind (run (0%nat :: path) c) (fun rows =>
          match o path with
          | DMem => Rows (distinct rows)
          | DFail => Err
          | DSpill hl _ n _ => Rows (pdistinct (hmod hl n) (seq 0 (S n)) rows)
          end)
    | QSetOp op all l r =>
        bind (run (0%nat :: path) l) (fun L => bind (run (1%nat :: path) r) (fun R =>
          match o path with DFail => Err | _ => Rows (q_setop Q op all L R) end))
    | QSort c keys =>
        bind (run (0%nat :: path) c) (fun rows =>
          match o path with
          | DMem => Rows (sort_rows Q keys rows)
          | DFail => Err
          | DSpill _ _ _ cuts => Rows (ext_sort (sort_le Q keys) (split_by cuts rows))
          end)
    | QLimit c skip fetch =>
        bind (run (0%nat :: path) c) (fun rows =>
          Rows (let t := skipn skip rows in match fetch with Some n => firstn n t | None => t end))
    end.

  (* the hash functions partition consistently: rows the ON predicate matches / keys that are not distinct hash alike *)
  Fixpoint oracle_ok (path : list nat) (q : query) : Prop :=
    match q with
    | QTable _ _ | QValues _ _ => True
    | QFilter c _ | QProject c _ | QLimit c _ _ | QSort c _ => oracle_ok (0%nat :: path) c
    | QJoin _ l r on =>
        oracle_ok (0%nat :: path) l /\ oracle_ok (1%nat :: path) r /\
        match o path with
        | DSpill hl hr _ _ => forall a b, keeps (eval (q_esem Q) (a ++ b) on) = true -> hl a = hr b
        | _ => True
        end
    | QAgg c _ _ | QDistinct c =>
        oracle_ok (0%nat :: path) c /\
        match o path with DSpill hl _ _ _ => forall a b, row_same a b = true -> hl a = hl b | _ => True end
    | QSetOp _ _ l r => oracle_ok (0%nat :: path) l /\ oracle_ok (1%nat :: path) r
    end.

  (* no decision other than "fits" anywhere in the subplan *)
  Fixpoint quiet (path : list nat) (q : query) : Prop :=
    o path = DMem /\
    match q with
    | QTable _ _ | QValues _ _ => True
    | QFilter c _ | QProject c _ | QLimit c _ _ | QSort c _ | QAgg c _ _ | QDistinct c => quiet (0%nat :: path) c
    | QJoin _ l r _ | QSetOp _ _ l r => quiet (0%nat :: path) l /\ quiet (1%nat :: path) r
    end.
End Run.
