(* C25: LIMIT n OFFSET m over any split of the input into batches and partitions returns exactly
   rows m+1..m+n of the input sequence; the sort used by the reference is a stable sorted permutation. *)
From QV Require Import C25.Model.
From Coq Require Import Sorting.Sorted.

Section LimitProofs.
  Context {A : Type}.
  Implicit Types (b : list A) (bs : list (list A)).

  Definition firstn_opt (r : option nat) (l : list A) : list A :=
    match r with Some n => firstn n l | None => l end.
  Definition remaining (fetch : option nat) (st : lstate) : option nat :=
    match fetch with Some l => Some (l - fetched st)%nat | None => None end.
  Definition out_rows (o : option (list A)) : list A := match o with Some x => x | None => [] end.

  Lemma skipn_all2 k b : (length b <= k)%nat -> skipn k b = [].
  Proof. intros H. apply skipn_all2. exact H. Qed.

  Lemma take_cont_spec fetch st b :
    out_rows (snd (take_cont fetch st b)) = firstn_opt (remaining fetch st) b /\
    skipped (fst (take_cont fetch st b)) = skipped st /\
    fetched (fst (take_cont fetch st b)) = (fetched st + length (out_rows (snd (take_cont fetch st b))))%nat.
  Proof.
    unfold take_cont. destruct fetch as [l|]; cbn [remaining firstn_opt].
    - set (e := Nat.min (l - fetched st) (length b)).
      assert (length (firstn (l - fetched st) b) = e) as FL by (apply firstn_length).
      destruct (Nat.eqb_spec e 0) as [E|E]; cbn [fst snd out_rows].
      + split; [|split; [reflexivity | cbn [length]; lia]].
        symmetry. apply length_zero_iff_nil. lia.
      + destruct (Nat.ltb_spec e (length b)) as [L|L]; cbn [fst snd skipped fetched out_rows].
        * assert (e = (l - fetched st)%nat) as M by lia.
          split; [now rewrite M | split; [reflexivity|]]. rewrite M. lia.
        * split; [symmetry; apply firstn_all2; lia | split; [reflexivity | lia]].
    - destruct (Nat.eqb_spec (length b) 0) as [E|E]; cbn [fst snd out_rows skipped fetched].
      + apply length_zero_iff_nil in E. subst b. cbn [length]. repeat split; lia.
      + rewrite Nat.ltb_irrefl. cbn [fst snd out_rows skipped fetched]. repeat split; lia.
  Qed.

  (* what one call of take_from does, in terms of the specification *)
  Lemma take_from_spec skip fetch st b :
    (skipped st <= skip)%nat ->
    let r := take_from skip fetch st b in
    out_rows (snd r) = firstn_opt (remaining fetch st) (skipn (skip - skipped st) b) /\
    skipped (fst r) = (skipped st + Nat.min (skip - skipped st) (length b))%nat /\
    fetched (fst r) = (fetched st + length (out_rows (snd r)))%nat.
  Proof.
    intros Hs. cbn zeta. unfold take_from.
    destruct (Nat.ltb_spec (skipped st) skip) as [L|L].
    - destruct (Nat.eqb_spec (Nat.min (skip - skipped st) (length b)) (length b)) as [E|E]; cbn [fst snd out_rows skipped fetched].
      + rewrite skipn_all2 by lia. cbn [length].
        split; [destruct fetch; cbn [remaining firstn_opt]; [now rewrite firstn_nil | reflexivity] | split; lia].
      + assert (Nat.min (skip - skipped st) (length b) = (skip - skipped st)%nat) as M by lia.
        rewrite M.
        pose proof (take_cont_spec fetch (mkL (skipped st + (skip - skipped st)) (fetched st)) (skipn (skip - skipped st) b)) as (H1 & H2 & H3).
        cbn [skipped fetched] in H2, H3.
        split; [|split; assumption].
        rewrite H1. destruct fetch; reflexivity.
    - assert (skip - skipped st = 0)%nat as Z by lia. rewrite Z. cbn [skipn]. rewrite Nat.min_0_l, Nat.add_0_r.
      apply take_cont_spec.
  Qed.

  Lemma firstn_opt_skipn_app r k b R :
    firstn_opt r (skipn k (b ++ R))
    = firstn_opt r (skipn k b)
      ++ firstn_opt (match r with Some n => Some (n - length (skipn k b))%nat | None => None end) (skipn (k - length b) R).
  Proof.
    rewrite skipn_app. destruct r as [n|]; cbn [firstn_opt]; [|reflexivity]. now rewrite firstn_app.
  Qed.

  Theorem run_batches_correct skip fetch : forall bs st,
    (skipped st <= skip)%nat ->
    concat (run_batches skip fetch st bs)
    = firstn_opt (remaining fetch st) (skipn (skip - skipped st) (concat bs)).
  Proof.
    induction bs as [|b rest IH]; intros st Hs; cbn [run_batches concat].
    - rewrite skipn_nil. destruct fetch; cbn [remaining firstn_opt]; [now rewrite firstn_nil | reflexivity].
    - destruct (satisfied fetch st) eqn:Sat.
      + destruct fetch as [l|]; [|discriminate]. cbn in Sat. apply Nat.leb_le in Sat.
        cbn [remaining firstn_opt concat]. replace (l - fetched st)%nat with 0%nat by lia. reflexivity.
      + pose proof (take_from_spec skip fetch st b Hs) as (H1 & H2 & H3).
        destruct (take_from skip fetch st b) as [st' o] eqn:E. cbn [fst snd] in *.
        assert (concat (match o with Some out => out :: run_batches skip fetch st' rest | None => run_batches skip fetch st' rest end)
                = out_rows o ++ concat (run_batches skip fetch st' rest)) as EC by (destruct o; reflexivity).
        rewrite EC, IH by lia. rewrite firstn_opt_skipn_app, H1. f_equal.
        assert (skip - skipped st' = skip - skipped st - length b)%nat as ES by lia.
        rewrite ES. f_equal.
        destruct fetch as [l|]; cbn [remaining]; [|reflexivity]. f_equal.
        rewrite H3, H1. cbn [remaining firstn_opt]. rewrite firstn_length. lia.
  Qed.

  (* LIMIT n OFFSET m = rows m+1..m+n, for every split into partitions and batches *)
  Theorem limit_exec_correct skip fetch (partitions : list (list (list A))) :
    concat (limit_exec skip fetch partitions) = limit_spec skip fetch (concat (concat partitions)).
  Proof.
    unfold limit_exec, limit_spec. rewrite run_batches_correct by (cbn [skipped]; lia).
    destruct fetch as [n|]; cbn [skipped fetched remaining firstn_opt]; now rewrite !Nat.sub_0_r.
  Qed.

  (* hence the answer is independent of the batch/partition split *)
  Corollary limit_split_irrelevant skip fetch (p1 p2 : list (list (list A))) :
    concat (concat p1) = concat (concat p2) ->
    concat (limit_exec skip fetch p1) = concat (limit_exec skip fetch p2).
  Proof. intros H. now rewrite !limit_exec_correct, H. Qed.

  (* early exit: once the limit is satisfied no further batch is consumed *)
  Lemma satisfied_stops skip fetch st bs : satisfied fetch st = true -> run_batches skip fetch st bs = [].
  Proof. intros H. destruct bs; cbn; [reflexivity | now rewrite H]. Qed.
End LimitProofs.

(* ---------- the reference ORDER BY: a sorted permutation, stable ---------- *)
Section SortProofs.
  Context {A : Type} (le : A -> A -> bool).
  Hypothesis le_total : forall a b, le a b = true \/ le b a = true.

  Lemma insert_locally_sorted x l :
    LocallySorted (fun a b => le a b = true) l -> LocallySorted (fun a b => le a b = true) (insert le x l).
  Proof.
    induction 1 as [|a|a b l Hl IH Hab]; cbn [insert].
    - constructor.
    - destruct (le x a) eqn:E; repeat constructor; auto.
      destruct (le_total x a) as [H|H]; [congruence | exact H].
    - destruct (le x a) eqn:E.
      + repeat constructor; auto.
      + cbn [insert] in IH. destruct (le x b) eqn:E2.
        * constructor; [constructor; [exact Hl | exact E2]|].
          destruct (le_total x a) as [H|H]; [congruence | exact H].
        * constructor; [exact IH | exact Hab].
  Qed.

  Theorem isort_locally_sorted l : LocallySorted (fun a b => le a b = true) (isort le l).
  Proof.
    induction l as [|x l IH]; cbn [isort fold_right]; [constructor|]. apply insert_locally_sorted. exact IH.
  Qed.

  (* stability needs no totality: rows of a class whose members compare "le" both ways keep their input order *)
  Lemma insert_filter_stable (p : A -> bool) x l :
    (p x = true -> forall y, In y l -> p y = true -> le x y = true) ->
    filter p (insert le x l) = filter p (x :: l).
  Proof.
    induction l as [|h t IH]; intros H; cbn [insert]; [reflexivity|].
    destruct (le x h) eqn:E; [reflexivity|].
    cbn [filter]. rewrite IH by (intros Hx y Hy; apply H; auto; now right). cbn [filter].
    destruct (p x) eqn:Px; [|reflexivity].
    destruct (p h) eqn:Ph; [|reflexivity].
    rewrite H in E by (auto; now left). discriminate.
  Qed.

  Theorem isort_stable (p : A -> bool) l :
    (forall a b, In a l -> In b l -> p a = true -> p b = true -> le a b = true) ->
    filter p (isort le l) = filter p l.
  Proof.
    induction l as [|x l IH]; intros H; [reflexivity|].
    cbn [isort fold_right]. fold (isort le l).
    rewrite insert_filter_stable.
    - cbn [filter]. rewrite IH by (intros; apply H; auto; now right). reflexivity.
    - intros Px y Hy Py. apply H; auto; [now left | right].
      eapply Permutation_in; [apply isort_perm | exact Hy].
  Qed.
End SortProofs.

(* the comparator of the reference ORDER BY is total: the premise above is met *)
Lemma bytes_cmp_antisym a : forall b, bytes_cmp b a = CompOpp (bytes_cmp a b).
Proof.
  induction a as [|x a IH]; intros [|y b]; cbn; auto.
  rewrite (Z.compare_antisym x y). destruct (x ?= y); cbn; auto.
Qed.

Lemma cmp_values_antisym a b c : cmp_values a b = Some c -> cmp_values b a = Some (CompOpp c).
Proof.
  destruct a, b; cbn; intros H; try discriminate; inversion H; subst; clear H; f_equal;
    try apply Z.compare_antisym; try apply bytes_cmp_antisym;
    try (unfold q_cmp; symmetry; apply Qcompare_antisym).
  destruct b, b0; reflexivity.
Qed.

Lemma sort_cmp_antisym d nf a b : sort_cmp d nf b a = CompOpp (sort_cmp d nf a b).
Proof.
  unfold sort_cmp. destruct a, b; try reflexivity; try (destruct nf; reflexivity);
    match goal with |- context [cmp_values ?x ?y] =>
      destruct (cmp_values x y) as [c|] eqn:E;
      [rewrite (cmp_values_antisym _ _ _ E); destruct d; [now rewrite CompOpp_involutive | reflexivity]
      | destruct (cmp_values y x) as [c'|] eqn:E'; [apply cmp_values_antisym in E'; congruence | reflexivity]]
    end.
Qed.

Lemma keys_cmp_antisym ks : forall a b, keys_cmp ks b a = CompOpp (keys_cmp ks a b).
Proof.
  induction ks as [|[d nf] ks IH]; intros [|x a] [|y b]; cbn; auto.
  rewrite (sort_cmp_antisym d nf x y). destruct (sort_cmp d nf x y); cbn; auto.
Qed.

Lemma sort_le_total ks (kv : row -> list value) a b :
  (match keys_cmp ks (kv a) (kv b) with Gt => false | _ => true end) = true \/
  (match keys_cmp ks (kv b) (kv a) with Gt => false | _ => true end) = true.
Proof.
  rewrite (keys_cmp_antisym ks (kv a) (kv b)). destruct (keys_cmp ks (kv a) (kv b)); cbn; auto.
Qed.

Lemma locally_sorted_impl {A} (P R : A -> A -> Prop) l :
  (forall a b, P a b -> R a b) -> LocallySorted P l -> LocallySorted R l.
Proof. intros HI H. induction H; constructor; auto. Qed.

(* ORDER BY output: a permutation of the input in which every adjacent pair is in key order *)
Theorem sort_rows_sorted_perm Q keys rows :
  let flags := map (fun k => (k_desc k, k_nulls_first k)) keys in
  let kv r := map (fun k => eval (q_esem Q) r (k_expr k)) keys in
  Permutation (sort_rows Q keys rows) rows /\
  LocallySorted (fun a b => keys_cmp flags (kv a) (kv b) <> Gt) (sort_rows Q keys rows).
Proof.
  cbn zeta. split; [apply isort_perm|].
  unfold sort_rows.
  set (flags := map (fun k => (k_desc k, k_nulls_first k)) keys).
  set (kv := fun r : row => map (fun k => eval (q_esem Q) r (k_expr k)) keys).
  set (le := fun a b : row => match keys_cmp flags (kv a) (kv b) with Gt => false | _ => true end).
  eapply locally_sorted_impl; [| apply (isort_locally_sorted le (fun a b => sort_le_total flags kv a b) rows)].
  intros a b Hab E. subst le kv. cbn beta in Hab, E. rewrite E in Hab. discriminate.
Qed.

Lemma keys_cmp_refl ks a : keys_cmp ks a a = Eq.
Proof. pose proof (keys_cmp_antisym ks a a) as H. destruct (keys_cmp ks a a); [reflexivity | discriminate | discriminate]. Qed.

(* ORDER BY is stable in the reference: rows with identical key values keep their input order *)
Theorem sort_rows_stable Q keys rows (p : row -> bool) :
  let kv r := map (fun k => eval (q_esem Q) r (k_expr k)) keys in
  (forall a b, In a rows -> In b rows -> p a = true -> p b = true -> kv a = kv b) ->
  filter p (sort_rows Q keys rows) = filter p rows.
Proof.
  cbn zeta. intros H. unfold sort_rows. apply isort_stable.
  intros a b Ha Hb Pa Pb. rewrite (H a b Ha Hb Pa Pb). now rewrite keys_cmp_refl.
Qed.

(* LIMIT k directly over ORDER BY (what the planner fuses into a top-k sort) is the k-prefix of the full sort *)
Theorem topk_is_prefix Q db q keys k :
  qeval Q db (QLimit (QSort q keys) 0 (Some k)) = firstn k (sort_rows Q keys (qeval Q db q)).
Proof. reflexivity. Qed.

Theorem limit_over_sort_is_slice Q db q keys skip fetch :
  qeval Q db (QLimit (QSort q keys) skip fetch) = limit_spec skip fetch (sort_rows Q keys (qeval Q db q)).
Proof. reflexivity. Qed.

(* NULL placement: with NULLS LAST (the default) a NULL key never precedes a non-NULL one *)
Lemma nulls_last_order d v : v <> VNull -> sort_cmp d false VNull v = Gt /\ sort_cmp d false v VNull = Lt.
Proof. intros H. destruct v; try congruence; cbn; auto. Qed.
Lemma nulls_first_order d v : v <> VNull -> sort_cmp d true VNull v = Lt /\ sort_cmp d true v VNull = Gt.
Proof. intros H. destruct v; try congruence; cbn; auto. Qed.

Example limit_nontrivial :
  concat (limit_exec 2%nat (Some 3%nat) [[[1; 2]; []; [3]]; [[4; 5; 6]; [7]]]) = [3; 4; 5].
Proof. vm_compute. reflexivity. Qed.

Example limit_early_exit_nontrivial :
  limit_exec 1%nat (Some 2%nat) [[[1; 2]; [3; 4]]; [[5]]] = [[2]; [3]].
Proof. vm_compute. reflexivity. Qed.

Example sort_nontrivial :
  sort_rows sql_qsem [mkKey (ECol 0) true false; mkKey (ECol 1) false true]
    [[VInt 1; VInt 5]; [VNull; VInt 0]; [VInt 2; VNull]; [VInt 2; VInt 3]; [VInt 1; VInt 4]]
  = [[VInt 2; VNull]; [VInt 2; VInt 3]; [VInt 1; VInt 4]; [VInt 1; VInt 5]; [VNull; VInt 0]].
Proof. vm_compute. reflexivity. Qed.
