(* C25 model: LimitExec (LIMIT/OFFSET across batches and partitions) and the sort order.
   anchors: src/physical/operators/limit.rs: LimitState::take_from, LimitState::satisfied, the
            stream::unfold loop of LimitExec::execute (partitions walked in index order, lazily) *)
From QV Require Export Sql.Query.

Section Limit.
  Context {A : Type}.

  Record lstate := mkL { skipped : nat; fetched : nat }.

  Definition satisfied (fetch : option nat) (st : lstate) : bool :=
    match fetch with Some limit => Nat.leb limit (fetched st) | None => false end.

  (* second half of take_from: apply LIMIT to what is left of the batch *)
  Definition take_cont (fetch : option nat) (st : lstate) (batch : list A) : lstate * option (list A) :=
    let available := length batch in
    let emit := match fetch with
                | Some limit => Nat.min (limit - fetched st) available   (* saturating_sub *)
                | None => available
                end in
    if Nat.eqb emit 0 then (st, None)
    else (mkL (skipped st) (fetched st + emit),
          Some (if Nat.ltb emit available then firstn emit batch else batch)).

  (* Apply OFFSET then LIMIT to one batch, updating the counters; None = contributes no rows *)
  Definition take_from (skip : nat) (fetch : option nat) (st : lstate) (batch : list A) : lstate * option (list A) :=
    let num_rows := length batch in
    if Nat.ltb (skipped st) skip then
      let to_skip := Nat.min (skip - skipped st) num_rows in
      let st1 := mkL (skipped st + to_skip) (fetched st) in
      if Nat.eqb to_skip num_rows then (st1, None)
      else take_cont fetch st1 (skipn to_skip batch)
    else take_cont fetch st batch.

  (* the unfold loop over the input's batches (partitions concatenated in index order); stops
     reading as soon as the limit is satisfied *)
  Fixpoint run_batches (skip : nat) (fetch : option nat) (st : lstate) (bs : list (list A)) : list (list A) :=
    match bs with
    | [] => []
    | b :: rest =>
        if satisfied fetch st then []
        else let '(st', o) := take_from skip fetch st b in
             match o with
             | Some out => out :: run_batches skip fetch st' rest
             | None => run_batches skip fetch st' rest
             end
    end.

  Definition limit_exec (skip : nat) (fetch : option nat) (partitions : list (list (list A))) : list (list A) :=
    run_batches skip fetch (mkL 0 0) (concat partitions).

  (* the specification: rows skip+1 .. skip+fetch of the input sequence *)
  Definition limit_spec (skip : nat) (fetch : option nat) (rows : list A) : list A :=
    let t := skipn skip rows in match fetch with Some n => firstn n t | None => t end.
End Limit.
