(* C39 model: tpch::schema::TpchRowCounts::for_scale_factor and the key columns written by
   tpch::generator::TpchGenerator::generate_*  (src/tpch/schema.rs, src/tpch/generator.rs).
   The scale factor is an IEEE double given as  sf = m * 2^e  with 2^52 <= m < 2^53;
   `(base * sf) as usize` is the correctly rounded (nearest-even) double product, truncated. *)
From QV Require Export Base.Util.
Local Open Scope Z_scope.

(* ---------- (base_f64 * sf) as usize ---------- *)
(* x / 2^s rounded to nearest, ties to even *)
Definition rne (x s : Z) : Z :=
  if s <=? 0 then x else
  let q := x / 2 ^ s in
  let r := x mod 2 ^ s in
  let h := 2 ^ (s - 1) in
  if r <? h then q else if h <? r then q + 1 else if Z.even q then q else q + 1.

(* base (an integer < 2^53, exactly representable) times m*2^e, rounded to 53 bits, truncated *)
Definition f64_mul_trunc (base m e : Z) : Z :=
  let X := base * m in
  let s := Z.max 0 (Z.log2 X + 1 - 53) in
  let X' := rne X s in
  let t := s + e in
  if 0 <=? t then X' * 2 ^ t else X' / 2 ^ (- t).

Record counts := mkCounts {
  n_part : Z; n_supplier : Z; n_partsupp : Z; n_customer : Z; n_orders : Z; n_lineitem : Z }.

(* TpchRowCounts::for_scale_factor; nation = 25 and region = 5 are constants *)
Definition row_counts (m e : Z) : counts :=
  mkCounts (f64_mul_trunc 200000 m e) (f64_mul_trunc 10000 m e) (f64_mul_trunc 800000 m e)
           (f64_mul_trunc 150000 m e) (f64_mul_trunc 1500000 m e) (f64_mul_trunc 6000000 m e).
Definition counts_list (c : counts) : list Z :=
  [25; 5; n_part c; n_supplier c; n_partsupp c; n_customer c; n_orders c; n_lineitem c].

(* the property's scale-factor range 0.001 ..= 0.05 on doubles:
   0.001 = M_LO * 2^-62,  0.05 = M_HI * 2^-57 *)
Definition M_LO : Z := 4611686018427388.
Definition M_HI : Z := 7205759403792794.
Definition in_range (m e : Z) : Prop :=
  2 ^ 52 <= m < 2 ^ 53 /\ -62 <= e <= -57 /\
  M_LO <= m * 2 ^ (e + 62) /\ m * 2 ^ (e + 62) <= M_HI * 2 ^ 5.
Definition in_rangeb (m e : Z) : bool :=
  (2 ^ 52 <=? m) && (m <? 2 ^ 53) && (-62 <=? e) && (e <=? -57) &&
  (M_LO <=? m * 2 ^ (e + 62)) && (m * 2 ^ (e + 62) <=? M_HI * 2 ^ 5).

(* ---------- static tables ---------- *)
(* generate_nation: (n_nationkey, n_regionkey) *)
Definition nations : list (Z * Z) :=
  [(0,0);(1,1);(2,1);(3,1);(4,4);(5,0);(6,3);(7,3);(8,2);(9,2);(10,4);(11,4);(12,2);(13,4);
   (14,0);(15,0);(16,0);(17,1);(18,2);(19,3);(20,4);(21,2);(22,3);(23,3);(24,1)].
Definition nation_keys : list Z := map fst nations.
Definition region_keys : list Z := [0;1;2;3;4].

(* ---------- generated key columns; row index i ranges over 0 <= i < count ---------- *)
Section Rng.
  (* rand: `gen_range(lo..hi)` at the call identified by (site, row); any stream whatsoever *)
  Variable rng : Z -> Z -> Z -> Z -> Z.
  (* `gen_bool(0.25)` in generate_lineitem at row i *)
  Variable coin : nat -> bool.

  Definition p_partkey (i : Z) : Z := i + 1.
  Definition s_suppkey (i : Z) : Z := i + 1.
  Definition s_nationkey (i : Z) : Z := rng 1 i 0 25.
  Definition ps_partkey (P i : Z) : Z := i mod P + 1.
  Definition ps_suppkey (Sn i : Z) : Z := i mod Sn + 1.
  Definition c_custkey (i : Z) : Z := i + 1.
  Definition c_nationkey (i : Z) : Z := rng 2 i 0 25.
  Definition o_orderkey (i : Z) : Z := i + 1.
  (* (cust_count as f64 * 1.5) as i64, exact below 2^52 *)
  Definition custkey_range (C : Z) : Z := 3 * C / 2.
  (* gen_range(1..=custkey_range): inclusive, modelled as the half-open 1..custkey_range+1 *)
  Definition o_custkey (C i : Z) : Z := rng 3 i 1 (custkey_range C + 1).
  (* current_order = 1; at row i>0: if gen_bool { current_order = (current_order % order_count) + 1 } *)
  Fixpoint cur_order (On : Z) (i : nat) : Z :=
    match i with
    | O => 1
    | S j => if coin i then cur_order On j mod On + 1 else cur_order On j
    end.
  Definition l_orderkey (On i : Z) : Z := cur_order On (Z.to_nat i).
  Definition l_partkey (P i : Z) : Z := i mod P + 1.
  Definition l_suppkey (Sn i : Z) : Z := i mod Sn + 1.
End Rng.

(* ---------- the composite key (l_partkey, l_suppkey) -> partsupp ---------- *)
(* lineitem row i and partsupp row j carry the same pair iff i = j modulo lcm(P,S); so every
   lineitem pair occurs in partsupp iff  L <= PS  or  lcm(P,S) <= PS *)
Definition composite_ok (c : counts) : bool :=
  (n_lineitem c <=? n_partsupp c) || (Z.lcm (n_part c) (n_supplier c) <=? n_partsupp c).

(* number of lineitem rows whose (partkey,suppkey) is not a partsupp row: rows i < L with
   i mod lcm >= PS *)
Definition composite_violations (c : counts) : Z :=
  let l := Z.lcm (n_part c) (n_supplier c) in
  let L := n_lineitem c in let PS := n_partsupp c in
  if l =? 0 then 0 else (L / l) * Z.max 0 (l - PS) + Z.max 0 (L mod l - PS).

(* brute force, for validating the closed form on small instances *)
Definition pair_in_partsupp (P Sn PS i : Z) : bool :=
  existsb (fun j => (ps_partkey P (Z.of_nat j) =? l_partkey P i) && (ps_suppkey Sn (Z.of_nat j) =? l_suppkey Sn i))
          (seq 0 (Z.to_nat PS)).
Definition composite_violations_bf (c : counts) : Z :=
  Z.of_nat (length (filter (fun i => negb (pair_in_partsupp (n_part c) (n_supplier c) (n_partsupp c) (Z.of_nat i)))
                           (seq 0 (Z.to_nat (n_lineitem c))))).

(* ---------- what the harness observes, and the executable spec ---------- *)
(* key columns in fixed order:
   0 p_partkey 1 s_suppkey 2 s_nationkey 3 ps_partkey 4 ps_suppkey 5 c_custkey 6 c_nationkey
   7 o_orderkey 8 o_custkey 9 l_orderkey 10 l_partkey 11 l_suppkey 12 n_nationkey 13 n_regionkey
   14 r_regionkey.   (min,max) over the column, (0,-1) when the table is empty.
   FK violation counts in fixed order:
   0 o_custkey->customer 1 l_orderkey->orders 2 l_partkey->part 3 l_suppkey->supplier
   4 ps_partkey->part 5 ps_suppkey->supplier 6 s_nationkey->nation 7 c_nationkey->nation
   8 n_regionkey->region 9 (l_partkey,l_suppkey)->partsupp *)
Record obs := mkObs { ob_counts : list Z; ob_minmax : list (Z * Z); ob_fk : list Z }.

Definition pair_eqb (a b : Z * Z) : bool := (fst a =? fst b) && (snd a =? snd b).
Definition within (a : Z * Z) (lo hi : Z) : bool := (lo <=? fst a) && (snd a <=? hi) && (fst a <=? snd a).
Definition mm (o : obs) (k : nat) : Z * Z := nth k (ob_minmax o) (0, -1).
Definition fk (o : obs) (k : nat) : Z := nth k (ob_fk o) (-1).
Definition dense (n : Z) : Z * Z := if n <=? 0 then (0, -1) else (1, n).

(* implementation == model: everything the model determines (all RNG-independent columns exactly,
   RNG-dependent columns within the range the model allows for some stream) *)
Definition model_eqb (c : counts) (o : obs) : bool :=
  list_eqb Z.eqb (ob_counts o) (counts_list c)
  && pair_eqb (mm o 0) (dense (n_part c)) && pair_eqb (mm o 1) (dense (n_supplier c))
  && pair_eqb (mm o 3) (dense (Z.min (n_part c) (n_partsupp c)))
  && pair_eqb (mm o 4) (dense (Z.min (n_supplier c) (n_partsupp c)))
  && pair_eqb (mm o 5) (dense (n_customer c)) && pair_eqb (mm o 7) (dense (n_orders c))
  && pair_eqb (mm o 10) (dense (Z.min (n_part c) (n_lineitem c)))
  && pair_eqb (mm o 11) (dense (Z.min (n_supplier c) (n_lineitem c)))
  && pair_eqb (mm o 12) (0, 24) && pair_eqb (mm o 13) (0, 4) && pair_eqb (mm o 14) (0, 4)
  && within (mm o 2) 0 24 && within (mm o 6) 0 24
  && within (mm o 8) 1 (custkey_range (n_customer c))
  && within (mm o 9) 1 (n_orders c) && (fst (mm o 9) =? 1)
  && (0 <=? fk o 0) && (fk o 0 <=? n_orders c)
  && forallb (fun k => fk o k =? 0) [1;2;3;4;5;6;7;8]%nat
  && (fk o 9 =? composite_violations c).

(* the property, of any generator: counts are the truncated ratios, every foreign key resolves *)
Definition spec_counts (c : counts) (o : obs) : bool := list_eqb Z.eqb (ob_counts o) (counts_list c).
Definition spec_fk_single (o : obs) : bool := forallb (fun k => fk o k =? 0) [1;2;3;4;5;6;7;8]%nat.
Definition spec_fk_custkey (o : obs) : bool := fk o 0 =? 0.
Definition spec_fk_composite (o : obs) : bool := fk o 9 =? 0.

(* known classes, decided by the scale factor alone *)
(* o_custkey is drawn from 1 ..= 1.5*customers by construction (comment in generate_orders) *)
Definition known_custkey (c : counts) : bool := (2 <=? n_customer c) && (1 <=? n_orders c).
Definition known_composite (c : counts) : bool := negb (composite_ok c).

(* exact double nearest to n/d (n,d > 0), as (m,e) with 2^52 <= m < 2^53; used to name grid points *)
Definition f64_of_ratio (n d : Z) : Z * Z :=
  let k0 := 53 + Z.log2 d - Z.log2 n in   (* n*2^k/d is within a factor 2 of 2^53 *)
  let try k := let q := (n * 2 ^ k) / d in let r := (n * 2 ^ k) mod d in
               if 2 * r <? d then q else if d <? 2 * r then q + 1 else if Z.even q then q else q + 1 in
  let m1 := try k0 in
  if 2 ^ 53 <=? m1 then (try (k0 - 1), - (k0 - 1))
  else if m1 <? 2 ^ 52 then (try (k0 + 1), - (k0 + 1)) else (m1, - k0).
