(* C39 proofs: row-count truncation, foreign keys for every RNG stream, the composite key. *)
From QV Require Import Base.Util C39.Model.
Local Open Scope Z_scope.

(* ------------------------------------------------------------------ *)
(* (base * sf) as usize                                                *)

Lemma rne_ge x s : 0 <= x -> x / 2 ^ s <= rne x s \/ s <= 0.
Proof.
  intros Hx. unfold rne. destruct (s <=? 0) eqn:Hs; [right; lia|left].
  cbv zeta. repeat match goal with |- context [if ?b then _ else _] => destruct b end; lia.
Qed.

Lemma rne_err x s : 0 < s -> 0 <= x ->
  x - 2 ^ (s - 1) <= rne x s * 2 ^ s <= x + 2 ^ (s - 1).
Proof.
  intros Hs Hx. unfold rne. destruct (s <=? 0) eqn:E; [lia|]. cbv zeta.
  assert (Hp : 0 < 2 ^ s) by (apply Z.pow_pos_nonneg; lia).
  assert (H2 : 2 ^ s = 2 * 2 ^ (s - 1)).
  { replace s with (Z.succ (s - 1)) at 1 by lia. rewrite Z.pow_succ_r by lia. reflexivity. }
  pose proof (Z.div_mod x (2 ^ s) ltac:(lia)) as Hd.
  pose proof (Z.mod_pos_bound x (2 ^ s) Hp) as Hm.
  set (q := x / 2 ^ s) in *. set (r := x mod 2 ^ s) in *. set (h := 2 ^ (s - 1)) in *.
  destruct (r <? h) eqn:E1; [apply Z.ltb_lt in E1; nia|apply Z.ltb_ge in E1].
  destruct (h <? r) eqn:E2; [apply Z.ltb_lt in E2; nia|apply Z.ltb_ge in E2].
  destruct (Z.even q); nia.
Qed.

Section Count.
  Variables base m e : Z.
  Hypothesis Hb : 0 < base < 2 ^ 23.
  Hypothesis Hm : 2 ^ 52 <= m < 2 ^ 53.
  Hypothesis He : -62 <= e <= -57.

  Let X := base * m.
  Let s := Z.max 0 (Z.log2 X + 1 - 53).

  Lemma X_pos : 0 < X. Proof. unfold X. change (2^52) with 4503599627370496 in Hm. nia. Qed.
  Lemma s_bound : 0 <= s <= 23.
  Proof.
    unfold s. split; [lia|].
    assert (X < 2 ^ 76).
    { unfold X. change (2 ^ 76) with (2 ^ 23 * 2 ^ 53).
      change (2^52) with 4503599627370496 in Hm. change (2^53) with 9007199254740992 in *.
      change (2^23) with 8388608 in *. nia. }
    assert (Z.log2 X < 76) by (apply Z.log2_lt_pow2; [apply X_pos|assumption]). lia.
  Qed.

  Lemma count_unfold :
    f64_mul_trunc base m e = rne X s / 2 ^ (- (s + e)).
  Proof.
    unfold f64_mul_trunc. fold X. fold s. cbv zeta.
    pose proof s_bound. destruct (0 <=? s + e) eqn:E; [apply Z.leb_le in E; lia|reflexivity].
  Qed.

  Lemma pow_split : 2 ^ (- e) = 2 ^ s * 2 ^ (- (s + e)).
  Proof. pose proof s_bound. rewrite <- Z.pow_add_r by lia. f_equal. lia. Qed.

  (* exact lower bound: the product is at least the representable integer n *)
  Lemma count_ge n : 0 <= n -> n * 2 ^ (- e) <= X -> n <= f64_mul_trunc base m e.
  Proof.
    intros Hn H. rewrite count_unfold. pose proof s_bound as Hs.
    set (k := - (s + e)) in *. assert (Hk : 0 < k) by (unfold k; lia).
    assert (Hpk : 0 < 2 ^ k) by (apply Z.pow_pos_nonneg; lia).
    assert (Hps : 0 < 2 ^ s) by (apply Z.pow_pos_nonneg; lia).
    apply Z.div_le_lower_bound; [lia|].
    rewrite pow_split in H. fold k in H.
    assert (Hq : n * 2 ^ k <= X / 2 ^ s).
    { apply Z.div_le_lower_bound; [lia|]. lia. }
    destruct (rne_ge X s ltac:(pose proof X_pos; lia)) as [Hr|Hr].
    - lia.
    - assert (s = 0) by lia. unfold rne. destruct (s <=? 0) eqn:E; [|lia].
      replace s with 0 in Hq by lia. rewrite Z.pow_0_r, Z.div_1_r in Hq. lia.
  Qed.

  (* upper bound up to the rounding slack 2^22 * 2^e < 2^-35 *)
  Lemma count_lt n : X + 2 ^ 22 < n * 2 ^ (- e) -> f64_mul_trunc base m e < n.
  Proof.
    intros H. rewrite count_unfold. pose proof s_bound as Hs.
    set (k := - (s + e)) in *. assert (Hk : 0 < k) by (unfold k; lia).
    assert (Hpk : 0 < 2 ^ k) by (apply Z.pow_pos_nonneg; lia).
    assert (Hps : 0 < 2 ^ s) by (apply Z.pow_pos_nonneg; lia).
    apply Z.div_lt_upper_bound; [lia|].
    rewrite pow_split in H. fold k in H.
    assert (Hr : rne X s * 2 ^ s <= X + 2 ^ 22).
    { destruct (Z.eq_dec s 0) as [E|E].
      - unfold rne. rewrite E. cbn. lia.
      - pose proof (rne_err X s ltac:(lia) ltac:(pose proof X_pos; lia)) as [_ Hu].
        assert (2 ^ (s - 1) <= 2 ^ 22) by (apply Z.pow_le_mono_r; lia). lia. }
    nia.
  Qed.

  (* "row counts follow the ratios": |count - base*sf| < 1 + 2^22*2^e  (2^22*2^e <= 2^-35) *)
  Lemma count_ratio :
    f64_mul_trunc base m e * 2 ^ (- e) <= X + 2 ^ 22 /\
    X - 2 ^ 22 < (f64_mul_trunc base m e + 1) * 2 ^ (- e).
  Proof.
    pose proof s_bound as Hs.
    assert (Hpe : 0 < 2 ^ (- e)) by (apply Z.pow_pos_nonneg; lia).
    split.
    - destruct (Z_le_gt_dec (f64_mul_trunc base m e * 2 ^ (- e)) (X + 2 ^ 22)) as [L|G]; [exact L|].
      exfalso. pose proof (count_lt (f64_mul_trunc base m e) ltac:(lia)). lia.
    - set (n := X / 2 ^ (- e)).
      assert (Hn : 0 <= n) by (apply Z.div_pos; [pose proof X_pos; lia|lia]).
      pose proof (Z.div_mod X (2 ^ (- e)) ltac:(lia)) as Hd.
      pose proof (Z.mod_pos_bound X (2 ^ (- e)) Hpe) as Hmo. fold n in Hd.
      pose proof (count_ge n Hn ltac:(lia)). nia.
  Qed.
End Count.

(* every table is non-empty and at least its size at 0.001 over the whole range *)
Lemma pow_e_cases e : -62 <= e <= -57 ->
  e = -62 \/ e = -61 \/ e = -60 \/ e = -59 \/ e = -58 \/ e = -57.
Proof. lia. Qed.

Lemma counts_lower m e : in_range m e ->
  let c := row_counts m e in
  200 <= n_part c /\ 10 <= n_supplier c /\ 800 <= n_partsupp c /\ 150 <= n_customer c /\
  1500 <= n_orders c /\ 6000 <= n_lineitem c.
Proof.
  intros (Hm & He & Hlo & _). cbv zeta. unfold row_counts. cbn [n_part n_supplier n_partsupp n_customer n_orders n_lineitem].
  unfold M_LO in Hlo.
  assert (G : forall base n, 0 < base < 2 ^ 23 -> 0 <= n -> n * 2 ^ 62 <= base * 4611686018427388 ->
              n <= f64_mul_trunc base m e).
  { intros base n Hb Hn Hbn. apply count_ge; try assumption.
    destruct (pow_e_cases e He) as [E|[E|[E|[E|[E|E]]]]]; subst e; cbn in Hlo, Hbn |- *; nia. }
  repeat split; apply G; cbn; lia.
Qed.

Lemma row_count_ratio base m e : 0 < base < 2 ^ 23 -> in_range m e ->
  f64_mul_trunc base m e * 2 ^ (- e) <= base * m + 2 ^ 22 /\
  base * m - 2 ^ 22 < (f64_mul_trunc base m e + 1) * 2 ^ (- e).
Proof. intros Hb (Hm & He & _). apply count_ratio; assumption. Qed.

(* the nominal scale factors give exactly the TPC-H ratios *)
Lemma nominal_counts :
  map (fun me => counts_list (row_counts (fst me) (snd me)))
      [f64_of_ratio 1 1000; f64_of_ratio 2 1000; f64_of_ratio 5 1000; f64_of_ratio 10 1000;
       f64_of_ratio 13 1000; f64_of_ratio 20 1000; f64_of_ratio 50 1000]
  = map (fun k => [25; 5; 200 * k; 10 * k; 800 * k; 150 * k; 1500 * k; 6000 * k]) [1; 2; 5; 10; 13; 20; 50].
Proof. vm_compute. reflexivity. Qed.

(* ------------------------------------------------------------------ *)
(* single-column foreign keys, for every RNG stream                    *)

Lemma nation_key_exists v : 0 <= v < 25 -> In v nation_keys.
Proof.
  intros H.
  assert (E : v = 0 \/ v = 1 \/ v = 2 \/ v = 3 \/ v = 4 \/ v = 5 \/ v = 6 \/ v = 7 \/ v = 8 \/ v = 9 \/
              v = 10 \/ v = 11 \/ v = 12 \/ v = 13 \/ v = 14 \/ v = 15 \/ v = 16 \/ v = 17 \/ v = 18 \/
              v = 19 \/ v = 20 \/ v = 21 \/ v = 22 \/ v = 23 \/ v = 24) by lia.
  unfold nation_keys, nations. cbn [map fst].
  repeat (destruct E as [E|E]; [subst v; cbn; tauto|]). subst v; cbn; tauto.
Qed.

Lemma fk_n_regionkey : forall kr, In kr nations -> In (snd kr) region_keys.
Proof.
  intros kr H. unfold nations in H. cbn in H.
  repeat (destruct H as [H|H]; [subst kr; cbn; tauto|]). contradiction.
Qed.

Section FK.
  Variable rng : Z -> Z -> Z -> Z -> Z.
  Variable coin : nat -> bool.
  Hypothesis rng_range : forall site i lo hi, lo < hi -> lo <= rng site i lo hi < hi.

  Lemma fk_s_nationkey i : In (s_nationkey rng i) nation_keys.
  Proof. apply nation_key_exists. unfold s_nationkey. apply rng_range. lia. Qed.

  Lemma fk_c_nationkey i : In (c_nationkey rng i) nation_keys.
  Proof. apply nation_key_exists. unfold c_nationkey. apply rng_range. lia. Qed.

  Lemma mod_key P i : 0 < P -> exists j, 0 <= j < P /\ j + 1 = i mod P + 1.
  Proof. intros HP. exists (i mod P). split; [apply Z.mod_pos_bound; lia|reflexivity]. Qed.

  Lemma fk_ps_partkey P i : 0 < P -> exists j, 0 <= j < P /\ p_partkey j = ps_partkey P i.
  Proof. apply mod_key. Qed.
  Lemma fk_ps_suppkey Sn i : 0 < Sn -> exists j, 0 <= j < Sn /\ s_suppkey j = ps_suppkey Sn i.
  Proof. apply mod_key. Qed.
  Lemma fk_l_partkey P i : 0 < P -> exists j, 0 <= j < P /\ p_partkey j = l_partkey P i.
  Proof. apply mod_key. Qed.
  Lemma fk_l_suppkey Sn i : 0 < Sn -> exists j, 0 <= j < Sn /\ s_suppkey j = l_suppkey Sn i.
  Proof. apply mod_key. Qed.

  Lemma cur_order_range On n : 0 < On -> 1 <= cur_order coin On n <= On.
  Proof.
    intros HO. induction n as [|n IH]; cbn [cur_order]; [lia|].
    destruct (coin (S n)); [|exact IH].
    pose proof (Z.mod_pos_bound (cur_order coin On n) On HO). lia.
  Qed.

  Lemma fk_l_orderkey On i : 0 < On -> exists j, 0 <= j < On /\ o_orderkey j = l_orderkey coin On i.
  Proof.
    intros HO. unfold l_orderkey, o_orderkey.
    pose proof (cur_order_range On (Z.to_nat i) HO).
    exists (cur_order coin On (Z.to_nat i) - 1). lia.
  Qed.

  (* o_custkey: always inside 1 ..= floor(1.5 C); it is a customer key iff it is <= C *)
  Lemma o_custkey_range C i : 1 <= C -> 1 <= o_custkey rng C i <= custkey_range C.
  Proof.
    intros HC. unfold o_custkey.
    assert (1 <= custkey_range C) by (unfold custkey_range; apply Z.div_le_lower_bound; lia).
    pose proof (rng_range 3 i 1 (custkey_range C + 1) ltac:(lia)). lia.
  Qed.

  Lemma fk_o_custkey_iff C i : 1 <= C ->
    (exists j, 0 <= j < C /\ c_custkey j = o_custkey rng C i) <-> o_custkey rng C i <= C.
  Proof.
    intros HC. pose proof (o_custkey_range C i HC). unfold c_custkey. split.
    - intros (j & Hj & E). lia.
    - intros H'. exists (o_custkey rng C i - 1). lia.
  Qed.
End FK.

(* o_custkey -> customer is refuted for every customer count >= 2: a stream returning the top of
   each range is a valid stream and its first order points past the last customer *)
Lemma fk_o_custkey_refuted C : 2 <= C ->
  exists rng : Z -> Z -> Z -> Z -> Z,
    (forall site i lo hi, lo < hi -> lo <= rng site i lo hi < hi) /\
    ~ (exists j, 0 <= j < C /\ c_custkey j = o_custkey rng C 0).
Proof.
  intros HC. exists (fun _ _ _ hi => hi - 1). split; [intros; lia|].
  intros (j & Hj & E). unfold c_custkey, o_custkey, custkey_range in E.
  assert (C + 1 <= 3 * C / 2) by (apply Z.div_le_lower_bound; lia). lia.
Qed.

(* ------------------------------------------------------------------ *)
(* the composite key                                                   *)

Lemma same_pair_iff P Sn i j : 0 < P -> 0 < Sn ->
  (ps_partkey P j = l_partkey P i /\ ps_suppkey Sn j = l_suppkey Sn i) <-> (Z.lcm P Sn | i - j).
Proof.
  intros HP HS. unfold ps_partkey, l_partkey, ps_suppkey, l_suppkey. split.
  - intros [A B]. apply Z.lcm_least.
    + apply Z.mod_divide; [lia|]. rewrite Zminus_mod. replace (i mod P) with (j mod P) by lia.
      rewrite Z.sub_diag. apply Z.mod_0_l. lia.
    + apply Z.mod_divide; [lia|]. rewrite Zminus_mod. replace (i mod Sn) with (j mod Sn) by lia.
      rewrite Z.sub_diag. apply Z.mod_0_l. lia.
  - intros D.
    assert (DP : (P | i - j)) by (eapply Z.divide_trans; [apply Z.divide_lcm_l|exact D]).
    assert (DS : (Sn | i - j)) by (eapply Z.divide_trans; [apply Z.divide_lcm_r|exact D]).
    destruct DP as [a Ha]. destruct DS as [b Hb'].
    split; f_equal.
    + replace i with (j + a * P) by lia. symmetry. apply Z.mod_add. lia.
    + replace i with (j + b * Sn) by lia. symmetry. apply Z.mod_add. lia.
Qed.

Definition composite_fk (c : counts) : Prop :=
  forall i, 0 <= i < n_lineitem c ->
    exists j, 0 <= j < n_partsupp c /\
      ps_partkey (n_part c) j = l_partkey (n_part c) i /\ ps_suppkey (n_supplier c) j = l_suppkey (n_supplier c) i.

Lemma lcm_pos a b : 0 < a -> 0 < b -> 0 < Z.lcm a b.
Proof.
  intros Ha Hb. pose proof (Z.lcm_nonneg a b).
  destruct (Z.eq_dec (Z.lcm a b) 0) as [E|E]; [|lia].
  apply Z.lcm_eq_0 in E. lia.
Qed.

(* the exact arithmetic condition *)
Lemma composite_fk_iff c : 0 < n_part c -> 0 < n_supplier c -> 0 <= n_partsupp c ->
  composite_fk c <-> composite_ok c = true.
Proof.
  intros HP HS HPS. unfold composite_fk, composite_ok.
  pose proof (lcm_pos _ _ HP HS) as Hl. set (l := Z.lcm (n_part c) (n_supplier c)) in *.
  rewrite orb_true_iff, !Z.leb_le. split.
  - intros H.
    destruct (Z_le_gt_dec (n_lineitem c) (n_partsupp c)) as [A|A]; [left; exact A|right].
    destruct (Z_le_gt_dec l (n_partsupp c)) as [B|B]; [exact B|exfalso].
    destruct (H (n_partsupp c) ltac:(lia)) as (j & Hj & E).
    apply same_pair_iff in E; try assumption. fold l in E.
    apply Z.divide_pos_le in E; lia.
  - intros [A|B] i Hi.
    + exists i. split; [lia|]. apply same_pair_iff; try assumption. rewrite Z.sub_diag. apply Z.divide_0_r.
    + exists (i mod l). pose proof (Z.mod_pos_bound i l Hl). split; [lia|].
      apply same_pair_iff; try assumption. fold l.
      exists (i / l). pose proof (Z.div_mod i l ltac:(lia)). lia.
Qed.

Lemma composite_violations_zero_iff c : 0 < n_part c -> 0 < n_supplier c -> 0 <= n_partsupp c -> 0 <= n_lineitem c ->
  composite_violations c = 0 <-> composite_ok c = true.
Proof.
  intros HP HS HPS HL. unfold composite_violations, composite_ok.
  pose proof (lcm_pos _ _ HP HS) as Hl. set (l := Z.lcm (n_part c) (n_supplier c)) in *.
  destruct (l =? 0) eqn:E; [apply Z.eqb_eq in E; lia|].
  rewrite orb_true_iff, !Z.leb_le.
  pose proof (Z.div_mod (n_lineitem c) l ltac:(lia)) as Hd.
  pose proof (Z.mod_pos_bound (n_lineitem c) l Hl) as Hm.
  assert (Hq : 0 <= n_lineitem c / l) by (apply Z.div_pos; lia).
  set (q := n_lineitem c / l) in *. set (r := n_lineitem c mod l) in *.
  split.
  - intros H.
    destruct (Z_le_gt_dec l (n_partsupp c)) as [B|B]; [right; exact B|left].
    destruct (Z.eq_dec q 0) as [Q|Q]; [|exfalso; nia].
    rewrite Q in *. lia.
  - intros [A|B].
    + destruct (Z_le_gt_dec l (n_partsupp c)) as [B|B]; [nia|].
      assert (q = 0) by nia. subst q. nia.
    + nia.
Qed.

(* the closed form counts exactly the dangling rows, on all small instances *)
Lemma composite_violations_small :
  forallb (fun P => forallb (fun Sn => forallb (fun PS => forallb (fun L =>
    composite_violations (mkCounts P Sn PS 0 0 L) =? composite_violations_bf (mkCounts P Sn PS 0 0 L))
    [0; 1; 2; 3; 5; 7; 12; 13; 30; 31]) [0; 1; 2; 3; 4; 6; 11; 12; 13]) [1; 2; 3; 4; 6]) [1; 2; 3; 4; 5; 6] = true.
Proof. vm_compute. reflexivity. Qed.

(* under the condition the foreign key holds over the whole range, for every stream
   (the columns involved do not consult the RNG) *)
Lemma composite_fk_holds m e : in_range m e -> composite_ok (row_counts m e) = true -> composite_fk (row_counts m e).
Proof.
  intros R H. pose proof (counts_lower m e R) as (A & B & C & _). cbv zeta in *.
  apply composite_fk_iff; try lia. exact H.
Qed.

(* 0.001005 = M_W * 2^-62 is the smallest double in the range at which it fails *)
Definition M_W : Z := 4634744448519525.

Lemma composite_fk_refuted :
  in_range M_W (-62) /\ counts_list (row_counts M_W (-62)) = [25; 5; 201; 10; 804; 150; 1507; 6030] /\
  ~ composite_fk (row_counts M_W (-62)).
Proof.
  split; [|split].
  - unfold in_range, M_W, M_LO, M_HI. cbn. lia.
  - vm_compute. reflexivity.
  - intros H. apply composite_fk_iff in H; [|vm_compute; reflexivity|vm_compute; reflexivity|vm_compute; discriminate].
    vm_compute in H. discriminate.
Qed.

Lemma gap_ok : forallb (fun d => composite_ok (row_counts (M_W - Z.of_nat d) (-62))) (seq 1 64) = true.
Proof. vm_compute. reflexivity. Qed.

Lemma composite_fk_below_witness m : M_LO <= m < M_W -> composite_ok (row_counts m (-62)) = true.
Proof.
  intros Hm. destruct (Z_lt_ge_dec m (M_W - 64)) as [Lo|Hi].
  - (* P = 200, S = 10, PS >= 800 *)
    unfold M_LO, M_W in *.
    assert (Hm' : 2 ^ 52 <= m < 2 ^ 53) by (cbn; lia).
    assert (He : -62 <= -62 <= -57) by lia.
    assert (E62 : 2 ^ (- -62) = 4611686018427387904) by reflexivity.
    assert (P1 : 200 <= f64_mul_trunc 200000 m (-62)) by (apply count_ge; rewrite ?E62; try lia; cbn; lia).
    assert (P2 : f64_mul_trunc 200000 m (-62) < 201) by (apply count_lt; rewrite ?E62; try lia; cbn; lia).
    assert (S1 : 10 <= f64_mul_trunc 10000 m (-62)) by (apply count_ge; rewrite ?E62; try lia; cbn; lia).
    assert (S2 : f64_mul_trunc 10000 m (-62) < 11) by (apply count_lt; rewrite ?E62; try lia; cbn; lia).
    assert (Q1 : 800 <= f64_mul_trunc 800000 m (-62)) by (apply count_ge; rewrite ?E62; try lia; cbn; lia).
    unfold composite_ok, row_counts. cbn [n_part n_supplier n_partsupp n_lineitem].
    replace (f64_mul_trunc 200000 m (-62)) with 200 by lia.
    replace (f64_mul_trunc 10000 m (-62)) with 10 by lia.
    change (Z.lcm 200 10) with 200.
    apply orb_true_iff. right. apply Z.leb_le. lia.
  - pose proof gap_ok as G. rewrite forallb_forall in G.
    specialize (G (Z.to_nat (M_W - m))).
    replace (M_W - Z.of_nat (Z.to_nat (M_W - m))) with m in G by lia.
    apply G. apply in_seq. unfold M_W in *. lia.
Qed.

(* statements pinned in Props/C39.v *)
Lemma fk_nationkeys : forall rng : Z -> Z -> Z -> Z -> Z,
  (forall site i lo hi, lo < hi -> lo <= rng site i lo hi < hi) ->
  forall i, In (s_nationkey rng i) nation_keys /\ In (c_nationkey rng i) nation_keys.
Proof. intros rng H i. split; [apply fk_s_nationkey|apply fk_c_nationkey]; exact H. Qed.

Lemma fk_partsupp : forall m e, in_range m e -> let c := row_counts m e in
  forall i, (exists j, 0 <= j < n_part c /\ p_partkey j = ps_partkey (n_part c) i) /\
            (exists j, 0 <= j < n_supplier c /\ s_suppkey j = ps_suppkey (n_supplier c) i).
Proof.
  intros m e R c i. pose proof (counts_lower m e R) as (A & B & _). fold c in A, B.
  split; [apply fk_ps_partkey|apply fk_ps_suppkey]; lia.
Qed.

Lemma fk_lineitem : forall (coin : nat -> bool) m e, in_range m e -> let c := row_counts m e in
  forall i, (exists j, 0 <= j < n_orders c /\ o_orderkey j = l_orderkey coin (n_orders c) i) /\
            (exists j, 0 <= j < n_part c /\ p_partkey j = l_partkey (n_part c) i) /\
            (exists j, 0 <= j < n_supplier c /\ s_suppkey j = l_suppkey (n_supplier c) i).
Proof.
  intros coin m e R c i. pose proof (counts_lower m e R) as (A & B & _ & _ & D & _). fold c in A, B, D.
  split; [apply fk_l_orderkey|split; [apply fk_l_partkey|apply fk_l_suppkey]]; lia.
Qed.

Lemma o_custkey_iff : forall rng : Z -> Z -> Z -> Z -> Z,
  (forall site i lo hi, lo < hi -> lo <= rng site i lo hi < hi) ->
  forall C i, 1 <= C ->
    1 <= o_custkey rng C i <= custkey_range C /\
    ((exists j, 0 <= j < C /\ c_custkey j = o_custkey rng C i) <-> o_custkey rng C i <= C).
Proof. intros rng H C i HC. split; [apply o_custkey_range|apply fk_o_custkey_iff]; assumption. Qed.

Lemma composite_fk_holds_known : forall m e, in_range m e -> known_composite (row_counts m e) = false ->
  composite_fk (row_counts m e).
Proof.
  intros m e R H. apply composite_fk_holds; [exact R|]. unfold known_composite in H.
  destruct (composite_ok (row_counts m e)); [reflexivity|discriminate].
Qed.

(* satisfiability of the hypotheses *)
Example in_range_example : in_range M_LO (-62) /\ in_range M_HI (-57).
Proof. unfold in_range, M_LO, M_HI. cbn. lia. Qed.
Example rng_example : exists rng : Z -> Z -> Z -> Z -> Z, forall site i lo hi, lo < hi -> lo <= rng site i lo hi < hi.
Proof. exists (fun _ _ lo _ => lo). intros; lia. Qed.
