From QV Require Import Base.Util C12.Model.

(* ---------- generic helpers ---------- *)
Lemma concat_upd_snoc (pn : list (list nat)) i x :
  (i < length pn)%nat -> Permutation (concat (upd i (fun l => l ++ [x]) pn)) (x :: concat pn).
Proof.
  revert i; induction pn as [|h t IH]; intros [|i] H; cbn [length] in H; try lia.
  - cbn [upd concat]. rewrite <- app_assoc. cbn [app].
    rewrite <- Permutation_middle. reflexivity.
  - cbn [upd concat]. rewrite IH by lia. rewrite <- Permutation_middle. reflexivity.
Qed.

Lemma map_upd {A B} (f : A -> B) (g : A -> A) (g' : B -> B) i l :
  (forall x, f (g x) = g' (f x)) -> map f (upd i g l) = upd i g' (map f l).
Proof.
  intros H; revert i; induction l as [|h t IH]; intros [|i]; cbn; auto; now rewrite ?H, ?IH.
Qed.

Lemma skipn_cons_nth {A} n (l : list A) x r d : skipn n l = x :: r -> nth n l d = x /\ skipn (S n) l = r /\ (n < length l)%nat.
Proof.
  revert l; induction n as [|n IH]; intros [|h t] H; cbn in *; try discriminate.
  - inversion H; subst; repeat split; lia.
  - destruct (IH t H) as (a & b & c). repeat split; auto; lia.
Qed.

Lemma zmax_list_ge l x : In x l -> x <= zmax_list l.
Proof. induction l as [|h t IH]; cbn; [tauto|]. intros [->|H]; [lia|]. specialize (IH H). unfold zmax_list in IH. lia. Qed.
Lemma zmax_list_nonneg l : 0 <= zmax_list l.
Proof. induction l as [|h t IH]; cbn; [lia|]. unfold zmax_list in IH. lia. Qed.
Lemma zmax_list_cases l : zmax_list l = 0 \/ In (zmax_list l) l.
Proof.
  induction l as [|h t IH]; cbn; [now left|]. fold (zmax_list t).
  destruct (Z.max_spec h (zmax_list t)) as [[_ E]|[_ E]]; rewrite E; [|now right; left].
  destruct IH as [IH|IH]; [now left | now right; right].
Qed.

Lemma min_times_le_sum (l : list Z) m : (forall x, In x l -> m <= x) -> Z.of_nat (length l) * m <= zsum l.
Proof.
  induction l as [|h t IH]; intros H; [cbn; lia|].
  rewrite zsum_cons. cbn [length]. rewrite Nat2Z.inj_succ.
  assert (m <= h) by (apply H; now left).
  assert (Z.of_nat (length t) * m <= zsum t) by (apply IH; intros; apply H; now right). lia.
Qed.

(* ---------- least_loaded picks a minimum, lowest index first ---------- *)
Lemma scan_min_spec loads : forall rest best n,
  rest = skipn n loads -> (best < n)%nat -> (n <= length loads)%nat ->
  (forall j, (j < n)%nat -> nth best loads 0 <= nth j loads 0) ->
  let r := scan_min loads best n rest in
  (r < length loads)%nat /\ forall j, (j < length loads)%nat -> nth r loads 0 <= nth j loads 0.
Proof.
  induction rest as [|x r IH]; intros best n Hr Hb Hn Hmin; cbn [scan_min].
  - assert (length loads <= n)%nat.
    { assert (length (skipn n loads) = 0%nat) by now rewrite <- Hr. rewrite skipn_length in *. lia. }
    split; [lia|]. intros j Hj. apply Hmin. lia.
  - symmetry in Hr. destruct (skipn_cons_nth n loads x r 0 Hr) as (Hx & Hs & Hlt).
    apply IH; auto; try lia.
    + destruct (x <? nth best loads 0); lia.
    + intros j Hj. destruct (Z.ltb_spec x (nth best loads 0)) as [L|L].
      * destruct (Nat.eq_dec j n) as [->|Ne]; [lia|]. assert (nth best loads 0 <= nth j loads 0) by (apply Hmin; lia). lia.
      * destruct (Nat.eq_dec j n) as [->|Ne]; [lia|]. apply Hmin; lia.
Qed.

Lemma least_loaded_spec loads : (0 < length loads)%nat ->
  (least_loaded loads < length loads)%nat /\
  forall j, (j < length loads)%nat -> nth (least_loaded loads) loads 0 <= nth j loads 0.
Proof.
  intros H. unfold least_loaded. apply scan_min_spec; try lia.
  - destruct loads; reflexivity.
  - intros j Hj. assert (j = 0)%nat by lia. subst. lia.
Qed.

(* ---------- invariant of the greedy loop ---------- *)
Section Inv.
  Variable splits : list split.
  Hypothesis bytes_nonneg : forall s, In s splits -> 0 <= s_bytes s.
  Let pmax := zmax_list (map s_bytes splits).

  Lemma sp_bytes_bounds i : 0 <= s_bytes (sp splits i) <= pmax.
  Proof.
    unfold sp. destruct (Nat.lt_ge_cases i (length splits)) as [L|G].
    - assert (In (nth i splits dsplit) splits) by now apply nth_In.
      split; [now apply bytes_nonneg|]. apply zmax_list_ge. now apply in_map.
    - rewrite nth_overflow by lia. cbn. split; [lia|apply zmax_list_nonneg].
  Qed.

  Definition Inv (N : nat) (done : list nat) (st : state) : Prop :=
    length (per_node st) = N /\ length (node_bytes st) = N /\ length (node_rows st) = N /\
    Permutation (concat (per_node st)) done /\
    node_bytes st = map (bytes_of splits) (per_node st) /\
    node_rows st = map (rows_of splits) (per_node st) /\
    (forall x, In x (node_bytes st) -> 0 <= x) /\
    (forall x, In x (node_bytes st) ->
       Z.of_nat N * x <= zsum (node_bytes st) + (Z.of_nat N - 1) * pmax).

  Lemma repeat_nil_concat n : concat (repeat (@nil nat) n) = [].
  Proof. induction n; cbn; auto. Qed.

  Lemma Inv_init N : (0 < N)%nat -> Inv N [] (init N).
  Proof.
    intros HN. unfold Inv, init; cbn [per_node node_bytes node_rows].
    rewrite !repeat_length, repeat_nil_concat. repeat split; auto.
    - clear. induction N; cbn; f_equal; auto.
    - clear. induction N; cbn; f_equal; auto.
    - intros x Hx. apply repeat_spec in Hx. lia.
    - intros x Hx. apply repeat_spec in Hx. subst.
      assert (0 <= zsum (repeat 0 N)) by (apply zsum_nonneg; intros y Hy; apply repeat_spec in Hy; lia).
      pose proof (zmax_list_nonneg (map s_bytes splits)). fold pmax in H0. nia.
  Qed.

  Lemma bytes_of_snoc l i : bytes_of splits (l ++ [i]) = bytes_of splits l + s_bytes (sp splits i).
  Proof. unfold bytes_of. rewrite map_app, zsum_app. cbn. lia. Qed.
  Lemma rows_of_snoc l i : rows_of splits (l ++ [i]) = rows_of splits l + s_rows (sp splits i).
  Proof. unfold rows_of. rewrite map_app, zsum_app. cbn. lia. Qed.

  Lemma In_upd {A} i (f : A -> A) l x d : In x (upd i f l) ->
     (exists j, (j < length l)%nat /\ j <> i /\ x = nth j l d) \/ ((i < length l)%nat /\ x = f (nth i l d)).
  Proof.
    intros H. destruct (In_nth _ _ d H) as (j & Hj & E). rewrite upd_length in Hj.
    destruct (Nat.eq_dec i j) as [->|Ne].
    - right. split; auto. now rewrite nth_upd_same in E.
    - left. exists j. repeat split; auto. now rewrite nth_upd_other in E.
  Qed.

  Lemma Inv_step N done st idx : (0 < N)%nat -> Inv N done st -> Inv N (idx :: done) (place splits st idx).
  Proof.
    intros HN (L1 & L2 & L3 & P & B & R & NN & G).
    destruct (least_loaded_spec (node_bytes st)) as [Hb Hmin]; [lia|].
    set (best := least_loaded (node_bytes st)) in *.
    unfold Inv, place; cbn [per_node node_bytes node_rows]. fold best.
    rewrite !upd_length. repeat split; auto.
    - rewrite concat_upd_snoc by lia. now constructor.
    - rewrite B. symmetry. apply map_upd. intros l. apply bytes_of_snoc.
    - rewrite R. symmetry. apply map_upd. intros l. apply rows_of_snoc.
    - intros x Hx. destruct (In_upd _ _ _ _ 0 Hx) as [(j & Hj & _ & ->)|(Hi & ->)].
      + apply NN. now apply nth_In.
      + assert (0 <= nth best (node_bytes st) 0) by (apply NN; now apply nth_In).
        pose proof (sp_bytes_bounds idx). lia.
    - intros x Hx. rewrite zsum_upd_add by lia.
      pose proof (sp_bytes_bounds idx) as [Hp0 Hp1].
      destruct (In_upd _ _ _ _ 0 Hx) as [(j & Hj & _ & ->)|(Hi & ->)].
      + assert (Z.of_nat N * nth j (node_bytes st) 0 <= zsum (node_bytes st) + (Z.of_nat N - 1) * pmax)
          by (apply G; now apply nth_In). lia.
      + assert (Z.of_nat N * nth best (node_bytes st) 0 <= zsum (node_bytes st)).
        { rewrite <- L2. apply min_times_le_sum. intros y Hy.
          destruct (In_nth _ _ 0 Hy) as (j & Hj & <-). now apply Hmin. }
        nia.
  Qed.

  Lemma Inv_fold N order : (0 < N)%nat -> forall done st, Inv N done st ->
     Inv N (rev order ++ done) (fold_left (place splits) order st).
  Proof.
    intros HN; induction order as [|i t IH]; intros done st H; cbn [fold_left rev app]; auto.
    rewrite <- app_assoc. cbn [app]. apply IH. now apply Inv_step.
  Qed.

  Lemma greedy_Inv N : (0 < N)%nat -> Inv N (rev (lpt_order splits)) (greedy splits N).
  Proof.
    intros HN. unfold greedy. rewrite <- (app_nil_r (rev _)). apply Inv_fold; auto. now apply Inv_init.
  Qed.
End Inv.

(* ---------- the theorems ---------- *)
Section Theorems.
  Variable splits : list split.
  Variable nodes0 : nat.
  Hypothesis bytes_nonneg : forall s, In s splits -> 0 <= s_bytes s.
  Let N := Nat.max nodes0 1.
  Let a := assign splits nodes0.

  Lemma N_pos : (0 < N)%nat. Proof. unfold N; lia. Qed.

  Lemma concat_map_isort_perm (le : nat -> nat -> bool) pn : Permutation (concat (map (isort le) pn)) (concat pn).
  Proof.
    induction pn as [|h t IH]; cbn [map concat]; [reflexivity|].
    apply Permutation_app; [apply isort_perm | exact IH].
  Qed.

  Theorem assign_partition : Permutation (concat (a_per_node a)) (seq 0 (length splits)).
  Proof.
    destruct (greedy_Inv splits bytes_nonneg N N_pos) as (_ & _ & _ & P & _).
    unfold a, assign; cbn [a_per_node]. fold N.
    rewrite concat_map_isort_perm, P, <- Permutation_rev. apply isort_perm.
  Qed.

  Theorem assign_node_count : a_nodes a = N /\ length (a_per_node a) = N /\ length (a_node_bytes a) = N /\ length (a_node_rows a) = N.
  Proof.
    destruct (greedy_Inv splits bytes_nonneg N N_pos) as (L1 & L2 & L3 & _).
    unfold a, assign; cbn. fold N. rewrite map_length. auto.
  Qed.

  Lemma map_map_isort (f : list nat -> Z) le pn :
    (forall l l', Permutation l l' -> f l = f l') -> map f (map (isort le) pn) = map f pn.
  Proof.
    intros Hf. rewrite map_map. apply map_ext. intros l. apply Hf, isort_perm.
  Qed.

  Theorem assign_node_bytes : a_node_bytes a = map (bytes_of splits) (a_per_node a).
  Proof.
    destruct (greedy_Inv splits bytes_nonneg N N_pos) as (_ & _ & _ & _ & B & _).
    unfold a, assign; cbn [a_node_bytes a_per_node]. fold N. rewrite B. symmetry.
    apply map_map_isort. intros l l' Hp. unfold bytes_of. apply zsum_perm. now apply Permutation_map.
  Qed.

  Theorem assign_node_rows : a_node_rows a = map (rows_of splits) (a_per_node a).
  Proof.
    destruct (greedy_Inv splits bytes_nonneg N N_pos) as (_ & _ & _ & _ & _ & R & _).
    unfold a, assign; cbn [a_node_rows a_per_node]. fold N. rewrite R. symmetry.
    apply map_map_isort. intros l l' Hp. unfold rows_of. apply zsum_perm. now apply Permutation_map.
  Qed.

  Lemma zsum_concat_bytes pn : zsum (map (bytes_of splits) pn) = bytes_of splits (concat pn).
  Proof.
    induction pn as [|h t IH]; cbn [map concat]; [reflexivity|].
    rewrite zsum_cons, IH. unfold bytes_of. now rewrite map_app, zsum_app.
  Qed.

  Lemma bytes_of_seq : bytes_of splits (seq 0 (length splits)) = total_bytes splits.
  Proof.
    unfold bytes_of, total_bytes, sp. f_equal.
    set (g := fun i => s_bytes (nth i splits dsplit)).
    apply (nth_ext _ _ (g 0%nat) (s_bytes dsplit)).
    - now rewrite !map_length, seq_length.
    - intros n Hn. rewrite map_length, seq_length in Hn.
      rewrite (map_nth g), seq_nth by lia. rewrite (map_nth s_bytes). reflexivity.
  Qed.

  Theorem assign_total : zsum (a_node_bytes a) = total_bytes splits.
  Proof.
    rewrite assign_node_bytes, zsum_concat_bytes, <- bytes_of_seq.
    unfold bytes_of. apply zsum_perm, Permutation_map, assign_partition.
  Qed.

  (* Graham's list-scheduling bound, for every input (any sizes, any node count) *)
  Theorem assign_graham :
    Z.of_nat N * zmax_list (a_node_bytes a) <= total_bytes splits + (Z.of_nat N - 1) * zmax_list (map s_bytes splits).
  Proof.
    pose proof assign_total as T.
    destruct (greedy_Inv splits bytes_nonneg N N_pos) as (_ & _ & _ & _ & _ & _ & NN & G).
    unfold a, assign in *; cbn [a_node_bytes] in *. fold N in T |- *.
    destruct (zmax_list_cases (node_bytes (greedy splits N))) as [E|E].
    - rewrite E. rewrite <- T.
      assert (0 <= zsum (node_bytes (greedy splits N))) by now apply zsum_nonneg.
      pose proof (zmax_list_nonneg (map s_bytes splits)). pose proof N_pos. nia.
    - rewrite <- T. now apply G.
  Qed.

  Lemma count_occ_seq_one n i : (i < n)%nat -> count_occ Nat.eq_dec (seq 0 n) i = 1%nat.
  Proof.
    intros H. apply NoDup_count_occ'; [apply seq_NoDup | apply in_seq; lia].
  Qed.

  Theorem model_meets_spec : spec_ok splits nodes0 a = true.
  Proof.
    destruct assign_node_count as (C0 & C1 & _ & _).
    unfold spec_ok. fold N. rewrite C0, C1, !Nat.eqb_refl. cbn [andb]. unfold is_partition.
    rewrite !andb_true_iff. repeat split.
    - apply Nat.eqb_eq. rewrite (Permutation_length assign_partition). apply seq_length.
    - apply forallb_forall. intros i Hi. apply in_seq in Hi. apply Nat.eqb_eq.
      pose proof assign_partition as P. rewrite (Permutation_count_occ Nat.eq_dec) in P.
      rewrite P. apply count_occ_seq_one. lia.
    - apply (list_eqb_spec Z.eqb Z.eqb_eq). apply assign_node_bytes.
    - apply (list_eqb_spec Z.eqb Z.eqb_eq). apply assign_node_rows.
    - apply (list_eqb_spec Z.eqb Z.eqb_eq). reflexivity.
    - apply Z.leb_le. apply assign_graham.
  Qed.
End Theorems.

(* ---------- brute-force OPT is a lower bound on every schedule ---------- *)
Fixpoint apply_sched (loads : list Z) (sizes : list Z) (sched : list nat) : list Z :=
  match sizes, sched with
  | p :: ps, i :: rest => apply_sched (upd i (fun x => x + p) loads) ps rest
  | _, _ => loads
  end.

Lemma fold_min_le c cs x : In x (c :: cs) -> fold_right Z.min c cs <= x.
Proof.
  induction cs as [|h t IH]; cbn [fold_right]; intros H.
  - destruct H as [->|[]]. lia.
  - destruct H as [->|[->|H]]; [|lia|].
    + assert (fold_right Z.min x t <= x) by (apply IH; now left). lia.
    + assert (fold_right Z.min c t <= x) by (apply IH; now right). lia.
Qed.

Lemma opt_go_lower sizes : forall loads sched,
  length sched = length sizes -> Forall (fun i => (i < length loads)%nat) sched ->
  opt_go loads sizes <= zmax_list (apply_sched loads sizes sched).
Proof.
  induction sizes as [|p rest IH]; intros loads sched HL HF.
  - destruct sched; cbn [opt_go apply_sched]; lia.
  - destruct sched as [|i sched]; [discriminate|]. inversion HF as [|? ? Hi HF']; subst.
    cbn [opt_go apply_sched].
    set (F := fun i => opt_go (upd i (fun x => x + p) loads) rest).
    assert (In (F i) (map F (seq 0 (length loads)))) as HIn by (apply in_map, in_seq; lia).
    destruct (map F (seq 0 (length loads))) as [|c cs] eqn:E; [destruct HIn|].
    etransitivity; [apply fold_min_le; exact HIn|].
    unfold F. apply IH; [cbn in HL; lia|]. now rewrite upd_length.
Qed.

Theorem opt_lower_bound nodes sizes sched :
  length sched = length sizes -> Forall (fun i => (i < nodes)%nat) sched ->
  opt nodes sizes <= zmax_list (apply_sched (repeat 0 nodes) sizes sched).
Proof. intros. apply opt_go_lower; auto. now rewrite repeat_length. Qed.

(* ---------- the 4/3 - 1/(3N) clause, exhaustively over all small instances ---------- *)
Fixpoint lists_upto (vals : list Z) (len : nat) : list (list Z) :=
  match len with
  | O => [[]]
  | S k => [] :: flat_map (fun t => map (fun v => v :: t) vals) (lists_upto vals k)
  end.

Lemma lists_upto_complete vals len l :
  (length l <= len)%nat -> Forall (fun v => In v vals) l -> In l (lists_upto vals len).
Proof.
  revert l; induction len as [|k IH]; intros l HL HF.
  - destruct l; [now left | cbn in HL; lia].
  - destruct l as [|v t]; [now left|]. right. inversion HF; subst.
    apply in_flat_map. exists t. split; [apply IH; auto; cbn in HL; lia|]. apply (in_map (fun v0 => v0 :: t)); assumption.
Qed.

Definition mk_inst (sizes : list Z) : list split :=
  map (fun ib => mkSplit [116] [102] (Z.of_nat (fst ib)) 0 1 (snd ib)) (combine (seq 0 (length sizes)) sizes).

Definition lpt43_check (nodes : nat) (sizes : list Z) : bool :=
  lpt43_ok (mk_inst sizes) nodes (assign (mk_inst sizes) nodes).

Definition small_nodes := [1; 2; 3]%nat.
Definition small_vals := [0; 1; 2; 3].
Definition small_len := 6%nat.

Lemma lpt43_small_forallb :
  forallb (fun n => forallb (lpt43_check n) (lists_upto small_vals small_len)) small_nodes = true.
Proof. vm_compute. reflexivity. Qed.

Lemma mk_inst_bytes sizes : map s_bytes (mk_inst sizes) = sizes.
Proof.
  unfold mk_inst. rewrite map_map. cbn [s_bytes].
  assert (forall k, map (fun ib : nat * Z => snd ib) (combine (seq k (length sizes)) sizes) = sizes) as H.
  { induction sizes as [|h t IH]; intros k; cbn; f_equal; auto. }
  apply H.
Qed.

(* Stated against EVERY schedule (not against our own brute force): for all instances of at most
   6 splits with byte sizes in 0..3 on 1..3 nodes, LPT's largest load is within 4/3 - 1/(3N) of
   the makespan of any assignment whatsoever. *)
Theorem lpt43_small nodes sizes sched :
  In nodes small_nodes -> (length sizes <= small_len)%nat -> Forall (fun b => 0 <= b <= 3) sizes ->
  length sched = length sizes -> Forall (fun i => (i < nodes)%nat) sched ->
  3 * Z.of_nat nodes * zmax_list (a_node_bytes (assign (mk_inst sizes) nodes))
    <= (4 * Z.of_nat nodes - 1) * zmax_list (apply_sched (repeat 0 nodes) sizes sched).
Proof.
  intros Hn HL HV HS HF.
  pose proof lpt43_small_forallb as H. rewrite forallb_forall in H. specialize (H nodes Hn).
  rewrite forallb_forall in H.
  assert (In sizes (lists_upto small_vals small_len)) as Hin.
  { apply lists_upto_complete; auto. eapply Forall_impl; [|exact HV]. intros a Ha. unfold small_vals; cbn [In].
    cbv beta in Ha. lia. }
  specialize (H sizes Hin). unfold lpt43_check, lpt43_ok in H. apply Z.leb_le in H.
  rewrite mk_inst_bytes in H.
  assert (Nat.max nodes 1 = nodes) as E by (destruct Hn as [<-|[<-|[<-|[]]]]; reflexivity).
  rewrite E in H.
  pose proof (opt_lower_bound nodes sizes sched HS HF).
  assert (0 < Z.of_nat nodes) by (destruct Hn as [<-|[<-|[<-|[]]]]; lia).
  nia.
Qed.

(* the classical tight instance is inside the enumerated domain: N=2, sizes 3,3,2,2,2: LPT 7, OPT 6 *)
Example lpt43_tight :
  zmax_list (a_node_bytes (assign (mk_inst [3;3;2;2;2]) 2)) = 7 /\ opt 2 [3;3;2;2;2] = 6.
Proof. vm_compute. split; reflexivity. Qed.

(* non-vacuity of the general theorems: a concrete instance with ties and a zero-byte split *)
Example spec_nontrivial :
  a_per_node (assign (mk_inst [5;5;0;3;3;1]) 3) = [[0;5]; [1;2]; [3;4]]%nat.
Proof. vm_compute. reflexivity. Qed.
