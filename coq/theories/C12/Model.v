(* C12 model: distributed::splits::assign_lpt, transcribed.
   anchors: src/distributed/splits.rs: Split::canonical_key, assign_lpt *)
From QV Require Export Base.Util.

Record split := mkSplit {
  s_table : list Z;   (* bytes of the table name *)
  s_file  : list Z;   (* bytes of the canonical file name *)
  s_rg    : Z;        (* row_group: usize *)
  s_off   : Z;        (* row_offset: i64 *)
  s_rows  : Z;        (* num_rows: i64 *)
  s_bytes : Z         (* bytes: u64 *)
}.
Definition dsplit := mkSplit [] [] 0 0 0 0.

(* (&str,&str,usize,i64) tuple Ord: lexicographic *)
Definition key_cmp (x y : split) : comparison :=
  cmp_then (bytes_cmp (s_table x) (s_table y))
  (cmp_then (bytes_cmp (s_file x) (s_file y))
  (cmp_then (s_rg x ?= s_rg y) (s_off x ?= s_off y))).

(* order.sort_by(|a,b| y.bytes.cmp(&x.bytes).then_with(|| x.key.cmp(&y.key))) *)
Definition ord_cmp (x y : split) : comparison :=
  cmp_then (s_bytes y ?= s_bytes x) (key_cmp x y).

Definition cmp_le (c : comparison) : bool := match c with Gt => false | _ => true end.

Section Assign.
  Variable splits : list split.
  Definition sp (i : nat) : split := nth i splits dsplit.
  Definition ord_le (a b : nat) : bool := cmp_le (ord_cmp (sp a) (sp b)).
  Definition key_le (a b : nat) : bool := cmp_le (key_cmp (sp a) (sp b)).

  Record state := mkState { per_node : list (list nat); node_bytes : list Z; node_rows : list Z }.

  (* let mut best = 0; for n in 1..nodes { if node_bytes[n] < node_bytes[best] { best = n } } *)
  Fixpoint scan_min (loads : list Z) (best n : nat) (rest : list Z) : nat :=
    match rest with
    | [] => best
    | x :: r => scan_min loads (if x <? nth best loads 0 then n else best) (S n) r
    end.
  Definition least_loaded (loads : list Z) : nat := scan_min loads 0 1 (tl loads).

  Definition place (st : state) (idx : nat) : state :=
    let best := least_loaded (node_bytes st) in
    mkState (upd best (fun l => l ++ [idx]) (per_node st))
            (upd best (fun b => b + s_bytes (sp idx)) (node_bytes st))
            (upd best (fun r => r + s_rows (sp idx)) (node_rows st)).

  Definition init (nodes : nat) : state :=
    mkState (repeat [] nodes) (repeat 0 nodes) (repeat 0 nodes).

  Definition lpt_order : list nat := isort ord_le (seq 0 (length splits)).

  Definition greedy (nodes : nat) : state := fold_left place lpt_order (init nodes).
End Assign.

Record assignment := mkAsg {
  a_nodes : nat;
  a_per_node : list (list nat);
  a_node_bytes : list Z;
  a_node_rows : list Z;
  a_node_splits : list Z
}.

Definition assign (splits : list split) (nodes0 : nat) : assignment :=
  let nodes := Nat.max nodes0 1 in
  let st := greedy splits nodes in
  let pn := map (isort (key_le splits)) (per_node st) in
  mkAsg nodes pn (node_bytes st) (node_rows st) (map (fun l => Z.of_nat (length l)) pn).

(* ------------------------------------------------------------------ *)
(* Executable specification: what C12 demands of ANY assignment.       *)

Definition bytes_of (splits : list split) (l : list nat) : Z :=
  zsum (map (fun i => s_bytes (sp splits i)) l).
Definition rows_of (splits : list split) (l : list nat) : Z :=
  zsum (map (fun i => s_rows (sp splits i)) l).
Definition total_bytes (splits : list split) : Z := zsum (map s_bytes splits).
Definition zmax_list (l : list Z) : Z := fold_right Z.max 0 l.

(* every split index 0..n-1 occurs exactly once across all nodes, and nothing else occurs *)
Definition is_partition (n : nat) (pn : list (list nat)) : bool :=
  Nat.eqb (length (concat pn)) n
  && forallb (fun i => Nat.eqb (count_occ Nat.eq_dec (concat pn) i) 1) (seq 0 n).

(* every split to exactly one node; per-node totals are the sums of what is owned;
   Graham's list-scheduling bound  N*max <= total + (N-1)*pmax  *)
Definition spec_ok (splits : list split) (nodes0 : nat) (a : assignment) : bool :=
  let nodes := Nat.max nodes0 1 in
  Nat.eqb (a_nodes a) nodes
  && Nat.eqb (length (a_per_node a)) nodes
  && is_partition (length splits) (a_per_node a)
  && list_eqb Z.eqb (a_node_bytes a) (map (bytes_of splits) (a_per_node a))
  && list_eqb Z.eqb (a_node_rows a) (map (rows_of splits) (a_per_node a))
  && list_eqb Z.eqb (a_node_splits a) (map (fun l => Z.of_nat (length l)) (a_per_node a))
  && (Z.of_nat nodes * zmax_list (a_node_bytes a)
        <=? total_bytes splits + (Z.of_nat nodes - 1) * zmax_list (map s_bytes splits)).

(* ---- optimal makespan by exhaustive search (for the 4/3 - 1/(3N) clause) ---- *)
Fixpoint opt_go (loads : list Z) (sizes : list Z) : Z :=
  match sizes with
  | [] => zmax_list loads
  | p :: rest =>
      let cands := map (fun i => opt_go (upd i (fun x => x + p) loads) rest) (seq 0 (length loads)) in
      match cands with
      | [] => 0
      | c :: cs => fold_right Z.min c cs
      end
  end.
Definition opt (nodes : nat) (sizes : list Z) : Z := opt_go (repeat 0 nodes) sizes.

(* max_load <= (4/3 - 1/(3N)) * OPT   <=>   3N*max <= (4N-1)*OPT *)
Definition lpt43_ok (splits : list split) (nodes0 : nat) (a : assignment) : bool :=
  let nodes := Nat.max nodes0 1 in
  3 * Z.of_nat nodes * zmax_list (a_node_bytes a)
    <=? (4 * Z.of_nat nodes - 1) * opt nodes (map s_bytes splits).

Definition asg_eqb (a b : assignment) : bool :=
  Nat.eqb (a_nodes a) (a_nodes b)
  && list_eqb (list_eqb Nat.eqb) (a_per_node a) (a_per_node b)
  && list_eqb Z.eqb (a_node_bytes a) (a_node_bytes b)
  && list_eqb Z.eqb (a_node_rows a) (a_node_rows b)
  && list_eqb Z.eqb (a_node_splits a) (a_node_splits b).
