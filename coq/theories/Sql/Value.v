(* SQL values, three-valued logic and typed comparison shared by the SQL-level properties. *)
From QV Require Export Base.Util.
From Coq Require Export QArith.
Open Scope Z_scope.

(* Doubles are restricted (by the generators) to finite values that are exact rationals, so the
   reference semantics uses Q; strings are lists of Unicode code points (their order coincides
   with Rust's bytewise UTF-8 order). VErr is an absorbing run-time (type) error. *)
Inductive value :=
| VNull | VInt (z : Z) | VDbl (q : Q) | VStr (s : list Z) | VBool (b : bool) | VDate (d : Z) | VErr.

Inductive tv := T | F | U.

Definition and3 (a b : tv) : tv :=
  match a, b with F, _ | _, F => F | T, T => T | _, _ => U end.
Definition or3 (a b : tv) : tv :=
  match a, b with T, _ | _, T => T | F, F => F | _, _ => U end.
Definition not3 (a : tv) : tv := match a with T => F | F => T | U => U end.

(* arrow's boolean::and / boolean::or : NULL if either side is NULL *)
Definition and_strict (a b : tv) : tv :=
  match a, b with U, _ | _, U => U | T, T => T | _, _ => F end.
Definition or_strict (a b : tv) : tv :=
  match a, b with U, _ | _, U => U | F, F => F | _, _ => T end.

Definition tv_of_bool (b : bool) : tv := if b then T else F.

Definition q_cmp (a b : Q) : comparison := Qcompare a b.

(* comparison of two non-NULL values after the engine's numeric coercion; None = type error *)
Definition cmp_values (a b : value) : option comparison :=
  match a, b with
  | VInt x, VInt y => Some (x ?= y)
  | VDate x, VDate y => Some (x ?= y)
  | VStr x, VStr y => Some (bytes_cmp x y)
  | VDbl x, VDbl y => Some (q_cmp x y)
  | VInt x, VDbl y => Some (q_cmp (inject_Z x) y)
  | VDbl x, VInt y => Some (q_cmp x (inject_Z y))
  | VBool x, VBool y => Some (match x, y with false, true => Lt | true, false => Gt | _, _ => Eq end)
  | _, _ => None
  end.

Inductive cmpop := CEq | CNe | CLt | CLe | CGt | CGe.
Definition cmp_test (op : cmpop) (c : comparison) : bool :=
  match op, c with
  | CEq, Eq => true | CEq, _ => false
  | CNe, Eq => false | CNe, _ => true
  | CLt, Lt => true | CLt, _ => false
  | CLe, Gt => false | CLe, _ => true
  | CGt, Gt => true | CGt, _ => false
  | CGe, Lt => false | CGe, _ => true
  end.

Definition is_null (v : value) : bool := match v with VNull => true | _ => false end.
Definition is_err (v : value) : bool := match v with VErr => true | _ => false end.

(* a comparison: NULL if either operand is NULL *)
Definition compare_op (op : cmpop) (a b : value) : value :=
  match a, b with
  | VErr, _ | _, VErr => VErr
  | VNull, _ | _, VNull => VNull
  | _, _ => match cmp_values a b with Some c => VBool (cmp_test op c) | None => VErr end
  end.

(* value <-> truth value (for boolean-typed values) *)
Definition tv_of (v : value) : option tv :=
  match v with VBool b => Some (tv_of_bool b) | VNull => Some U | _ => None end.
Definition of_tv (t : tv) : value := match t with T => VBool true | F => VBool false | U => VNull end.

Definition lift2 (f : tv -> tv -> tv) (a b : value) : value :=
  match tv_of a, tv_of b with Some x, Some y => of_tv (f x y) | _, _ => VErr end.
Definition lift1 (f : tv -> tv) (a : value) : value :=
  match tv_of a with Some x => of_tv (f x) | None => VErr end.

Definition keeps (v : value) : bool := match v with VBool true => true | _ => false end.

Definition value_eqb (a b : value) : bool :=
  match a, b with
  | VNull, VNull => true
  | VInt x, VInt y => x =? y
  | VDbl x, VDbl y => Qeq_bool x y
  | VStr x, VStr y => list_eqb Z.eqb x y
  | VBool x, VBool y => Bool.eqb x y
  | VDate x, VDate y => x =? y
  | VErr, VErr => true
  | _, _ => false
  end.

(* "NULLs are not distinct" equality used by grouping, DISTINCT and set operations *)
Definition value_same (a b : value) : bool :=
  match a, b with
  | VNull, VNull => true
  | VNull, _ | _, VNull => false
  | _, _ => match cmp_values a b with Some Eq => true | _ => false end
  end.
