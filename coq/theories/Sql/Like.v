(* SQL LIKE: definitional matcher (spec) and the engine's matcher (model).
   anchors: src/physical/operators/filter.rs: like_match, classify_like, LikeKind::matches
   Strings are lists of Unicode code points; '%' = 37, '_' = 95. No escape character (the engine has none). *)
From QV Require Export Base.Util.

Definition PCT := 37.
Definition UND := 95.

(* ---- specification: the textbook recursive definition ---- *)
Fixpoint like_spec (p : list Z) (s : list Z) {struct p} : bool :=
  match p with
  | [] => match s with [] => true | _ => false end
  | c :: p' =>
      if c =? PCT then
        (fix star (s : list Z) : bool :=
           like_spec p' s || match s with [] => false | _ :: s' => star s' end) s
      else
        match s with
        | [] => false
        | x :: s' => ((c =? UND) || (c =? x)) && like_spec p' s'
        end
  end.

(* ---- model: like_match, the greedy matcher with single-star backtracking ----
   State as suffixes instead of byte offsets: t = text[ti..], p = pattern[pi..],
   star = Some (pattern[star_pi+1..], text[star_ti..]). *)
Definition all_pct (p : list Z) : bool := forallb (fun c => c =? PCT) p.

Fixpoint like_loop (fuel : nat) (t p : list Z) (star : option (list Z * list Z)) : bool :=
  match fuel with
  | O => false
  | S f =>
      let backtrack :=
        match star with
        | Some (sp, st) =>
            match st with
            | _ :: st' => like_loop f st' sp (Some (sp, st'))
            | [] => false
            end
        | None => false
        end in
      match t with
      | [] => all_pct p
      | tc :: t' =>
          match p with
          | c :: p' =>
              if c =? PCT then like_loop f t p' (Some (p', t))
              else if c =? UND then like_loop f t' p' star
              else if c =? tc then like_loop f t' p' star
              else backtrack
          | [] => backtrack
          end
      end
  end.

Definition like_fuel (s p : list Z) : nat := (2 * (length s + 1) * (length p + 1) + 2)%nat.
Definition like_match (s p : list Z) : bool := like_loop (like_fuel s p) s p None.

(* ---- classify_like fast paths ---- *)
Inductive like_kind := LAll | LExact (s : list Z) | LPrefix (s : list Z) | LSuffix (s : list Z)
                     | LContains (s : list Z) | LGeneral (p : list Z).

Definition zlist_eqb := list_eqb Z.eqb.
Fixpoint starts_with (t pre : list Z) : bool :=
  match pre, t with
  | [], _ => true
  | c :: pre', x :: t' => (c =? x) && starts_with t' pre'
  | _ :: _, [] => false
  end.
Definition ends_with (t suf : list Z) : bool := starts_with (rev t) (rev suf).
Fixpoint contains (t m : list Z) : bool :=
  starts_with t m || match t with [] => false | _ :: t' => contains t' m end.

Definition count_pct (p : list Z) : nat := length (filter (fun c => c =? PCT) p).

Definition classify_like (p : list Z) : like_kind :=
  if existsb (fun c => c =? UND) p then LGeneral p
  else match count_pct p with
       | O => LExact p
       | 1%nat =>
           match p with
           | c :: rest => if c =? PCT then LSuffix rest
                          else if last p 0 =? PCT then LPrefix (removelast p) else LGeneral p
           | [] => LGeneral p
           end
       | 2%nat =>
           match p with
           | c :: rest => if (c =? PCT) && (last p 0 =? PCT)
                          then (if Nat.eqb (length p) 2 then LAll else LContains (removelast rest))
                          else LGeneral p
           | [] => LGeneral p
           end
       | _ => LGeneral p
       end.

Definition kind_matches (k : like_kind) (t : list Z) : bool :=
  match k with
  | LAll => true
  | LExact s => zlist_eqb t s
  | LPrefix s => starts_with t s
  | LSuffix s => ends_with t s
  | LContains s => contains t s
  | LGeneral p => like_match t p
  end.

(* what the interpreter computes for `text LIKE 'literal'` *)
Definition like_eng (s p : list Z) : bool := kind_matches (classify_like p) s.
