(* Scalar expressions: one evaluator, parameterised by the boolean kernels, instantiated as the
   SQL reference semantics (Kleene) and as the engine's interpreter (NULL-strict arrow kernels).
   anchors: src/physical/operators/filter.rs: evaluate_expr_internal, evaluate_binary_op,
            evaluate_unary_op, evaluate_in_list, evaluate_case, Between lowering *)
From QV Require Export Sql.Value Sql.Like.

Inductive arith := AAdd | ASub | AMul.

Inductive expr :=
| ECol (i : nat)
| ELit (v : value)
| ECmp (op : cmpop) (a b : expr)
| EAnd (a b : expr)
| EOr (a b : expr)
| ENot (a : expr)
| EIsNull (a : expr)
| EIsNotNull (a : expr)
| EIn (a : expr) (l : list expr) (neg : bool)
| EBetween (a lo hi : expr) (neg : bool)
| ELike (a p : expr) (neg : bool)
| EArith (op : arith) (a b : expr)
| ENeg (a : expr)
| ECase (whens : list (expr * expr)) (els : option expr)
| ECoalesce (l : list expr).

Record sem := mkSem {
  s_and : tv -> tv -> tv;
  s_or : tv -> tv -> tv;
  s_like_lit : list Z -> list Z -> bool;   (* text, pattern: pattern is a literal *)
  s_like_dyn : list Z -> list Z -> bool    (* pattern computed per row *)
}.

Definition sql_sem : sem := mkSem and3 or3 (fun s p => like_spec p s) (fun s p => like_spec p s).
Definition eng_sem : sem := mkSem and_strict or_strict like_eng like_match.

Definition row := list value.

Definition arith_op (op : arith) (a b : value) : value :=
  match a, b with
  | VErr, _ | _, VErr => VErr
  | VNull, _ | _, VNull => VNull
  | VInt x, VInt y => VInt (match op with AAdd => x + y | ASub => x - y | AMul => x * y end)
  | _, _ =>
      let q v := match v with VInt z => Some (inject_Z z) | VDbl q => Some q | _ => None end in
      match q a, q b with
      | Some x, Some y => VDbl (Qred (match op with AAdd => x + y | ASub => x - y | AMul => x * y end)%Q)
      | _, _ => VErr
      end
  end.

Definition neg_op (a : value) : value :=
  match a with VInt x => VInt (- x) | VDbl q => VDbl (Qred (- q)%Q) | VNull => VNull | _ => VErr end.

Definition like_op (f : list Z -> list Z -> bool) (neg : bool) (a p : value) : value :=
  match a, p with
  | VErr, _ | _, VErr => VErr
  | VNull, _ | _, VNull => VNull
  | VStr s, VStr pat => VBool (xorb (f s pat) neg)
  | _, _ => VErr
  end.

Definition negate_if (neg : bool) (v : value) : value := if neg then lift1 not3 v else v.

Section Eval.
  Variable S : sem.
  Variable r : row.

  Fixpoint eval (e : expr) : value :=
    match e with
    | ECol i => nth i r VErr
    | ELit v => v
    | ECmp op a b => compare_op op (eval a) (eval b)
    | EAnd a b => lift2 (s_and S) (eval a) (eval b)
    | EOr a b => lift2 (s_or S) (eval a) (eval b)
    | ENot a => lift1 not3 (eval a)
    | EIsNull a => match eval a with VErr => VErr | v => VBool (is_null v) end
    | EIsNotNull a => match eval a with VErr => VErr | v => VBool (negb (is_null v)) end
    | EIn a l neg =>
        let va := eval a in
        negate_if neg
          (fold_left (fun acc x => lift2 (s_or S) acc (compare_op CEq va (eval x))) l (VBool false))
    | EBetween a lo hi neg =>
        let va := eval a in
        negate_if neg (lift2 (s_and S) (compare_op CGe va (eval lo)) (compare_op CLe va (eval hi)))
    | ELike a p neg =>
        let f := match p with ELit _ => s_like_lit S | _ => s_like_dyn S end in
        like_op f neg (eval a) (eval p)
    | EArith op a b => arith_op op (eval a) (eval b)
    | ENeg a => neg_op (eval a)
    | ECase whens els =>
        (fix go (ws : list (expr * expr)) : value :=
           match ws with
           | [] => match els with Some e' => eval e' | None => VNull end
           | (c, t) :: ws' =>
               match eval c with
               | VBool true => eval t
               | VBool false | VNull => go ws'
               | _ => VErr
               end
           end) whens
    | ECoalesce l =>
        (fix go (xs : list expr) : value :=
           match xs with
           | [] => VNull
           | x :: xs' => match eval x with VNull => go xs' | v => v end
           end) l
    end.
End Eval.

(* ---- the recorded deviation class: a NULL operand beside a dominating one ----
   Decided by the shape of the input (expression and row) under the SQL semantics. *)
Definition dom_pair (dominating : tv) (x y : value) : bool :=
  match tv_of x, tv_of y with
  | Some a, Some b =>
      match a, b with
      | U, d | d, U => match d, dominating with T, T | F, F => true | _, _ => false end
      | _, _ => false
      end
  | _, _ => false
  end.

Section Dominated.
  Variable r : row.
  Let ev := eval sql_sem r.

  Fixpoint dominated (e : expr) : bool :=
    match e with
    | ECol _ | ELit _ => false
    | ECmp _ a b | EArith _ a b => dominated a || dominated b
    | EAnd a b => dominated a || dominated b || dom_pair F (ev a) (ev b)
    | EOr a b => dominated a || dominated b || dom_pair T (ev a) (ev b)
    | ENot a | EIsNull a | EIsNotNull a | ENeg a => dominated a
    | EIn a l _ =>
        dominated a || existsb dominated l
        || (existsb (fun x => is_null (compare_op CEq (ev a) (ev x))) l
            && existsb (fun x => keeps (compare_op CEq (ev a) (ev x))) l)
    | EBetween a lo hi _ =>
        dominated a || dominated lo || dominated hi
        || dom_pair F (compare_op CGe (ev a) (ev lo)) (compare_op CLe (ev a) (ev hi))
    | ELike a p _ => dominated a || dominated p
    | ECase whens els =>
        existsb (fun ct => dominated (fst ct) || dominated (snd ct)) whens
        || match els with Some e' => dominated e' | None => false end
    | ECoalesce l => existsb dominated l
    end.
End Dominated.
