(* Whole-query agreement: the engine model (NULL-strict expression kernels, Semi/Anti-join set
   operations) returns the SAME relation as the SQL reference semantics for every query and every
   database outside the recorded classes (known_q). *)
From QV Require Import Sql.Query Sql.LikeProofs C02.Proofs C24.Proofs.

Lemma expr_agree r e : dominated r e = false -> eval eng_sem r e = eval sql_sem r e.
Proof. apply eng_agrees_outside_dominated; [exact classify_like_correct | exact like_match_correct]. Qed.

Lemma dom_false rows es :
  existsb (fun r => existsb (dominated r) es) rows = false -> forall r e, In r rows -> In e es -> dominated r e = false.
Proof.
  intros H r e Hr He.
  pose proof (existsb_false_forall _ _ H r Hr) as H1. exact (existsb_false_forall _ _ H1 e He).
Qed.

Lemma flat_map_ext_in {A B} (f g : A -> list B) l : (forall a, In a l -> f a = g a) -> flat_map f l = flat_map g l.
Proof.
  induction l as [|h t IH]; cbn [flat_map]; intros H; [reflexivity|].
  rewrite (H h) by now left. f_equal. apply IH. intros; apply H; now right.
Qed.

(* ---------- sorting depends on the comparator only through the elements ---------- *)
Lemma insert_ext_in {A} (le1 le2 : A -> A -> bool) a l :
  (forall b, In b l -> le1 a b = le2 a b) -> insert le1 a l = insert le2 a l.
Proof.
  induction l as [|h t IH]; cbn [insert]; intros H; [reflexivity|].
  rewrite (H h) by now left. destruct (le2 a h); [reflexivity|]. f_equal. apply IH. intros; apply H; now right.
Qed.

Lemma isort_ext_in {A} (le1 le2 : A -> A -> bool) l :
  (forall a b, In a l -> In b l -> le1 a b = le2 a b) -> isort le1 l = isort le2 l.
Proof.
  induction l as [|h t IH]; intros H; [reflexivity|].
  cbn [isort fold_right]. fold (isort le1 t) (isort le2 t).
  rewrite IH by (intros; apply H; now right).
  apply insert_ext_in. intros b Hb. apply H; [now left|].
  right. eapply Permutation_in; [apply isort_perm | exact Hb].
Qed.

(* ---------- operators depend on the expression semantics only through the rows they see ---------- *)
Section Ext.
  Variable db : list rel.

  Lemma filter_agree rows p :
    (forall r, In r rows -> dominated r p = false) ->
    filter (fun r => keeps (eval eng_sem r p)) rows = filter (fun r => keeps (eval sql_sem r p)) rows.
  Proof. intros H. apply filter_ext_in. intros r Hr. now rewrite expr_agree by auto. Qed.

  Lemma map_agree (es : list expr) r :
    (forall e, In e es -> dominated r e = false) -> map (eval eng_sem r) es = map (eval sql_sem r) es.
  Proof. intros H. apply map_ext_in. intros e He. now apply expr_agree, H. Qed.

  Lemma join_gen_ext jt wl wr (ok1 ok2 : row -> row -> bool) L R :
    (forall l r, In l L -> In r R -> ok1 l r = ok2 l r) -> join_gen jt wl wr ok1 L R = join_gen jt wl wr ok2 L R.
  Proof.
    intros H.
    assert (forall l, In l L -> filter (ok1 l) R = filter (ok2 l) R) as HF
      by (intros l Hl; apply filter_ext_in; intros r Hr; now apply H).
    assert (forall r, In r R -> filter (fun l => ok1 l r) L = filter (fun l => ok2 l r) L) as HG
      by (intros r Hr; apply filter_ext_in; intros l Hl; now apply H).
    assert (forall l, In l L -> existsb (ok1 l) R = existsb (ok2 l) R) as HE.
    { intros l Hl. clear HF HG. induction R as [|r R IH]; cbn; [reflexivity|].
      rewrite H by (auto; now left). f_equal. apply IH. intros; apply H; auto; now right. }
    assert (forall r, In r R -> existsb (fun l => ok1 l r) L = existsb (fun l => ok2 l r) L) as HE2.
    { intros r Hr. clear HF HG HE. induction L as [|l L IH]; cbn; [reflexivity|].
      rewrite H by (auto; now left). f_equal. apply IH. intros; apply H; auto; now right. }
    destruct jt; cbn [join_gen].
    - (* inner *) apply flat_map_ext_in. intros l Hl. now rewrite HF.
    - (* left *) apply flat_map_ext_in. intros l Hl. now rewrite HF.
    - (* right *) apply flat_map_ext_in. intros r Hr. now rewrite HG.
    - (* full *) f_equal.
      + apply flat_map_ext_in. intros l Hl. now rewrite HF.
      + f_equal. apply filter_ext_in. intros r Hr. now rewrite HE2.
    - (* semi *) apply filter_ext_in. intros l Hl. now apply HE.
    - (* anti *) apply filter_ext_in. intros l Hl. now rewrite HE.
    - reflexivity.
  Qed.

  Lemma group_rows_agree keys aggs rows :
    (forall r e, In r rows -> In e (keys ++ map snd aggs) -> dominated r e = false) ->
    group_rows eng_qsem keys aggs rows = group_rows sql_qsem keys aggs rows.
  Proof.
    intros H. unfold group_rows. cbn [q_esem eng_qsem sql_qsem].
    assert (forall r, In r rows -> map (eval eng_sem r) keys = map (eval sql_sem r) keys) as HK.
    { intros r Hr. apply map_agree. intros e He. apply H; auto. apply in_or_app. now left. }
    assert (forall members ks, (forall r, In r members -> In r rows) ->
              ks ++ map (fun fa => agg_apply (fst fa) (map (fun r => eval eng_sem r (snd fa)) members) (length members)) aggs
              = ks ++ map (fun fa => agg_apply (fst fa) (map (fun r => eval sql_sem r (snd fa)) members) (length members)) aggs) as HO.
    { intros members ks Hm. f_equal. apply map_ext_in. intros [f a] Hfa. cbn [fst snd]. f_equal.
      apply map_ext_in. intros r Hr. apply expr_agree, H; auto. apply in_or_app. right.
      change a with (snd (f, a)). now apply in_map. }
    destruct keys as [|k keys'] eqn:EK.
    - f_equal. apply HO. auto.
    - rewrite <- EK in *.
      assert (map (fun r => map (eval eng_sem r) keys) rows = map (fun r => map (eval sql_sem r) keys) rows) as EM
        by (apply map_ext_in; exact HK).
      rewrite EM. apply map_ext_in. intros ks _.
      assert (filter (fun r => row_same (map (eval eng_sem r) keys) ks) rows
              = filter (fun r => row_same (map (eval sql_sem r) keys) ks) rows) as EF
        by (apply filter_ext_in; intros r Hr; now rewrite HK).
      rewrite EF. apply HO. intros r Hr. apply filter_In in Hr. tauto.
  Qed.

  Lemma sort_rows_agree keys rows :
    (forall r e, In r rows -> In e (map k_expr keys) -> dominated r e = false) ->
    sort_rows eng_qsem keys rows = sort_rows sql_qsem keys rows.
  Proof.
    intros H. unfold sort_rows. cbn [q_esem eng_qsem sql_qsem].
    assert (forall r, In r rows -> map (fun k => eval eng_sem r (k_expr k)) keys = map (fun k => eval sql_sem r (k_expr k)) keys) as HK.
    { intros r Hr. apply map_ext_in. intros k Hk. apply expr_agree, H; auto. now apply in_map. }
    apply isort_ext_in. intros a b Ha Hb. now rewrite (HK a Ha), (HK b Hb).
  Qed.

  Theorem eng_query_agrees : forall q,
    known_q db q = false -> qeval eng_qsem db q = qeval sql_qsem db q.
  Proof.
    unfold known_q.
    induction q as [n w|w rows|q IH p|q IH es|jt l IHl r IHr on|q IH keys aggs|q IH|op all l IHl r IHr|q IH keys|q IH skip fetch];
      cbn [known_with qeval dom_on andb]; intros K;
      repeat match goal with H : _ || _ = false |- _ => apply orb_false_iff in H as [? ?] end.
    - reflexivity.
    - cbn [q_values_empty q_esem eng_qsem sql_qsem]. apply map_ext_in. intros es Hes. apply map_agree.
      intros e He. eapply dom_false; [exact K | now left |]. apply in_concat. eauto.
    - rewrite IH by assumption. apply filter_agree. intros r0 Hr.
      eapply dom_false; eauto. now left.
    - rewrite IH by assumption. apply map_ext_in. intros r0 Hr. apply map_agree. intros e He.
      eapply dom_false; eauto.
    - rewrite IHl, IHr by assumption. unfold join_rows. apply join_gen_ext. intros a b Ha Hb.
      cbn [q_esem eng_qsem sql_qsem]. rewrite expr_agree; [reflexivity|].
      match goal with H : existsb _ (qeval sql_qsem db l) = false |- _ =>
        let Hx := fresh "Hx" in
        pose proof (existsb_false_forall _ _ H a Ha) as Hx; exact (existsb_false_forall _ _ Hx b Hb) end.
    - rewrite IH by assumption. apply group_rows_agree. intros r0 e Hr He. eapply dom_false; eauto.
    - now rewrite IH.
    - rewrite IHl, IHr by assumption. cbn [q_setop eng_qsem sql_qsem].
      apply setop_agree; assumption.
    - rewrite IH by assumption. apply sort_rows_agree. intros r0 e Hr He. eapply dom_false; eauto.
    - now rewrite IH.
  Qed.
End Ext.

(* regression witness of the repaired VALUES defect: the old lowering returned no rows *)
Lemma values_empty_before_fix :
  let q := QValues 2 [[ELit (VInt 1); ELit (VInt 2)]; [ELit (VInt 3); ELit (VInt 4)]] in
  qeval eng_qsem_before_values_fix [] q = [] /\
  qeval eng_qsem [] q = [[VInt 1; VInt 2]; [VInt 3; VInt 4]] /\
  qeval sql_qsem [] q = [[VInt 1; VInt 2]; [VInt 3; VInt 4]].
Proof. vm_compute. auto. Qed.
