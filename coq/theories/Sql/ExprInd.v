(* Induction principle for expr with Forall over the nested lists. *)
From QV Require Import Sql.Expr.

Definition opt_holds (P : expr -> Prop) (o : option expr) : Prop :=
  match o with Some x => P x | None => True end.

Section ExprInd.
  Variable P : expr -> Prop.
  Hypothesis HCol : forall i, P (ECol i).
  Hypothesis HLit : forall v, P (ELit v).
  Hypothesis HCmp : forall op a b, P a -> P b -> P (ECmp op a b).
  Hypothesis HAnd : forall a b, P a -> P b -> P (EAnd a b).
  Hypothesis HOr : forall a b, P a -> P b -> P (EOr a b).
  Hypothesis HNot : forall a, P a -> P (ENot a).
  Hypothesis HIsNull : forall a, P a -> P (EIsNull a).
  Hypothesis HIsNotNull : forall a, P a -> P (EIsNotNull a).
  Hypothesis HIn : forall a l neg, P a -> Forall P l -> P (EIn a l neg).
  Hypothesis HBetween : forall a lo hi neg, P a -> P lo -> P hi -> P (EBetween a lo hi neg).
  Hypothesis HLike : forall a p neg, P a -> P p -> P (ELike a p neg).
  Hypothesis HArith : forall op a b, P a -> P b -> P (EArith op a b).
  Hypothesis HNeg : forall a, P a -> P (ENeg a).
  Hypothesis HCase : forall whens els,
      Forall (fun ct => P (fst ct) /\ P (snd ct)) whens ->
      opt_holds P els -> P (ECase whens els).
  Hypothesis HCoalesce : forall l, Forall P l -> P (ECoalesce l).

  Fixpoint expr_ind2 (e : expr) : P e :=
    match e with
    | ECol i => HCol i
    | ELit v => HLit v
    | ECmp op a b => HCmp op a b (expr_ind2 a) (expr_ind2 b)
    | EAnd a b => HAnd a b (expr_ind2 a) (expr_ind2 b)
    | EOr a b => HOr a b (expr_ind2 a) (expr_ind2 b)
    | ENot a => HNot a (expr_ind2 a)
    | EIsNull a => HIsNull a (expr_ind2 a)
    | EIsNotNull a => HIsNotNull a (expr_ind2 a)
    | EIn a l neg =>
        HIn a l neg (expr_ind2 a)
          ((fix go (l : list expr) : Forall P l :=
              match l with [] => Forall_nil _ | x :: xs => Forall_cons _ (expr_ind2 x) (go xs) end) l)
    | EBetween a lo hi neg => HBetween a lo hi neg (expr_ind2 a) (expr_ind2 lo) (expr_ind2 hi)
    | ELike a p neg => HLike a p neg (expr_ind2 a) (expr_ind2 p)
    | EArith op a b => HArith op a b (expr_ind2 a) (expr_ind2 b)
    | ENeg a => HNeg a (expr_ind2 a)
    | ECase whens els =>
        HCase whens els
          ((fix go (l : list (expr * expr)) : Forall (fun ct => P (fst ct) /\ P (snd ct)) l :=
              match l with
              | [] => Forall_nil _
              | (c, t) :: xs => Forall_cons (c, t) (conj (expr_ind2 c) (expr_ind2 t)) (go xs)
              end) whens)
          (match els as o return opt_holds P o with
           | Some e' => expr_ind2 e'
           | None => I
           end)
    | ECoalesce l =>
        HCoalesce l
          ((fix go (l : list expr) : Forall P l :=
              match l with [] => Forall_nil _ | x :: xs => Forall_cons _ (expr_ind2 x) (go xs) end) l)
    end.
End ExprInd.
