(* Subquery predicates over the relational language of Sql/Query.v: EXISTS / IN / scalar subqueries,
   correlated with the outer row by equality pairs, in WHERE (any boolean position) and in the SELECT
   list. One reference semantics (three-valued) and two engine models: the row-by-row executor
   (`Rowwise`: what the bound, unoptimised plan does, and what the optimised plan does for every
   subquery that is not a top-level WHERE conjunct) and the plan after SubqueryDecorrelation
   (`Decorr`: Semi / Anti / Left joins). The engine models take `qk : sclass -> bool`, "which of the
   recorded defects are present": `all_quirks` is the engine as it stands; switching one off gives the
   behaviour after the corresponding repair (see .work/fixes/c23-*.diff), so a repair is one edit of
   `eng_quirks` (five of them have landed: see there). No proofs here (C23/Proofs.v).
   anchors: src/physical/operators/subquery.rs
              execute_scalar (inspects batches[0] only), execute_in_subquery, execute_exists,
              evaluate_in_subquery (two-valued: NULL left => FALSE, NULL elements skipped),
              execute_correlated_scalar_subquery (errors become NULL; results_array_from_scalars takes the
              array type from the FIRST row's value: a NULL there turns the whole batch into a NullArray)
            src/optimizer/rules/subquery_decorrelation.rs
              try_decorrelate_filter (top-level AND conjuncts only), decorrelate_exists,
              decorrelate_in_subquery (keeps the subquery's projection; build_join_conditions silently
              skips a correlation whose inner column is not in it), decorrelate_scalar_subquery +
              ensure_grouped_by_correlation (Left join with the aggregate grouped by the correlation
              columns: no group => NULL, also for COUNT)
            src/optimizer/rules/flatten_dependent_join.rs  (rule body disabled: returns the plan unchanged)
            src/physical/planner.rs  precompute_uncorrelated_scalars (same executor, evaluated once) *)
From QV Require Export Sql.Query.

Definition is_nil {A} (l : list A) : bool := match l with [] => true | _ => false end.

(* correlation: outer column i = inner column j, for every pair *)
Definition corr := list (nat * nat).
Definition cell (i : nat) (r : row) : value := nth i r VErr.
Definition corr_ok (c : corr) (r s : row) : bool :=
  forallb (fun ij => keeps (compare_op CEq (cell (fst ij) r) (cell (snd ij) s))) c.

(* scalar subquery body: the single value of column vcol, or a global aggregate over the matching rows *)
Definition sagg := option (aggfn * expr).

Inductive spred :=
| SExists (neg : bool) (sub : query) (c : corr)                        (* [NOT] EXISTS (SELECT .. FROM sub WHERE corr) *)
| SIn (neg : bool) (e : expr) (sub : query) (vcol : nat) (c : corr)    (* e [NOT] IN (SELECT sub.vcol FROM sub WHERE corr) *)
| SScalar (agg : sagg) (sub : query) (vcol : nat) (c : corr)           (* (SELECT sub.vcol | agg FROM sub WHERE corr) as a value *)
| SCmp (op : cmpop) (e : expr) (agg : sagg) (sub : query) (vcol : nat) (c : corr).  (* e op (scalar subquery) *)

Inductive sbool :=
| BAtom (p : spred)
| BExpr (e : expr)
| BAnd (a b : sbool)
| BOr (a b : sbool)
| BNot (a : sbool).

(* SELECT items FROM outer WHERE w; an item is any sbool (BExpr e = ordinary expression,
   BAtom (SScalar ..) = scalar subquery in the SELECT list) *)
Inductive squery := SSelect (outer : query) (w : sbool) (items : list sbool).

Fixpoint conjuncts (b : sbool) : list sbool :=
  match b with BAnd x y => conjuncts x ++ conjuncts y | _ => [b] end.

(* the recorded defects (and `KBase`: the deviations of the base language, Sql/Query.v known_q / dominated) *)
Inductive sclass :=
| KInNull          (* IN is two-valued in the executor; NOT IN is an Anti join after decorrelation *)
| KInCorr          (* decorrelated IN drops a correlation on a column the subquery does not select *)
| KCountBug        (* decorrelated COUNT subquery: no group => NULL instead of 0 *)
| KAggDup          (* decorrelated aggregate subquery: the "semi-join reduction" is an Inner join with the outer
                      rows, so the aggregate counts every inner row once per outer row with the same key *)
| KScalarName      (* two decorrelated aggregate subqueries in one WHERE: both comparisons read the first
                      `__scalar_result` column *)
| KScalarBatches   (* scalar subquery: only the first record batch of the result is inspected *)
| KScalarMulti     (* correlated scalar subquery with several rows: NULL instead of an error *)
| KFirstNull       (* correlated scalar subquery: a NULL for the first row of a batch nulls the whole batch *)
| KUnsupported     (* not a defect: the executor cannot run a correlated IN, the statement fails *)
| KBase.

Definition all_quirks : sclass -> bool := fun _ => true.

(* x IN vals under three-valued logic *)
Definition in3 (x : value) (vals : list value) : tv :=
  if existsb (fun v => keeps (compare_op CEq x v)) vals then T
  else if existsb (fun v => is_null (compare_op CEq x v)) vals then U else F.
Definition in_sql (neg : bool) (x : value) (vals : list value) : value := negate_if neg (of_tv (in3 x vals)).

(* evaluate_in_subquery: NULL left side => FALSE (negated or not); NULL elements skipped; never NULL *)
Definition in2 (neg : bool) (x : value) (vals : list value) : value :=
  if is_null x then VBool false
  else VBool (xorb neg (existsb (fun v => keeps (compare_op CEq x v)) vals)).

Definition scalar_sql (agg : sagg) (vcol : nat) (M : rel) : value :=
  match agg with
  | Some (f, a) => agg_apply f (map (fun s => eval sql_sem s a) M) (length M)
  | None => match M with [] => VNull | [s] => cell vcol s | _ => VErr end
  end.

Definition is_count (f : aggfn) : bool :=
  match f with ACountStar | ACount | ACountDistinct => true | _ => false end.

Definition retained (vcol : nat) (c : corr) : corr := filter (fun ij => Nat.eqb (snd ij) vcol) c.
Definition all_retained (vcol : nat) (c : corr) : bool := forallb (fun ij => Nat.eqb (snd ij) vcol) c.

Inductive mode := Rowwise | Decorr.

Section Sem.
  Variable qk : sclass -> bool.
  (* every table as the list of its record batches (memory tables are scanned batch by batch) *)
  Variable B : list (list rel).
  Definition flat : list rel := map (@concat row) B.

  (* batch structure of a subquery result: scans and filters keep batch boundaries (empty batches included) *)
  Fixpoint qbatches (Q : qsem) (q : query) : list rel :=
    match q with
    | QTable n _ => nth n B []
    | QFilter q p => map (filter (fun r => keeps (eval (q_esem Q) r p))) (qbatches Q q)
    | _ => [qeval Q flat q]
    end.

  Definition sub_rows (Q : qsem) (sub : query) (c : corr) (r : row) : rel :=
    filter (corr_ok c r) (qeval Q flat sub).
  Definition sub_bat (Q : qsem) (sub : query) (c : corr) (r : row) : list rel :=
    map (filter (corr_ok c r)) (qbatches Q sub).

  (* ---------- reference: SQL three-valued semantics ---------- *)
  Definition atom_sql (r : row) (p : spred) : value :=
    match p with
    | SExists neg sub c => VBool (xorb neg (negb (is_nil (sub_rows sql_qsem sub c r))))
    | SIn neg e sub vcol c => in_sql neg (eval sql_sem r e) (map (cell vcol) (sub_rows sql_qsem sub c r))
    | SScalar agg sub vcol c => scalar_sql agg vcol (sub_rows sql_qsem sub c r)
    | SCmp op e agg sub vcol c =>
        compare_op op (eval sql_sem r e) (scalar_sql agg vcol (sub_rows sql_qsem sub c r))
    end.

  (* ---------- engine, row-by-row executor ---------- *)
  (* execute_scalar: no batch or an empty FIRST batch => NULL; otherwise the first batch must hold exactly one
     row (later batches are never looked at). The per-row (correlated) caller turns the error into NULL. *)
  Definition one_row (vcol : nat) (correlated : bool) (M : rel) : value :=
    match M with
    | [] => VNull
    | [s] => cell vcol s
    | _ => if correlated && qk KScalarMulti then VNull else VErr
    end.
  Definition scalar_eng (agg : sagg) (vcol : nat) (correlated : bool) (bs : list rel) : value :=
    match agg with
    | Some (f, a) => let M := concat bs in agg_apply f (map (fun s => eval eng_sem s a) M) (length M)
    | None => if qk KScalarBatches
              then match bs with [] => VNull | b0 :: _ => one_row vcol correlated b0 end
              else one_row vcol correlated (concat bs)
    end.
  Definition in_eng (neg : bool) (x : value) (vals : list value) : value :=
    if qk KInNull then in2 neg x vals else in_sql neg x vals.

  (* the scalar subquery's value for row r, evaluated in a batch whose first row is r0 *)
  Definition scalar_row (r0 r : row) (agg : sagg) (sub : query) (vcol : nat) (c : corr) : value :=
    let v x := scalar_eng agg vcol (negb (is_nil c)) (sub_bat eng_qsem sub c x) in
    if qk KFirstNull && negb (is_nil c) && is_null (v r0) then VNull else v r.

  Definition atom_row (r0 r : row) (p : spred) : value :=
    match p with
    | SExists neg sub c => VBool (xorb neg (negb (is_nil (sub_rows eng_qsem sub c r))))
    | SIn neg e sub vcol c =>
        (* the IN subquery is executed once, unsubstituted: a correlated one fails (Column not found) *)
        if is_nil c then in_eng neg (eval eng_sem r e) (map (cell vcol) (sub_rows eng_qsem sub c r)) else VErr
    | SScalar agg sub vcol c => scalar_row r0 r agg sub vcol c
    | SCmp op e agg sub vcol c => compare_op op (eval eng_sem r e) (scalar_row r0 r agg sub vcol c)
    end.

  Fixpoint sbool_val (S : sem) (aev : spred -> value) (r : row) (b : sbool) : value :=
    match b with
    | BAtom p => aev p
    | BExpr e => eval S r e
    | BAnd x y => lift2 (s_and S) (sbool_val S aev r x) (sbool_val S aev r y)
    | BOr x y => lift2 (s_or S) (sbool_val S aev r x) (sbool_val S aev r y)
    | BNot x => lift1 not3 (sbool_val S aev r x)
    end.

  Definition keep_sql (b : sbool) (r : row) : bool := keeps (sbool_val sql_sem (atom_sql r) r b).
  Definition keep_row (r0 : row) (b : sbool) (r : row) : bool := keeps (sbool_val eng_sem (atom_row r0 r) r b).

  Definition first_row (rows : rel) : row := hd [] rows.

  Definition sub_eval_sql (sq : squery) : rel :=
    match sq with
    | SSelect outer w items =>
        map (fun r => map (sbool_val sql_sem (atom_sql r) r) items) (filter (keep_sql w) (qeval sql_qsem flat outer))
    end.

  (* Project(Filter(Scan)): the filter sees the scan's batch, the projection the filter's output batch *)
  Definition sel_eng (items : list sbool) (rows : rel) : rel :=
    map (fun r => map (sbool_val eng_sem (atom_row (first_row rows) r) r) items) rows.

  Definition sub_eval_row (sq : squery) : rel :=
    match sq with
    | SSelect outer w items =>
        let rows := qeval eng_qsem flat outer in
        sel_eng items (filter (keep_row (first_row rows) w) rows)
    end.

  (* ---------- engine, after SubqueryDecorrelation (+ PredicatePushdown of the plain conjuncts) ----------
     Each top-level conjunct of WHERE that is a decorrelatable subquery predicate becomes a join on the
     current plan; plain predicates go into the scan; everything else stays one filter on top, evaluated by
     the row-by-row executor. *)
  Definition is_plain (b : sbool) : bool := match b with BExpr _ => true | _ => false end.
  Definition in_dec (neg : bool) (vcol : nat) (c : corr) : bool :=
    (qk KInNull || negb neg) && (qk KInCorr || all_retained vcol c).
  Definition is_dec (b : sbool) : bool :=
    match b with
    | BAtom (SExists _ _ (_ :: _)) => true
    | BAtom (SIn neg _ _ vcol c) => in_dec neg vcol c
    | BAtom (SCmp _ _ (Some (f, _)) _ _ (_ :: _)) => negb (is_count f) || qk KCountBug
    | _ => false
    end.

  Definition in_join_ok (e : expr) (vcol : nat) (c : corr) (r s : row) : bool :=
    corr_ok (retained vcol c) r s && keeps (compare_op CEq (eval eng_sem r e) (cell vcol s)).

  (* add_semi_join_reduction: when the outer plan is selective (a pushed-down filter, or a Semi/Anti join
     already applied), the aggregate's input is Inner-joined with the outer rows on the correlation columns *)
  Definition same_key (c : corr) (o r : row) : bool :=
    forallb (fun ij => keeps (compare_op CEq (cell (fst ij) o) (cell (fst ij) r))) c.
  Definition mult (sel : bool) (src : rel) (c : corr) (r : row) : nat :=
    if qk KAggDup && sel then length (filter (fun o => same_key c o r) src) else 1%nat.

  (* Left join with the aggregate grouped by its correlation columns, then `e op __scalar_result`:
     an outer row without a group sees NULL, whatever the aggregate *)
  Definition left_agg_value (k : nat) (f : aggfn) (a : expr) (sub : query) (c : corr) (r : row) : value :=
    let M := flat_map (fun s => repeat s k) (sub_rows eng_qsem sub c r) in
    if is_nil M then VNull else agg_apply f (map (fun s => eval eng_sem s a) M) (length M).

  (* the decorrelatable conjuncts in order: Semi/Anti joins filter the current plan at once; the comparison
     with a Left-joined aggregate is re-applied on top, but its reduction source is the plan at that point *)
  Fixpoint dec_run (sel : bool) (first : option (row -> value)) (src : rel) (ds : list sbool) : rel :=
    match ds with
    | [] => src
    | b :: ds' =>
        match b with
        | BAtom (SExists neg sub c) =>
            dec_run true first
              (join_gen (if neg then JAnti else JSemi) 0 0 (corr_ok c) src (qeval eng_qsem flat sub)) ds'
        | BAtom (SIn neg e sub vcol c) =>
            dec_run true first
              (join_gen (if neg then JAnti else JSemi) 0 0 (in_join_ok e vcol c) src (qeval eng_qsem flat sub)) ds'
        | BAtom (SCmp op e (Some (f, a)) sub vcol c) =>
            let own r := left_agg_value (mult sel src c r) f a sub c r in
            (* every Left join names its value column `__scalar_result`; by-name lookup finds the first *)
            let fst_col := match first with Some g => g | None => own end in
            let seen := if qk KScalarName then fst_col else own in
            filter (fun r => keeps (compare_op op (eval eng_sem r e) (seen r))) (dec_run sel (Some fst_col) src ds')
        | _ => dec_run sel first src ds'
        end
    end.

  Definition dec_joined (w : sbool) (rows : rel) : rel :=
    let cs := conjuncts w in
    let pushed := filter (fun r => forallb (fun b => keep_row r b r) (filter is_plain cs)) rows in
    dec_run (negb (is_nil (filter is_plain cs))) None pushed (filter is_dec cs).

  Definition where_dec (w : sbool) (rows : rel) : rel :=
    let joined := dec_joined w rows in
    let rest := filter (fun b => negb (is_plain b) && negb (is_dec b)) (conjuncts w) in
    filter (fun r => forallb (fun b => keep_row (first_row joined) b r) rest) joined.

  Definition sub_eval_dec (sq : squery) : rel :=
    match sq with
    | SSelect outer w items => sel_eng items (where_dec w (qeval eng_qsem flat outer))
    end.

  Definition sub_eval_eng (m : mode) : squery -> rel :=
    match m with Rowwise => sub_eval_row | Decorr => sub_eval_dec end.

  (* statement-level run-time errors (a scalar subquery with more than one row, an unsupported correlated IN):
     some conjunct or item evaluates to the error value on a row that reaches it (used by the check only) *)
  Definition errs_on (S : sem) (aevf : row -> spred -> value) (bs : list sbool) (rows : rel) : bool :=
    existsb (fun r => existsb (fun b => is_err (sbool_val S (aevf r) r b)) bs) rows.
  Definition sub_err_sql (sq : squery) : bool :=
    match sq with
    | SSelect outer w items =>
        let all := qeval sql_qsem flat outer in
        errs_on sql_sem atom_sql (conjuncts w) all || errs_on sql_sem atom_sql items (filter (keep_sql w) all)
    end.
  (* ... and no evaluation order can avoid it: on some row one conjunct is an error and every other one TRUE
     (or an item of a kept row is an error) *)
  Definition sub_must_err_sql (sq : squery) : bool :=
    match sq with
    | SSelect outer w items =>
        let all := qeval sql_qsem flat outer in
        let v r b := sbool_val sql_sem (atom_sql r) r b in
        existsb (fun r => existsb (fun b => is_err (v r b)) (conjuncts w)
                          && forallb (fun b => is_err (v r b) || keeps (v r b)) (conjuncts w)) all
        || errs_on sql_sem atom_sql items (filter (keep_sql w) all)
    end.
  Definition sub_err_eng (m : mode) (sq : squery) : bool :=
    match sq with
    | SSelect outer w items =>
        let all := qeval eng_qsem flat outer in
        match m with
        | Rowwise =>
            let kept := filter (keep_row (first_row all) w) all in
            errs_on eng_sem (atom_row (first_row all)) (conjuncts w) all
            || errs_on eng_sem (atom_row (first_row kept)) items kept
        | Decorr =>
            let joined := dec_joined w all in
            let kept := where_dec w all in
            errs_on eng_sem (atom_row (first_row joined))
              (filter (fun b => negb (is_plain b) && negb (is_dec b)) (conjuncts w)) joined
            || errs_on eng_sem (atom_row (first_row kept)) items kept
        end
    end.
End Sem.

(* the engine as it stands: edit here when a repair lands. Repaired by `fix:` commits in /repo (see
   known_findings.txt): KScalarBatches f98ce77, KFirstNull e6c913b, KScalarName cc87732, KInCorr f4d2f1f (the
   statement now fails in the executor instead of answering without the correlation), KCountBug 590d760 (COUNT
   comparisons are no longer decorrelated). Still present, recorded as known findings: KInNull, KAggDup,
   KScalarMulti. `eng_quirks_before_fix` keeps the old engine expressible: the regression theorems of
   C23/Proofs.v are stated against it. *)
Definition eng_quirks_before_fix : sclass -> bool := all_quirks.
Definition eng_quirks : sclass -> bool :=
  fun c => match c with KInNull | KAggDup | KScalarMulti | KUnsupported | KBase => true | _ => false end.

(* ---------- deviation classes, decided by the shape of the input ---------- *)
Definition tv_is_u (t : tv) : bool := match t with U => true | _ => false end.
Definition tv_is_f (t : tv) : bool := match t with F => true | _ => false end.

Section Known.
  Variable qk : sclass -> bool.       (* the defects present: decides which conjuncts get decorrelated *)
  Variable on : sclass -> bool.       (* which classes count *)
  Variable B : list (list rel).
  Let db := flat B.

  Definition sub_known (sub : query) : bool := on KBase && known_q db sub.
  Definition sub_vals (sub : query) (vcol : nat) (c : corr) (r : row) : list value :=
    map (cell vcol) (sub_rows B sql_qsem sub c r).

  (* the executor's IN in a value position: it differs from the three-valued one exactly when the answer
     is NULL, or the left side is NULL under NOT IN *)
  Definition in_null_val (neg : bool) (x : value) (vals : list value) : bool :=
    tv_is_u (in3 x vals) || (neg && is_null x).
  (* ... and as a top-level conjunct (only TRUE matters) *)
  Definition in_null_top (neg : bool) (x : value) (vals : list value) : bool :=
    neg && ((negb (is_null x) && tv_is_u (in3 x vals)) || (is_null x && tv_is_f (in3 x vals))).

  Definition scalar_ref (rows : rel) (agg : sagg) (sub : query) (vcol : nat) (c : corr) : list value :=
    map (fun r => scalar_sql agg vcol (sub_rows B sql_qsem sub c r)) rows.

  (* `rows`: the outer rows (every batch the executor evaluates is a sub-list of them) *)
  Definition scalar_dev (rows : rel) (agg : sagg) (sub : query) (vcol : nat) (c : corr) (r : row) : bool :=
    (on KFirstNull && negb (is_nil c)
     && existsb is_null (scalar_ref rows agg sub vcol c)
     && existsb (fun v => negb (is_null v)) (scalar_ref rows agg sub vcol c))
    || match agg with
       | Some (f, a) => on KBase && existsb (fun s => dominated s a) (sub_rows B sql_qsem sub c r)
       | None => (on KScalarBatches && Nat.ltb 1 (length (qbatches B sql_qsem sub)))
                 || (on KScalarMulti && negb (is_nil c) && Nat.ltb 1 (length (sub_rows B sql_qsem sub c r)))
       end.

  Definition atom_dev (rows : rel) (r : row) (p : spred) : bool :=
    match p with
    | SExists _ sub _ => sub_known sub
    | SIn neg e sub vcol c =>
        sub_known sub || (on KBase && dominated r e) || (on KUnsupported && negb (is_nil c))
        || (on KInNull && in_null_val neg (eval sql_sem r e) (sub_vals sub vcol c r))
    | SScalar agg sub vcol c => sub_known sub || scalar_dev rows agg sub vcol c r
    | SCmp op e agg sub vcol c => sub_known sub || (on KBase && dominated r e) || scalar_dev rows agg sub vcol c r
    end.

  Fixpoint known_val (rows : rel) (r : row) (b : sbool) : bool :=
    match b with
    | BAtom p => atom_dev rows r p
    | BExpr e => on KBase && dominated r e
    | BAnd x y => known_val rows r x || known_val rows r y
                  || (on KBase && dom_pair F (sbool_val sql_sem (atom_sql B r) r x) (sbool_val sql_sem (atom_sql B r) r y))
    | BOr x y => known_val rows r x || known_val rows r y
                 || (on KBase && dom_pair T (sbool_val sql_sem (atom_sql B r) r x) (sbool_val sql_sem (atom_sql B r) r y))
    | BNot x => known_val rows r x
    end.

  (* a top-level WHERE conjunct: only TRUE matters, and the decorrelated plan treats IN / correlated
     aggregate comparisons differently from the executor *)
  Definition known_conj (m : mode) (rows : rel) (r : row) (b : sbool) : bool :=
    match b with
    | BAtom (SIn neg e sub vcol c) =>
        let x := eval sql_sem r e in
        let vals := sub_vals sub vcol c r in
        sub_known sub || (on KBase && dominated r e)
        || (if match m with Decorr => in_dec qk neg vcol c | Rowwise => false end
            then (* a Semi / Anti join on the retained correlations *)
              (on KInCorr && negb (all_retained vcol c)) || (on KInNull && neg && tv_is_u (in3 x vals))
            else (* the executor *)
              (on KUnsupported && negb (is_nil c)) || (on KInNull && in_null_top neg x vals))
    | BAtom (SCmp op e (Some (f, a)) sub vcol ((_ :: _) as c)) =>
        known_val rows r b
        || match m with
           | Rowwise => false
           | Decorr => (on KCountBug && is_count f && is_nil (sub_rows B sql_qsem sub c r)
                        && keeps (compare_op op (eval sql_sem r e) (VInt 0)))
                       || (on KAggDup && Nat.ltb 1 (length (filter (fun o => same_key c o r) rows)))
           end
    | _ => known_val rows r b
    end.

  Definition is_agg_cmp (b : sbool) : bool :=
    match b with BAtom (SCmp _ _ (Some _) _ _ _) => true | _ => false end.

  Definition known_sub_with (m : mode) (sq : squery) : bool :=
    match sq with
    | SSelect outer w items =>
        let rows := qeval sql_qsem db outer in
        (on KBase && known_q db outer)
        || match m with
           | Decorr => on KScalarName && Nat.ltb 1 (length (filter is_agg_cmp (filter (is_dec qk) (conjuncts w))))
           | Rowwise => false
           end
        || existsb (fun r => existsb (known_conj m rows r) (conjuncts w) || existsb (known_val rows r) items) rows
    end.
End Known.

(* KBase and KUnsupported always count; the other classes only where the defect is present *)
Definition with_base (qk : sclass -> bool) : sclass -> bool :=
  fun c => match c with KBase | KUnsupported => true | _ => qk c end.
Definition known_sub (qk : sclass -> bool) : list (list rel) -> mode -> squery -> bool :=
  known_sub_with qk (with_base qk).
Definition sonly (c d : sclass) : bool :=
  match c, d with
  | KInNull, KInNull | KInCorr, KInCorr | KCountBug, KCountBug | KAggDup, KAggDup | KScalarName, KScalarName | KScalarBatches, KScalarBatches
  | KScalarMulti, KScalarMulti | KFirstNull, KFirstNull | KUnsupported, KUnsupported | KBase, KBase => true
  | _, _ => false
  end.
Definition sclasses : list sclass :=
  [KInNull; KInCorr; KCountBug; KAggDup; KScalarName; KScalarBatches; KScalarMulti; KFirstNull; KUnsupported; KBase].
(* which classes an input falls in, in the order of `sclasses` *)
Definition sub_known_bits (qk : sclass -> bool) (B : list (list rel)) (m : mode) (sq : squery) : list bool :=
  map (fun c => known_sub_with qk (fun d => sonly c d && with_base qk d) B m sq) sclasses.
