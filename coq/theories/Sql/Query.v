(* Relational queries: one definitional evaluator (nested-loop joins, explicit grouping, multiset
   set operations), parameterised by the places where the engine's lowering differs from the
   standard, instantiated as the SQL reference semantics and as the engine model.
   anchors: src/planner/binder.rs (bind_set_expr: INTERSECT/EXCEPT -> Semi/Anti join + Distinct; VALUES),
            src/physical/planner.rs (Values lowering), operators hash_join / hash_agg / sort / limit *)
From QV Require Export Sql.Expr.

Definition rel := list row.

Inductive jointype := JInner | JLeft | JRight | JFull | JSemi | JAnti | JCross.
Inductive aggfn := ACountStar | ACount | ASum | AAvg | AMin | AMax | ACountDistinct.
Inductive setop := SUnion | SIntersect | SExcept.
Record sortkey := mkKey { k_expr : expr; k_desc : bool; k_nulls_first : bool }.

Inductive query :=
| QTable (n : nat) (w : nat)
| QValues (w : nat) (rows : list (list expr))
| QFilter (q : query) (p : expr)
| QProject (q : query) (es : list expr)
| QJoin (jt : jointype) (l r : query) (on : expr)
| QAgg (q : query) (keys : list expr) (aggs : list (aggfn * expr))
| QDistinct (q : query)
| QSetOp (op : setop) (all : bool) (l r : query)
| QSort (q : query) (keys : list sortkey)
| QLimit (q : query) (skip : nat) (fetch : option nat).

Fixpoint width (q : query) : nat :=
  match q with
  | QTable _ w | QValues w _ => w
  | QFilter q _ | QDistinct q | QSort q _ | QLimit q _ _ => width q
  | QProject _ es => length es
  | QJoin jt l r _ => match jt with JSemi | JAnti => width l | _ => width l + width r end
  | QAgg _ keys aggs => length keys + length aggs
  | QSetOp _ _ l _ => width l
  end.

(* ---------- rows as values: "not distinct" equality ---------- *)
Fixpoint row_same (a b : row) : bool :=
  match a, b with
  | [], [] => true
  | x :: a', y :: b' => value_same x y && row_same a' b'
  | _, _ => false
  end.
(* column-wise `=` under 3VL: TRUE only if every pair is non-NULL and equal (what an equi-join sees) *)
Fixpoint row_eq_strict (a b : row) : bool :=
  match a, b with
  | [], [] => true
  | x :: a', y :: b' => keeps (compare_op CEq x y) && row_eq_strict a' b'
  | _, _ => false
  end.

Definition mem_by (eq : row -> row -> bool) (x : row) (l : rel) : bool := existsb (eq x) l.

Fixpoint distinct_by (eq : row -> row -> bool) (l : rel) : rel :=
  match l with
  | [] => []
  | x :: t => x :: filter (fun y => negb (eq x y)) (distinct_by eq t)
  end.
Definition distinct := distinct_by row_same.

Fixpoint remove_one (eq : row -> row -> bool) (x : row) (l : rel) : option rel :=
  match l with
  | [] => None
  | y :: t => if eq x y then Some t
              else match remove_one eq x t with Some t' => Some (y :: t') | None => None end
  end.

(* INTERSECT ALL: multiplicity min(m,n); EXCEPT ALL: max(m-n,0) *)
Fixpoint intersect_all (l r : rel) : rel :=
  match l with
  | [] => []
  | x :: t => match remove_one row_same x r with
              | Some r' => x :: intersect_all t r'
              | None => intersect_all t r
              end
  end.
Fixpoint except_all (l r : rel) : rel :=
  match l with
  | [] => []
  | x :: t => match remove_one row_same x r with
              | Some r' => except_all t r'
              | None => x :: except_all t r
              end
  end.

Definition sql_setop (op : setop) (all : bool) (L R : rel) : rel :=
  match op, all with
  | SUnion, true => L ++ R
  | SUnion, false => distinct (L ++ R)
  | SIntersect, true => intersect_all L R
  | SIntersect, false => distinct (filter (fun x => mem_by row_same x R) L)
  | SExcept, true => except_all L R
  | SExcept, false => distinct (filter (fun x => negb (mem_by row_same x R)) L)
  end.

(* the engine: Semi / Anti join on all columns with `=`, plus Distinct unless ALL *)
Definition eng_setop (op : setop) (all : bool) (L R : rel) : rel :=
  match op with
  | SUnion => if all then L ++ R else distinct (L ++ R)
  | SIntersect => let s := filter (fun x => mem_by row_eq_strict x R) L in if all then s else distinct s
  | SExcept => let s := filter (fun x => negb (mem_by row_eq_strict x R)) L in if all then s else distinct s
  end.

Record qsem := mkQSem { q_esem : sem; q_values_empty : bool; q_setop : setop -> bool -> rel -> rel -> rel }.
Definition sql_qsem := mkQSem sql_sem false sql_setop.
(* VALUES: the physical planner used to lower every VALUES node to an empty relation; repaired by
   the `fix:` commit recorded in known_findings.txt. `eng_qsem_before_values_fix` keeps the old
   behaviour expressible so the regression witness stays a theorem (C44). *)
Definition eng_qsem := mkQSem eng_sem false eng_setop.
Definition eng_qsem_before_values_fix := mkQSem eng_sem true eng_setop.

(* ---------- aggregates ---------- *)
Definition non_null (vs : list value) : list value := filter (fun v => negb (is_null v)) vs.

Definition to_q (v : value) : option Q :=
  match v with VInt z => Some (inject_Z z) | VDbl q => Some q | _ => None end.

Definition sum_values (vs : list value) : value :=
  match vs with
  | [] => VNull
  | _ =>
      if forallb (fun v => match v with VInt _ => true | _ => false end) vs
      then VInt (fold_left (fun a v => match v with VInt z => a + z | _ => a end) vs 0)
      else match fold_left (fun a v => match a, to_q v with Some x, Some y => Some (x + y)%Q | _, _ => None end) vs (Some 0%Q)
           with Some q => VDbl (Qred q) | None => VErr end
  end.

Definition avg_values (vs : list value) : value :=
  match vs with
  | [] => VNull
  | _ => match fold_left (fun a v => match a, to_q v with Some x, Some y => Some (x + y)%Q | _, _ => None end) vs (Some 0%Q)
         with Some q => VDbl (Qred (q / inject_Z (Z.of_nat (length vs)))%Q) | None => VErr end
  end.

Definition best_value (want : comparison) (vs : list value) : value :=
  match vs with
  | [] => VNull
  | v :: t => fold_left (fun a x => match cmp_values x a with
                                    | Some c => if match c, want with Lt, Lt | Gt, Gt => true | _, _ => false end then x else a
                                    | None => VErr end) t v
  end.

Fixpoint distinct_values (vs : list value) : list value :=
  match vs with
  | [] => []
  | v :: t => v :: filter (fun y => negb (value_same v y)) (distinct_values t)
  end.

Definition agg_apply (f : aggfn) (args : list value) (nrows : nat) : value :=
  let nn := non_null args in
  match f with
  | ACountStar => VInt (Z.of_nat nrows)
  | ACount => VInt (Z.of_nat (length nn))
  | ASum => sum_values nn
  | AAvg => avg_values nn
  | AMin => best_value Lt nn
  | AMax => best_value Gt nn
  | ACountDistinct => VInt (Z.of_nat (length (distinct_values nn)))
  end.

(* ---------- ordering ---------- *)
(* value order for sorting: NULL placement by flag, then typed comparison (errors compare Eq) *)
Definition sort_cmp (desc nulls_first : bool) (a b : value) : comparison :=
  match a, b with
  | VNull, VNull => Eq
  | VNull, _ => if nulls_first then Lt else Gt
  | _, VNull => if nulls_first then Gt else Lt
  | _, _ => match cmp_values a b with
            | Some c => if desc then CompOpp c else c
            | None => Eq end
  end.

Fixpoint keys_cmp (ks : list (bool * bool)) (a b : list value) : comparison :=
  match ks, a, b with
  | (d, nf) :: ks', x :: a', y :: b' => match sort_cmp d nf x y with Eq => keys_cmp ks' a' b' | c => c end
  | _, _, _ => Eq
  end.

Definition nulls (n : nat) : row := repeat VNull n.

(* nested-loop join over an arbitrary pair predicate *)
Definition join_gen (jt : jointype) (wl wr : nat) (ok : row -> row -> bool) (L R : rel) : rel :=
  match jt with
  | JCross => flat_map (fun l => map (fun r => l ++ r) R) L
  | JInner => flat_map (fun l => map (fun r => l ++ r) (filter (ok l) R)) L
  | JLeft => flat_map (fun l => match filter (ok l) R with
                                | [] => [l ++ nulls wr]
                                | ms => map (fun r => l ++ r) ms end) L
  | JRight => flat_map (fun r => match filter (fun l => ok l r) L with
                                 | [] => [nulls wl ++ r]
                                 | ms => map (fun l => l ++ r) ms end) R
  | JFull => flat_map (fun l => match filter (ok l) R with
                                | [] => [l ++ nulls wr]
                                | ms => map (fun r => l ++ r) ms end) L
             ++ map (fun r => nulls wl ++ r) (filter (fun r => negb (existsb (fun l => ok l r) L)) R)
  | JSemi => filter (fun l => existsb (ok l) R) L
  | JAnti => filter (fun l => negb (existsb (ok l) R)) L
  end.

Section QEval.
  Variable Q : qsem.
  Variable db : list rel.
  Let S := q_esem Q.

  Definition join_rows (jt : jointype) (wl wr : nat) (on : expr) (L R : rel) : rel :=
    join_gen jt wl wr (fun l r => keeps (eval S (l ++ r) on)) L R.

  Definition group_rows (keys : list expr) (aggs : list (aggfn * expr)) (rows : rel) : rel :=
    let kv r := map (eval S r) keys in
    let out ks members :=
      ks ++ map (fun fa => agg_apply (fst fa) (map (fun r => eval S r (snd fa)) members) (length members)) aggs in
    match keys with
    | [] => [out [] rows]                                   (* global aggregate: always one row *)
    | _ => map (fun ks => out ks (filter (fun r => row_same (kv r) ks) rows)) (distinct (map kv rows))
    end.

  Definition sort_rows (keys : list sortkey) (rows : rel) : rel :=
    let flags := map (fun k => (k_desc k, k_nulls_first k)) keys in
    let kv r := map (fun k => eval S r (k_expr k)) keys in
    isort (fun a b => match keys_cmp flags (kv a) (kv b) with Gt => false | _ => true end) rows.

  Fixpoint qeval (q : query) : rel :=
    match q with
    | QTable n _ => nth n db []
    | QValues _ rows => if q_values_empty Q then [] else map (fun es => map (eval S []) es) rows
    | QFilter q p => filter (fun r => keeps (eval S r p)) (qeval q)
    | QProject q es => map (fun r => map (eval S r) es) (qeval q)
    | QJoin jt l r on => join_rows jt (width l) (width r) on (qeval l) (qeval r)
    | QAgg q keys aggs => group_rows keys aggs (qeval q)
    | QDistinct q => distinct (qeval q)
    | QSetOp op all l r => q_setop Q op all (qeval l) (qeval r)
    | QSort q keys => sort_rows keys (qeval q)
    | QLimit q skip fetch =>
        let t := skipn skip (qeval q) in
        match fetch with Some n => firstn n t | None => t end
    end.
End QEval.

(* ---------- recorded deviation classes, decided by the input's shape ---------- *)
Definition has_null (r : row) : bool := existsb is_null r.
Fixpoint has_dups (l : rel) : bool :=
  match l with [] => false | x :: t => mem_by row_same x t || has_dups t end.

(* INTERSECT/EXCEPT via Semi/Anti join: wrong when a left row with a NULL has a not-distinct twin on the
   right (the `=` of the join never matches it) *)
Definition setop_null_class (op : setop) (L R : rel) : bool :=
  match op with
  | SUnion => false
  | _ => existsb (fun x => has_null x && mem_by row_same x R) L
  end.
(* ... and wrong multiplicities for the ALL forms as soon as the semi/anti join sees a row whose count matters *)
Definition setop_all_class (op : setop) (all : bool) (L R : rel) : bool :=
  match op with
  | SUnion => false
  | _ => all && existsb (fun x => mem_by row_same x R) L
  end.

Inductive kclass := KDominated | KValues | KSetNull | KSetAll.

Section Known.
  Variable on_class : kclass -> bool.   (* which recorded classes are counted *)
  Variable db : list rel.
  Let ev := qeval sql_qsem db.

  (* some predicate / projection / key expression is `dominated` on a row that reaches it *)
  Definition dom_on (rows : rel) (es : list expr) : bool :=
    on_class KDominated && existsb (fun r => existsb (dominated r) es) rows.

  Fixpoint known_with (q : query) : bool :=
    match q with
    | QTable _ _ => false
    | QValues _ rows => dom_on [[]] (concat rows)   (* class KValues itself is closed: fixed in the engine *)
    | QFilter q p => known_with q || dom_on (ev q) [p]
    | QProject q es => known_with q || dom_on (ev q) es
    | QJoin jt l r on =>
        known_with l || known_with r
        || (on_class KDominated && existsb (fun a => existsb (fun b => dominated (a ++ b) on) (ev r)) (ev l))
    | QAgg q keys aggs => known_with q || dom_on (ev q) (keys ++ map snd aggs)
    | QDistinct q => known_with q
    | QSetOp op all l r =>
        known_with l || known_with r
        || (on_class KSetNull && setop_null_class op (ev l) (ev r))
        || (on_class KSetAll && setop_all_class op all (ev l) (ev r))
    | QSort q keys => known_with q || dom_on (ev q) (map k_expr keys)
    | QLimit q _ _ => known_with q
    end.
End Known.

Definition known_q : list rel -> query -> bool := known_with (fun _ => true).
Definition only (c : kclass) (d : kclass) : bool :=
  match c, d with
  | KDominated, KDominated | KValues, KValues | KSetNull, KSetNull | KSetAll, KSetAll => true
  | _, _ => false
  end.
(* which classes an input falls in: [dominated; values; set-null; set-all] *)
Definition known_bits (db : list rel) (q : query) : list bool :=
  map (fun c => known_with (only c) db q) [KDominated; KValues; KSetNull; KSetAll].
