(* SQL LIKE: the engine's greedy single-star-backtracking matcher and its classify_like fast paths
   agree with the textbook recursive specification.
   anchors: src/physical/operators/filter.rs: like_match, classify_like, LikeKind::matches *)
From QV Require Import Sql.Like.

(* ---------- unfolding lemmas for the specification ---------- *)
Lemma spec_pct_nil p : like_spec (PCT :: p) [] = like_spec p [].
Proof. change (like_spec (PCT :: p) []) with (like_spec p [] || false). apply orb_false_r. Qed.

Lemma spec_pct_cons p x s :
  like_spec (PCT :: p) (x :: s) = like_spec p (x :: s) || like_spec (PCT :: p) s.
Proof. reflexivity. Qed.

Lemma spec_cons_nil c p : (c =? PCT) = false -> like_spec (c :: p) [] = false.
Proof. intros H. cbn [like_spec]. rewrite H. reflexivity. Qed.

Lemma spec_cons_cons c p x s :
  (c =? PCT) = false ->
  like_spec (c :: p) (x :: s) = ((c =? UND) || (c =? x)) && like_spec p s.
Proof. intros H. cbn [like_spec]. rewrite H. reflexivity. Qed.

Lemma all_pct_cons c p : all_pct (c :: p) = (c =? PCT) && all_pct p.
Proof. reflexivity. Qed.

Lemma spec_empty p : like_spec p [] = all_pct p.
Proof.
  induction p as [|c p IH]; [reflexivity|].
  rewrite all_pct_cons. destruct (c =? PCT) eqn:E.
  - apply Z.eqb_eq in E. subst c. rewrite spec_pct_nil, IH. reflexivity.
  - rewrite (spec_cons_nil c p E). reflexivity.
Qed.

(* `%` :: p matches s iff p matches some suffix of s *)
Lemma star_iff p s :
  like_spec (PCT :: p) s = true <-> exists a u, s = a ++ u /\ like_spec p u = true.
Proof.
  induction s as [|x s IH].
  - rewrite spec_pct_nil. split.
    + intros H. exists [], []. auto.
    + intros (a & u & Ha & Hu). destruct a; [|discriminate]. cbn [app] in Ha. subst u. exact Hu.
  - rewrite spec_pct_cons, orb_true_iff, IH. split.
    + intros [H | (a & u & -> & Hu)].
      * exists [], (x :: s). auto.
      * exists (x :: a), u. auto.
    + intros (a & u & Ha & Hu). destruct a as [|y a]; cbn [app] in Ha.
      * subst u. left. exact Hu.
      * injection Ha as -> ->. right. exists a, u. auto.
Qed.

Lemma spec_pct_all s : like_spec [PCT] s = true.
Proof. apply star_iff. exists s, []. rewrite app_nil_r. auto. Qed.

(* proper suffix *)
Definition psuffix (u s : list Z) : Prop := exists x a, s = x :: a ++ u.

Lemma psuffix_cons y v x s : psuffix (y :: v) (x :: s) -> psuffix v s.
Proof.
  intros (x0 & a & H). injection H as -> ->.
  destruct a as [|z a]; cbn [app].
  - exists y, []. reflexivity.
  - exists z, (a ++ [y]). rewrite <- app_assoc. reflexivity.
Qed.

Lemma star_mono p v s :
  psuffix v s -> like_spec (PCT :: p) v = true -> like_spec (PCT :: p) s = true.
Proof.
  intros (x & a & ->) H. apply star_iff in H as (b & u & -> & Hu).
  apply star_iff. exists (x :: a ++ b), u. split; [|exact Hu].
  cbn [app]. rewrite <- app_assoc. reflexivity.
Qed.

(* ---------- unfolding lemmas for the loop ---------- *)
Definition backtrack (f : nat) (star : option (list Z * list Z)) : bool :=
  match star with
  | Some (sp, _ :: st') => like_loop f st' sp (Some (sp, st'))
  | _ => false
  end.

Lemma loop_nil f p star : like_loop (S f) [] p star = all_pct p.
Proof. reflexivity. Qed.

Lemma loop_pnil f tc t' star : like_loop (S f) (tc :: t') [] star = backtrack f star.
Proof. destruct star as [[sp [|x st']]|]; reflexivity. Qed.

Lemma loop_pct f tc t' p' star :
  like_loop (S f) (tc :: t') (PCT :: p') star = like_loop f (tc :: t') p' (Some (p', tc :: t')).
Proof. reflexivity. Qed.

Lemma loop_cons f tc t' c p' star :
  (c =? PCT) = false ->
  like_loop (S f) (tc :: t') (c :: p') star =
  if (c =? UND) || (c =? tc) then like_loop f t' p' star else backtrack f star.
Proof.
  intros H. cbn [like_loop]. rewrite H.
  destruct (c =? UND), (c =? tc); cbn [orb]; try reflexivity;
    destruct star as [[sp [|x st']]|]; reflexivity.
Qed.

(* ---------- loop invariant, termination measure, correctness ---------- *)
(* the alternative still available through the remembered star: let it swallow one more char *)
Definition alt (star : option (list Z * list Z)) : bool :=
  match star with
  | Some (sp, _ :: st') => like_spec (PCT :: sp) st'
  | _ => false
  end.

(* greedy completeness invariant: every later restart of the remembered star that could succeed
   leaves a witness strictly inside the current text for the current pattern tail *)
Definition inv (t p : list Z) (star : option (list Z * list Z)) : Prop :=
  match star with
  | None => True
  | Some (sp, st) =>
      (length t <= length st)%nat /\ (length p <= length sp)%nat /\
      forall u, psuffix u st -> like_spec sp u = true ->
                exists v, psuffix v t /\ like_spec p v = true
  end.

Definition mu (t p : list Z) (star : option (list Z * list Z)) : nat :=
  match star with
  | None => ((length t + 1) * (length p + 2) + length p + 1)%nat
  | Some (sp, st) => (length st * (length sp + 2) + length p + 1)%nat
  end.

Lemma alt_true star :
  alt star = true ->
  exists sp st u, star = Some (sp, st) /\ psuffix u st /\ like_spec sp u = true.
Proof.
  destruct star as [[sp [|x st']]|]; cbn [alt]; try discriminate.
  intros H. apply star_iff in H as (a & u & -> & Hm).
  exists sp, (x :: a ++ u), u. split; [reflexivity|]. split; [|exact Hm].
  exists x, a. reflexivity.
Qed.

Lemma loop_correct : forall fuel t p star,
  inv t p star -> (mu t p star <= fuel)%nat ->
  like_loop fuel t p star = like_spec p t || alt star.
Proof.
  induction fuel as [|f IH]; intros t p star Hinv Hmu.
  { exfalso. unfold mu in Hmu. destruct star as [[sp st]|]; lia. }
  assert (HB : backtrack f star = alt star).
  { destruct star as [[sp [|x st']]|]; cbn [backtrack alt]; try reflexivity.
    rewrite IH.
    - cbn [alt]. destruct st' as [|y st''].
      + rewrite spec_pct_nil, orb_false_r. reflexivity.
      + rewrite spec_pct_cons. reflexivity.
    - cbn [inv]. split; [lia|]. split; [lia|]. intros u Hu Hm. exists u. auto.
    - cbn [mu length] in Hmu |- *. nia. }
  destruct t as [|tc t'].
  { rewrite loop_nil, <- spec_empty.
    assert (HA : alt star = false).
    { destruct (alt star) eqn:EA; [|reflexivity]. exfalso.
      apply alt_true in EA as (sp & st & u & -> & Hu & Hm).
      destruct Hinv as (_ & _ & Hi).
      destruct (Hi u Hu Hm) as (v & (x & a & Hv) & _). discriminate. }
    rewrite HA, orb_false_r. reflexivity. }
  destruct p as [|c p'].
  { rewrite loop_pnil, HB. reflexivity. }
  destruct (c =? PCT) eqn:EP.
  { apply Z.eqb_eq in EP. subst c. rewrite loop_pct, IH.
    - cbn [alt]. rewrite <- spec_pct_cons.
      destruct (alt star) eqn:EA; [|rewrite orb_false_r; reflexivity].
      rewrite orb_true_r.
      apply alt_true in EA as (sp & st & u & -> & Hu & Hm).
      destruct Hinv as (_ & _ & Hi).
      destruct (Hi u Hu Hm) as (v & Hv & Hmv).
      eapply star_mono; eauto.
    - cbn [inv]. split; [lia|]. split; [lia|]. intros u Hu Hm. exists u. auto.
    - destruct star as [[sp st]|]; cbn [mu inv length] in *.
      + destruct Hinv as (H1 & H2 & _).
        assert (S (length t') * (length p' + 2) <= length st * (length sp + 2))%nat
          by (apply Nat.mul_le_mono; lia).
        lia.
      + nia. }
  rewrite (loop_cons f tc t' c p' star EP), (spec_cons_cons c p' tc t' EP).
  destruct ((c =? UND) || (c =? tc)) eqn:EM; cbn [andb].
  { rewrite IH; [reflexivity| |].
    - destruct star as [[sp st]|]; cbn [inv] in *; [|exact I].
      destruct Hinv as (H1 & H2 & Hi). cbn [length] in *.
      split; [lia|]. split; [lia|].
      intros u Hu Hm. destruct (Hi u Hu Hm) as (v & Hv & Hmv).
      destruct v as [|y v'].
      + rewrite (spec_cons_nil c p' EP) in Hmv. discriminate.
      + rewrite (spec_cons_cons c p' y v' EP) in Hmv.
        apply andb_true_iff in Hmv as [_ Hmv].
        exists v'. split; [eapply psuffix_cons; eauto | exact Hmv].
    - destruct star as [[sp st]|]; cbn [mu length] in *; nia. }
  { rewrite HB. reflexivity. }
Qed.

Lemma like_fuel_suffices s p : (mu s p None <= like_fuel s p)%nat.
Proof.
  unfold mu, like_fuel.
  generalize (length s) as a, (length p) as b. intros a b. nia.
Qed.

(* 1. the engine's general matcher is exactly the specification *)
Theorem like_match_correct : forall s p, like_match s p = like_spec p s.
Proof.
  intros s p. unfold like_match.
  rewrite loop_correct; [cbn [alt]; apply orb_false_r | exact I | apply like_fuel_suffices].
Qed.

(* ---------- 2. starts_with / ends_with / contains ---------- *)
Lemma starts_with_nil t : starts_with t [] = true.
Proof. destruct t; reflexivity. Qed.

Theorem starts_with_iff : forall pre t, starts_with t pre = true <-> exists r, t = pre ++ r.
Proof.
  induction pre as [|c pre IH]; intros t.
  - rewrite starts_with_nil. split; [|reflexivity]. intros _. exists t. reflexivity.
  - destruct t as [|x t].
    + split; [discriminate|]. intros (r & H). discriminate.
    + change (starts_with (x :: t) (c :: pre)) with ((c =? x) && starts_with t pre).
      rewrite andb_true_iff, Z.eqb_eq, IH. split.
      * intros (-> & r & ->). exists r. reflexivity.
      * intros (r & H). cbn [app] in H. injection H as -> ->. split; eauto.
Qed.

Theorem ends_with_iff : forall suf t, ends_with t suf = true <-> exists r, t = r ++ suf.
Proof.
  intros suf t. unfold ends_with. rewrite starts_with_iff. split.
  - intros (r & H). exists (rev r). apply (f_equal (@rev Z)) in H.
    rewrite rev_involutive, rev_app_distr, rev_involutive in H. exact H.
  - intros (r & ->). exists (rev r). apply rev_app_distr.
Qed.

Theorem contains_iff : forall m t, contains t m = true <-> exists a b, t = a ++ m ++ b.
Proof.
  intros m. induction t as [|x t IH].
  - cbn [contains]. rewrite orb_false_r, starts_with_iff. split.
    + intros (r & H). exists [], r. exact H.
    + intros (a & b & H). destruct a; [|discriminate]. exists b. exact H.
  - cbn [contains]. rewrite orb_true_iff, starts_with_iff, IH. split.
    + intros [(r & H) | (a & b & H)].
      * exists [], r. exact H.
      * exists (x :: a), b. rewrite H. reflexivity.
    + intros (a & b & H). destruct a as [|y a]; cbn [app] in H.
      * left. exists b. exact H.
      * right. injection H as -> ->. exists a, b. reflexivity.
Qed.

(* ---------- 3. classify_like fast paths ---------- *)
Lemma count_pct_cons c p :
  count_pct (c :: p) = if c =? PCT then S (count_pct p) else count_pct p.
Proof. unfold count_pct. cbn [filter]. destruct (c =? PCT); reflexivity. Qed.

Lemma count_pct_app a b : count_pct (a ++ b) = (count_pct a + count_pct b)%nat.
Proof. unfold count_pct. rewrite filter_app, app_length. reflexivity. Qed.

(* wildcard-free literal *)
Definition plain (q : list Z) : Prop :=
  existsb (fun c => c =? UND) q = false /\ count_pct q = 0%nat.

Lemma plain_cons_inv c q :
  plain (c :: q) -> (c =? UND) = false /\ (c =? PCT) = false /\ plain q.
Proof.
  unfold plain. cbn [existsb]. rewrite count_pct_cons. intros [H1 H2].
  apply orb_false_iff in H1 as [H1a H1b].
  destruct (c =? PCT); [discriminate|]. auto.
Qed.

Lemma plain_app_spec q : plain q -> forall r s,
  like_spec (q ++ r) s = true <-> exists b, s = q ++ b /\ like_spec r b = true.
Proof.
  induction q as [|c q IH]; intros Hp r s.
  - cbn [app]. split.
    + intros H. exists s. auto.
    + intros (b & -> & H). exact H.
  - apply plain_cons_inv in Hp as (HU & HP & Hq). cbn [app].
    destruct s as [|x s'].
    + rewrite (spec_cons_nil c (q ++ r) HP). split; [discriminate|].
      intros (b & Hb & _). discriminate.
    + rewrite (spec_cons_cons c (q ++ r) x s' HP), HU. cbn [orb].
      rewrite andb_true_iff, Z.eqb_eq, (IH Hq). split.
      * intros (-> & b & -> & H). exists b. auto.
      * intros (b & Hb & H). injection Hb as -> ->. split; eauto.
Qed.

Lemma plain_spec q s : plain q -> like_spec q s = true <-> s = q.
Proof.
  intros Hq. rewrite <- (app_nil_r q) at 1. rewrite (plain_app_spec q Hq). split.
  - intros (b & -> & H). destruct b; [apply app_nil_r | discriminate].
  - intros ->. exists []. rewrite app_nil_r. auto.
Qed.

Lemma suffix_like q s : plain q ->
  like_spec (PCT :: q) s = true <-> exists r, s = r ++ q.
Proof.
  intros Hq. rewrite star_iff. split.
  - intros (a & u & -> & H). apply (plain_spec q u Hq) in H. subst u. eauto.
  - intros (r & ->). exists r, q. split; [reflexivity|]. apply plain_spec; auto.
Qed.

Lemma prefix_like q s : plain q ->
  like_spec (q ++ [PCT]) s = true <-> exists r, s = q ++ r.
Proof.
  intros Hq. rewrite (plain_app_spec q Hq). split.
  - intros (b & H & _). eauto.
  - intros (r & H). exists r. split; [exact H | apply spec_pct_all].
Qed.

Lemma contains_like m s : plain m ->
  like_spec (PCT :: m ++ [PCT]) s = true <-> exists a b, s = a ++ m ++ b.
Proof.
  intros Hm. rewrite star_iff. split.
  - intros (a & u & -> & H). apply (prefix_like m u Hm) in H as (b & ->). eauto.
  - intros (a & b & ->). exists a, (m ++ b). split; [reflexivity|].
    apply prefix_like; eauto.
Qed.

Lemma count_pct_single : count_pct [PCT] = 1%nat.
Proof. reflexivity. Qed.

Theorem classify_like_correct : forall s p, like_eng s p = like_spec p s.
Proof.
  intros s p. unfold like_eng, classify_like.
  destruct (existsb (fun c => c =? UND) p) eqn:EU.
  { cbn [kind_matches]. apply like_match_correct. }
  destruct (count_pct p) as [|[|[|n]]] eqn:EC.
  - (* no wildcard: equality *)
    cbn [kind_matches]. apply eq_iff_eq_true. unfold zlist_eqb.
    rewrite (list_eqb_spec Z.eqb Z.eqb_eq). symmetry. apply plain_spec. split; assumption.
  - (* one % *)
    destruct p as [|c rest]; [cbn [kind_matches]; apply like_match_correct|].
    destruct (c =? PCT) eqn:E1.
    + (* %x *)
      apply Z.eqb_eq in E1. subst c. cbn [kind_matches].
      assert (Hq : plain rest).
      { split.
        - cbn [existsb] in EU. apply orb_false_iff in EU as [_ EU]. exact EU.
        - rewrite count_pct_cons in EC. change (PCT =? PCT) with true in EC. cbv iota in EC. lia. }
      apply eq_iff_eq_true. rewrite ends_with_iff. symmetry. apply suffix_like. exact Hq.
    + destruct (last (c :: rest) 0 =? PCT) eqn:E2;
        [|cbn [kind_matches]; apply like_match_correct].
      (* x% *)
      apply Z.eqb_eq in E2. cbn [kind_matches].
      assert (HL : c :: rest = removelast (c :: rest) ++ [last (c :: rest) 0])
        by (apply app_removelast_last; discriminate).
      rewrite E2 in HL. remember (removelast (c :: rest)) as q eqn:Heqq. clear Heqq.
      rewrite HL in EU, EC |- *.
      assert (Hq : plain q).
      { split.
        - rewrite existsb_app in EU. apply orb_false_iff in EU as [EU _]. exact EU.
        - rewrite count_pct_app, count_pct_single in EC. lia. }
      apply eq_iff_eq_true. rewrite starts_with_iff. symmetry. apply prefix_like. exact Hq.
  - (* two % *)
    destruct p as [|c rest]; [cbn [kind_matches]; apply like_match_correct|].
    destruct ((c =? PCT) && (last (c :: rest) 0 =? PCT)) eqn:E;
      [|cbn [kind_matches]; apply like_match_correct].
    apply andb_true_iff in E as [E1 E2]. apply Z.eqb_eq in E1. subst c.
    destruct rest as [|d rest'].
    { exfalso. rewrite count_pct_single in EC. discriminate. }
    change (last (PCT :: d :: rest') 0) with (last (d :: rest') 0) in E2.
    apply Z.eqb_eq in E2.
    assert (HL : d :: rest' = removelast (d :: rest') ++ [last (d :: rest') 0])
      by (apply app_removelast_last; discriminate).
    rewrite E2 in HL. remember (removelast (d :: rest')) as m eqn:Heqm. clear Heqm.
    rewrite HL in EU, EC |- *.
    assert (Hm : plain m).
    { split.
      - cbn [existsb] in EU. apply orb_false_iff in EU as [_ EU].
        rewrite existsb_app in EU. apply orb_false_iff in EU as [EU _]. exact EU.
      - rewrite count_pct_cons in EC. change (PCT =? PCT) with true in EC. cbv iota in EC.
        rewrite count_pct_app, count_pct_single in EC. lia. }
    destruct (Nat.eqb (length (PCT :: m ++ [PCT])) 2) eqn:EL; cbn [kind_matches].
    + (* %% *)
      symmetry. apply (contains_like m s Hm).
      apply Nat.eqb_eq in EL. cbn [length] in EL. rewrite app_length in EL. cbn [length] in EL.
      destruct m as [|z m]; [|cbn [length] in EL; lia].
      exists [], s. reflexivity.
    + (* %x% *)
      apply eq_iff_eq_true. rewrite contains_iff. symmetry. apply contains_like. exact Hm.
  - cbn [kind_matches]. apply like_match_correct.
Qed.

(* ---------- 4. sanity examples ---------- *)
(* s = "aXbXc", p = "%X%c": needs a restart from the last star *)
Example ex_backtrack : like_match [97;88;98;88;99] [37;88;37;99] = true.
Proof. vm_compute. reflexivity. Qed.
Example ex_backtrack_spec : like_spec [37;88;37;99] [97;88;98;88;99] = true.
Proof. vm_compute. reflexivity. Qed.
(* s = "aXbXd", p = "%X%c" *)
Example ex_backtrack_neg : like_match [97;88;98;88;100] [37;88;37;99] = false.
Proof. vm_compute. reflexivity. Qed.
(* s = "abababc", p = "%ab%abc%": three stars, the middle segment must slide *)
Example ex_three_stars : like_match [97;98;97;98;97;98;99] [37;97;98;37;97;98;99;37] = true.
Proof. vm_compute. reflexivity. Qed.
(* s = "aab", p = "a%ab_" : too short *)
Example ex_short : like_match [97;97;98] [97;37;97;98;95] = false.
Proof. vm_compute. reflexivity. Qed.
(* s = U+65E5 U+672C U+8A9E, p = "_" U+672C "%" ; `_` consumes one code point, not one byte *)
Example ex_und_nonascii : like_eng [26085;26412;35486] [95;26412;37] = true.
Proof. vm_compute. reflexivity. Qed.
Example ex_und_nonascii2 : like_eng [26085;26412;35486] [95;95;95] = true.
Proof. vm_compute. reflexivity. Qed.
Example ex_und_nonascii3 : like_eng [26085;26412;35486] [95;95] = false.
Proof. vm_compute. reflexivity. Qed.
(* U+1F600 then "x": p = "%_x" *)
Example ex_und_astral : like_match [128512;120] [37;95;120] = true.
Proof. vm_compute. reflexivity. Qed.
(* fast paths: "%", "%%", "%bc", "ab%", "%b%", "abc" on s = "abc" *)
Example ex_fast :
  map (like_eng [97;98;99]) [[37]; [37;37]; [37;98;99]; [97;98;37]; [37;98;37]; [97;98;99]; [37;97]; [98;37]; [37;120;37]]
  = [true; true; true; true; true; true; false; false; false].
Proof. vm_compute. reflexivity. Qed.
Example ex_classify :
  (classify_like [37], classify_like [37;37], classify_like [97;37;98], classify_like [37;97;37;37])
  = (LSuffix [], LAll, LGeneral [97;37;98], LGeneral [37;97;37;37]).
Proof. vm_compute. reflexivity. Qed.

Print Assumptions like_match_correct.
Print Assumptions classify_like_correct.
