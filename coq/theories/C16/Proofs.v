From QV Require Import Bytes.ByteStr C16.Model.

(* ---------- list helpers ---------- *)
Lemma firstn_app_exact {A} (l r : list A) : firstn (length l) (l ++ r) = l.
Proof. induction l as [|x l IH]; cbn; [now destruct r|now rewrite IH]. Qed.
Lemma skipn_app_plus {A} (l r : list A) k : skipn (length l + k) (l ++ r) = skipn k r.
Proof. induction l as [|x l IH]; cbn; auto. Qed.
Lemma firstn_app_ge {A} (a b : list A) k : (length a <= k)%nat -> firstn k (a ++ b) = a ++ firstn (k - length a) b.
Proof. intros H. rewrite firstn_app. now rewrite firstn_all2 by assumption. Qed.
Lemma nosep_lacks c l : forallb (fun x => negb (Z.eqb c x)) l = lacks c l.
Proof. unfold lacks. induction l as [|x l IH]; auto. cbn [forallb]. now rewrite IH, Z.eqb_sym. Qed.
Lemma lacks_app c a b : lacks c (a ++ b) = lacks c a && lacks c b.
Proof. apply forallb_app. Qed.
Lemma no_ws_lacks c l : is_ws c = true -> no_ws l = true -> lacks c l = true.
Proof.
  intros Hc. unfold no_ws, lacks. induction l as [|x l IH]; auto. cbn [forallb]. intros H.
  apply andb_true_iff in H as [Hx Hl]. rewrite IH by assumption. rewrite andb_true_r.
  apply negb_true_iff, Z.eqb_neq. intros ->. rewrite Hc in Hx. discriminate.
Qed.
Lemma digits_ascii l : forallb is_digit l = true -> ascii l = true.
Proof.
  unfold ascii. induction l as [|x l IH]; auto. cbn [forallb]. intros H. apply andb_true_iff in H as [Hx Hl].
  rewrite IH by assumption. destruct (is_digit_props x Hx) as (_ & _ & _ & _ & R).
  rewrite andb_true_r. apply andb_true_iff; split; [apply Z.leb_le|apply Z.ltb_lt]; lia.
Qed.
Lemma list_eqb_Z_eq a b : list_eqb Z.eqb a b = true -> a = b.
Proof. apply (list_eqb_spec Z.eqb). intros; apply Z.eqb_eq. Qed.
Lemma list_eqb_Z_refl a : list_eqb Z.eqb a a = true.
Proof. apply (list_eqb_spec Z.eqb); auto. intros; apply Z.eqb_eq. Qed.

(* ---------- locating the header terminator ---------- *)
Lemma find_sub_cons p x l : find_sub p (x :: l) = if is_prefix p (x :: l) then Some 0%nat else option_map S (find_sub p l).
Proof. reflexivity. Qed.

Lemma find_term_skip line rest : lacks 13 line = true ->
  find_sub TERM (line ++ rest) = option_map (fun n => (length line + n)%nat) (find_sub TERM rest).
Proof.
  induction line as [|x line IH]; cbn [app length lacks forallb]; intros H.
  - destruct (find_sub TERM rest); reflexivity.
  - apply andb_true_iff in H as [Hx Hl]. apply negb_true_iff in Hx.
    rewrite find_sub_cons. unfold TERM at 1. cbn [is_prefix]. rewrite (Z.eqb_sym 13 x), Hx. cbn [andb].
    rewrite (IH Hl). destruct (find_sub TERM rest); reflexivity.
Qed.
Lemma find_term_crlf x rest : x <> 13 ->
  find_sub TERM (13 :: 10 :: x :: rest) = option_map (fun n => (2 + n)%nat) (find_sub TERM (x :: rest)).
Proof.
  intros Hx. rewrite (find_sub_cons TERM 13). unfold TERM at 1. cbn [is_prefix].
  rewrite !Z.eqb_refl. cbn [andb]. rewrite (proj2 (Z.eqb_neq 13 x)) by congruence. cbn [andb].
  rewrite (find_sub_cons TERM 10). replace (is_prefix TERM (10 :: x :: rest)) with false by reflexivity.
  destruct (find_sub TERM (x :: rest)); reflexivity.
Qed.

Definition crlf_lines (Ls : list (list Z)) : list Z := concat (map (fun l => 13 :: 10 :: l) Ls).
Definition line_ok (l : list Z) : Prop := lacks 13 l = true /\ lacks 10 l = true /\ l <> [].

Lemma find_term_head Ls : forall L0 rest, lacks 13 L0 = true -> Forall line_ok Ls ->
  find_sub TERM ((L0 ++ crlf_lines Ls) ++ TERM ++ rest) = Some (length (L0 ++ crlf_lines Ls)).
Proof.
  induction Ls as [|l Ls IH]; intros L0 rest H0 HF.
  - unfold crlf_lines. cbn [map concat]. rewrite app_nil_r. rewrite find_term_skip by assumption.
    replace (find_sub TERM (TERM ++ rest)) with (Some 0%nat) by reflexivity. cbn [option_map]. f_equal. lia.
  - inversion HF as [|? ? (Hl13 & Hl10 & Hne) HF']; subst.
    change (crlf_lines (l :: Ls)) with (13 :: 10 :: l ++ crlf_lines Ls).
    rewrite <- app_assoc. rewrite find_term_skip by assumption.
    destruct l as [|x l']; [congruence|].
    assert (Hx : x <> 13).
    { cbn [lacks forallb] in Hl13. apply andb_true_iff in Hl13 as [Hx _]. apply negb_true_iff, Z.eqb_neq in Hx. exact Hx. }
    change ((13 :: 10 :: (x :: l') ++ crlf_lines Ls) ++ TERM ++ rest)
      with (13 :: 10 :: x :: ((l' ++ crlf_lines Ls) ++ TERM ++ rest)).
    rewrite find_term_crlf by assumption.
    change (x :: (l' ++ crlf_lines Ls) ++ TERM ++ rest) with (((x :: l') ++ crlf_lines Ls) ++ TERM ++ rest).
    rewrite IH by assumption. cbn [option_map]. f_equal. rewrite !app_length. cbn [length]. rewrite !app_length. cbn [length]. lia.
Qed.

(* ---------- head.split(b'\n') ---------- *)
Fixpoint lines_of (L0 : list Z) (Ls : list (list Z)) : list (list Z) :=
  match Ls with
  | [] => [L0]
  | l :: Ls' => (L0 ++ [13]) :: lines_of l Ls'
  end.
Lemma split_lines Ls : forall L0, lacks 10 L0 = true -> Forall line_ok Ls ->
  split_on 10 (L0 ++ crlf_lines Ls) = lines_of L0 Ls.
Proof.
  induction Ls as [|l Ls IH]; intros L0 H0 HF.
  - unfold crlf_lines. cbn [map concat lines_of]. rewrite app_nil_r. unfold split_on. apply split_by_none.
    now rewrite nosep_lacks.
  - inversion HF as [|? ? (Hl13 & Hl10 & Hne) HF']; subst.
    change (crlf_lines (l :: Ls)) with (13 :: 10 :: l ++ crlf_lines Ls).
    replace (L0 ++ 13 :: 10 :: l ++ crlf_lines Ls) with ((L0 ++ [13]) ++ 10 :: (l ++ crlf_lines Ls))
      by (now rewrite <- app_assoc).
    unfold split_on. rewrite split_by_app.
    + cbn [lines_of]. f_equal. apply IH; assumption.
    + rewrite nosep_lacks, lacks_app, H0. reflexivity.
    + reflexivity.
Qed.

(* ---------- the status line ---------- *)
Lemma split_ws_two V D tail : V <> [] -> no_ws V = true -> D <> [] -> no_ws D = true ->
  nth_error (split_ws (V ++ 32 :: D ++ 32 :: tail)) 1 = Some D.
Proof.
  intros HV NV HD ND. unfold split_ws.
  rewrite split_by_app by (auto; reflexivity). rewrite split_by_app by (auto; reflexivity).
  destruct V; [congruence|]. destruct D; [congruence|]. reflexivity.
Qed.

(* ---------- header lines ---------- *)
Lemma header_ok_props k v : header_ok (k, v) = true ->
  k <> [] /\ ascii k = true /\ no_ws k = true /\ lacks 58 k = true /\
  ascii v = true /\ lacks 10 v = true /\ lacks 13 v = true /\ trim v = v.
Proof.
  unfold header_ok. intros H. repeat (apply andb_true_iff in H as [H ?]).
  repeat split; auto using list_eqb_Z_eq. destruct k; [discriminate|discriminate].
Qed.

Lemma header_of_line_ok kv w13 : header_ok kv = true -> all_ws w13 = true -> ascii w13 = true ->
  header_of_line (header_line kv ++ w13) = Some (map to_lower (fst kv), snd kv).
Proof.
  destruct kv as [k v]. intros H Hw Ha. destruct (header_ok_props k v H) as (Hne & Ak & Wk & Ck & Av & _ & _ & Tv).
  unfold header_of_line, header_line. cbn [fst snd].
  rewrite from_utf8_lossy_ascii.
  2:{ change (58 :: 32 :: v) with ([58; 32] ++ v). rewrite !ascii_app, Ak, Av, Ha. reflexivity. }
  rewrite <- app_assoc. cbn [app]. rewrite split_once_app by assumption.
  rewrite trim_nonws by assumption.
  change (32 :: v ++ w13) with ([32] ++ v ++ w13). rewrite trim_pad by (auto; reflexivity). now rewrite Tv.
Qed.

Lemma header_line_ok kv : header_ok kv = true -> line_ok (header_line kv).
Proof.
  destruct kv as [k v]. intros H. destruct (header_ok_props k v H) as (Hne & Ak & Wk & Ck & Av & L10 & L13 & Tv).
  unfold line_ok, header_line. cbn [fst snd]. repeat split.
  - rewrite lacks_app. rewrite (no_ws_lacks 13 k) by (auto; reflexivity). cbn [lacks forallb]. now fold (lacks 13 v); rewrite L13.
  - rewrite lacks_app. rewrite (no_ws_lacks 10 k) by (auto; reflexivity). cbn [lacks forallb]. now fold (lacks 10 v); rewrite L10.
  - destruct k; [congruence|discriminate].
Qed.

Lemma filter_map_lines {I B} (h : I -> list Z) (f : list Z -> option B) (g : I -> B) : forall items i0,
  (forall i, In i (i0 :: items) -> f (h i) = Some (g i) /\ f (h i ++ [13]) = Some (g i)) ->
  filter_map f (lines_of (h i0) (map h items)) = map g (i0 :: items).
Proof.
  induction items as [|i' items IH]; intros i0 H.
  - cbn [map lines_of filter_map]. destruct (H i0 (or_introl eq_refl)) as [E _]. now rewrite E.
  - cbn [map lines_of filter_map]. destruct (H i0 (or_introl eq_refl)) as [_ E]. rewrite E.
    f_equal. apply IH. intros x Hx. apply H. now right.
Qed.

(* ---------- syntactic well-formedness, unpacked ---------- *)
Lemma wf_syntax_props w : wf_syntax w = true ->
  w_version w <> [] /\ ascii (w_version w) = true /\ no_ws (w_version w) = true /\
  0 <= w_status w < U16 /\ ascii (w_reason w) = true /\ lacks 10 (w_reason w) = true /\ lacks 13 (w_reason w) = true /\
  forallb header_ok (w_headers w) = true.
Proof.
  unfold wf_syntax. intros H. repeat (apply andb_true_iff in H as [H ?]).
  repeat split; auto; try (apply Z.leb_le; assumption); try (apply Z.ltb_lt; assumption).
  destruct (w_version w); [discriminate|discriminate].
Qed.

Lemma dec_status_props st : 0 <= st < U16 ->
  dec st <> [] /\ forallb is_digit (dec st) = true /\ parse_uint U16 (dec st) = Some st.
Proof.
  intros H. assert (R : 0 <= st < 2 ^ 64) by (unfold U16 in H; change (2 ^ 64) with 18446744073709551616; lia).
  destruct (dec_spec st R) as (V & D & NE). repeat split; auto.
  rewrite parse_uint_digits; auto; rewrite V; auto; lia.
Qed.


Lemma status_line_lacks w c : wf_syntax w = true -> (c = 10 \/ c = 13) -> lacks c (status_line w) = true.
Proof.
  intros H Hc. destruct (wf_syntax_props w H) as (_ & _ & Wv & Hst & _ & R10 & R13 & _).
  destruct (dec_status_props _ Hst) as (_ & D & _).
  assert (Wc : is_ws c = true) by (destruct Hc; subst; reflexivity).
  assert (Rc : lacks c (w_reason w) = true) by (destruct Hc; subst; assumption).
  unfold status_line.
  change (w_version w ++ 32 :: dec (w_status w) ++ 32 :: w_reason w)
    with (w_version w ++ [32] ++ dec (w_status w) ++ [32] ++ w_reason w).
  rewrite !lacks_app, (no_ws_lacks c _ Wc Wv), (no_ws_lacks c _ Wc (digits_no_ws _ D)), Rc.
  destruct Hc; subst; reflexivity.
Qed.
Lemma status_line_ascii w : wf_syntax w = true -> ascii (status_line w) = true.
Proof.
  intros H. destruct (wf_syntax_props w H) as (_ & Av & _ & Hst & Ar & _).
  destruct (dec_status_props _ Hst) as (_ & D & _). unfold status_line.
  change (w_version w ++ 32 :: dec (w_status w) ++ 32 :: w_reason w)
    with (w_version w ++ [32] ++ dec (w_status w) ++ [32] ++ w_reason w).
  rewrite !ascii_app, Av, (digits_ascii _ D), Ar. reflexivity.
Qed.

Lemma header_lines_ok w : wf_syntax w = true -> Forall line_ok (map header_line (w_headers w)).
Proof.
  intros H. destruct (wf_syntax_props w H) as (_ & _ & _ & _ & _ & _ & _ & HH). rewrite forallb_forall in HH.
  apply Forall_forall. intros l Hl. apply in_map_iff in Hl as (kv & <- & Hin). apply header_line_ok. auto.
Qed.
Lemma render_head_eq w : render_head w = status_line w ++ crlf_lines (map header_line (w_headers w)).
Proof. unfold render_head, crlf_lines. now rewrite map_map. Qed.

Lemma find_term_render w : wf_syntax w = true -> find_sub TERM (render w) = Some (length (render_head w)).
Proof.
  intros H. unfold render. rewrite render_head_eq.
  apply find_term_head; [apply status_line_lacks; auto|apply header_lines_ok; auto].
Qed.

Lemma parsed_headers w L0 : wf_syntax w = true ->
  filter_map header_of_line (tl (lines_of L0 (map header_line (w_headers w)))) = expected_headers w.
Proof.
  intros H. destruct (wf_syntax_props w H) as (_ & _ & _ & _ & _ & _ & _ & HH). unfold expected_headers.
  destruct (w_headers w) as [|kv hs]; [reflexivity|]. cbn [map lines_of tl].
  rewrite (filter_map_lines header_line header_of_line (fun kv => (map to_lower (fst kv), snd kv))); [reflexivity|].
  intros i Hi. rewrite forallb_forall in HH. specialize (HH i Hi). split.
  - rewrite <- (app_nil_r (header_line i)). now apply header_of_line_ok.
  - now apply header_of_line_ok.
Qed.

(* ---------- the complete response parses to exactly what was sent ---------- *)
Theorem parse_full : forall w, wf_syntax w = true -> parse_response (render w) = Ok (expected w).
Proof.
  intros w H. destruct (wf_syntax_props w H) as (Vne & Av & Wv & Hst & Ar & R10 & R13 & HH).
  destruct (dec_status_props _ Hst) as (Dne & Dd & Dp).
  unfold parse_response. rewrite (find_term_render w H). unfold render.
  rewrite firstn_app_exact, skipn_app_plus. change (skipn 4 (TERM ++ w_body w)) with (w_body w).
  rewrite render_head_eq.
  rewrite split_lines by (auto using status_line_lacks, header_lines_ok).
  assert (Hhd : exists w13, (w13 = [] \/ w13 = [13]) /\
            hd [] (lines_of (status_line w) (map header_line (w_headers w))) = status_line w ++ w13).
  { destruct (map header_line (w_headers w)); cbn [lines_of hd]; [exists []; rewrite app_nil_r; auto|exists [13]; auto]. }
  destruct Hhd as (w13 & Hw13 & ->).
  rewrite from_utf8_lossy_ascii
    by (rewrite ascii_app, status_line_ascii by assumption; destruct Hw13; subst; reflexivity).
  assert (E : status_line w ++ w13 = w_version w ++ 32 :: dec (w_status w) ++ 32 :: (w_reason w ++ w13)).
  { unfold status_line. rewrite <- app_assoc. cbn [app]. rewrite <- app_assoc. reflexivity. }
  rewrite E, split_ws_two by (auto using digits_no_ws).
  rewrite Dp. rewrite parsed_headers by assumption. reflexivity.
Qed.

(* ---------- truncation ---------- *)
Definition with_body (w : wresp) (b : list Z) : wresp :=
  mkW (w_version w) (w_status w) (w_reason w) (w_headers w) b.

Lemma wf_props w : wf w = true ->
  wf_syntax w = true /\ content_length (expected_headers w) = Some (zlen (w_body w)).
Proof.
  unfold wf. intros H. apply andb_true_iff in H as [Hs Hc]. split; auto.
  destruct (content_length (expected_headers w)) as [n|]; [|discriminate]. apply Z.eqb_eq in Hc. now subst.
Qed.

Lemma render_length w : length (render w) = (length (render_head w) + 4 + length (w_body w))%nat.
Proof. unfold render. rewrite !app_length. cbn [length TERM]. lia. Qed.

(* what the current parser makes of every prefix of a well-formed response *)
Lemma parse_prefix w k : wf_syntax w = true -> (k <= length (render w))%nat ->
  parse_response (firstn k (render w)) =
  if (length (render_head w) + 4 <=? k)%nat
  then Ok (expected (with_body w (firstn (k - length (render_head w) - 4) (w_body w))))
  else Err.
Proof.
  intros H Hk. destruct (length (render_head w) + 4 <=? k)%nat eqn:Ek.
  - apply Nat.leb_le in Ek.
    assert (E : firstn k (render w) = render (with_body w (firstn (k - length (render_head w) - 4) (w_body w)))).
    { unfold render at 1. rewrite firstn_app_ge by lia. rewrite firstn_app_ge by (cbn [length TERM]; lia).
      cbn [length TERM]. replace (k - length (render_head w) - 4)%nat with (k - length (render_head w) - 4)%nat by lia.
      reflexivity. }
    rewrite E. apply parse_full. exact H.
  - unfold parse_response.
    rewrite (find_sub_firstn TERM (render w) _ ltac:(discriminate) (find_term_render w H) k).
    cbn [length TERM]. now rewrite Ek.
Qed.

Theorem truncation_known_iff : forall w k, wf w = true -> (k < length (render w))%nat ->
  known_short_body (firstn k (render w)) = (length (render_head w) + 4 <=? k)%nat.
Proof.
  intros w k H Hk. destruct (wf_props w H) as (Hs & Hc).
  unfold known_short_body. rewrite parse_prefix by (auto; lia).
  destruct (length (render_head w) + 4 <=? k)%nat eqn:Ek; [|reflexivity].
  apply Nat.leb_le in Ek. cbn [expected r_headers r_body with_body w_body].
  change (expected_headers (with_body w _)) with (expected_headers w). rewrite Hc.
  apply Z.ltb_lt. unfold zlen. rewrite firstn_length. rewrite render_length in Hk. lia.
Qed.

(* with the Content-Length check, EVERY strict prefix of a well-formed response is an error *)
Theorem truncation_rejected_checked : forall w k, wf w = true -> (k < length (render w))%nat ->
  parse_response_checked (firstn k (render w)) = Err.
Proof.
  intros w k H Hk. destruct (wf_props w H) as (Hs & Hc). unfold parse_response_checked.
  rewrite truncation_known_iff by assumption. rewrite parse_prefix by (auto; lia).
  destruct (length (render_head w) + 4 <=? k)%nat; reflexivity.
Qed.

(* the current code: every strict prefix is an error EXCEPT the known class (cut inside the body) *)
Theorem truncation_rejected_unless_known : forall w k, wf w = true -> (k < length (render w))%nat ->
  known_short_body (firstn k (render w)) = false -> parse_response (firstn k (render w)) = Err.
Proof.
  intros w k H Hk Hn. pose proof (truncation_rejected_checked w k H Hk) as E.
  unfold parse_response_checked in E. now rewrite Hn in E.
Qed.

(* and the complete response is never in the known class: both parsers return it whole *)
Theorem full_response_checked : forall w, wf w = true ->
  known_short_body (render w) = false /\ parse_response_checked (render w) = Ok (expected w).
Proof.
  intros w H. destruct (wf_props w H) as (Hs & Hc).
  assert (K : known_short_body (render w) = false).
  { unfold known_short_body. rewrite parse_full by assumption. cbn [expected r_headers r_body]. rewrite Hc.
    apply Z.ltb_irrefl. }
  split; auto. unfold parse_response_checked. rewrite K. now apply parse_full.
Qed.

(* refuted for the current code: "HTTP/1.1 200 OK\r\nContent-Length: 1\r\n\r\nx" cut one byte short *)
Definition witness : wresp :=
  mkW [72;84;84;80;47;49;46;49] 200 [79;75] [([67;111;110;116;101;110;116;45;76;101;110;103;116;104], [49])] [120].
Theorem short_body_refuted :
  exists w k r n, wf w = true /\ (k < length (render w))%nat /\
    parse_response (firstn k (render w)) = Ok r /\
    content_length (r_headers r) = Some n /\ zlen (r_body r) < n /\
    spec_ok_trunc w (to_outcome (parse_response (firstn k (render w)))) = false /\
    known_short_body (firstn k (render w)) = true.
Proof.
  exists witness, 38%nat, (mkResp 200 [(CL_NAME, [49])] []), 1. vm_compute. repeat split; reflexivity.
Qed.

(* ---------- statements over ARBITRARY byte streams ---------- *)
(* the two parsers differ exactly on the known class *)
Theorem checked_differs_iff : forall raw,
  parse_response_checked raw <> parse_response raw <-> known_short_body raw = true.
Proof.
  intros raw. unfold parse_response_checked. destruct (known_short_body raw) eqn:K; split; auto; try congruence.
  intros _. unfold known_short_body in K. destruct (parse_response raw); [discriminate|discriminate].
Qed.

(* with the check, a returned body is never shorter than the Content-Length returned with it *)
Theorem checked_body_ge_cl : forall raw r n, parse_response_checked raw = Ok r ->
  content_length (r_headers r) = Some n -> n <= zlen (r_body r).
Proof.
  intros raw r n. unfold parse_response_checked. destruct (known_short_body raw) eqn:K; [discriminate|].
  intros E Hc. unfold known_short_body in K. rewrite E, Hc in K. now apply Z.ltb_ge in K.
Qed.

(* indices are in range: raw[..split] and raw[split+4..] never panic *)
Theorem split_in_range : forall raw split, find_sub TERM raw = Some split -> (split + 4 <= length raw)%nat.
Proof. intros raw split H. apply find_sub_bound in H. exact H. Qed.

(* the body returned is always exactly what followed the first blank line *)
Theorem body_is_suffix : forall raw r, parse_response raw = Ok r -> is_suffix (r_body r) raw = true.
Proof.
  intros raw r. unfold parse_response. destruct (find_sub TERM raw) as [split|] eqn:F; [|discriminate].
  destruct (nth_error _ 1) as [tok|]; [|discriminate]. destruct (parse_uint U16 tok); [|discriminate].
  intros E; inversion E; subst; clear E. cbn [r_body]. unfold is_suffix.
  apply split_in_range in F. rewrite skipn_length.
  apply andb_true_iff; split; [apply Nat.leb_le; lia|].
  replace (length raw - (length raw - (split + 4)))%nat with (split + 4)%nat by lia. apply list_eqb_Z_refl.
Qed.

Lemma resp_eqb_refl r : resp_eqb r r = true.
Proof.
  unfold resp_eqb. rewrite Z.eqb_refl, list_eqb_Z_refl, andb_true_r. cbn [andb].
  induction (r_headers r) as [|h t IH]; auto. cbn [list_eqb]. rewrite IH, andb_true_r.
  unfold hdr_eqb. now rewrite !list_eqb_Z_refl.
Qed.

(* the executable specs are met: by the current model on complete responses and arbitrary streams outside the
   known class, by the checked model everywhere *)
Theorem model_meets_spec_full : forall w, wf_syntax w = true ->
  spec_ok_full w (to_outcome (parse_response (render w))) = true.
Proof. intros w H. rewrite parse_full by assumption. cbn. apply resp_eqb_refl. Qed.

Theorem model_meets_spec_raw_unless_known : forall raw, known_short_body raw = false ->
  spec_ok_raw raw (to_outcome (parse_response raw)) = true.
Proof.
  intros raw K. destruct (parse_response raw) as [r|] eqn:E; [|reflexivity]. cbn [to_outcome spec_ok_raw].
  rewrite (body_is_suffix raw r E). cbn [andb]. unfold known_short_body in K. rewrite E in K.
  destruct (content_length (r_headers r)) as [n|]; auto. apply Z.leb_le. now apply Z.ltb_ge in K.
Qed.

Theorem checked_meets_spec_raw : forall raw, spec_ok_raw raw (to_outcome (parse_response_checked raw)) = true.
Proof.
  intros raw. unfold parse_response_checked. destruct (known_short_body raw) eqn:K; [reflexivity|].
  now apply model_meets_spec_raw_unless_known.
Qed.

Example ex_full : parse_response (render witness) = Ok (mkResp 200 [(CL_NAME, [49])] [120]) /\ wf witness = true.
Proof. vm_compute. split; reflexivity. Qed.
