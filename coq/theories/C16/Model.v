(* C16 model: distributed::http_client::parse_response, transcribed byte for byte.
   anchors: src/distributed/http_client.rs: request / request_inner (read_to_end, then parse_response), parse_response.
   The raw response is a `list Z` of bytes; `String::from_utf8_lossy` is the lossy decoder of Bytes/ByteStr.v, so the
   status line and the header names/values are lists of Unicode scalar values exactly as Rust's Strings are
   (invalid UTF-8 becomes U+FFFD, `split_whitespace`/`trim` use Unicode White_Space, `to_ascii_lowercase` touches A-Z only).
   `parse::<u16>()` accepts one leading '+', rejects "" and values >= 65536. *)
From QV Require Export Bytes.ByteStr.

Definition U16 : Z := 65536.
Definition USIZE : Z := 18446744073709551616.
Definition TERM : list Z := [13; 10; 13; 10].          (* b"\r\n\r\n" *)

Record response := mkResp { r_status : Z; r_headers : list (list Z * list Z); r_body : list Z }.
Inductive result := Ok (r : response) | Err.

Fixpoint filter_map {A B} (f : A -> option B) (l : list A) : list B :=
  match l with
  | [] => []
  | x :: r => match f x with Some y => y :: filter_map f r | None => filter_map f r end
  end.

(* let line = String::from_utf8_lossy(line); let (k, v) = line.split_once(':')?;
   Some((k.trim().to_ascii_lowercase(), v.trim().to_string())) *)
Definition header_of_line (line : list Z) : option (list Z * list Z) :=
  match split_once 58 (from_utf8_lossy line) with
  | Some (k, v) => Some (map to_lower (trim k), trim v)
  | None => None
  end.

Definition parse_response (raw : list Z) : result :=
  match find_sub TERM raw with                       (* raw.windows(4).position(|w| w == b"\r\n\r\n") *)
  | None => Err                                      (* "response has no header terminator" *)
  | Some split =>
    let head := firstn split raw in                  (* &raw[..split] *)
    let body := skipn (split + 4) raw in             (* raw[split + 4..].to_vec() *)
    let lines := split_on 10 head in                 (* head.split(|b| *b == b'\n') *)
    let status_line := from_utf8_lossy (hd [] lines) in
    match nth_error (split_ws status_line) 1 with    (* .split_whitespace().nth(1) *)
    | None => Err
    | Some tok =>
      match parse_uint U16 tok with                  (* .and_then(|s| s.parse::<u16>().ok()) *)
      | None => Err                                  (* "unparseable status line" *)
      | Some st => Ok (mkResp st (filter_map header_of_line (tl lines)) body)
      end
    end
  end.

(* ------------------------------------------------------------------ *)
(* HttpResponse::header("content-length") then parse::<usize>(): the declared length, if any *)
Definition CL_NAME : list Z := [99;111;110;116;101;110;116;45;108;101;110;103;116;104].   (* "content-length" *)
Definition content_length (hs : list (list Z * list Z)) : option Z :=
  match find (fun kv => list_eqb Z.eqb (map to_lower (fst kv)) CL_NAME) hs with
  | Some (_, v) => parse_uint USIZE v
  | None => None
  end.

(* the inputs on which the current code returns a body shorter than the Content-Length it returns alongside *)
Definition known_short_body (raw : list Z) : bool :=
  match parse_response raw with
  | Ok r => match content_length (r_headers r) with
            | Some n => zlen (r_body r) <? n
            | None => false
            end
  | Err => false
  end.

(* the candidate fix: after parsing, `if body.len() < content_length { return Err(UnexpectedEof) }` *)
Definition parse_response_checked (raw : list Z) : result :=
  if known_short_body raw then Err else parse_response raw.

(* ------------------------------------------------------------------ *)
(* Specification side: well-formed HTTP/1.1 responses as a peer writes them. *)
Record wresp := mkW {
  w_version : list Z;                         (* "HTTP/1.1" *)
  w_status : Z;
  w_reason : list Z;                          (* may be empty, may contain spaces *)
  w_headers : list (list Z * list Z);         (* as sent: any capitalisation *)
  w_body : list Z
}.
Definition CRLF : list Z := [13; 10].
Definition header_line (kv : list Z * list Z) : list Z := fst kv ++ 58 :: 32 :: snd kv.      (* "Name: value" *)
Definition status_line (w : wresp) : list Z := w_version w ++ 32 :: dec (w_status w) ++ 32 :: w_reason w.
Definition render_head (w : wresp) : list Z :=
  status_line w ++ concat (map (fun kv => 13 :: 10 :: header_line kv) (w_headers w)).
Definition render (w : wresp) : list Z := render_head w ++ TERM ++ w_body w.

Definition expected_headers (w : wresp) : list (list Z * list Z) :=
  map (fun kv => (map to_lower (fst kv), snd kv)) (w_headers w).
Definition expected (w : wresp) : response := mkResp (w_status w) (expected_headers w) (w_body w).

Definition header_ok (kv : list Z * list Z) : bool :=
  let (k, v) := kv in
  negb (is_nil k) && ascii k && no_ws k && lacks 58 k
  && ascii v && lacks 10 v && lacks 13 v && list_eqb Z.eqb (trim v) v.
(* syntactic well-formedness: all that parsing the full response needs *)
Definition wf_syntax (w : wresp) : bool :=
  negb (is_nil (w_version w)) && ascii (w_version w) && no_ws (w_version w)
  && (0 <=? w_status w) && (w_status w <? U16)
  && ascii (w_reason w) && lacks 10 (w_reason w) && lacks 13 (w_reason w)
  && forallb header_ok (w_headers w).
(* ... and it declares its body length *)
Definition wf (w : wresp) : bool :=
  wf_syntax w && match content_length (expected_headers w) with Some n => n =? zlen (w_body w) | None => false end.

(* ---- what C16 demands of ANY client's outcome ---- *)
Inductive outcome := OOk (r : response) | OErr | OPanic | OHang.
Definition to_outcome (r : result) : outcome := match r with Ok x => OOk x | Err => OErr end.

Definition hdr_eqb (a b : list Z * list Z) : bool := list_eqb Z.eqb (fst a) (fst b) && list_eqb Z.eqb (snd a) (snd b).
Definition resp_eqb (a b : response) : bool :=
  (r_status a =? r_status b) && list_eqb hdr_eqb (r_headers a) (r_headers b) && list_eqb Z.eqb (r_body a) (r_body b).
Definition outcome_eqb (a b : outcome) : bool :=
  match a, b with
  | OOk x, OOk y => resp_eqb x y
  | OErr, OErr | OPanic, OPanic | OHang, OHang => true
  | _, _ => false
  end.

Definition is_suffix (b raw : list Z) : bool :=
  (length b <=? length raw)%nat && list_eqb Z.eqb (skipn (length raw - length b) raw) b.

(* the complete, well-formed response: status, headers and the complete body, nothing else *)
Definition spec_ok_full (w : wresp) (o : outcome) : bool := outcome_eqb o (OOk (expected w)).
(* a strict prefix of a well-formed response that declares Content-Length: an error, or a body not shorter than declared *)
Definition spec_ok_trunc (w : wresp) (o : outcome) : bool :=
  match o with
  | OErr => true
  | OOk r => zlen (w_body w) <=? zlen (r_body r)
  | _ => false
  end.
(* any byte stream: an error, or a response whose body is what was sent after some point and is not shorter than the
   Content-Length returned with it; never a panic, never a hang *)
Definition spec_ok_raw (raw : list Z) (o : outcome) : bool :=
  match o with
  | OErr => true
  | OOk r => is_suffix (r_body r) raw
             && match content_length (r_headers r) with Some n => n <=? zlen (r_body r) | None => true end
  | _ => false
  end.

(* per-cut evaluation used by the correspondence check: the k-byte prefix of `raw` (k = |raw|: the complete response);
   `declares` = the response carries a Content-Length equal to its body length (wf), so truncations must be rejected *)
Definition eval_cut (declares : bool) (w : wresp) (raw : list Z) (k : nat) (o : outcome) : list bool :=
  let p := firstn k raw in
  [ outcome_eqb o (to_outcome (parse_response p));
    if (k <? length raw)%nat then (if declares then spec_ok_trunc w o else true) && spec_ok_raw p o
    else spec_ok_full w o;
    known_short_body p;
    outcome_eqb o (to_outcome (parse_response_checked p)) ].
Definition eval_raw (raw : list Z) (o : outcome) : list bool :=
  [ outcome_eqb o (to_outcome (parse_response raw)); spec_ok_raw raw o; known_short_body raw;
    outcome_eqb o (to_outcome (parse_response_checked raw)) ].
