(* C34 model: the Arrow Flight front door, transcribed from src/distributed/flight.rs, next to POST /sql.
   anchors: MAX_TICKET_BYTES, QueryTicket (serde derive), parse_mode, parse_command, get_flight_info (ticket
            minting: serde_json::to_vec(&QueryTicket{v:1,sql,mode})), do_get (size cap, from_slice, version, mode,
            execute_statement, outcome_metadata), encode_flight_stream (MAX_ENCODE_ROWS slicing, zero-row trailer),
            exec_error_status / query_error_status; server.rs: execute_statement, sql (the HTTP side, modelled in
            C35.Model and reused here).
   serde_json's reader is external code: the ticket bytes reach the model as (length, parsed JSON value) and the
   theorems that need the reader take its round-trip contract as a Section hypothesis.  serde_json's WRITER for
   the ticket struct is transcribed (json_escape) because the minted ticket's length decides acceptance. *)
From QV Require Export C35.Model.

(* ------------------------------------------------------------------ *)
(* distributed= vocabulary of the Flight door (parse_mode)             *)
(* ------------------------------------------------------------------ *)
Definition flight_parse_mode (m : bytes) : option dist_mode :=
  if beq m (B "auto") then Some Auto
  else if mem m [B "1"; B "true"; B "yes"; B "force"] then Some Force
  else if mem m [B "0"; B "false"; B "no"; B "local"; B "off"] then Some Off
  else None.

(* ------------------------------------------------------------------ *)
(* JSON values as serde_json hands them to the derived Deserialize     *)
(* ------------------------------------------------------------------ *)
Inductive jvalue :=
| JNull
| JBool (b : bool)
| JInt (n : Z)            (* a number token without fraction/exponent *)
| JFloat                  (* any other number token *)
| JStr (s : bytes)
| JArr (l : list jvalue)
| JObj (fields : list (bytes * jvalue)).   (* in document order, duplicates kept *)

Record ticket := mkTicket { t_v : Z; t_sql : bytes; t_mode : bytes }.

Definition as_u32 (j : jvalue) : option Z :=
  match j with
  | JInt n => if (0 <=? n) && (n <? 4294967296) then Some n else None
  | _ => None
  end.
Definition as_str (j : jvalue) : option bytes := match j with JStr s => Some s | _ => None end.

(* #[derive(Deserialize)] struct QueryTicket { v: u32, sql: String, #[serde(default = "default_mode")] mode: String }
   visit_map: a repeated known key is "duplicate field", a mistyped value is "invalid type", unknown keys are
   skipped, `v` and `sql` are required, `mode` defaults to "auto". *)
Record partial := mkPartial { p_v : option Z; p_sql : option bytes; p_mode : option bytes }.
Fixpoint visit_map (fs : list (bytes * jvalue)) (p : partial) : option partial :=
  match fs with
  | [] => Some p
  | (k, j) :: rest =>
      if beq k (B "v") then
        match p_v p, as_u32 j with
        | None, Some n => visit_map rest (mkPartial (Some n) (p_sql p) (p_mode p))
        | _, _ => None
        end
      else if beq k (B "sql") then
        match p_sql p, as_str j with
        | None, Some s => visit_map rest (mkPartial (p_v p) (Some s) (p_mode p))
        | _, _ => None
        end
      else if beq k (B "mode") then
        match p_mode p, as_str j with
        | None, Some s => visit_map rest (mkPartial (p_v p) (p_sql p) (Some s))
        | _, _ => None
        end
      else visit_map rest p
  end.
Definition default_mode : bytes := B "auto".
Definition finish (p : partial) : option ticket :=
  match p_v p, p_sql p with
  | Some v, Some s => Some (mkTicket v s (match p_mode p with Some m => m | None => default_mode end))
  | _, _ => None
  end.
(* visit_seq: serde_json also accepts the struct as an array [v, sql] or [v, sql, mode]; anything longer is
   "trailing characters", anything shorter "invalid length" *)
Definition visit_seq (l : list jvalue) : option ticket :=
  match l with
  | [a; b] =>
      match as_u32 a, as_str b with Some v, Some s => Some (mkTicket v s default_mode) | _, _ => None end
  | [a; b; c] =>
      match as_u32 a, as_str b, as_str c with Some v, Some s, Some m => Some (mkTicket v s m) | _, _, _ => None end
  | _ => None
  end.
Definition ticket_of_json (j : jvalue) : option ticket :=
  match j with
  | JObj fs => match visit_map fs (mkPartial None None None) with Some p => finish p | None => None end
  | JArr l => visit_seq l
  | _ => None
  end.

(* ------------------------------------------------------------------ *)
(* do_get's ticket validation                                          *)
(* ------------------------------------------------------------------ *)
Definition MAX_TICKET_BYTES : Z := 1024 * 1024.

Inductive verdict :=
| Accept (sql : bytes) (m : dist_mode)
| TooBig          (* "ticket exceeds .. bytes" *)
| Malformed       (* "malformed ticket: .." *)
| BadVersion      (* "unknown ticket version .." *)
| BadMode.        (* "unknown distributed mode .." *)
(* every refusal is Status::invalid_argument *)

Definition ticket_validate (len : Z) (parsed : option jvalue) : verdict :=
  if MAX_TICKET_BYTES <? len then TooBig
  else match parsed with
       | None => Malformed
       | Some j =>
           match ticket_of_json j with
           | None => Malformed
           | Some t =>
               if negb (t_v t =? 1) then BadVersion
               else match flight_parse_mode (t_mode t) with
                    | None => BadMode
                    | Some m => Accept (t_sql t) m
                    end
           end
       end.

Definition zlen {A} (l : list A) : Z := Z.of_nat (length l).

(* the decision function over the ticket BYTES, given the JSON reader *)
Definition ticket_validate_bytes (json_parse : bytes -> option jvalue) (t : bytes) : verdict :=
  ticket_validate (zlen t) (json_parse t).

(* ------------------------------------------------------------------ *)
(* get_flight_info: minting                                            *)
(* ------------------------------------------------------------------ *)
(* serde_json's string writer: DQUOTE, backslash and the short escapes, \u00XX (lower-case hex) for the other control
   bytes, everything else (0x7f and all UTF-8 continuation bytes included) verbatim *)
Definition hex_digit (n : Z) : Z := if n <? 10 then 48 + n else 87 + n.
Definition esc_byte (c : Z) : bytes :=
  if c =? 34 then [92; 34]
  else if c =? 92 then [92; 92]
  else if c =? 8 then [92; 98]
  else if c =? 12 then [92; 102]
  else if c =? 10 then [92; 110]
  else if c =? 13 then [92; 114]
  else if c =? 9 then [92; 116]
  else if c <? 32 then [92; 117; 48; 48; hex_digit (c / 16); hex_digit (c mod 16)]
  else [c].
Definition json_escape (s : bytes) : bytes := flat_map esc_byte s.

(* serde_json::to_vec(&QueryTicket { v: 1, sql, mode }) *)
Definition ticket_bytes (sql mode : bytes) : bytes :=
  B "{""v"":1,""sql"":""" ++ json_escape sql ++ B """,""mode"":""" ++ json_escape mode ++ B """}".
Definition ticket_json (sql mode : bytes) : jvalue :=
  JObj [(B "v", JInt 1); (B "sql", JStr sql); (B "mode", JStr mode)].

(* lengths without building the bytes (statements of a megabyte are given run-length encoded) *)
Definition esc_len_byte (c : Z) : Z := zlen (esc_byte c).
Definition esc_len (s : bytes) : Z := zsum (map esc_len_byte s).
Definition ticket_len_of (esc_sql_len esc_mode_len : Z) : Z := 14 + esc_sql_len + 10 + esc_mode_len + 2.
Definition ticket_len (sql mode : bytes) : Z := ticket_len_of (esc_len sql) (esc_len mode).

(* parse_command, on what reaches it: the descriptor's length, whether it is UTF-8, its trimmed text, and (for a
   text that starts with '{') the parsed JSON.  CmdOk carries the (sql, mode) that get_flight_info mints. *)
Definition MAX_COMMAND_BYTES : Z := MAX_TICKET_BYTES.   (* the same constant in the source *)
Inductive cmd_verdict := CmdOk (sql mode : bytes) | CmdRefused.
Record cmd_fields := mkCmd { c_sql : option bytes; c_mode : option bytes }.
Fixpoint cmd_visit (fs : list (bytes * jvalue)) (p : cmd_fields) : option cmd_fields :=
  match fs with
  | [] => Some p
  | (k, j) :: rest =>
      if beq k (B "sql") then
        match c_sql p, as_str j with
        | None, Some s => cmd_visit rest (mkCmd (Some s) (c_mode p))
        | _, _ => None
        end
      else if beq k (B "mode") then
        match c_mode p, as_str j with
        | None, Some s => cmd_visit rest (mkCmd (c_sql p) (Some s))
        | _, _ => None
        end
      else cmd_visit rest p
  end.
Definition cmd_of_json (j : jvalue) : option (bytes * bytes) :=
  match j with
  | JObj fs =>
      match cmd_visit fs (mkCmd None None) with
      | Some p => match c_sql p with
                  | Some s => Some (s, match c_mode p with Some m => m | None => default_mode end)
                  | None => None
                  end
      | None => None
      end
  | _ => None      (* the JSON branch is only taken for a text that starts with '{' *)
  end.
(* `trim` is c.sql.trim() of the JSON form (str::trim is std) *)
Definition parse_command (len : Z) (utf8 : bool) (text : bytes) (parsed : option jvalue)
                         (trim : bytes -> bytes) : cmd_verdict :=
  if MAX_COMMAND_BYTES <? len then CmdRefused
  else if negb utf8 then CmdRefused
  else match text with
       | [] => CmdRefused
       | c :: _ =>
           if c =? 123 then
             match parsed with
             | None => CmdRefused
             | Some j =>
                 match cmd_of_json j with
                 | None => CmdRefused
                 | Some (sql, mode) =>
                     match trim sql with
                     | [] => CmdRefused
                     | _ => match flight_parse_mode mode with
                            | None => CmdRefused
                            | Some _ => CmdOk (trim sql) mode
                            end
                     end
                 end
             end
           else CmdOk text default_mode
       end.

(* the statements for which the minted ticket is refused by do_get although the statement itself is within the
   command cap (and within POST /sql's body cap): decided by the statement's shape (its escaped length) alone *)
Definition known_ticket_over_cap (sql mode : bytes) : bool :=
  (zlen sql <=? MAX_COMMAND_BYTES) && (MAX_TICKET_BYTES <? ticket_len sql mode).

(* ------------------------------------------------------------------ *)
(* encode_flight_stream: slicing into <= MAX_ENCODE_ROWS-row messages  *)
(* ------------------------------------------------------------------ *)
Definition MAX_ENCODE_ROWS : nat := Z.to_nat 4096.

Section Slices.
  Context {A : Type}.
  Variable M : nat.
  (* let mut offset = 0; loop { len = min(rows - offset, M); emit slice(offset, len); offset += len;
                                if offset >= rows { break } }
     `b` is what is left from `offset` on; the loop stops when nothing is left AFTER the emitted slice, so a
     zero-row batch still emits one (zero-row) message *)
  Fixpoint slices_fuel (fuel : nat) (b : list A) : list (list A) :=
    match fuel with
    | O => [b]
    | S f =>
        match skipn M b with
        | [] => [firstn M b]
        | _ :: _ => firstn M b :: slices_fuel f (skipn M b)
        end
    end.
  Definition slices (b : list A) : list (list A) := slices_fuel (length b) b.

  (* for batch in batches.iter().chain(once(&trailer_batch)) { .. }: the data messages after the schema message *)
  Definition stream_msgs (batches : list (list A)) : list (list A) :=
    concat (map slices (batches ++ [[]])).
End Slices.

(* the whole DoGet stream, by message: schema first, then the data messages; app_metadata rides on the last *)
Inductive msg_kind := MSchema | MBatch (rows : Z).
Definition stream_kinds {A} (batches : list (list A)) : list msg_kind :=
  MSchema :: map (fun s => MBatch (zlen s)) (stream_msgs MAX_ENCODE_ROWS batches).

(* outcome_metadata: "rows" is outcome.result.row_count *)
Record query_result (A : Type) := mkResult { q_batches : list (list A); q_row_count : Z }.
Arguments q_batches {A}. Arguments q_row_count {A}. Arguments mkResult {A}.
Definition result_wf {A} (r : query_result A) : Prop := q_row_count r = zsum (map zlen (q_batches r)).
Definition trailer_rows {A} (r : query_result A) : Z := q_row_count r.

(* what the property demands of ANY DoGet stream for a result of `rows` rows: message row counts `msgs`
   (schema message excluded), the index set of messages that carry app_metadata, the trailer's "rows" *)
Definition stream_spec_ok (rows : Z) (msgs : list Z) (meta_at : list Z) (trailer : Z) : bool :=
  forallb (fun n => (0 <=? n) && (n <=? 4096)) msgs
  && (zsum msgs =? rows)
  && (match rev msgs with last :: _ => last =? 0 | [] => false end)
  && list_eqb Z.eqb meta_at [zlen msgs]        (* index in the whole stream: schema is message 0 *)
  && (trailer =? rows).

(* ------------------------------------------------------------------ *)
(* both front doors are one function of (state, sql, mode)             *)
(* ------------------------------------------------------------------ *)
(* do_get: execute_statement(&self.state, &ticket.sql, mode) then exec_error_status / the stream *)
Inductive grpc_code := InvalidArgument | NotFound | Unavailable | Unimplemented | Internal.
Inductive flight_response :=
| FlightRows (distributed : bool) (skipped : option reason)   (* stream; trailer "distributed"/"skipped_reason" *)
| FlightErr (c : grpc_code).

Definition query_error_code (k : err_kind) : grpc_code :=
  match k with
  | KParse | KBind | KType | KPlan => InvalidArgument
  | KTableNF | KColNF => NotFound
  | KNotImpl => Unimplemented
  | KOther => Internal
  end.

Definition flight_do_get (m : dist_mode) (e : env) : flight_response :=
  match execute_statement m e with
  | ONotReady _ => FlightErr Unavailable
  | OLocal why => FlightRows false why
  | ODistributed => FlightRows true None
  | OQueryErr k _ => FlightErr (query_error_code k)
  | OTaskFailed => FlightErr Internal
  end.

(* the HTTP side for a well-formed request (C35.Model.sql_handler past its parameter/body checks) *)
Definition http_sql (f : result_format) (m : dist_mode) (e : env) : response :=
  match execute_statement m e with
  | ONotReady failed => Resp503 failed
  | OLocal why => RespRows f false why
  | ODistributed => RespRows f true None
  | OQueryErr k _ => RespErr (err_status k) true
  | OTaskFailed => RespErr 500 false
  end.

(* the door-independent view: answered? distributed? why not? / refused with which class *)
Inductive view := VRows (distributed : bool) (why : option reason) | VNotReady | VQueryErr | VNotImpl | VTaskFailed.
Definition view_http (r : response) : option view :=
  match r with
  | RespRows _ d w => Some (VRows d w)
  | Resp503 _ => Some VNotReady
  | RespErr s _ => if s =? 501 then Some VNotImpl else if s =? 500 then Some VTaskFailed else Some VQueryErr
  | _ => None
  end.
(* Flight folds "engine failed with an unclassified error" and "task died" into Internal *)
Definition view_flight (r : flight_response) : view :=
  match r with
  | FlightRows d w => VRows d w
  | FlightErr Unavailable => VNotReady
  | FlightErr Unimplemented => VNotImpl
  | FlightErr Internal => VTaskFailed
  | FlightErr _ => VQueryErr
  end.
Definition view_coarse (v : view) : view := match v with VTaskFailed => VQueryErr | x => x end.

Definition view_eqb (a b : view) : bool :=
  match a, b with
  | VRows d w, VRows d' w' => Bool.eqb d d' && reason_eqb w w'
  | VNotReady, VNotReady | VQueryErr, VQueryErr | VNotImpl, VNotImpl | VTaskFailed, VTaskFailed => true
  | _, _ => false
  end.
Definition verdict_eqb (a b : verdict) : bool :=
  match a, b with
  | Accept s m, Accept s' m' => beq s s' && mode_opt_eqb (Some m) (Some m')
  | TooBig, TooBig | Malformed, Malformed | BadVersion, BadVersion | BadMode, BadMode => true
  | _, _ => false
  end.
Definition is_accept (v : verdict) : bool := match v with Accept _ _ => true | _ => false end.

Definition code_eqb (a b : grpc_code) : bool :=
  match a, b with
  | InvalidArgument, InvalidArgument | NotFound, NotFound | Unavailable, Unavailable
  | Unimplemented, Unimplemented | Internal, Internal => true
  | _, _ => false
  end.
Definition flight_response_eqb (a b : flight_response) : bool :=
  match a, b with
  | FlightRows d w, FlightRows d' w' => Bool.eqb d d' && reason_eqb w w'
  | FlightErr c, FlightErr c' => code_eqb c c'
  | _, _ => false
  end.
Definition cmd_verdict_eqb (a b : cmd_verdict) : bool :=
  match a, b with
  | CmdOk s m, CmdOk s' m' => beq s s' && beq m m'
  | CmdRefused, CmdRefused => true
  | _, _ => false
  end.

(* str::trim restricted to the ASCII white space the generators use (TAB LF VT FF CR SPACE) *)
Definition is_ws (c : Z) : bool := (c =? 32) || ((9 <=? c) && (c <=? 13)).
Fixpoint ltrim (s : bytes) : bytes := match s with c :: r => if is_ws c then ltrim r else s | [] => [] end.
Definition trim_ascii (s : bytes) : bytes := rev (ltrim (rev (ltrim s))).

(* get_flight_info / get_schema for a command descriptor, before any execution: readiness, then planning *)
Definition flight_plan_phase (e : env) (plan_err : option err_kind) : option grpc_code :=
  match e_load e with
  | Loaded => match plan_err with Some k => Some (query_error_code k) | None => None end
  | _ => Some Unavailable
  end.
