From QV Require Import C35.Model C35.Proofs C34.Model.

(* ================================================================== *)
(* 1. the two distributed= vocabularies                                *)
(* ================================================================== *)
Ltac word_cases v :=
  repeat match goal with
         | |- context [beq v ?w] =>
             let E := fresh "E" in
             destruct (beq v w) eqn:E;
             [ apply beq_eq in E; subst v; vm_compute; try (intuition congruence) | ]
         end.

(* every spelling POST /sql accepts means the same thing in a ticket / command *)
Theorem flight_mode_extends_http v m :
  http_mode_value v = Some m -> flight_parse_mode v = Some m.
Proof.
  unfold http_mode_value, flight_parse_mode, mem, force_words, off_words; cbn [existsb].
  word_cases v. all: cbn; congruence.
Qed.
(* ... and the only extra spelling of the Flight door is `off` *)
Theorem flight_mode_only_adds_off v m :
  flight_parse_mode v = Some m -> http_mode_value v = Some m \/ (v = B "off" /\ m = Off).
Proof.
  unfold http_mode_value, flight_parse_mode, mem, force_words, off_words; cbn [existsb].
  word_cases v.
  all: try (intros H; inversion H; right; split; reflexivity).
  all: cbn; congruence.
Qed.
Theorem flight_mode_table v :
  (flight_parse_mode v = Some Auto <-> v = B "auto") /\
  (flight_parse_mode v = Some Force <-> In v [B "1"; B "true"; B "yes"; B "force"]) /\
  (flight_parse_mode v = Some Off <-> In v [B "0"; B "false"; B "no"; B "local"; B "off"]).
Proof.
  unfold flight_parse_mode.
  destruct (beq v (B "auto")) eqn:A.
  - apply beq_eq in A. subst v. vm_compute. repeat split; intros; try congruence; intuition congruence.
  - assert (NA : v <> B "auto") by (intro H; apply beq_eq in H; congruence).
    destruct (mem v [B "1"; B "true"; B "yes"; B "force"]) eqn:F.
    + apply mem_In in F.
      assert (NO : ~ In v [B "0"; B "false"; B "no"; B "local"; B "off"])
        by (intro H; cbv in F, H; intuition congruence).
      repeat split; intros; try congruence; try tauto.
    + apply mem_false_not_In in F.
      destruct (mem v [B "0"; B "false"; B "no"; B "local"; B "off"]) eqn:O.
      * apply mem_In in O. repeat split; intros; try congruence; try tauto.
      * apply mem_false_not_In in O. repeat split; intros; try congruence; try tauto.
Qed.

(* ================================================================== *)
(* 2. ticket validation                                                *)
(* ================================================================== *)
(* accepted <-> within the cap, well-formed JSON of the ticket shape, version 1, a known mode *)
Theorem ticket_accept_iff len pj sql m :
  ticket_validate len pj = Accept sql m <->
  len <= MAX_TICKET_BYTES /\
  exists j t, pj = Some j /\ ticket_of_json j = Some t /\
              t_v t = 1 /\ flight_parse_mode (t_mode t) = Some m /\ t_sql t = sql.
Proof.
  unfold ticket_validate. split.
  - destruct (Z.ltb_spec MAX_TICKET_BYTES len) as [L|L]; [discriminate|].
    destruct pj as [j|]; [|discriminate].
    destruct (ticket_of_json j) as [t|] eqn:T; [|discriminate].
    destruct (Z.eqb_spec (t_v t) 1) as [V|V]; cbn [negb]; [|discriminate].
    destruct (flight_parse_mode (t_mode t)) as [m'|] eqn:P; [|discriminate].
    intros H. inversion H; subst. split; [exact L|]. exists j, t. repeat split; auto.
  - intros (L & j & t & -> & T & V & P & S).
    destruct (Z.ltb_spec MAX_TICKET_BYTES len); [lia|].
    rewrite T, V, P, S. reflexivity.
Qed.

(* every other ticket is refused, and why *)
Theorem ticket_refusals len pj :
  (MAX_TICKET_BYTES < len -> ticket_validate len pj = TooBig) /\
  (len <= MAX_TICKET_BYTES -> pj = None -> ticket_validate len pj = Malformed) /\
  (forall j, len <= MAX_TICKET_BYTES -> pj = Some j -> ticket_of_json j = None -> ticket_validate len pj = Malformed) /\
  (forall j t, len <= MAX_TICKET_BYTES -> pj = Some j -> ticket_of_json j = Some t -> t_v t <> 1 ->
               ticket_validate len pj = BadVersion) /\
  (forall j t, len <= MAX_TICKET_BYTES -> pj = Some j -> ticket_of_json j = Some t -> t_v t = 1 ->
               flight_parse_mode (t_mode t) = None -> ticket_validate len pj = BadMode).
Proof.
  unfold ticket_validate. repeat split.
  - intros L. destruct (Z.ltb_spec MAX_TICKET_BYTES len); [reflexivity | lia].
  - intros L ->. destruct (Z.ltb_spec MAX_TICKET_BYTES len); [lia | reflexivity].
  - intros j L -> T. destruct (Z.ltb_spec MAX_TICKET_BYTES len); [lia|]. now rewrite T.
  - intros j t L -> T V. destruct (Z.ltb_spec MAX_TICKET_BYTES len); [lia|]. rewrite T.
    destruct (Z.eqb_spec (t_v t) 1); [congruence | reflexivity].
  - intros j t L -> T V P. destruct (Z.ltb_spec MAX_TICKET_BYTES len); [lia|]. rewrite T, V, P. reflexivity.
Qed.

(* --- the JSON shape: what ticket_of_json accepts --- *)
Definition keyed (k : bytes) (f : bytes * jvalue) : bool := beq (fst f) k.
Definition count_key (k : bytes) (fs : list (bytes * jvalue)) : nat := length (filter (keyed k) fs).

Lemma kv : beq (B "v") (B "sql") = false /\ beq (B "v") (B "mode") = false /\ beq (B "sql") (B "mode") = false
        /\ beq (B "sql") (B "v") = false /\ beq (B "mode") (B "v") = false /\ beq (B "mode") (B "sql") = false.
Proof. vm_compute. repeat split. Qed.

(* visit_map only ever fills slots: an accepted object has each known key at most once (given an empty start),
   the values are well-typed, and the slots hold the FIRST (= only) value of their key *)
Definition slot_ok {T} (slot slot' : option T) (k : bytes) (get : jvalue -> option T) (fs : list (bytes * jvalue)) : Prop :=
  match slot with
  | Some x => count_key k fs = 0%nat /\ slot' = Some x
  | None => (count_key k fs = 0%nat /\ slot' = None) \/
            (count_key k fs = 1%nat /\ exists j x, In (k, j) fs /\ get j = Some x /\ slot' = Some x)
  end.

Lemma count_key_cons_same k j fs : count_key k ((k, j) :: fs) = S (count_key k fs).
Proof. unfold count_key. cbn [filter]. unfold keyed at 1. cbn [fst]. now rewrite beq_refl. Qed.
Lemma count_key_cons_other k k' j fs : beq k' k = false -> count_key k ((k', j) :: fs) = count_key k fs.
Proof. intros H. unfold count_key. cbn [filter]. unfold keyed at 1. cbn [fst]. now rewrite H. Qed.

Lemma visit_map_slots fs : forall p p',
  visit_map fs p = Some p' ->
  slot_ok (p_v p) (p_v p') (B "v") as_u32 fs /\
  slot_ok (p_sql p) (p_sql p') (B "sql") as_str fs /\
  slot_ok (p_mode p) (p_mode p') (B "mode") as_str fs.
Proof.
  destruct kv as (K1 & K2 & K3 & K4 & K5 & K6).
  induction fs as [|[k j] rest IH]; intros p p' H; cbn [visit_map] in H.
  - inversion H; subst. unfold slot_ok, count_key; cbn.
    destruct (p_v p'), (p_sql p'), (p_mode p'); repeat split; auto.
  - destruct (beq k (B "v")) eqn:Kv.
    { apply beq_eq in Kv; subst k.
      destruct (p_v p) eqn:PV; [discriminate|]. destruct (as_u32 j) as [n|] eqn:U; [|discriminate].
      apply IH in H. cbn [p_v p_sql p_mode] in H. destruct H as (Hv & Hs & Hm).
      unfold slot_ok in Hv. destruct Hv as [C ->].
      repeat split.
      - unfold slot_ok. right. rewrite count_key_cons_same, C. split; [reflexivity|].
        exists j, n. repeat split; auto. now left.
      - unfold slot_ok in *. rewrite count_key_cons_other by exact K1.
        destruct (p_sql p); [exact Hs|]. destruct Hs as [Hs|(C' & j' & x & I & G & E)]; [now left|].
        right. split; [exact C'|]. exists j', x. repeat split; auto. now right.
      - unfold slot_ok in *. rewrite count_key_cons_other by exact K2.
        destruct (p_mode p); [exact Hm|]. destruct Hm as [Hm|(C' & j' & x & I & G & E)]; [now left|].
        right. split; [exact C'|]. exists j', x. repeat split; auto. now right. }
    destruct (beq k (B "sql")) eqn:Ks.
    { apply beq_eq in Ks; subst k.
      destruct (p_sql p) eqn:PS; [discriminate|]. destruct (as_str j) as [s|] eqn:U; [|discriminate].
      apply IH in H. cbn [p_v p_sql p_mode] in H. destruct H as (Hv & Hs & Hm).
      unfold slot_ok in Hs. destruct Hs as [C ->].
      repeat split.
      - unfold slot_ok in *. rewrite count_key_cons_other by exact K4.
        destruct (p_v p); [exact Hv|]. destruct Hv as [Hv|(C' & j' & x & I & G & E)]; [now left|].
        right. split; [exact C'|]. exists j', x. repeat split; auto. now right.
      - unfold slot_ok. right. rewrite count_key_cons_same, C. split; [reflexivity|].
        exists j, s. repeat split; auto. now left.
      - unfold slot_ok in *. rewrite count_key_cons_other by exact K3.
        destruct (p_mode p); [exact Hm|]. destruct Hm as [Hm|(C' & j' & x & I & G & E)]; [now left|].
        right. split; [exact C'|]. exists j', x. repeat split; auto. now right. }
    destruct (beq k (B "mode")) eqn:Km.
    { apply beq_eq in Km; subst k.
      destruct (p_mode p) eqn:PM; [discriminate|]. destruct (as_str j) as [s|] eqn:U; [|discriminate].
      apply IH in H. cbn [p_v p_sql p_mode] in H. destruct H as (Hv & Hs & Hm).
      unfold slot_ok in Hm. destruct Hm as [C ->].
      repeat split.
      - unfold slot_ok in *. rewrite count_key_cons_other by exact K5.
        destruct (p_v p); [exact Hv|]. destruct Hv as [Hv|(C' & j' & x & I & G & E)]; [now left|].
        right. split; [exact C'|]. exists j', x. repeat split; auto. now right.
      - unfold slot_ok in *. rewrite count_key_cons_other by exact K6.
        destruct (p_sql p); [exact Hs|]. destruct Hs as [Hs|(C' & j' & x & I & G & E)]; [now left|].
        right. split; [exact C'|]. exists j', x. repeat split; auto. now right.
      - unfold slot_ok. right. rewrite count_key_cons_same, C. split; [reflexivity|].
        exists j, s. repeat split; auto. now left. }
    apply IH in H. destruct H as (Hv & Hs & Hm).
    repeat split; unfold slot_ok in *.
    + rewrite count_key_cons_other by exact Kv.
      destruct (p_v p); [exact Hv|]. destruct Hv as [Hv|(C' & j' & x & I & G & E)]; [now left|].
      right. split; [exact C'|]. exists j', x. repeat split; auto. now right.
    + rewrite count_key_cons_other by exact Ks.
      destruct (p_sql p); [exact Hs|]. destruct Hs as [Hs|(C' & j' & x & I & G & E)]; [now left|].
      right. split; [exact C'|]. exists j', x. repeat split; auto. now right.
    + rewrite count_key_cons_other by exact Km.
      destruct (p_mode p); [exact Hm|]. destruct Hm as [Hm|(C' & j' & x & I & G & E)]; [now left|].
      right. split; [exact C'|]. exists j', x. repeat split; auto. now right.
Qed.

(* an accepted OBJECT ticket: `v` and `sql` exactly once and well-typed, `mode` at most once (default auto) *)
Theorem ticket_object_shape fs t :
  ticket_of_json (JObj fs) = Some t ->
  count_key (B "v") fs = 1%nat /\ (exists j, In (B "v", j) fs /\ as_u32 j = Some (t_v t)) /\
  0 <= t_v t < 4294967296 /\
  count_key (B "sql") fs = 1%nat /\ In (B "sql", JStr (t_sql t)) fs /\
  ((count_key (B "mode") fs = 0%nat /\ t_mode t = B "auto") \/
   (count_key (B "mode") fs = 1%nat /\ In (B "mode", JStr (t_mode t)) fs)).
Proof.
  cbn [ticket_of_json]. destruct (visit_map fs (mkPartial None None None)) as [p|] eqn:V; [|discriminate].
  apply visit_map_slots in V. cbn [p_v p_sql p_mode slot_ok] in V. destruct V as (Hv & Hs & Hm).
  unfold finish. intros F.
  destruct Hv as [[_ E]|(Cv & jv & n & Iv & Gv & Ev)]; [rewrite E in F; discriminate|].
  destruct Hs as [[_ E]|(Cs & js & s & Is & Gs & Es)]; [rewrite Ev, E in F; discriminate|].
  rewrite Ev, Es in F.
  assert (Js : js = JStr s) by (destruct js; cbn in Gs; congruence). subst js.
  assert (Rn : 0 <= n < 4294967296).
  { destruct jv; cbn in Gv; try discriminate.
    destruct (Z.leb_spec 0 n0), (Z.ltb_spec n0 4294967296); cbn in Gv; try discriminate.
    inversion Gv; subst. lia. }
  destruct Hm as [[Cm Em]|(Cm & jm & m & Im & Gm & Em)]; rewrite Em in F; inversion F; subst; cbn [t_v t_sql t_mode].
  - repeat split; auto; try lia. exists jv. auto.
  - assert (Jm : jm = JStr m) by (destruct jm; cbn in Gm; congruence). subst jm.
    repeat split; auto; try lia. exists jv. auto.
Qed.
(* a repeated known key is refused *)
Theorem ticket_duplicate_key_refused fs k :
  In k [B "v"; B "sql"; B "mode"] -> (2 <= count_key k fs)%nat -> ticket_of_json (JObj fs) = None.
Proof.
  intros Hk Hc. destruct (ticket_of_json (JObj fs)) as [t|] eqn:T; [|reflexivity].
  apply ticket_object_shape in T. destruct T as (C1 & _ & _ & C2 & _ & [[C3 _]|[C3 _]]);
    cbn [In] in Hk; destruct Hk as [<-|[<-|[<-|[]]]]; lia.
Qed.
(* scalars are refused; arrays are the positional form *)
Theorem ticket_scalar_refused j :
  (forall fs, j <> JObj fs) -> (forall l, j <> JArr l) -> ticket_of_json j = None.
Proof. intros H1 H2. destruct j; try reflexivity; [exfalso; eapply H2 | exfalso; eapply H1]; reflexivity. Qed.
Theorem ticket_array_shape l t :
  ticket_of_json (JArr l) = Some t ->
  (exists a, l = [a; JStr (t_sql t)] /\ as_u32 a = Some (t_v t) /\ t_mode t = B "auto") \/
  (exists a, l = [a; JStr (t_sql t); JStr (t_mode t)] /\ as_u32 a = Some (t_v t)).
Proof.
  cbn [ticket_of_json]. unfold visit_seq.
  destruct l as [|a [|b [|c [|d r]]]]; try discriminate.
  - destruct (as_u32 a) eqn:A; [|discriminate]. destruct b; cbn [as_str]; try discriminate.
    intros H; inversion H; subst. left. exists a. cbn. auto.
  - destruct (as_u32 a) eqn:A; [|discriminate]. destruct b; cbn [as_str]; try discriminate.
    destruct c; cbn [as_str]; try discriminate.
    intros H; inversion H; subst. right. exists a. cbn. auto.
Qed.
(* the minted shape is accepted as itself *)
Lemma ticket_of_minted sql mode : ticket_of_json (ticket_json sql mode) = Some (mkTicket 1 sql mode).
Proof.
  destruct kv as (K1 & K2 & K3 & K4 & K5 & K6).
  unfold ticket_json. cbn [ticket_of_json visit_map p_v p_sql p_mode as_u32 as_str].
  rewrite !beq_refl, K4, K5, K6. cbn. reflexivity.
Qed.

(* --- minting: length of the ticket --- *)
Lemma zlen_app {A} (a b : list A) : zlen (a ++ b) = zlen a + zlen b.
Proof. unfold zlen. rewrite app_length. lia. Qed.
Lemma zlen_nonneg {A} (a : list A) : 0 <= zlen a.
Proof. unfold zlen. lia. Qed.
Lemma zlen_json_escape s : zlen (json_escape s) = esc_len s.
Proof.
  unfold json_escape, esc_len. induction s as [|c s IH]; [reflexivity|].
  cbn [flat_map map]. rewrite zlen_app, zsum_cons, IH. reflexivity.
Qed.
Lemma ticket_bytes_len sql mode : zlen (ticket_bytes sql mode) = ticket_len sql mode.
Proof.
  unfold ticket_bytes, ticket_len, ticket_len_of. rewrite !zlen_app, !zlen_json_escape.
  change (zlen (B "{""v"":1,""sql"":""")) with 14.
  change (zlen (B """,""mode"":""")) with 10.
  change (zlen (B """}")) with 2. lia.
Qed.
Lemma esc_len_byte_bounds c : 1 <= esc_len_byte c <= 6.
Proof.
  unfold esc_len_byte, esc_byte.
  repeat match goal with |- context [if ?b then _ else _] => destruct b end; cbv; split; congruence.
Qed.
Lemma esc_len_ge s : zlen s <= esc_len s.
Proof.
  unfold esc_len. induction s as [|c s IH]; [cbv; congruence|].
  cbn [map]. rewrite zsum_cons. pose proof (esc_len_byte_bounds c). unfold zlen in *. cbn [length]. lia.
Qed.
Lemma esc_len_app a b : esc_len (a ++ b) = esc_len a + esc_len b.
Proof. unfold esc_len. now rewrite map_app, zsum_app. Qed.
Lemma esc_len_repeat c n : esc_len (repeat c n) = Z.of_nat n * esc_len_byte c.
Proof.
  unfold esc_len. induction n as [|n IH]; [reflexivity|].
  cbn [repeat map]. rewrite zsum_cons, IH. lia.
Qed.

Section Reader.
  (* serde_json::from_slice, as far as the theorems need it: it reads a minted ticket back (per instance) *)
  Variable json_parse : bytes -> option jvalue.

  (* every ticket GetFlightInfo mints validates, as the statement and mode it was minted for, if it is within the cap *)
  Theorem issued_tickets_accepted sql mode m :
    json_parse (ticket_bytes sql mode) = Some (ticket_json sql mode) ->
    flight_parse_mode mode = Some m ->
    ticket_len sql mode <= MAX_TICKET_BYTES ->
    ticket_validate_bytes json_parse (ticket_bytes sql mode) = Accept sql m.
  Proof.
    intros R P L. unfold ticket_validate_bytes. rewrite R, ticket_bytes_len.
    apply ticket_accept_iff. split; [exact L|].
    exists (ticket_json sql mode), (mkTicket 1 sql mode). pose proof (ticket_of_minted sql mode). repeat split; auto.
  Qed.

  (* ... and is refused (by the size cap alone, before the reader runs) otherwise *)
  Theorem issued_over_cap_refused sql mode :
    MAX_TICKET_BYTES < ticket_len sql mode ->
    ticket_validate_bytes json_parse (ticket_bytes sql mode) = TooBig.
  Proof.
    intros L. unfold ticket_validate_bytes. rewrite ticket_bytes_len.
    apply (proj1 (ticket_refusals _ _)). exact L.
  Qed.

  (* outside the known class every statement within the command cap gets a ticket that validates *)
  Theorem issued_accepted_outside_known sql mode m :
    json_parse (ticket_bytes sql mode) = Some (ticket_json sql mode) ->
    flight_parse_mode mode = Some m ->
    zlen sql <= MAX_COMMAND_BYTES ->
    known_ticket_over_cap sql mode = false ->
    ticket_validate_bytes json_parse (ticket_bytes sql mode) = Accept sql m.
  Proof.
    intros R P L K. apply issued_tickets_accepted; auto.
    unfold known_ticket_over_cap in K. apply andb_false_iff in K as [K|K].
    - apply Z.leb_gt in K. lia.
    - apply Z.ltb_ge in K. exact K.
  Qed.
End Reader.

(* the command parser only ever yields a mode the ticket validation knows *)
Theorem command_mode_valid len utf8 text parsed trim sql mode :
  parse_command len utf8 text parsed trim = CmdOk sql mode ->
  len <= MAX_COMMAND_BYTES /\ exists m, flight_parse_mode mode = Some m.
Proof.
  unfold parse_command.
  destruct (Z.ltb_spec MAX_COMMAND_BYTES len) as [L|L]; [discriminate|].
  destruct utf8; cbn [negb]; [|discriminate].
  destruct text as [|c r]; [discriminate|].
  destruct (c =? 123).
  - destruct parsed as [j|]; [|discriminate]. destruct (cmd_of_json j) as [[s md]|]; [|discriminate].
    destruct (trim s); [discriminate|].
    destruct (flight_parse_mode md) as [m|] eqn:P; [|discriminate].
    intros H; inversion H; subst. split; [exact L|]. exists m. exact P.
  - intros H; inversion H; subst. split; [exact L|]. exists Auto. reflexivity.
Qed.

(* the property as stated ("every issued ticket is honoured") is FALSE of the faithful model: a statement within
   the command cap (and within POST /sql's body cap) whose ticket exceeds the ticket cap *)
Definition overcap_witness : bytes := repeat 32 (Z.to_nat (MAX_TICKET_BYTES - 29)).
Theorem issued_tickets_refuted :
  zlen overcap_witness <= MAX_COMMAND_BYTES /\
  flight_parse_mode default_mode = Some Auto /\
  known_ticket_over_cap overcap_witness default_mode = true /\
  forall json_parse, ticket_validate_bytes json_parse (ticket_bytes overcap_witness default_mode) = TooBig.
Proof.
  assert (L : zlen overcap_witness = MAX_TICKET_BYTES - 29).
  { unfold overcap_witness, zlen. rewrite repeat_length, Z2Nat.id; [reflexivity | cbv; congruence]. }
  assert (E : ticket_len overcap_witness default_mode = MAX_TICKET_BYTES + 1).
  { unfold ticket_len, ticket_len_of, overcap_witness. rewrite esc_len_repeat, Z2Nat.id by (cbv; congruence).
    change (esc_len_byte 32) with 1. change (esc_len default_mode) with 4. lia. }
  split; [|split; [|split]].
  - rewrite L. unfold MAX_COMMAND_BYTES. lia.
  - reflexivity.
  - unfold known_ticket_over_cap. rewrite L, E. unfold MAX_COMMAND_BYTES.
    destruct (Z.leb_spec (MAX_TICKET_BYTES - 29) MAX_TICKET_BYTES); [|lia].
    destruct (Z.ltb_spec MAX_TICKET_BYTES (MAX_TICKET_BYTES + 1)); [reflexivity | lia].
  - intros jp. apply issued_over_cap_refused. rewrite E. lia.
Qed.
(* the class is empty for statements that leave room for the fixed fields and their escapes *)
Theorem known_class_characterised sql mode :
  known_ticket_over_cap sql mode = true <->
  zlen sql <= MAX_COMMAND_BYTES /\ MAX_TICKET_BYTES < 26 + esc_len sql + esc_len mode.
Proof.
  unfold known_ticket_over_cap, ticket_len, ticket_len_of. rewrite andb_true_iff, Z.leb_le, Z.ltb_lt. lia.
Qed.

(* ================================================================== *)
(* 3. slicing                                                          *)
(* ================================================================== *)
Section SliceProofs.
  Context {A : Type}.
  Variable M : nat.

  Lemma slices_fuel_concat fuel : forall b : list A, concat (slices_fuel M fuel b) = b.
  Proof.
    induction fuel as [|f IH]; intros b; cbn [slices_fuel].
    - cbn. apply app_nil_r.
    - destruct (skipn M b) as [|x r] eqn:S.
      + cbn [concat]. rewrite app_nil_r. rewrite <- (firstn_skipn M b) at 2. rewrite S. now rewrite app_nil_r.
      + cbn [concat]. rewrite IH. rewrite <- S. apply firstn_skipn.
  Qed.
  Theorem slices_concat (b : list A) : concat (slices M b) = b.
  Proof. apply slices_fuel_concat. Qed.

  Hypothesis M_pos : (0 < M)%nat.

  Lemma slices_fuel_bounded fuel : forall b : list A, (length b <= fuel)%nat ->
    Forall (fun s => (length s <= M)%nat) (slices_fuel M fuel b).
  Proof.
    induction fuel as [|f IH]; intros b Hb; cbn [slices_fuel].
    - constructor; [lia | constructor].
    - destruct (skipn M b) as [|x r] eqn:S.
      + constructor; [|constructor]. rewrite firstn_length. lia.
      + constructor; [rewrite firstn_length; lia|]. rewrite <- S. apply IH.
        assert (length (skipn M b) = (length b - M)%nat) by apply skipn_length.
        assert (length (skipn M b) <> 0%nat) by (rewrite S; cbn; lia). lia.
  Qed.
  Theorem slices_bounded (b : list A) : Forall (fun s => (length s <= M)%nat) (slices M b).
  Proof. apply slices_fuel_bounded. lia. Qed.

  Lemma slices_fuel_nonempty fuel : forall b : list A, (length b <= fuel)%nat -> b <> [] ->
    Forall (fun s => s <> []) (slices_fuel M fuel b).
  Proof.
    induction fuel as [|f IH]; intros b Hb Hne; cbn [slices_fuel].
    - destruct b; [congruence | cbn in Hb; lia].
    - assert (F : firstn M b <> []).
      { destruct b as [|y b']; [congruence|]. destruct M; [lia|]. cbn. congruence. }
      destruct (skipn M b) as [|x r] eqn:S.
      + constructor; [exact F | constructor].
      + constructor; [exact F|]. rewrite <- S. apply IH.
        * assert (length (skipn M b) = (length b - M)%nat) by apply skipn_length.
          assert (length (skipn M b) <> 0%nat) by (rewrite S; cbn; lia). lia.
        * rewrite S. congruence.
  Qed.
  Theorem slices_nonempty (b : list A) : b <> [] -> Forall (fun s => s <> []) (slices M b).
  Proof. apply slices_fuel_nonempty. lia. Qed.

  (* a zero-row batch still emits exactly one (zero-row) message; no batch emits none *)
  Theorem slices_nil : slices M (@nil A) = [[]].
  Proof. reflexivity. Qed.
  Theorem slices_never_empty (b : list A) : slices M b <> [].
  Proof. unfold slices. destruct (length b); cbn [slices_fuel]; [congruence|]. destruct (skipn M b); congruence. Qed.
  (* a batch within the limit is one message, itself *)
  Theorem slices_small (b : list A) : (length b <= M)%nat -> slices M b = [b].
  Proof.
    intros H. unfold slices. destruct (length b) eqn:L; cbn [slices_fuel]; [reflexivity|].
    rewrite skipn_all2 by lia. rewrite firstn_all2 by lia. reflexivity.
  Qed.

  (* the stream: batches then the zero-row trailer batch *)
  Lemma stream_msgs_cons (b : list A) bs : stream_msgs M (b :: bs) = slices M b ++ stream_msgs M bs.
  Proof. reflexivity. Qed.
  Lemma stream_msgs_nil : stream_msgs M (@nil (list A)) = [[]].
  Proof. reflexivity. Qed.

  Theorem stream_concat (bs : list (list A)) : concat (stream_msgs M bs) = concat bs.
  Proof.
    induction bs as [|b bs IH]; [reflexivity|].
    rewrite stream_msgs_cons, concat_app, slices_concat, IH. reflexivity.
  Qed.
  Theorem stream_bounded (bs : list (list A)) : Forall (fun s => (length s <= M)%nat) (stream_msgs M bs).
  Proof.
    induction bs as [|b bs IH].
    - rewrite stream_msgs_nil. constructor; [cbn; lia | constructor].
    - rewrite stream_msgs_cons. apply Forall_app. split; [apply slices_bounded | exact IH].
  Qed.
  (* the stream always ends with the zero-row trailer message, also for an empty result *)
  Theorem stream_ends_with_trailer (bs : list (list A)) :
    exists pre, stream_msgs M bs = pre ++ [[]] /\ pre = concat (map (slices M) bs).
  Proof.
    exists (concat (map (slices M) bs)). split; [|reflexivity].
    unfold stream_msgs. rewrite map_app, concat_app. cbn [map concat]. rewrite slices_nil. reflexivity.
  Qed.
  Theorem stream_rows_sum (bs : list (list A)) :
    zsum (map zlen (stream_msgs M bs)) = zsum (map zlen bs).
  Proof.
    assert (G : forall l : list (list A), zsum (map zlen l) = zlen (concat l)).
    { induction l as [|x l IH]; [reflexivity|]. cbn [map concat]. rewrite zsum_cons, IH.
      unfold zlen. rewrite app_length. lia. }
    rewrite !G, stream_concat. reflexivity.
  Qed.
  (* only batches that were themselves empty contribute zero-row messages before the trailer *)
  Theorem stream_data_nonempty (bs : list (list A)) :
    Forall (fun b => b <> []) bs -> Forall (fun s => s <> []) (concat (map (slices M) bs)).
  Proof.
    induction bs as [|b bs IH]; intros H; [constructor|].
    inversion H; subst. cbn [map concat]. apply Forall_app. split; [now apply slices_nonempty | now apply IH].
  Qed.
End SliceProofs.

Lemma max_rows_Z : Z.of_nat MAX_ENCODE_ROWS = 4096.
Proof. unfold MAX_ENCODE_ROWS. apply Z2Nat.id. lia. Qed.
Lemma max_rows_pos : (0 < MAX_ENCODE_ROWS)%nat.
Proof. pose proof max_rows_Z. lia. Qed.

(* the metadata trailer's row count is the number of rows streamed *)
Theorem trailer_rows_is_sum {A} (r : query_result A) :
  result_wf r -> trailer_rows r = zsum (map zlen (stream_msgs MAX_ENCODE_ROWS (q_batches r))).
Proof. intros W. unfold trailer_rows. rewrite stream_rows_sum by apply max_rows_pos. exact W. Qed.

Lemma forallb_map_zlen {A} (l : list (list A)) :
  Forall (fun s => (length s <= MAX_ENCODE_ROWS)%nat) l ->
  forallb (fun n => (0 <=? n) && (n <=? 4096)) (map zlen l) = true.
Proof.
  induction 1 as [|s l Hs _ IH]; [reflexivity|]. cbn [map forallb]. rewrite IH, andb_true_r.
  pose proof max_rows_Z. unfold zlen.
  destruct (Z.leb_spec 0 (Z.of_nat (length s))); [|lia].
  destruct (Z.leb_spec (Z.of_nat (length s)) 4096); [reflexivity | lia].
Qed.

(* the modelled stream meets the executable stream specification for every result *)
Theorem stream_model_meets_spec {A} (r : query_result A) :
  result_wf r ->
  let msgs := map zlen (stream_msgs MAX_ENCODE_ROWS (q_batches r)) in
  stream_spec_ok (q_row_count r) msgs [zlen msgs] (trailer_rows r) = true.
Proof.
  intros W msgs. unfold stream_spec_ok. rewrite !andb_true_iff. repeat split.
  - apply forallb_map_zlen. apply stream_bounded. apply max_rows_pos.
  - apply Z.eqb_eq. unfold msgs. rewrite stream_rows_sum by apply max_rows_pos. symmetry. exact W.
  - unfold msgs. destruct (stream_ends_with_trailer MAX_ENCODE_ROWS (q_batches r)) as (pre & -> & _).
    rewrite map_app, rev_app_distr. reflexivity.
  - cbn [list_eqb]. now rewrite Z.eqb_refl.
  - apply Z.eqb_eq. reflexivity.
Qed.

(* ================================================================== *)
(* 4. both front doors are one function of (state, statement, mode)     *)
(* ================================================================== *)
(* a well-formed POST /sql is exactly http_sql of the shared execute_statement *)
Theorem http_door_is_execute_statement rq e f m :
  result_format_parse (r_query rq) = Some f -> dist_mode_parse (r_query rq) = Some m ->
  e_load e = Loaded -> body_ok rq -> r_encodes rq = true ->
  sql_handler rq e = http_sql f m e.
Proof.
  intros F M L Bd En. rewrite (handler_reaches_exec rq e f m F M L Bd). unfold http_sql.
  destruct (execute_statement m e); rewrite ?En; reflexivity.
Qed.

(* same answer class, same distribution decision, same reason, through both doors *)
Theorem doors_agree f m e :
  option_map view_coarse (view_http (http_sql f m e)) = Some (view_coarse (view_flight (flight_do_get m e))).
Proof.
  unfold http_sql, flight_do_get. destruct (execute_statement m e) as [fl|w| |k c|]; try reflexivity.
  destruct k; reflexivity.
Qed.
Theorem doors_agree_on_rows f m e d w :
  http_sql f m e = RespRows f d w <-> flight_do_get m e = FlightRows d w.
Proof.
  unfold http_sql, flight_do_get. destruct (execute_statement m e) as [fl|w'| |k c|]; split; intros H;
    try discriminate; try (inversion H; subst; reflexivity).
Qed.
(* the distribution decision of a ticket minted for a spelling is the decision POST /sql takes for that spelling *)
Theorem doors_same_decision v m e f :
  http_mode_value v = Some m ->
  exists m', flight_parse_mode v = Some m' /\
    option_map view_coarse (view_http (http_sql f m e)) = Some (view_coarse (view_flight (flight_do_get m' e))).
Proof. intros H. exists m. split; [now apply flight_mode_extends_http | apply doors_agree]. Qed.

(* status vocabulary of the two doors, error by error *)
Theorem error_vocabulary k :
  (err_status k = 501 <-> query_error_code k = Unimplemented) /\
  (err_status k = 400 <-> query_error_code k <> Unimplemented).
Proof. destruct k; cbn; repeat split; intros; try congruence; try lia. Qed.

(* non-vacuity *)
Example ex_reader : bytes -> option jvalue := fun _ => Some (ticket_json (B "SELECT 1") (B "force")).
Example ex_issued :
  ticket_validate_bytes ex_reader (ticket_bytes (B "SELECT 1") (B "force")) = Accept (B "SELECT 1") Force.
Proof. apply issued_tickets_accepted; [reflexivity | reflexivity | vm_compute; congruence]. Qed.
Example ex_ticket_text : ticket_bytes (B "a""b") (B "auto") = B "{""v"":1,""sql"":""a\""b"",""mode"":""auto""}".
Proof. vm_compute. reflexivity. Qed.
Example ex_slices : map zlen (stream_msgs (Z.to_nat 4) [repeat tt 9; []; repeat tt 4]) = [4; 4; 1; 0; 4; 0].
Proof. vm_compute. reflexivity. Qed.
Example ex_result_wf : result_wf (mkResult [repeat tt 3; repeat tt 2] 5).
Proof. vm_compute. reflexivity. Qed.
Example ex_dup_refused : ticket_of_json (JObj [(B "v", JInt 1); (B "v", JInt 1); (B "sql", JStr (B "x"))]) = None.
Proof. vm_compute. reflexivity. Qed.
Example ex_array_form : ticket_of_json (JArr [JInt 1; JStr (B "x")]) = Some (mkTicket 1 (B "x") (B "auto")).
Proof. vm_compute. reflexivity. Qed.
