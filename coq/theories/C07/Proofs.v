(* C07 — answers do not depend on parallelism, batching or scheduling.
   Everything is stated over the Gallina relational semantics of Sql/Query.v (`rel := list row`).
   1. batch homomorphisms: filter, projection, the PROBE side of inner/left/semi/anti/cross joins (and the right
      side of a right join) and UNION ALL commute with concatenation of batches;
   2. `peval`: the partition-wise evaluator (streaming operators map over the partitions, pipeline breakers gather,
      LIMIT is C25's LimitExec over the partition list) agrees with `qeval` on the concatenated input, for EVERY
      query — hence the answer is the same for any two splits of the same tables (`split_irrelevant`);
   3. arrival order (thread interleaving): permuting the rows of the inputs permutes the output of every bag
      operator (`qeval_perm`), leaves the SET OF GROUPS of DISTINCT / GROUP BY and every member list (as a bag)
      unchanged (`dby_perm_count`, `group_rows_perm`), leaves order-insensitive aggregates unchanged
      (`agg_apply_perm_any`), and a sort of a permuted input is a sorted permutation of the same rows;
      aggregation over a split is the merge of the partial states for any merge tree (C21);
   4. the partition contract on a model of the operator classes (`partition_contract`).
   anchors: src/execution/context.rs (ExecutionContext::sql: one future per output partition, join_all),
            src/physical/operators/{filter,project,hash_join,union,limit,hash_agg,sort,scan}.rs,
            src/physical/operators/spillable.rs (collect_input_partitions_concurrently), src/physical/plan.rs (check_partition) *)
From QV Require Import Sql.Query Sql.QueryProofs C21.Proofs C22.Proofs C25.Model C25.Proofs.
From Coq Require Import Sorting.Sorted.

(* ================= 1. batch homomorphisms ================= *)
Lemma filter_concat {A} (p : A -> bool) parts : filter p (concat parts) = concat (map (filter p) parts).
Proof. induction parts as [|b parts IH]; cbn [concat map]; [reflexivity|]. now rewrite filter_app, IH. Qed.

Lemma map_concat {A B} (f : A -> B) parts : map f (concat parts) = concat (map (map f) parts).
Proof. apply concat_map. Qed.

Lemma flat_map_concat {A B} (f : A -> list B) parts : flat_map f (concat parts) = concat (map (flat_map f) parts).
Proof. induction parts as [|b parts IH]; cbn [concat map]; [reflexivity|]. now rewrite flat_map_app, IH. Qed.

(* the joins whose output can be produced one probe batch at a time (probe = left input here; the engine
   chooses the probe side freely for inner joins, C22 build_side_irrelevant) *)
Definition probe_local (jt : jointype) : bool :=
  match jt with JInner | JLeft | JSemi | JAnti | JCross => true | JRight | JFull => false end.

Lemma join_probe_app jt wl wr ok L1 L2 R : probe_local jt = true ->
  join_gen jt wl wr ok (L1 ++ L2) R = join_gen jt wl wr ok L1 R ++ join_gen jt wl wr ok L2 R.
Proof. destruct jt; intros H; try discriminate; cbn [join_gen]; first [apply flat_map_app | apply filter_app]. Qed.

Lemma join_probe_nil jt wl wr ok R : probe_local jt = true -> join_gen jt wl wr ok [] R = [].
Proof. destruct jt; intros H; try discriminate; reflexivity. Qed.

Lemma join_probe_concat jt wl wr ok parts R : probe_local jt = true ->
  join_gen jt wl wr ok (concat parts) R = concat (map (fun L => join_gen jt wl wr ok L R) parts).
Proof.
  intros H. induction parts as [|b parts IH]; cbn [concat map]; [now apply join_probe_nil|].
  now rewrite join_probe_app, IH.
Qed.

(* a RIGHT join is local in its right input *)
Lemma join_right_app wl wr ok L R1 R2 :
  join_gen JRight wl wr ok L (R1 ++ R2) = join_gen JRight wl wr ok L R1 ++ join_gen JRight wl wr ok L R2.
Proof. cbn [join_gen]. apply flat_map_app. Qed.

Lemma join_right_concat wl wr ok L parts :
  join_gen JRight wl wr ok L (concat parts) = concat (map (fun R => join_gen JRight wl wr ok L R) parts).
Proof. cbn [join_gen]. apply flat_map_concat. Qed.

(* FULL OUTER is local in neither input: the unmatched rows of the other side would be emitted once per batch.
   (HashJoinExec emits them once, after the last probe partition has finished.) *)
Example full_join_not_batch_local :
  let ok := fun (l r : row) => match l, r with [VInt a], [VInt b] => Z.eqb a b | _, _ => false end in
  let L1 := [[VInt 1]] in let L2 := [[VInt 2]] in let R := [[VInt 1]] in
  join_gen JFull 1 1 ok (L1 ++ L2) R = [[VInt 1; VInt 1]; [VInt 2; VNull]] /\
  join_gen JFull 1 1 ok L1 R ++ join_gen JFull 1 1 ok L2 R = [[VInt 1; VInt 1]; [VInt 2; VNull]; [VNull; VInt 1]].
Proof. split; reflexivity. Qed.

Lemma union_all_concat {A} (p1 p2 : list (list A)) : concat p1 ++ concat p2 = concat (p1 ++ p2).
Proof. symmetry. apply concat_app. Qed.

(* ================= 2. the partition-wise evaluator ================= *)
Section PEval.
  Variable Q : qsem.
  Hypothesis union_all_is_app : forall L R, q_setop Q SUnion true L R = L ++ R.
  Variable pdb : list (list rel).                  (* every table as a list of parts (batches / partitions / morsels) *)

  Fixpoint peval (q : query) : list rel :=
    match q with
    | QTable n _ => nth n pdb []
    | QValues _ _ => [qeval Q (map (@concat row) pdb) q]
    | QFilter q p => map (filter (fun r => keeps (eval (q_esem Q) r p))) (peval q)
    | QProject q es => map (map (fun r => map (eval (q_esem Q) r) es)) (peval q)
    | QJoin jt l r on =>
        if probe_local jt
        then map (fun part => join_rows Q jt (width l) (width r) on part (concat (peval r))) (peval l)
        else [join_rows Q jt (width l) (width r) on (concat (peval l)) (concat (peval r))]
    | QAgg q keys aggs => [group_rows Q keys aggs (concat (peval q))]
    | QDistinct q => [distinct (concat (peval q))]
    | QSetOp op all l r =>
        match op, all with
        | SUnion, true => peval l ++ peval r
        | _, _ => [q_setop Q op all (concat (peval l)) (concat (peval r))]
        end
    | QSort q keys => [sort_rows Q keys (concat (peval q))]
    | QLimit q skip fetch => limit_exec skip fetch [peval q]
    end.

  Theorem peval_sound q : concat (peval q) = qeval Q (map (@concat row) pdb) q.
  Proof.
    induction q as [n w|w rows|q IH p|q IH es|jt l IHl r IHr on|q IH keys aggs|q IH|op all l IHl r IHr|q IH keys|q IH skip fetch];
      cbn [peval qeval].
    - symmetry. exact (map_nth (@concat row) pdb [] n).
    - cbn [concat]. apply app_nil_r.
    - now rewrite <- filter_concat, IH.
    - now rewrite <- map_concat, IH.
    - destruct (probe_local jt) eqn:Hjt.
      + unfold join_rows. rewrite <- join_probe_concat by exact Hjt. now rewrite IHl, IHr.
      + cbn [concat]. now rewrite app_nil_r, IHl, IHr.
    - cbn [concat]. now rewrite app_nil_r, IH.
    - cbn [concat]. now rewrite app_nil_r, IH.
    - destruct op, all; cbn [concat]; rewrite ?app_nil_r, ?concat_app, ?IHl, ?IHr; try reflexivity.
      now rewrite union_all_is_app.
    - cbn [concat]. now rewrite app_nil_r, IH.
    - rewrite limit_exec_correct. cbn [concat]. rewrite app_nil_r, IH. reflexivity.
  Qed.
End PEval.

Theorem split_irrelevant Q (HU : forall L R, q_setop Q SUnion true L R = L ++ R) pdb1 pdb2 q :
  map (@concat row) pdb1 = map (@concat row) pdb2 ->
  concat (peval Q pdb1 q) = concat (peval Q pdb2 q).
Proof. intros H. rewrite !peval_sound by exact HU. now rewrite H. Qed.

Lemma sql_union_all L R : q_setop sql_qsem SUnion true L R = L ++ R. Proof. reflexivity. Qed.
Lemma eng_union_all L R : q_setop eng_qsem SUnion true L R = L ++ R. Proof. reflexivity. Qed.

(* the streaming part of a plan really is produced part by part: for a filter / projection / probe pipeline over
   table n the k-th output part depends on the k-th input part only *)
Example peval_streams :
  let pdb := [[[[VInt 1]; [VInt 5]]; [[VInt 7]]; []]; [[[VInt 5]]; [[VInt 7]]]] in
  let q := QJoin JInner (QFilter (QTable 0 1) (ECmp CGt (ECol 0) (ELit (VInt 2)))) (QTable 1 1) (ECmp CEq (ECol 0) (ECol 1)) in
  peval eng_qsem pdb q = [[[VInt 5; VInt 5]]; [[VInt 7; VInt 7]]; []].
Proof. vm_compute. reflexivity. Qed.

(* ================= 3. arrival order ================= *)
Lemma existsb_perm {A} (f : A -> bool) l l' : Permutation l l' -> existsb f l = existsb f l'.
Proof.
  induction 1 as [|x l l' H IH|x y l|l l' l'' H1 IH1 H2 IH2]; cbn [existsb]; try congruence.
  destruct (f x), (f y); reflexivity.
Qed.

Lemma flat_map_perm_pointwise {A B} (f g : A -> list B) l :
  (forall a, In a l -> Permutation (f a) (g a)) -> Permutation (flat_map f l) (flat_map g l).
Proof.
  induction l as [|a l IH]; intros H; cbn [flat_map]; [constructor|].
  apply Permutation_app; [apply H; now left | apply IH; intros; apply H; now right].
Qed.

Lemma match_nil_perm {A B} (d : list B) (f : A -> B) a b :
  Permutation a b ->
  Permutation (match a with [] => d | x :: t => map f (x :: t) end) (match b with [] => d | x :: t => map f (x :: t) end).
Proof.
  intros H. destruct a as [|x a], b as [|y b].
  - reflexivity.
  - now apply Permutation_nil in H.
  - symmetry in H. now apply Permutation_nil in H.
  - now apply Permutation_map.
Qed.

Lemma join_gen_perm_l jt wl wr ok L L' R :
  Permutation L L' -> Permutation (join_gen jt wl wr ok L R) (join_gen jt wl wr ok L' R).
Proof.
  intros H. destruct jt; cbn [join_gen]; try (now apply Permutation_flat_map); try (now apply filter_perm).
  - (* right *) apply flat_map_perm_pointwise. intros r _.
    apply (match_nil_perm [nulls wl ++ r] (fun l0 : row => l0 ++ r)). now apply filter_perm.
  - (* full *) apply Permutation_app; [now apply Permutation_flat_map|].
    erewrite filter_ext; [reflexivity|]. intros r. cbn beta. f_equal. now apply existsb_perm.
Qed.

Lemma join_gen_perm_r jt wl wr ok L R R' :
  Permutation R R' -> Permutation (join_gen jt wl wr ok L R) (join_gen jt wl wr ok L R').
Proof.
  intros H. destruct jt; cbn [join_gen].
  - apply flat_map_perm_pointwise. intros l _. now apply Permutation_map, filter_perm.
  - apply flat_map_perm_pointwise. intros l _.
    apply (match_nil_perm [l ++ nulls wr] (fun r0 : row => l ++ r0)). now apply filter_perm.
  - now apply Permutation_flat_map.
  - apply Permutation_app.
    + apply flat_map_perm_pointwise. intros l _.
      apply (match_nil_perm [l ++ nulls wr] (fun r0 : row => l ++ r0)). now apply filter_perm.
    + now apply Permutation_map, filter_perm.
  - erewrite filter_ext; [reflexivity|]. intros l. cbn beta. now apply existsb_perm.
  - erewrite filter_ext; [reflexivity|]. intros l. cbn beta. f_equal. now apply existsb_perm.
  - apply flat_map_perm_pointwise. intros l _. now apply Permutation_map.
Qed.

Theorem join_gen_perm jt wl wr ok L L' R R' :
  Permutation L L' -> Permutation R R' -> Permutation (join_gen jt wl wr ok L R) (join_gen jt wl wr ok L' R').
Proof.
  intros HL HR. transitivity (join_gen jt wl wr ok L' R); [now apply join_gen_perm_l | now apply join_gen_perm_r].
Qed.

(* bag operators: everything that neither groups nor orders *)
Fixpoint bag_q (q : query) : bool :=
  match q with
  | QTable _ _ => true
  | QFilter q _ | QProject q _ => bag_q q
  | QJoin _ l r _ => bag_q l && bag_q r
  | QSetOp SUnion true l r => bag_q l && bag_q r
  | _ => false
  end.

Lemma nth_perm (db db' : list rel) n : Forall2 (@Permutation row) db db' -> Permutation (nth n db []) (nth n db' []).
Proof. intros H. revert n. induction H as [|a b db db' Hab H IH]; intros [|n]; cbn [nth]; auto. Qed.

Theorem qeval_perm Q (HU : forall L R, q_setop Q SUnion true L R = L ++ R) db db' q :
  Forall2 (@Permutation row) db db' -> bag_q q = true -> Permutation (qeval Q db q) (qeval Q db' q).
Proof.
  intros Hdb. induction q as [n w|w rows|q IH p|q IH es|jt l IHl r IHr on|q IH keys aggs|q IH|op all l IHl r IHr|q IH keys|q IH skip fetch];
    cbn [bag_q qeval]; intros Hb; try discriminate.
  - now apply nth_perm.
  - now apply filter_perm, IH.
  - now apply Permutation_map, IH.
  - apply andb_true_iff in Hb as [H1 H2]. unfold join_rows. apply join_gen_perm; auto.
  - destruct op, all; try discriminate. apply andb_true_iff in Hb as [H1 H2]. rewrite !HU. apply Permutation_app; auto.
Qed.

(* ---- DISTINCT / grouping: the classes found do not depend on the arrival order ---- *)
Section DistinctPerm.
  Context {A : Type} (eq : A -> A -> bool).
  Hypothesis eq_sym : forall a b, eq a b = eq b a.
  Hypothesis eq_trans : forall a b c, eq a b = true -> eq b c = true -> eq a c = true.

  Fixpoint dby (l : list A) : list A :=
    match l with [] => [] | x :: t => x :: filter (fun y => negb (eq x y)) (dby t) end.

  Definition respects (p : A -> bool) : Prop := forall a b, eq a b = true -> p a = p b.

  Lemma respects_eq x : respects (eq x).
  Proof.
    intros a b Hab. destruct (eq x a) eqn:Ha, (eq x b) eqn:Hb; try reflexivity.
    - rewrite (eq_trans x a b Ha Hab) in Hb. discriminate.
    - rewrite eq_sym in Hab. rewrite (eq_trans x b a Hb Hab) in Ha. discriminate.
  Qed.
  Lemma respects_neq x : respects (fun y => negb (eq x y)).
  Proof. intros a b Hab. f_equal. now apply respects_eq. Qed.
  Lemma respects_and p q : respects p -> respects q -> respects (fun y => p y && q y).
  Proof. intros Hp Hq a b Hab. now rewrite (Hp a b Hab), (Hq a b Hab). Qed.

  Lemma len_filter_cons (p : A -> bool) a l : length (filter p (a :: l)) = ((if p a then 1 else 0) + length (filter p l))%nat.
  Proof. cbn [filter]. now destruct (p a). Qed.

  Theorem dby_perm_count l l' : Permutation l l' ->
    forall p, respects p -> length (filter p (dby l)) = length (filter p (dby l')).
  Proof.
    induction 1 as [|x l l' H IH|x y l|l l' l'' H1 IH1 H2 IH2]; intros p Hp.
    - reflexivity.
    - cbn [dby]. rewrite !len_filter_cons, !filter_filter. f_equal.
      apply IH. apply respects_and; [apply respects_neq | exact Hp].
    - cbn [dby]. rewrite !len_filter_cons. cbn [filter]. rewrite (eq_sym x y).
      destruct (eq y x) eqn:Hyx; cbn [negb].
      + rewrite (Hp y x Hyx). f_equal. rewrite !filter_filter. f_equal. apply filter_ext. intros a.
        destruct (eq x a), (eq y a), (p a); reflexivity.
      + rewrite !len_filter_cons, !filter_filter.
        match goal with
        | |- (_ + (_ + length (filter ?f _)) = _ + (_ + length (filter ?g _)))%nat =>
            rewrite (filter_ext f g) by (intros a; destruct (eq x a), (eq y a), (p a); reflexivity)
        end.
        destruct (p x), (p y); lia.
    - now rewrite IH1, IH2.
  Qed.

  Lemma filter_all_true (l : list A) : filter (fun _ => true) l = l.
  Proof. induction l as [|a l IH]; cbn [filter]; [reflexivity | now rewrite IH]. Qed.

  (* the same number of classes ... *)
  Corollary dby_perm_length l l' : Permutation l l' -> length (dby l) = length (dby l').
  Proof.
    intros H. rewrite <- (filter_all_true (dby l)), <- (filter_all_true (dby l')).
    apply dby_perm_count; [exact H | intros a b _; reflexivity].
  Qed.
  (* ... and the same classes: each class has as many representatives (0 or 1) on both sides *)
  Corollary dby_perm_class l l' z : Permutation l l' ->
    length (filter (eq z) (dby l)) = length (filter (eq z) (dby l')).
  Proof. intros H. apply dby_perm_count; [exact H | apply respects_eq]. Qed.

  Lemma dby_incl l x : In x (dby l) -> In x l.
  Proof.
    revert x. induction l as [|a l IH]; intros x; cbn [dby]; [tauto|].
    intros [->|H]; [now left|]. right. apply IH. apply filter_In in H. tauto.
  Qed.
  (* at most one representative per class *)
  Lemma none_left_of_class a z D : eq z a = true -> filter (fun x => negb (eq a x) && eq z x) D = [].
  Proof.
    intros Hza. induction D as [|b t IHt]; cbn [filter]; [reflexivity|].
    destruct (eq a b) eqn:Hab; cbn [negb andb]; [exact IHt|].
    destruct (eq z b) eqn:Hzb; [|exact IHt].
    rewrite eq_sym in Hza. rewrite (eq_trans a z b Hza Hzb) in Hab. discriminate.
  Qed.
  Lemma fewer_after_removal a z D :
    (length (filter (fun x => negb (eq a x) && eq z x) D) <= length (filter (eq z) D))%nat.
  Proof.
    induction D as [|b t IHt]; cbn [filter]; [lia|].
    destruct (eq a b), (eq z b); cbn [negb andb length]; lia.
  Qed.
  Lemma dby_one_per_class l z : (length (filter (eq z) (dby l)) <= 1)%nat.
  Proof.
    induction l as [|a l IH]; cbn [dby]; [cbn; lia|].
    rewrite len_filter_cons, filter_filter. destruct (eq z a) eqn:Hza.
    - rewrite none_left_of_class by exact Hza. cbn; lia.
    - pose proof (fewer_after_removal a z (dby l)). lia.
  Qed.
End DistinctPerm.

Lemma distinct_by_is_dby eq (l : rel) : distinct_by eq l = dby eq l.
Proof. induction l as [|x l IH]; cbn [distinct_by dby]; [reflexivity | now rewrite IH]. Qed.
Lemma distinct_values_is_dby vs : distinct_values vs = dby value_same vs.
Proof. induction vs as [|x l IH]; cbn [distinct_values dby]; [reflexivity | now rewrite IH]. Qed.

(* "not distinct" is a partial equivalence on values and on rows *)
Lemma cmp_values_eq_sym a b : cmp_values a b = Some Eq -> cmp_values b a = Some Eq.
Proof. intros H. now rewrite (cmp_values_antisym _ _ _ H). Qed.

Lemma value_same_sym a b : value_same a b = value_same b a.
Proof.
  assert (D : forall a b, value_same a b = true -> value_same b a = true).
  { intros x y. unfold value_same. destruct x, y; try discriminate; try reflexivity;
      (destruct (cmp_values _ _) as [[]|] eqn:E; try discriminate; now rewrite (cmp_values_eq_sym _ _ E)). }
  destruct (value_same a b) eqn:E1, (value_same b a) eqn:E2; try reflexivity.
  - now rewrite (D _ _ E1) in E2.
  - now rewrite (D _ _ E2) in E1.
Qed.

Lemma q_cmp_eq a b : q_cmp a b = Eq <-> (a == b)%Q.
Proof. unfold q_cmp. symmetry. apply Qeq_alt. Qed.

Lemma cmp_values_eq_trans a b c : cmp_values a b = Some Eq -> cmp_values b c = Some Eq -> cmp_values a c = Some Eq.
Proof.
  destruct a, b; cbn [cmp_values]; try discriminate; destruct c; cbn [cmp_values]; try discriminate;
    intros H1 H2; injection H1 as H1; injection H2 as H2; f_equal;
    rewrite ?q_cmp_eq, ?Z.compare_eq_iff, ?bytes_cmp_eq in *; subst; auto.
  all: try (etransitivity; eassumption).
  all: try (apply inject_Z_injective; etransitivity; eassumption).
  all: try (destruct b, b0, b1; discriminate || reflexivity).
Qed.

Lemma value_same_trans a b c : value_same a b = true -> value_same b c = true -> value_same a c = true.
Proof.
  unfold value_same. intros H1 H2.
  destruct a, b; try discriminate; destruct c; try discriminate; try reflexivity;
    (destruct (cmp_values _ _) as [[]|] eqn:E1 in H1; try discriminate;
     destruct (cmp_values _ _) as [[]|] eqn:E2 in H2; try discriminate;
     now rewrite (cmp_values_eq_trans _ _ _ E1 E2)).
Qed.

Lemma row_same_sym a : forall b, row_same a b = row_same b a.
Proof. induction a as [|x a IH]; intros [|y b]; cbn [row_same]; try reflexivity. now rewrite value_same_sym, IH. Qed.

Lemma row_same_trans a : forall b c, row_same a b = true -> row_same b c = true -> row_same a c = true.
Proof.
  induction a as [|x a IH]; intros [|y b] [|z c]; cbn [row_same]; try discriminate; auto.
  intros H1 H2. apply andb_true_iff in H1 as [H1 H1'], H2 as [H2 H2']. apply andb_true_iff. split.
  - eapply value_same_trans; eassumption.
  - eapply IH; eassumption.
Qed.

Theorem distinct_perm l l' : Permutation l l' ->
  length (distinct l) = length (distinct l') /\
  forall z, length (filter (row_same z) (distinct l)) = length (filter (row_same z) (distinct l')).
Proof.
  intros H. unfold distinct. rewrite !distinct_by_is_dby. split.
  - apply (dby_perm_length row_same row_same_sym row_same_trans _ _ H).
  - intros z. apply (dby_perm_class row_same row_same_sym row_same_trans _ _ z H).
Qed.

(* GROUP BY: the same key classes, and for equivalent keys the member lists are permutations of each other *)
Theorem group_rows_perm Q (keys : list expr) rows rows' :
  Permutation rows rows' ->
  let kv := fun r => map (eval (q_esem Q) r) keys in
  (forall p, respects row_same p ->
     length (filter p (distinct (map kv rows))) = length (filter p (distinct (map kv rows')))) /\
  (forall ks ks', row_same ks ks' = true ->
     Permutation (filter (fun r => row_same (kv r) ks) rows) (filter (fun r => row_same (kv r) ks') rows')).
Proof.
  intros H kv. split.
  - intros p Hp. unfold distinct. rewrite !distinct_by_is_dby.
    apply (dby_perm_count row_same row_same_sym row_same_trans); [now apply Permutation_map | exact Hp].
  - intros ks ks' Hk. etransitivity; [apply filter_perm; exact H|].
    erewrite filter_ext; [reflexivity|]. intros r. cbn beta.
    apply (respects_eq row_same row_same_sym row_same_trans (kv r) ks ks' Hk).
Qed.

(* the output row of one group *)
Definition out_row (Q : qsem) (ks : row) (aggs : list (aggfn * expr)) (members : rel) : row :=
  ks ++ map (fun fa => agg_apply (fst fa) (map (fun r => eval (q_esem Q) r (snd fa)) members) (length members)) aggs.

Lemma group_rows_unfold Q k keys aggs rows :
  group_rows Q (k :: keys) aggs rows
  = map (fun ks => out_row Q ks aggs (filter (fun r => row_same (map (eval (q_esem Q) r) (k :: keys)) ks) rows))
        (distinct (map (fun r => map (eval (q_esem Q) r) (k :: keys)) rows)).
Proof. reflexivity. Qed.

(* order-insensitive aggregates: the counts over any values, every aggregate over integer-or-NULL values (C21) *)
Definition int_or_null (v : value) : bool := match v with VInt _ | VNull => true | _ => false end.
Definition order_free (f : aggfn) (args : list value) : bool :=
  match f with ACountStar | ACount | ACountDistinct => true | _ => forallb int_or_null args end.

Definition uninj (v : value) : option Z := match v with VInt z => Some z | _ => None end.
Lemma inj_uninj args : forallb int_or_null args = true -> map inj (map uninj args) = args.
Proof.
  induction args as [|v args IH]; cbn [forallb map]; [reflexivity|]. intros H. apply andb_true_iff in H as [Hv H].
  rewrite IH by exact H. destruct v; try discriminate; reflexivity.
Qed.
Lemma forallb_perm {A} (f : A -> bool) l l' : Permutation l l' -> forallb f l = forallb f l'.
Proof.
  induction 1 as [|x l l' H IH|x y l|l l' l'' H1 IH1 H2 IH2]; cbn [forallb]; try congruence.
  destruct (f x), (f y); reflexivity.
Qed.

Theorem agg_apply_perm_any f args args' :
  Permutation args args' -> order_free f args = true ->
  agg_apply f args (length args) = agg_apply f args' (length args').
Proof.
  intros H Hf.
  assert (Hn : Permutation (non_null args) (non_null args')) by now apply filter_perm.
  assert (Hint : forallb int_or_null args = true ->
                 forall g, agg_apply g args (length args) = agg_apply g args' (length args')).
  { intros Hi g. assert (Hi' : forallb int_or_null args' = true) by now rewrite <- (forallb_perm _ _ _ H).
    pose proof (agg_apply_perm g _ _ (Permutation_map uninj H)) as E.
    rewrite !map_length, (inj_uninj _ Hi), (inj_uninj _ Hi') in E. exact E. }
  destruct f; cbn [order_free] in Hf; try (now apply Hint).
  - cbn [agg_apply]. now rewrite (Permutation_length H).
  - cbn [agg_apply]. now rewrite (Permutation_length Hn).
  - cbn [agg_apply]. rewrite !distinct_values_is_dby.
    now rewrite (dby_perm_length value_same value_same_sym value_same_trans _ _ Hn).
Qed.

Theorem out_row_perm Q ks aggs members members' :
  Permutation members members' ->
  (forall fa, In fa aggs -> order_free (fst fa) (map (fun r => eval (q_esem Q) r (snd fa)) members) = true) ->
  out_row Q ks aggs members = out_row Q ks aggs members'.
Proof.
  intros H Hf. unfold out_row. f_equal. apply map_ext_in. intros fa Hin.
  pose proof (agg_apply_perm_any (fst fa) _ _ (Permutation_map (fun r => eval (q_esem Q) r (snd fa)) H) (Hf fa Hin)) as E.
  now rewrite !map_length in E.
Qed.

(* ORDER BY over a permuted input: a sorted permutation of the same rows *)
Theorem sort_rows_perm Q keys rows rows' :
  Permutation rows rows' ->
  let flags := map (fun k => (k_desc k, k_nulls_first k)) keys in
  let kv r := map (fun k => eval (q_esem Q) r (k_expr k)) keys in
  Permutation (sort_rows Q keys rows) (sort_rows Q keys rows') /\
  LocallySorted (fun a b => keys_cmp flags (kv a) (kv b) <> Gt) (sort_rows Q keys rows) /\
  LocallySorted (fun a b => keys_cmp flags (kv a) (kv b) <> Gt) (sort_rows Q keys rows').
Proof.
  intros H flags kv.
  destruct (sort_rows_sorted_perm Q keys rows) as [P1 S1]. destruct (sort_rows_sorted_perm Q keys rows') as [P2 S2].
  repeat split; [|exact S1|exact S2].
  etransitivity; [exact P1|]. etransitivity; [exact H|]. now symmetry.
Qed.

(* ================= 4. the partition contract ================= *)
(* Operator classes, read off the `output_partitions` / `execute` pairs of src/physical/operators:
     PScan n     MemoryTableExec / ParquetScanExec / StreamingParquetScanExec: a leaf declaring n partitions
     PPass c     FilterExec, ProjectExec (GpuAggExec without a device): declares the child's count, forwards `partition`
     PGather c   HashAggregateExec, SpillableHashAggregateExec, MorselAggregateExec, SortExec, ExternalSortExec,
                 LimitExec, WindowExec: declares 1, drains partitions 0..declared(child)-1 of the child
     PUnion a b  UnionExec: declares 1, drains every partition of every input
     PJoin p b   HashJoinExec / SpillableHashJoinExec (in-memory decision), inner/left/right/full: declares
                 max(1, declared(probe)), forwards `partition` to the probe side, drains the build side
     PJoinAll    semi/anti joins, DelimJoinExec, the spilled join path: declares 1 (or answers every partition but 0
                 with an empty stream AFTER the guard), drains both inputs
   Every `execute` starts with `check_partition` (checked against the source by checks/C07.py). An error met while
   draining a child surfaces as an error of the parent stream. *)
Inductive pop :=
| PScan (n : nat) | PPass (c : pop) | PGather (c : pop) | PUnion (a b : pop) | PJoin (probe build : pop) | PJoinAll (a b : pop).
Inductive pres := PStream | PartitionError.

Fixpoint declared (op : pop) : nat :=
  match op with
  | PScan n => n
  | PPass c => declared c
  | PGather _ | PUnion _ _ | PJoinAll _ _ => 1
  | PJoin probe _ => Nat.max 1 (declared probe)
  end.

Definition is_stream (r : pres) : bool := match r with PStream => true | PartitionError => false end.
Definition all_streams (ex : nat -> pres) (n : nat) : bool := forallb (fun i => is_stream (ex i)) (seq 0 n).
Definition guard (ok : bool) : pres := if ok then PStream else PartitionError.

Fixpoint exec (op : pop) (p : nat) : pres :=
  if Nat.ltb p (declared op) then
    match op with
    | PScan _ => PStream
    | PPass c => exec c p
    | PGather c => guard (all_streams (exec c) (declared c))
    | PUnion a b | PJoinAll a b => guard (all_streams (exec a) (declared a) && all_streams (exec b) (declared b))
    | PJoin probe build => guard (is_stream (exec probe p) && all_streams (exec build) (declared build))
    end
  else PartitionError.

(* every leaf declares at least one partition (MemoryTableExec: 1, or min(threads, batches) of a non-empty
   batch list; StreamingParquetScanExec: `.max(1)`) *)
Fixpoint pwf (op : pop) : bool :=
  match op with
  | PScan n => Nat.ltb 0 n
  | PPass c | PGather c => pwf c
  | PUnion a b | PJoin a b | PJoinAll a b => pwf a && pwf b
  end.

Lemma all_streams_intro ex n : (forall i, (i < n)%nat -> ex i = PStream) -> all_streams ex n = true.
Proof.
  intros H. unfold all_streams. apply forallb_forall. intros i Hi. apply in_seq in Hi. rewrite H by lia. reflexivity.
Qed.

Lemma declared_pos op : pwf op = true -> (0 < declared op)%nat.
Proof.
  induction op as [n|c IH|c IH|a IHa b IHb|a IHa b IHb|a IHa b IHb]; cbn [pwf declared]; intros H; try lia.
  - now apply Nat.ltb_lt in H.
  - auto.
Qed.

Theorem partition_contract op : pwf op = true ->
  forall p, exec op p = if Nat.ltb p (declared op) then PStream else PartitionError.
Proof.
  induction op as [n|c IH|c IH|a IHa b IHb|a IHa b IHb|a IHa b IHb]; cbn [pwf]; intros H p;
    try (apply andb_true_iff in H as [Ha Hb]).
  - cbn [exec declared]. now destruct (Nat.ltb p n).
  - cbn [exec declared]. destruct (Nat.ltb p (declared c)) eqn:E; [|reflexivity]. now rewrite IH, E.
  - cbn [exec declared]. destruct (Nat.ltb p 1); [|reflexivity].
    rewrite all_streams_intro; [reflexivity|]. intros i Hi. rewrite IH by exact H. now apply Nat.ltb_lt in Hi as ->.
  - cbn [exec declared]. destruct (Nat.ltb p 1); [|reflexivity].
    rewrite !all_streams_intro; [reflexivity| |]; intros i Hi; [rewrite IHb by exact Hb | rewrite IHa by exact Ha];
      now apply Nat.ltb_lt in Hi as ->.
  - cbn [exec declared]. destruct (Nat.ltb p (Nat.max 1 (declared a))) eqn:E; [|reflexivity].
    rewrite all_streams_intro.
    2:{ intros i Hi. rewrite IHb by exact Hb. now apply Nat.ltb_lt in Hi as ->. }
    rewrite IHa by exact Ha. apply Nat.ltb_lt in E. pose proof (declared_pos a Ha) as Hpos.
    assert (Hp : (p < declared a)%nat) by lia. apply Nat.ltb_lt in Hp. now rewrite Hp.
  - cbn [exec declared]. destruct (Nat.ltb p 1); [|reflexivity].
    rewrite !all_streams_intro; [reflexivity| |]; intros i Hi; [rewrite IHb by exact Hb | rewrite IHa by exact Ha];
      now apply Nat.ltb_lt in Hi as ->.
Qed.

Corollary declared_partitions_execute op p : pwf op = true -> (p < declared op)%nat -> exec op p = PStream.
Proof. intros H Hp. rewrite partition_contract by exact H. apply Nat.ltb_lt in Hp. now rewrite Hp. Qed.
Corollary undeclared_partitions_error op p : (declared op <= p)%nat -> exec op p = PartitionError.
Proof. intros Hp. destruct op; cbn [exec]; apply Nat.ltb_ge in Hp; now rewrite Hp. Qed.

(* what the guard is for: an operator that declares 1 but forwards `partition` to a two-partition child (the old
   LimitExec), or declares the build side's count (the old Left + build_right HashJoinExec), makes its parent either
   skip a partition or ask for one that does not exist; with the guard the second case is an error, not an empty stream *)
Example join_declares_probe_count :
  let plan := PGather (PJoin (PPass (PScan 3)) (PScan 2)) in
  declared (PJoin (PPass (PScan 3)) (PScan 2)) = 3%nat /\ exec plan 0 = PStream /\ exec plan 1 = PartitionError /\
  exec (PJoin (PPass (PScan 3)) (PScan 2)) 3 = PartitionError.
Proof. repeat split; reflexivity. Qed.
