#!/bin/sh
# tools/lab_detect.sh <patch.diff> <Cnn> [more checks...] — apply a seeded change in the lab, run the checks there, undo
P="$1"; shift
cd /var/tmp/lab/repo && git checkout -q -- . && git apply --check "$P" || { echo "PATCH-DOES-NOT-APPLY $P"; exit 3; }
git apply "$P"
cd /var/tmp/lab/verif
for c in "$@"; do
  echo "== $c with $(basename $(dirname $P))"
  QE_REPO=/var/tmp/lab/repo timeout 3000 ./check "$c" 2>&1 | grep -v "^KNOWN" | tail -4
  for f in replays/$c-quick-1-*.json; do [ -f "$f" ] && python3 -c "
import json,sys; o=json.load(open('$f')); print('   replay:', o.get('kind'), str(o.get('case') or o.get('first_differing_case') or o.get('theorem_or_file'))[:400])"; done
done
cd /var/tmp/lab/repo && git checkout -q -- .
