#!/bin/bash
# tools/lab_confirm.sh <mutdir> <Cnn>: confirm a seeded change in the lab repo: suite passes with it, demo fails with it and passes without.
D="$1"; P="$2"; R=/var/tmp/lab/repo; L=/var/tmp/lab/confirm_$P.log
cd $R && git checkout -q -- . && rm -f tests/seeded_demo_*.rs
cp "$D/demo.rs" tests/seeded_demo_$P.rs
echo "== $P baseline demo (expect pass)" > $L
CARGO_NET_OFFLINE=true timeout 3000 cargo test --offline --test seeded_demo_$P >> $L 2>&1; echo "demo_without_patch_exit=$?" >> $L
git apply "$D/patch.diff" || { echo "patch failed" >> $L; exit 3; }
echo "== $P demo with patch (expect fail)" >> $L
CARGO_NET_OFFLINE=true timeout 3000 cargo test --offline --test seeded_demo_$P >> $L 2>&1; echo "demo_with_patch_exit=$?" >> $L
rm -f tests/seeded_demo_$P.rs
echo "== $P suite with patch" >> $L
CARGO_NET_OFFLINE=true timeout 7000 cargo nextest run --workspace --no-fail-fast --test-threads 8 --offline > /var/tmp/lab/suite_$P.log 2>&1
python3 - "$P" >> $L <<'PY'
import json,re,sys
b=json.load(open('/root/.vp/BASELINE.json')); stable=set(b['stable_pass'])
out=open(f'/var/tmp/lab/suite_{sys.argv[1]}.log').read()
def norm(s): a,b_=s.split(' ',1); return a+'::'+b_
fn={norm(f) for f in re.findall(r'FAIL \[[^\]]*\] \(\s*\d+/\d+\) (\S+ \S+)',out)}
pn={norm(f) for f in re.findall(r'PASS \[[^\]]*\] \(\s*\d+/\d+\) (\S+ \S+)',out)}
print('suite: pass',len(pn),'fail',len(fn),'stable_failing',sorted(stable&fn),'stable_missing',len(stable-pn))
PY
git checkout -q -- . ; tail -3 $L
