#!/usr/bin/env python3
import sys; sys.path.insert(0,'/verif/lib'); import vlib
b=vlib.hygiene(None); print("\n".join(b) if b else "hygiene: clean"); sys.exit(1 if b else 0)
