#!/usr/bin/env python3
"""tools/mut_prompt.py NN Cxx Cyy ... -> /tmp/mut_prompt_NN.txt (prompt for a seeded-change sub-agent; property text only)"""
import json, sys
nn, ids = sys.argv[1], sys.argv[2:]
props = {json.loads(l)["id"]: json.loads(l) for l in open('/verif/properties.jsonl')}
head = open('/verif/tools/mut_prompt_head.txt').read().split("Properties:")[0].replace("mut04", f"mut{nn}")
out = head + "Properties:\n"
for i in ids:
    p = props[i]
    out += f"{i}: {p['title']}\nStatement: {p['statement']}\nQuantifier: {p['quantifier']['text']}\nAnchored files: {', '.join(p['anchors']['files'])}\n\n"
open(f'/tmp/mut_prompt_{nn}.txt', 'w').write(out)
print(out[-1500:])
