#!/usr/bin/env python3
"""tools/design_tables.py — regenerate the generated regions of DESIGN.md (between <!-- BEGIN:x --> / <!-- END:x -->):
findings (from known_findings.txt), axioms (from evidence/*.json print_assumptions), seeded (from seeded/*/meta.json)."""
import glob, json, os, re, subprocess
V = '/verif'

def esc(s):
    return s.replace('|', '\\|').replace('\n', ' ')

def findings():
    fixed, known = [], []
    for l in open(f'{V}/known_findings.txt'):
        l = l.strip()
        m = re.match(r'fixed: property=(\S+) (\S+) (.*)', l)
        if m:
            fixed.append(m.groups()); continue
        m = re.match(r'known: property=(\S+) class=(\S+) (.*)', l)
        if m:
            known.append(m.groups())
    order = subprocess.run(['git', '-C', '/repo', 'log', '--reverse', '--format=%h'], capture_output=True, text=True).stdout.split()
    pos = {h[:7]: i for i, h in enumerate(order)}
    fixed.sort(key=lambda x: pos.get(x[1][:7], 10**6))
    out = [f"Repaired in `/repo` by minimal unguarded `fix:` commits ({len({f[1] for f in fixed})} commits; the pinned suite, unedited, still passes: "
           "all 744 `stable_pass` tests, last verified on the full `cargo nextest` run recorded in §10b-verification). "
           "Each was found by a check, replayed on the real engine, and the check passes on the repaired tree with no KNOWN-FINDING line.", "",
           "| commit | property | what failed (witness) |", "|---|---|---|"]
    for p, c, t in fixed:
        out.append(f"| {c} | {p} | {esc(t[:420])}{'…' if len(t) > 420 else ''} |")
    out += ["", f"Recorded as `known:` ({len(known)} classes; the check prints `KNOWN-FINDING:` and exits 0; a failure outside the class predicate is still a VIOLATION):", "",
            "| property | class | what fails |", "|---|---|---|"]
    for p, c, t in known:
        out.append(f"| {p} | `{c}` | {esc(t[:300])}{'…' if len(t) > 300 else ''} |")
    return "\n".join(out)

def axioms():
    out = ["| property | pinned theorems | theorems with axioms (as `Print Assumptions` reports) |", "|---|---|---|"]
    for f in sorted(glob.glob(f'{V}/evidence/C*.json')):
        e = json.load(open(f)); cov = e.get('coverage', {})
        pa = cov.get('print_assumptions') or {}
        n = len(cov.get('theorems') or [])
        withax = {k: v for k, v in pa.items() if v}
        s = "; ".join(f"`{k}`: {', '.join(v)}" for k, v in withax.items()) or "none (closed under the global context)"
        out.append(f"| {e['property_id']} | {n} | {esc(s)} |")
    return "\n".join(out)

def seeded():
    out = ["| seeded change | property | what was changed | needs to manifest | suite with patch | detected by |", "|---|---|---|---|---|---|"]
    for d in sorted(glob.glob(f'{V}/seeded/*/meta.json')):
        m = json.load(open(d)); name = os.path.basename(os.path.dirname(d))
        c = m.get('confirmed_by_coordinator', {})
        out.append(f"| `seeded/{name}` | {m['property']} | {esc(str(m.get('what_changed',''))[:260])}… | {esc(str(m.get('needs_to_manifest',''))[:200])}… | "
                   f"{esc(str(c.get('full_suite_with_patch',''))[:60])} | {esc(str(m.get('detection',''))[:300])} |")
    return "\n".join(out)

def asbuilt():
    m = json.load(open(f'{V}/MANIFEST.json'))
    out = []
    for c in m['checks']:
        out.append(f"* **{c['property_id']}** ({c['level_claimed']['category']}) — {c['level_claimed']['text']}\n  *Trusted / limits:* {c.get('level_note','')}")
    for x in m['not_applicable']:
        out.append(f"* **{x['property_id']}** — not claimed: {x['reason']}")
    return "\n".join(out)

s = open(f'{V}/DESIGN.md').read()
for name, fn in (("findings", findings), ("axioms", axioms), ("seeded", seeded), ("asbuilt", asbuilt)):
    b, e = f"<!-- BEGIN:{name} -->", f"<!-- END:{name} -->"
    if b in s:
        i, j = s.index(b) + len(b), s.index(e)
        s = s[:i] + "\n" + fn() + "\n" + s[j:]
    else:
        print("marker missing:", name)
open(f'{V}/DESIGN.md', 'w').write(s)
print("ok")
