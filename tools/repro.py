#!/usr/bin/env python3
"""tools/repro.py <Cnn> <sql-substring> [seed] [ngroups] — regenerate the check's groups and print the harness case for the statement"""
import sys, json, random, importlib.util
sys.path.insert(0,'/verif/lib'); sys.path.insert(0,'/verif/checks')
import relcheck, sqlq
pid, want = sys.argv[1], sys.argv[2]
seed = int(sys.argv[3]) if len(sys.argv) > 3 else 1
ng = int(sys.argv[4]) if len(sys.argv) > 4 else 50
spec = importlib.util.spec_from_file_location("m", f"/verif/checks/{pid}.py"); m = importlib.util.module_from_spec(spec); spec.loader.exec_module(m)
rng = random.Random(seed)
nq = {"C01": 10}.get(pid, 8)
for gi in range(ng):
    g = m.gen_group(rng, nq)
    for x in g["queries"]:
        s = sqlq.to_sql(x["q"])
        if want in s:
            specs=[relcheck.table_spec(t["name"], t["types"], t["rows"], t.get("batch_sizes"), t.get("parquet")) for t in g["tables"]]
            print(json.dumps({"tables":specs,"queries":[s],"noopt":True})); sys.exit()
