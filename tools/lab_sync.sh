#!/bin/sh
# sync the mutation lab with the current /verif working tree and /repo HEAD
set -e
# bootstrap: a scratch worktree of /repo outside /repo and /verif (remove with `git -C /repo worktree remove --force /var/tmp/lab/repo; rm -rf /var/tmp/lab`)
[ -d /var/tmp/lab/repo ] || { mkdir -p /var/tmp/lab/verif; git -C /repo worktree add --detach /var/tmp/lab/repo HEAD; }
rsync -a --delete --exclude harness/target --exclude harness/Cargo.toml --exclude .work --exclude replays --exclude .git --exclude evidence /verif/ /var/tmp/lab/verif/
sed 's#path = "/repo"#path = "/var/tmp/lab/repo"#' /verif/harness/Cargo.toml > /var/tmp/lab/verif/harness/Cargo.toml
sed -i 's#"/repo/src/#"/var/tmp/lab/repo/src/#' /var/tmp/lab/verif/harness/src/bin/*.rs
mkdir -p /var/tmp/lab/verif/evidence
cd /var/tmp/lab/repo && git checkout -q -- . && git checkout -q --detach "$(git -C /repo rev-parse HEAD)"
echo "lab at $(git rev-parse --short HEAD)"
