#!/bin/sh
# sync the mutation lab with the current /verif working tree and /repo HEAD
set -e
rsync -a --delete --exclude harness/target --exclude harness/Cargo.toml --exclude .work --exclude replays --exclude .git --exclude evidence /verif/ /var/tmp/lab/verif/
sed 's#path = "/repo"#path = "/var/tmp/lab/repo"#' /verif/harness/Cargo.toml > /var/tmp/lab/verif/harness/Cargo.toml
sed -i 's#"/repo/src/#"/var/tmp/lab/repo/src/#' /var/tmp/lab/verif/harness/src/bin/*.rs
mkdir -p /var/tmp/lab/verif/evidence
cd /var/tmp/lab/repo && git checkout -q -- . && git checkout -q --detach "$(git -C /repo rev-parse HEAD)"
echo "lab at $(git rev-parse --short HEAD)"
