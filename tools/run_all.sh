#!/bin/sh
# tools/run_all.sh <quick|thorough> [ids...] — run the registered checks one after another on the current tree; one summary line each
T="$1"; shift
IDS="$@"; [ -z "$IDS" ] && IDS=$(python3 -c "import json;print(' '.join(c['property_id'] for c in json.load(open('/verif/MANIFEST.json'))['checks']))")
cd /verif
for c in $IDS; do
  s=$(date +%s); out=$(timeout 14000 ./check $c --tier $T 2>&1); rc=$?
  echo "$c rc=$rc $(($(date +%s)-s))s $(echo "$out" | grep -E '^(OK|VIOLATION)' | tail -2 | tr '\n' ' ')"
done
