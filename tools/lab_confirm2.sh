#!/bin/bash
# tools/lab_confirm2.sh <name>=<mutdir> ... : confirm several seeded changes in the lab clone with ONE suite run.
# per change: demo passes on clean HEAD, fails with its patch alone; then all patches together: full suite vs baseline.
R=/var/tmp/lab/repo; cd $R && git checkout -q -- . && rm -f tests/seeded_demo_*.rs
declare -A DIR; NAMES=()
for a in "$@"; do n=${a%%=*}; DIR[$n]=${a#*=}; NAMES+=($n); cp "${DIR[$n]}/demo.rs" tests/seeded_demo_$n.rs; done
for n in "${NAMES[@]}"; do
  L=/var/tmp/lab/confirm_$n.log; echo "== $n baseline demo (expect pass)" > $L
  CARGO_NET_OFFLINE=true timeout 3000 cargo test --offline --test seeded_demo_$n >> $L 2>&1; echo "demo_without_patch_exit=$?" >> $L
done
for n in "${NAMES[@]}"; do
  L=/var/tmp/lab/confirm_$n.log
  git apply "${DIR[$n]}/patch.diff" || { echo "patch failed" >> $L; continue; }
  echo "== $n demo with patch (expect fail)" >> $L
  CARGO_NET_OFFLINE=true timeout 3000 cargo test --offline --test seeded_demo_$n >> $L 2>&1; echo "demo_with_patch_exit=$?" >> $L
  git checkout -q -- src
done
rm -f tests/seeded_demo_*.rs
OKN=()
for n in "${NAMES[@]}"; do if git apply --check "${DIR[$n]}/patch.diff" 2>/dev/null; then git apply "${DIR[$n]}/patch.diff"; OKN+=($n); else echo "COMBINE-CONFLICT $n"; fi; done
echo "combined: ${OKN[*]}"
CARGO_NET_OFFLINE=true timeout 7000 cargo nextest run --workspace --no-fail-fast --test-threads 8 --offline > /var/tmp/lab/suite_combined.log 2>&1
S=$(/verif/tools/suite_cmp.py /var/tmp/lab/suite_combined.log)
for n in "${OKN[@]}"; do echo "== $n suite with patch (combined run with: ${OKN[*]})" >> /var/tmp/lab/confirm_$n.log; echo "$S" >> /var/tmp/lab/confirm_$n.log; done
git checkout -q -- . ; echo "$S"
