#!/usr/bin/env python3
"""tools/suite_cmp.py <nextest-log>: compare a `cargo nextest run --no-fail-fast` log with /root/.vp/BASELINE.json stable_pass"""
import json, re, sys
b = json.load(open('/root/.vp/BASELINE.json')); stable = set(b['stable_pass'])
out = open(sys.argv[1]).read()
def norm(s):
    a, b_ = s.split(' ', 1); return a + '::' + b_
fn = {norm(f) for f in re.findall(r'FAIL \[[^\]]*\] \(\s*\d+/\d+\) (\S+ \S+)', out)}
pn = {norm(f) for f in re.findall(r'PASS \[[^\]]*\] \(\s*\d+/\d+\) (\S+ \S+)', out)}
print('suite: pass', len(pn), 'fail', len(fn), 'stable_failing', sorted(stable & fn), 'stable_missing', sorted(stable - pn)[:10], len(stable - pn))
sys.exit(1 if (stable & fn) or (stable - pn) else 0)
