#!/opt/veriftools/pyvenv/bin/python
"""tools/validate_all.py — MANIFEST.json and every evidence file against the schemas; evidence level == claimed category"""
import json, jsonschema, os, sys
m = json.load(open('/verif/MANIFEST.json'))
jsonschema.validate(m, json.load(open('/root/.vp/MANIFEST.schema.json')))
es = json.load(open('/root/.vp/EVIDENCE.schema.json'))
bad = 0
for c in m['checks']:
    p = c['evidence_file']
    try:
        e = json.load(open(p)); jsonschema.validate(e, es)
        if e['level'] != c['level_claimed']['category']:
            print("LEVEL MISMATCH", c['property_id'], e['level'], c['level_claimed']['category']); bad += 1
    except Exception as ex:
        print("BAD", c['property_id'], str(ex)[:200]); bad += 1
print("checked", len(m['checks']), "bad", bad)
sys.exit(1 if bad else 0)
