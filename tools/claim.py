#!/usr/bin/env python3
"""tools/claim.py <Cnn> <category> '<level text>' '<level note>' '<technique>'  — register/update a check in MANIFEST.json"""
import json, sys
pid, cat, text, note, tech = sys.argv[1:6]
m = json.load(open('/verif/MANIFEST.json'))
m["checks"] = [c for c in m["checks"] if c["property_id"] != pid]
m["checks"].append({"property_id": pid, "quick_cmd": f"./check {pid} --tier quick", "thorough_cmd": f"./check {pid} --tier thorough",
    "evidence_file": f"/verif/evidence/{pid}.json", "replay_cmd_template": f"./check {pid} --replay {{path}}", "engine": "coq",
    "level_claimed": {"category": cat, "text": text, "design_ref": f"DESIGN.md §7 {pid}"}, "level_note": note, "technique": tech})
m["checks"].sort(key=lambda c: c["property_id"])
m["not_applicable"] = [x for x in m["not_applicable"] if x["property_id"] != pid]
for e in m["engines"]:
    e["serves_properties"] = sorted(set(e["serves_properties"]) | {pid})
json.dump(m, open('/verif/MANIFEST.json', 'w'), indent=1)
print("claimed", pid, "checks:", len(m["checks"]), "n/a:", len(m["not_applicable"]))
