#!/usr/bin/env python3
"""tools/seed_keep.py <mutdir> <Cnn> <name> <base-commit> '<detection summary>' — keep a confirmed seeded change under /verif/seeded/<name>/.
Reads /var/tmp/lab/confirm_<name>.log (demo without/with patch, full suite with patch) written by tools/lab_confirm.sh."""
import json, os, re, shutil, sys
mut, pid, name, base, det = sys.argv[1:6]
log = open(f'/var/tmp/lab/confirm_{name}.log').read()
wo = re.search(r'demo_without_patch_exit=(\d+)', log); wi = re.search(r'demo_with_patch_exit=(\d+)', log)
suite = re.search(r'suite: (.*)', log)
assert wo and wi and suite, "confirmation incomplete"
ok = wo.group(1) == '0' and wi.group(1) != '0' and "stable_failing []" in suite.group(1) and re.search(r"stable_missing (\[\] )?0$", suite.group(1).rstrip()) is not None
d = f'/verif/seeded/{name}'
os.makedirs(d, exist_ok=True)
shutil.copy(f'{mut}/patch.diff', f'{d}/patch.diff'); shutil.copy(f'{mut}/demo.rs', f'{d}/demo.rs')
meta = json.load(open(f'{mut}/meta.json'))
meta.update({"property": pid, "base_commit": base, "author": "fresh sub-agent given only the property text and a scratch worktree",
  "confirmed_by_coordinator": {"demo_without_patch_exit": int(wo.group(1)), "demo_with_patch_exit": int(wi.group(1)),
     "full_suite_with_patch": suite.group(1), "how": "tools/lab_confirm.sh in a scratch clone (/var/tmp/lab/repo): demo as tests/seeded_demo_<id>.rs with and without the patch, then cargo nextest run --workspace with the patch compared with /root/.vp/BASELINE.json stable_pass",
     "all_confirmed": ok},
  "detection": det})
json.dump(meta, open(f'{d}/meta.json', 'w'), indent=1)
print(name, "kept" if ok else "NOT CONFIRMED", suite.group(1))
