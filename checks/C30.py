"""C30 — the reported result schema describes the returned rows. Theorems: coq/theories/Props/C30.v (type preservation
`rows_conform` for the model's `schema_of`). Correspondence: on every statement of the C01-style generator (plus directed
expression/aggregate statements) compare QueryResult.schema with every returned batch's schema and with
`ctx.physical_plan(sql).schema()` (names and types, nullability ignored), and the reported types with the model's schema_of.
Flight GetSchema is covered elsewhere."""
import vlib, relgen, relgen2, sqlq, sqlgen, relcheck
from relgen import col, lit

REQ = "From QV Require Import Sql.Query C30.Model."
SCHEMAS = [["i64", "str", "f64"], ["i64", "i32", "date"], ["str", "i64"], ["i64", "bool", "str"], ["date", "f64", "i64"],
           ["i32", "i32", "f64"]]
CODE = {"i64": 0, "i32": 1, "f64": 2, "str": 3, "bool": 4, "date": 5}
TY = {"i64": "TI64", "i32": "TI32", "f64": "TF64", "str": "TStr", "bool": "TBool", "date": "TDate"}


def directed(rng, tables):
    """statements aimed at the typing rules: arithmetic over every numeric pair, unary minus, CASE / COALESCE
    branch order, every aggregate over every type (global and grouped), outer joins, set operations"""
    i = rng.randrange(len(tables))
    t = tables[i]; ts = t["types"]; base = relgen.tbl(i, t)
    num = [j for j, x in enumerate(ts) if x in ("i64", "i32", "f64")]
    k = rng.random()
    if num and k < 0.3:
        a, b = rng.choice(num), rng.choice(num)
        e = ("arith", rng.choice(["AAdd", "ASub", "AMul"]), col(a), col(b))
        if rng.random() < 0.3:
            e = ("neg", e)
        if rng.random() < 0.3:
            e = ("arith", "AAdd", e, rng.choice([col(rng.choice(num)), lit(1)]))
        return ("project", base, [e, col(a)]), "arith"
    if num and k < 0.45:
        a, b = rng.choice(num), rng.choice(num)
        same = [j for j in num if (ts[j] == "f64") == (ts[a] == "f64")]
        b = rng.choice(same)
        c = ("cmp", "CGt", col(a), lit(0))
        e = rng.choice([("case", [(c, col(a))], col(b)), ("case", [(c, ("arith", "AAdd", col(a), col(b)))], col(a)),
                        ("case", [(c, col(a))], None), ("coalesce", [col(a), col(b)]),
                        ("coalesce", [("arith", "AMul", col(a), col(b)), col(a)])])
        return ("project", base, [e]), "case/coalesce"
    if k < 0.75:
        j = rng.randrange(len(ts))
        fn = rng.choice(["ACountStar", "ACount", "ASum", "AAvg", "AMin", "AMax", "ACountDistinct"])
        if fn in ("ASum", "AAvg") and ts[j] not in ("i64", "i32", "f64"):
            fn = "ACount"
        arg = col(j)
        if j in num and rng.random() < 0.3:
            arg = ("arith", "AAdd", col(j), col(j))
        keys = [col(rng.randrange(len(ts)))] if rng.random() < 0.5 else []
        keys = [kk for kk in keys if ts[kk[1]] not in ("f64",)]
        return ("agg", base, keys, [(fn, arg if fn != "ACountStar" else lit(1))]), "agg"
    j = rng.randrange(len(tables)); u = tables[j]
    pairs = [(a, b) for a, x in enumerate(ts) for b, y in enumerate(u["types"]) if x == y and x not in ("f64", "bool")]
    if pairs and k < 0.9:
        a, b = rng.choice(pairs)
        return ("join", rng.choice(["JLeft", "JRight", "JFull", "JInner"]), base, relgen.tbl(j, u),
                ("cmp", "CEq", col(a), col(len(ts) + b))), "join"
    if num:
        a = rng.choice(num)
        l = ("project", base, [("arith", "AAdd", col(a), col(a))])
        r = ("project", base, [col(a)])
        if rng.random() < 0.5:
            l, r = r, l
        return ("setop", "SUnion", True, l, r), "setop"
    return base, "table"


def gen_group(rng, nq):
    null_p = rng.choice([0.0, 0.2, 0.4])
    sch = rng.choice(SCHEMAS)
    tables = [relgen.gen_table(rng, "ta", sch, null_p=null_p), relgen.gen_table(rng, "tb", sch, null_p=null_p),
              relgen.gen_table(rng, "tc", rng.choice(SCHEMAS), null_p=null_p)]
    if rng.random() < 0.3:
        tables[1]["parquet"] = {"row_group": rng.choice([1, 3, 1024])}
        tables[1]["batch_sizes"] = None
    qs = []
    for i in range(nq):
        if i % 3 == 2:
            q, kind = directed(rng, tables)
            qs.append({"q": q, "kind": "directed:" + kind})
        else:
            q, ts = relgen2.gen_query(rng, tables, rng.randint(1, 3))
            q = relgen2.with_order_limit(rng, q, ts)
            qs.append({"q": q, "kind": q[0]})
    return {"tables": tables, "queries": qs}


def names_types(s):
    return [x[0].lower() for x in s], [x[1] for x in s]


def evaluate(ctx, groups):
    cases, terms, index, preludes = [], [], [], []
    for gi, g in enumerate(groups):
        specs = [relcheck.table_spec(t["name"], t["types"], t["rows"], t.get("batch_sizes"), t.get("parquet")) for t in g["tables"]]
        sqls = [sqlq.to_sql(x["q"]) for x in g["queries"]]
        cases.append({"tables": specs, "queries": sqls})
        dbs = "[" + "; ".join("[" + "; ".join(TY[t] for t in tb["types"]) + "]" for tb in g["tables"]) + "]"
        preludes.append(f"Definition dbs{gi} : list (list ty) := {dbs}.")
        for qi, x in enumerate(g["queries"]):
            index.append((gi, qi))
            qc = sqlq.to_coq(x["q"])
            terms.append(f"[schema_codes (schema_of dbs{gi} {qc}); schema_codes (returned_schema_of dbs{gi} {qc}); "
                         f"[if known_i32_arith dbs{gi} {qc} then 1 else 0; Z.of_nat (width {qc})]]")
    outs = vlib.run_harness("c30", cases, timeout=3000)
    vals = vlib.coq_eval_list(REQ, "\n".join(preludes), terms, "c30", shard=60)
    res = []
    for (gi, qi), v in zip(index, vals):
        g = groups[gi]; x = g["queries"][qi]
        o = outs[gi]["results"][qi] if "results" in outs[gi] else {"err": str(outs[gi])}
        rep, ret, (known, width) = v
        r = {"sql": cases[gi]["queries"][qi], "kind": x["kind"], "tables": cases[gi]["tables"], "model_reported": rep,
             "model_returned": ret, "known": bool(known), "width": width, "out": o}
        if "ok" not in o:
            r["status"] = "panic" if "panic" in o else "error"
            res.append(r); continue
        ok = o["ok"]
        rn, rt = names_types(ok["result"])
        problems = []
        phys = ok["physical"]
        if isinstance(phys, dict):
            problems.append(f"physical_plan failed although the statement ran: {phys}")
        else:
            pn, pt = names_types(phys)
            if pn != rn:
                problems.append(f"physical plan names {pn} != result names {rn}")
            if pt != rt:
                problems.append(f"physical plan types {pt} != result types {rt}")
        for bi, b in enumerate(ok["batches"]):
            bn, bt = names_types(b)
            if bn != rn:
                problems.append(f"batch {bi} names {bn} != reported {rn}"); break
            if bt != rt:
                problems.append(f"batch {bi} types {bt} != reported {rt}"); break
        if not ok["arrays_match"]:
            problems.append("a batch's arrays do not have the types of the batch's own schema")
        if ok["rows"] != ok["row_count"]:
            problems.append(f"row_count {ok['row_count']} != rows in batches {ok['rows']}")
        r["problems"] = problems
        r["spec_ok"] = not problems
        # implementation vs model: reported types = schema_of, names c0..c{w-1}, width
        eq = True
        why = []
        if rep != [-1]:
            if [CODE.get(t, -2) for t in rt] != rep:
                eq = False; why.append(f"reported types {rt} != model schema_of {rep}")
            # outside the class the kernels' typing is the reported typing
            if not known and ret != rep:
                eq = False; why.append(f"model typings differ outside the class: {rep} / {ret}")
            r["modelled"] = True
        else:
            r["modelled"] = False
        if len(rn) != width:
            eq = False; why.append(f"{len(rn)} columns reported, model width {width}")
        if rn != [f"c{i}" for i in range(width)]:
            eq = False; why.append(f"names {rn}")
        r["eq"], r["why"] = eq, why
        r["status"] = "ran"
        res.append(r)
    return res


def run(ctx):
    proved = ctx.prove()
    groups = [gen_group(ctx.rng, 12) for _ in range(ctx.n(45, 1500))]
    res = evaluate(ctx, groups)
    ran = [r for r in res if r["status"] == "ran"]
    errs = [r for r in res if r["status"] != "ran"]
    kinds = {}
    for r in ran:
        kinds[r["kind"]] = kinds.get(r["kind"], 0) + 1
    ctx.cov["evaluations"] = len(res)
    ctx.cov["engine_errors_excluded"] = len(errs)
    ctx.cov["engine_panics"] = sum(1 for r in errs if r["status"] == "panic")
    ctx.cov["error_samples"] = [{"sql": r["sql"], "detail": str(r["out"])[:200]} for r in errs[:4]]
    ctx.cov["distinct_nontrivial"] = len({r["sql"] for r in ran if r["out"]["ok"]["batches"]})
    ctx.cov["input_distribution"] = {"groups": len(groups), "by_kind": kinds, "modelled_types": sum(1 for r in ran if r["modelled"]),
                                     "outside_type_model": sum(1 for r in ran if not r["modelled"]),
                                     "no_batches_returned": sum(1 for r in ran if not r["out"]["ok"]["batches"]),
                                     "in_class_i32_arith": sum(1 for r in ran if r["known"]),
                                     "batches_compared": sum(len(r["out"]["ok"]["batches"]) for r in ran)}
    for r in ran[:3]:
        ctx.sample({"sql": r["sql"], "impl_output": r["out"]["ok"], "model_schema_of": r["model_reported"]})
    cases = [{"sql": r["sql"], "tables": r["tables"], "kind": r["kind"], "known_i32_arith": r["known"]} for r in ran]
    ctx.judge(cases, [r["eq"] for r in ran], [r["spec_ok"] for r in ran],
              classify=lambda c: "i32-arith" if c["known_i32_arith"] else None,
              impl_outs=[{"out": r["out"]["ok"], "problems": r["problems"], "model_diff": r["why"],
                          "model_reported": r["model_reported"], "model_returned": r["model_returned"]} for r in ran])
    if res and len(errs) > 0.4 * len(res) and not ctx.violations:
        ctx.violation({"kind": "correspondence-degraded: too many statements fail with an engine error", "errors": len(errs),
                       "total": len(res), "samples": ctx.cov["error_samples"]}, found_input=False, tag="errors")
    if not proved and not ctx.violations:
        ctx.proof_broken_violation(f"{len(res)} statements")
    return ctx.finish(
        rule="C01's random typed query trees (depth<=3, 3 tables of six column types incl. Int32, NULLs, random batch splits, "
             "one table sometimes Parquet, optional ORDER BY/LIMIT) + every third statement directed at a typing rule "
             "(arithmetic over each numeric pair, unary minus, CASE/COALESCE branch order, each aggregate over each type, "
             "outer joins, UNION ALL of differently typed sides); non-trivial = statement that returned at least one batch; "
             "distinct by statement text. Engine errors are allowed by the property (quantifier: successfully planned "
             "statements) and excluded, counted.",
        assumptions=["nullability is ignored, as the property says",
                     "the model's value typing has one integer class (VInt): Int32 vs Int64 is decided by the typing rules, "
                     "not by the values, so `rows_conform` cannot see the class i32-arith; the correspondence run does",
                     "statements outside the type model (bare NULL literal, VALUES, CASE/COALESCE mixing classes) are compared "
                     "only schema-vs-batches, not with schema_of",
                     "Flight GetSchema is not exercised here (it returns physical_plan(sql).schema(), which is compared)"])


def replay(ctx, obj):
    c = obj.get("case") or obj.get("first_differing_case")
    outs = vlib.run_harness("c30", [{"tables": c["tables"], "queries": [c["sql"]]}])
    o = outs[0]["results"][0]
    print("sql:", c["sql"]); print("impl:", o)
    if "ok" not in o:
        return 0
    ok = o["ok"]
    same = all(b == ok["result"] for b in ok["batches"]) and ok["physical"] == ok["result"] and ok["arrays_match"]
    print("reported == batches == physical:", same)
    return 0 if same else 1
