"""C30 — the reported result schema describes the returned rows. Theorems: coq/theories/Props/C30.v (type preservation
`rows_conform` for the model's `schema_of`, the planner's coerce table, regression witness of the closed class i32-arith).
Correspondence: regression inputs first, then every statement of the C01-style generator plus statements directed at each
typing rule (all pairs of Int8/Int16/Int32/Int64/Float32/Float64 arithmetic, unary minus, CASE/COALESCE, every aggregate,
outer joins, set operations) plus a differential family of scalar functions outside the model: compare
QueryResult.schema with every returned batch's schema and with `ctx.physical_plan(sql).schema()` (names and types,
nullability ignored), and the reported types with the model's schema_of.  Flight GetSchema is covered elsewhere."""
import os, re
from fractions import Fraction
import vlib, relgen, relgen2, sqlq, sqlgen, relcheck
from relgen import col, lit

REQ = "From QV Require Import Sql.Query C30.Model."
SCHEMAS = [["i64", "str", "f64"], ["i64", "i32", "date"], ["str", "i64"], ["i64", "bool", "str"], ["date", "f64", "i64"],
           ["i32", "i32", "f64"]]
TD_TYPES = ["i16", "i8", "f32", "i32", "i64", "f64", "date", "str", "bool"]      # table td: every modelled type
CODE = {"i64": 0, "i32": 1, "f64": 2, "str": 3, "bool": 4, "date": 5, "Int16": 6, "Int8": 7, "Float32": 8}
TY = {"i64": "TI64", "i32": "TI32", "f64": "TF64", "str": "TStr", "bool": "TBool", "date": "TDate", "i16": "TI16", "i8": "TI8",
      "f32": "TF32"}
NUM = ("i16", "i8", "f32", "i32", "i64", "f64")
INTS = ("i16", "i8", "i32", "i64")

# Shapes on which the unchanged engine genuinely violates C30 (found by this check's probes, reported to the coordinator).
# A shape is generated only once known_findings.txt has decided its class (`known:` = excused while impl == model,
# `fixed: ... (was class X)` = regression input that must pass); until then it is listed in the evidence, not run.
PENDING = {
    "union-all-mixed-types": "SELECT c3 AS c0, c3 AS c0 FROM td UNION ALL SELECT c4, c4 FROM td   (an input repeating an output name is not cast "
                             "by f5f2dbc: reported Int32, second batch Int64; every other UNION shape is a regression input)",
    "date-minus-date": "SELECT c6 - c6 AS c0 FROM td   (reported Float64, batch Duration(Second))",
    "greatest-least-mixed": "SELECT greatest(c3, c4) AS c0 FROM td   (reported Int32, batch Int64)",
    "decimal-arith": "SELECT CAST(c4 AS DECIMAL(10,2)) + 1 AS c0 FROM td   (reported Decimal128(38,10), batch Int64)",
}


def decided_classes(ctx):
    out = {c: "known" for c in ctx.known}
    p = os.path.join(vlib.VERIF, "known_findings.txt")
    if os.path.exists(p):
        for line in open(p):
            m = re.match(r"fixed:\s+property=C30\b.*\(was class ([\w-]+)\)", line.strip())
            if m:
                out[m.group(1)] = "fixed"
    return out


# ---------------------------------------------------------------- tables
def gen_td(rng):
    rows = []
    for _ in range(rng.choice([1, 2, 4, 7])):
        r = []
        for t in TD_TYPES:
            if rng.random() < 0.25:
                r.append(None)
            elif t in ("i16", "i8", "i32", "i64"):
                r.append(rng.choice([0, 1, 2, 3, -1, 7]))
            elif t in ("f32", "f64"):
                r.append(("q", Fraction(rng.choice([0, 1, 3, 5, -3]), rng.choice([1, 2, 4]))))
            else:
                r.append(relgen.gen_value(rng, t, null_p=0.0))
        rows.append(r)
    n = len(rows)
    return {"name": "td", "types": list(TD_TYPES), "rows": rows, "batch_sizes": ([1, n - 1] if n > 1 and rng.random() < 0.5 else None)}


# ---------------------------------------------------------------- regression inputs (run first)
def regression_group():
    """class i32-arith (closed by fix: 4f06458): Int32 op Int32 through every place where the mismatch used to surface"""
    t = {"name": "tr", "types": ["i64", "i32"], "rows": [[1, 2], [None, None], [5, 7], [1, 2]], "batch_sizes": [2, 2]}
    base = relgen.tbl(0, t)
    a = lambda op: ("arith", op, col(1), col(1))
    c = ("cmp", "CGt", col(0), lit(0))
    qs = [("project", base, [a("AAdd")]), ("project", base, [a("ASub"), a("AMul")]), ("project", base, [("neg", a("AAdd"))]),
          ("project", base, [("case", [(c, a("AAdd"))], col(1))]), ("project", base, [("coalesce", [a("AMul"), col(1)])]),
          ("project", ("project", base, [a("AAdd")]), [("arith", "AAdd", col(0), col(0))]),
          ("filter", ("project", base, [a("AAdd")]), ("cmp", "CGt", col(0), lit(1))),
          ("limit", ("sort", ("project", base, [a("AAdd")]), [(col(0), False, None)]), 0, 2),
          ("setop", "SUnion", True, ("project", base, [a("AAdd")]), ("project", base, [col(1)])),
          ("setop", "SUnion", True, ("project", base, [col(1)]), ("project", base, [a("AAdd")])),
          ("join", "JInner", base, base, ("cmp", "CEq", col(0), col(2))),
          ("agg", base, [col(0)], [("AMin", a("AAdd")), ("ASum", a("AAdd"))]),
          ("project", base, [("arith", "AAdd", col(1), col(0)), ("arith", "AAdd", col(0), col(1))])]
    return {"tables": [t], "queries": [{"q": q, "kind": "regression:i32-arith", "regression": True} for q in qs]}


def regression_group_case_datetrunc():
    """classes case-float64-widening (closed by fix: b37af60) and date-trunc-date (closed by fix: 99f3b78)"""
    t = {"name": "td", "types": list(TD_TYPES), "batch_sizes": [1, 2],
         "rows": [[1, 2, ("q", Fraction(3, 2)), 3, 4, ("q", Fraction(5, 4)), ("d", 400), "ab", True], [None] * 9,
                  [0, 0, None, 0, -1, ("q", Fraction(7, 2)), ("d", -3), "", False]]}
    base = relgen.tbl(0, t)
    pos, neg = ("cmp", "CGt", col(4), lit(0)), ("cmp", "CLt", col(4), lit(0))
    half = lit(("q", Fraction(3, 2)))
    cases = [("case", [(pos, col(4))], half), ("case", [(pos, col(3))], col(5)), ("case", [(pos, col(2))], col(5)),
             ("case", [(pos, col(2))], half), ("case", [(pos, col(2)), (neg, col(5))], None),
             ("case", [(pos, col(3)), (neg, col(2))], col(5)), ("case", [(pos, col(3)), (neg, col(5))], col(4)),
             ("case", [(pos, col(0))], col(5)), ("case", [(pos, col(5))], col(4)), ("case", [(pos, col(3))], col(4)),
             ("case", [(pos, col(4))], col(3)), ("case", [(pos, ("arith", "AAdd", col(2), col(2)))], col(5))]
    qs = [{"q": ("project", base, [e]), "kind": "regression:case-float64-widening", "regression": True} for e in cases]
    w = ("project", base, [cases[0], col(4)])
    qs += [{"q": q, "kind": "regression:case-float64-widening", "regression": True} for q in [
        ("filter", w, ("cmp", "CGt", col(0), lit(1))), ("limit", ("sort", w, [(col(0), False, None)]), 0, 2),
        ("agg", w, [col(1)], [("ASum", col(0)), ("AMax", col(0))]),
        ("setop", "SUnion", True, ("project", base, [cases[0]]), ("project", base, [col(5)]))]]
    for e in ["date_trunc('month', c6)", "date_trunc('year', c6)", "date_trunc('day', c6)", "date_trunc('week', c6)",
              "date_trunc('month', CAST(c6 AS TIMESTAMP))", "date_trunc('day', CAST(c6 AS TIMESTAMP))"]:
        qs.append({"q": None, "sql": f"SELECT {e} AS c0 FROM td", "kind": "regression:date-trunc-date", "regression": True})
    qs += [{"q": None, "sql": s, "kind": "regression:date-trunc-date", "regression": True} for s in [
        "SELECT c0 FROM (SELECT date_trunc('month', c6) AS c0 FROM td) s WHERE c0 IS NOT NULL",
        "SELECT date_trunc('month', c6) AS c0, COUNT(*) AS c1 FROM td GROUP BY date_trunc('month', c6)",
        "SELECT date_trunc('year', c6) AS c0 FROM td ORDER BY date_trunc('year', c6) LIMIT 2"]]
    for x in qs:
        if x["q"] is None and "COUNT(*) AS c1" in x["sql"]:
            x["width"] = 2
    return {"tables": [t], "queries": qs}


def regression_group_union():
    """class union-all-mixed-types for numeric pairs (closed by fix: f5f2dbc): every ordered pair of the six numeric types"""
    t = {"name": "td", "types": list(TD_TYPES), "batch_sizes": None,
         "rows": [[1, 2, ("q", Fraction(3, 2)), 3, 4, ("q", Fraction(5, 4)), ("d", 400), "ab", True], [None] * 9]}
    base = relgen.tbl(0, t)
    num = [j for j, x in enumerate(TD_TYPES) if x in NUM]
    pr = lambda j: ("project", base, [col(j)])
    qs = [("setop", "SUnion", True, pr(a), pr(b)) for a in num for b in num if a != b]
    qs += [("setop", "SUnion", False, pr(a), pr(b)) for a, b in [(3, 4), (4, 3), (3, 5), (5, 4)]]
    u = ("setop", "SUnion", True, pr(3), pr(4))
    qs += [("limit", ("sort", u, [(col(0), False, None)]), 0, 3), ("filter", u, ("cmp", "CGt", col(0), lit(0))),
           ("agg", u, [], [("ASum", col(0)), ("AMax", col(0))]), ("setop", "SUnion", True, u, pr(5)), ("setop", "SUnion", True, pr(5), u),
           ("setop", "SUnion", True, ("project", base, [col(3), col(5)]), ("project", base, [col(4), col(3)]))]
    return {"tables": [t], "queries": [{"q": q, "kind": "regression:union-all-mixed-types", "regression": True} for q in qs]}


def known_shapes_group(decided):
    """one deterministic instance of every shape whose class known_findings.txt records as known:"""
    t = {"name": "td", "types": list(TD_TYPES), "batch_sizes": None,
         "rows": [[1, 2, ("q", Fraction(3, 2)), 3, 4, ("q", Fraction(5, 4)), ("d", 400), "ab", True], [None] * 9]}
    base = relgen.tbl(0, t)
    qs = []
    if decided.get("union-all-mixed-types") == "known":
        # what is left of the class after f5f2dbc: an input that repeats an output column name is left uncast
        for s in ["SELECT c3 AS c0, c3 AS c0 FROM td UNION ALL SELECT c4, c4 FROM td",
                  "SELECT c4 AS c0, c4 AS c0 FROM td UNION ALL SELECT c3, c3 FROM td"]:
            qs.append({"q": None, "sql": s, "kind": "known-shape:union-all-mixed-types", "class": "union-all-mixed-types", "width": 2,
                       "names": ["c0", "c0"]})
    for e, cls in FUNCTIONS:
        if cls and decided.get(cls):
            qs.append({"q": None, "sql": f"SELECT {e} AS c0 FROM td", "kind": "known-shape:" + cls, "class": cls})
    return {"tables": [t], "queries": qs}


# ---------------------------------------------------------------- directed statements
def directed(rng, tables, decided):
    """statements aimed at the typing rules, over td (all nine types)"""
    i = len(tables) - 1
    t = tables[i]; ts = t["types"]; base = relgen.tbl(i, t)
    num = [j for j, x in enumerate(ts) if x in NUM]
    k = rng.random()
    if k < 0.3:
        a, b = rng.choice(num), rng.choice(num)
        e = ("arith", rng.choice(["AAdd", "ASub", "AMul"]), col(a), col(b))
        if rng.random() < 0.3:
            e = ("neg", e)
        if rng.random() < 0.3:
            e = ("arith", "AAdd", e, rng.choice([col(rng.choice(num)), lit(1), lit(("q", Fraction(3, 2)))]))
        return ("project", base, [e, ("neg", col(a))]), "arith"
    if k < 0.45:
        # CASE over any two of the nine types (evaluate_case casts every pair except Date32 with Int8/Int16/Float32/Float64/
        # Boolean, which is an engine error); COALESCE over one type
        a, b = rng.randrange(len(ts)), rng.randrange(len(ts))
        if rng.random() < 0.6:
            a, b = rng.choice(num), rng.choice(num)
        c = ("cmp", "CGt", col(4), lit(0))
        same = [j for j in range(len(ts)) if ts[j] == ts[a]]
        shapes = [("case", [(c, col(a))], col(b)), ("case", [(c, col(a))], None),
                  ("case", [(c, col(a)), (("cmp", "CLt", col(4), lit(0)), col(b))], col(rng.choice(num))),
                  ("coalesce", [col(a), col(rng.choice(same))])]
        if a in num:
            shapes += [("case", [(c, ("arith", "AAdd", col(a), col(a)))], col(b)), ("coalesce", [("arith", "AMul", col(a), col(a)), col(a)]),
                       ("case", [(c, col(a))], lit(("q", Fraction(3, 2)))), ("case", [(c, col(a))], lit(1))]
        return ("project", base, [rng.choice(shapes)]), "case/coalesce"
    if k < 0.7:
        j = rng.randrange(len(ts))
        fn = rng.choice(["ACountStar", "ACount", "ASum", "AAvg", "AMin", "AMax", "ACountDistinct"])
        if fn in ("ASum", "AAvg") and ts[j] not in NUM:
            fn = "ACount"
        arg = col(j)
        if j in num and rng.random() < 0.3:
            arg = ("arith", "AAdd", col(j), col(j))
        keys = [col(rng.choice([3, 4, 6, 7]))] if rng.random() < 0.5 else []
        return ("agg", base, keys, [(fn, arg if fn != "ACountStar" else lit(1))]), "agg"
    if k < 0.85:
        a, b = rng.choice([(3, 3), (4, 4), (3, 4), (0, 3), (1, 0), (6, 6), (7, 7)])
        return ("join", rng.choice(["JLeft", "JRight", "JFull", "JInner"]), base, base, ("cmp", "CEq", col(a), col(len(ts) + b))), "join"
    a = rng.choice(num)
    if rng.random() < 0.5:
        b = rng.choice(num)
        return ("setop", "SUnion", rng.random() < 0.7, ("project", base, [col(a)]), ("project", base, [col(b)])), "setop-mixed"
    same = [j for j in num if ts[j] == ts[a]]
    l = ("project", base, [("arith", "AAdd", col(a), col(a))])
    r = ("project", base, [col(rng.choice(same))])
    if rng.random() < 0.5:
        l, r = r, l
    return ("setop", rng.choice(["SUnion", "SIntersect", "SExcept"]), rng.random() < 0.6, l, r), "setop"


# scalar functions / casts outside the model: reported vs returned only. (sql expression over td, class or None)
FUNCTIONS = [(f"{f}({c})", None) for f in ("abs", "round", "floor", "ceil", "sqrt", "sign", "exp", "ln") for c in ("c3", "c4", "c5", "c2", "c0")] + [
    (e, None) for e in [
        "round(c5, 1)", "round(c4, 1)", "power(c4, 2)", "power(c5, 2)", "mod(c4, 3)", "c4 % 3", "c3 % c3", "c4 / 2", "c3 / c3", "c5 / c4", "c3 / c4", "c2 / c2",
        "greatest(c3, c3)", "least(c5, c5)", "nullif(c3, 0)", "nullif(c4, c3)", "coalesce(c3, 0)", "coalesce(c5, 0)", "coalesce(c4, 0)",
        "length(c7)", "upper(c7)", "substr(c7, 1, 1)", "concat(c7, c7)", "c7 || c7", "strpos(c7, 'a')", "trim(c7)", "replace(c7, 'a', 'b')", "left(c7, 1)",
        "ascii(c7)", "repeat(c7, 2)", "lpad(c7, 3, 'x')", "reverse(c7)", "c7 LIKE 'a%'",
        "EXTRACT(YEAR FROM c6)", "EXTRACT(MONTH FROM c6)", "date_part('year', c6)", "year(c6)", "month(c6)", "day(c6)", "date_add('day', 1, c6)",
        "date_diff('day', c6, c6)", "c6 + 1", "c6 + INTERVAL '1' DAY", "c6 - INTERVAL '1' MONTH", "CAST(c6 AS VARCHAR)", "CAST(c7 AS DATE)",
        "CAST(c4 AS DOUBLE)", "CAST(c5 AS BIGINT)", "CAST(c4 AS INT)", "CAST(c4 AS VARCHAR)", "CAST(c8 AS INT)", "CAST(c4 AS BOOLEAN)", "CAST(c4 AS DECIMAL(10,2))",
        "CAST(c5 AS DECIMAL(10,2))", "CAST(c6 AS TIMESTAMP)", "CAST(c4 AS SMALLINT)", "CAST(c3 AS TINYINT)", "CAST(c5 AS FLOAT)", "CAST(c5 AS REAL)",
        "TRY_CAST(c7 AS INT)", "current_date", "day_of_week(c6)", "to_date(c7)", "CAST(c3 AS SMALLINT) + CAST(c3 AS SMALLINT)",
        "CAST(c3 AS TINYINT) + CAST(c3 AS SMALLINT)", "-CAST(c3 AS SMALLINT)", "SUM(CAST(c4 AS DECIMAL(10,2)))", "SUM(c2)", "AVG(c0)", "COUNT(c1)"]] + [
    ("date_trunc('month', c6)", None), ("date_trunc('week', c6)", None), ("date_trunc('day', CAST(c6 AS TIMESTAMP))", None),
    ("c6 - c6", "date-minus-date"), ("greatest(c3, c4)", "greatest-least-mixed"), ("least(c4, c3)", "greatest-least-mixed"),
    ("CAST(c4 AS DECIMAL(10,2)) + 1", "decimal-arith"), ("CAST(c4 AS DECIMAL(10,2)) * CAST(c4 AS DECIMAL(10,2))", "decimal-arith")]


def gen_group(rng, nq, decided):
    null_p = rng.choice([0.0, 0.2, 0.4])
    sch = rng.choice(SCHEMAS)
    tables = [relgen.gen_table(rng, "ta", sch, null_p=null_p), relgen.gen_table(rng, "tb", sch, null_p=null_p),
              relgen.gen_table(rng, "tc", rng.choice(SCHEMAS), null_p=null_p)]
    if rng.random() < 0.3:
        tables[1]["parquet"] = {"row_group": rng.choice([1, 3, 1024])}
        tables[1]["batch_sizes"] = None
    all_tables = tables + [gen_td(rng)]
    qs = []
    for i in range(nq):
        if i % 3 == 2:
            q, kind = directed(rng, all_tables, decided)
            qs.append({"q": q, "kind": "directed:" + kind})
        elif i % 6 == 4:
            e, cls = rng.choice([f for f in FUNCTIONS if f[1] is None or f[1] in decided])
            qs.append({"q": None, "sql": f"SELECT {e} AS c0 FROM td", "kind": "function", "class": cls})
        else:
            q, ts = relgen2.gen_query(rng, tables, rng.randint(1, 3))
            q = relgen2.with_order_limit(rng, q, ts)
            qs.append({"q": q, "kind": q[0]})
    return {"tables": all_tables, "queries": qs}


def names_types(s):
    return [x[0].lower() for x in s], [x[1] for x in s]


def evaluate(ctx, groups):
    cases, terms, index, preludes = [], [], [], []
    for gi, g in enumerate(groups):
        specs = [relcheck.table_spec(t["name"], t["types"], t["rows"], t.get("batch_sizes"), t.get("parquet")) for t in g["tables"]]
        sqls = [x["sql"] if x["q"] is None else sqlq.to_sql(x["q"]) for x in g["queries"]]
        cases.append({"tables": specs, "queries": sqls})
        dbs = "[" + "; ".join("[" + "; ".join(TY[t] for t in tb["types"]) + "]" for tb in g["tables"]) + "]"
        preludes.append(f"Definition dbs{gi} : list (list ty) := {dbs}.")
        for qi, x in enumerate(g["queries"]):
            index.append((gi, qi))
            if x["q"] is None:
                terms.append(f"[[-1]; [{x.get('width', 1)}]]")
                continue
            qc = sqlq.to_coq(x["q"])
            terms.append(f"[schema_codes (schema_of dbs{gi} {qc}); [Z.of_nat (width {qc})]]")
    outs = vlib.run_harness("c30", cases, timeout=3000)
    vals = vlib.coq_eval_list(REQ, "\n".join(preludes), terms, "c30", shard=60)
    res = []
    for (gi, qi), v in zip(index, vals):
        g = groups[gi]; x = g["queries"][qi]
        o = outs[gi]["results"][qi] if "results" in outs[gi] else {"err": str(outs[gi])}
        rep, (width,) = v
        cls = x.get("class")
        r = {"sql": cases[gi]["queries"][qi], "kind": x["kind"], "tables": cases[gi]["tables"], "model_reported": rep,
             "class": cls, "width": width, "out": o, "regression": bool(x.get("regression"))}
        if "ok" not in o:
            r["status"] = "panic" if "panic" in o else "error"
            res.append(r); continue
        ok = o["ok"]
        rn, rt = names_types(ok["result"])
        problems = []
        phys = ok["physical"]
        if isinstance(phys, dict):
            problems.append(f"physical_plan failed although the statement ran: {phys}")
        else:
            pn, pt = names_types(phys)
            if pn != rn:
                problems.append(f"physical plan names {pn} != result names {rn}")
            if pt != rt:
                problems.append(f"physical plan types {pt} != result types {rt}")
        for bi, b in enumerate(ok["batches"]):
            bn, bt = names_types(b)
            if bn != rn:
                problems.append(f"batch {bi} names {bn} != reported {rn}"); break
            if bt != rt:
                problems.append(f"batch {bi} types {bt} != reported {rt}"); break
        if not ok["arrays_match"]:
            problems.append("a batch's arrays do not have the types of the batch's own schema")
        if ok["rows"] != ok["row_count"]:
            problems.append(f"row_count {ok['row_count']} != rows in batches {ok['rows']}")
        r["problems"] = problems
        r["spec_ok"] = not problems
        # implementation vs model: reported types = schema_of, names c0..c{w-1}, width
        eq, why = True, []
        r["modelled"] = rep != [-1]
        if r["modelled"] and [CODE.get(t, -2) for t in rt] != rep:
            eq = False; why.append(f"reported types {rt} != model schema_of {rep}")
        if len(rn) != width:
            eq = False; why.append(f"{len(rn)} columns reported, model width {width}")
        if rn != (x.get("names") or [f"c{i}" for i in range(width)]):
            eq = False; why.append(f"names {rn}")
        r["eq"], r["why"] = eq, why
        r["status"] = "ran"
        res.append(r)
    return res


def run(ctx):
    proved = ctx.prove()
    decided = decided_classes(ctx)
    groups = [regression_group(), regression_group_case_datetrunc(), regression_group_union(), known_shapes_group(decided)] + \
             [gen_group(ctx.rng, 12, decided) for _ in range(ctx.n(45, 1500))]
    res = evaluate(ctx, groups)
    ran = [r for r in res if r["status"] == "ran"]
    errs = [r for r in res if r["status"] != "ran"]
    kinds = {}
    for r in ran:
        kinds[r["kind"]] = kinds.get(r["kind"], 0) + 1
    ctx.cov["evaluations"] = len(res)
    ctx.cov["engine_errors_excluded"] = len(errs)
    ctx.cov["engine_panics"] = sum(1 for r in errs if r["status"] == "panic")
    ctx.cov["error_samples"] = [{"sql": r["sql"], "detail": str(r["out"])[:200]} for r in errs[:4]]
    ctx.cov["distinct_nontrivial"] = len({r["sql"] for r in ran if r["out"]["ok"]["batches"]})
    ctx.cov["input_distribution"] = {"groups": len(groups), "by_kind": kinds, "modelled_types": sum(1 for r in ran if r["modelled"]),
                                     "outside_type_model": sum(1 for r in ran if not r["modelled"]),
                                     "no_batches_returned": sum(1 for r in ran if not r["out"]["ok"]["batches"]),
                                     "regression_inputs": sum(1 for r in res if r["regression"]),
                                     "batches_compared": sum(len(r["out"]["ok"]["batches"]) for r in ran),
                                     "classes_decided_in_known_findings": decided,
                                     "shapes_awaiting_decision_not_generated": {c: w for c, w in PENDING.items() if c not in decided}}
    for r in ran[:3]:
        ctx.sample({"sql": r["sql"], "impl_output": r["out"]["ok"], "model_schema_of": r["model_reported"]})
    # a regression input that no longer runs is a finding too
    for r in res:
        if r["regression"] and r["status"] != "ran":
            ctx.violation({"kind": "regression input of a closed class no longer runs: " + r["kind"], "case": {"sql": r["sql"], "tables": r["tables"]},
                           "impl_output": r["out"]}, found_input=True)
    cases = [{"sql": r["sql"], "tables": r["tables"], "kind": r["kind"], "class": r["class"]} for r in ran]
    ctx.judge(cases, [r["eq"] for r in ran], [r["spec_ok"] for r in ran],
              classify=lambda c: c["class"] if decided.get(c["class"]) == "known" else None,
              impl_outs=[{"out": r["out"]["ok"], "problems": r["problems"], "model_diff": r["why"],
                          "model_reported": r["model_reported"]} for r in ran])
    if res and len(errs) > 0.4 * len(res) and not ctx.violations:
        ctx.violation({"kind": "correspondence-degraded: too many statements fail with an engine error", "errors": len(errs),
                       "total": len(res), "samples": ctx.cov["error_samples"]}, found_input=False, tag="errors")
    if not proved and not ctx.violations:
        ctx.proof_broken_violation(f"{len(res)} statements")
    return ctx.finish(
        rule="first the regression inputs of the closed classes: i32-arith (Int32 op Int32 through projection, unary minus, CASE, "
             "COALESCE, derived table, filter, ORDER BY/LIMIT, both sides of UNION ALL, join, aggregates), case-float64-widening "
             "(integer / Float32 THEN with a Float64 branch in every position, through filter, sort, aggregate, UNION ALL) and "
             "date-trunc-date (DATE_TRUNC over DATE and TIMESTAMP, in a derived table, GROUP BY, ORDER BY), union-all-mixed-types "
             "(UNION ALL of every ordered pair of the six numeric types, UNION, nested and through sort/filter/aggregate); one instance of every "
             "shape recorded as known:; then per group of 12: "
             "C01's random typed query trees (depth<=3, 3 tables of six column types, NULLs, random batch splits, one table "
             "sometimes Parquet, optional ORDER BY/LIMIT), every third statement directed at a typing rule over a table with all "
             "nine modelled types (Int8..Float64 arithmetic pairs, unary minus, CASE over any two of the nine types, COALESCE, each aggregate, outer "
             "joins, set operations), one scalar-function / CAST statement outside the model (reported vs returned only); "
             "non-trivial = statement that returned at least one batch; distinct by statement text. Engine errors are allowed by "
             "the property (quantifier: successfully planned statements) and excluded, counted.",
        assumptions=["nullability is ignored, as the property says",
                     "the model's value typing has one integer class (VInt) and one float class (VDbl): the width is decided by "
                     "the typing rules, not by the values",
                     "statements outside the type model (bare NULL literal, VALUES, CASE whose branches do not flow into the folded type "
                     "by the Int->Float cast, scalar functions incl. DATE_TRUNC, CAST) are compared only schema-vs-batches, not with schema_of",
                     "shapes listed under shapes_awaiting_decision_not_generated violate C30 on the unchanged tree and are generated "
                     "only once known_findings.txt records their class as known: or fixed:",
                     "Flight GetSchema is not exercised here (it returns physical_plan(sql).schema(), which is compared)"])


def replay(ctx, obj):
    c = obj.get("case") or obj.get("first_differing_case")
    outs = vlib.run_harness("c30", [{"tables": c["tables"], "queries": [c["sql"]]}])
    o = outs[0]["results"][0]
    print("sql:", c["sql"]); print("impl:", o)
    if "ok" not in o:
        return 0
    ok = o["ok"]
    same = all(b == ok["result"] for b in ok["batches"]) and ok["physical"] == ok["result"] and ok["arrays_match"]
    print("reported == batches == physical:", same)
    return 0 if same else 1
