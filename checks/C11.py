"""C11 — split enumeration + digest: theorems in coq/theories/Props/C11.v; correspondence
enumerate_parquet / SplitSet::digest vs C11.Model.enumerate_c / digest on real Parquet footers and
injected synthetic footers, permuted file orders and a second mount point."""
import os, re, time
import vlib
from vlib import zlit, zlist, bytes_of_str

REQ = "From QV Require Import Base.Util C12.Model C11.Model."
SPLITS_RS = os.path.join(vlib.REPO, "src", "distributed", "splits.rs")
PINNED = {"MIN_SPLIT_BYTES": 4 * 1024 * 1024, "MAX_SPLIT_BYTES": 64 * 1024 * 1024, "SPLITS_PER_NODE": 32}
KNOWN_CLASS = "dup_file_names"


def read_consts():
    """Re-read the three constants from the engine source (every run)."""
    src = open(SPLITS_RS).read()
    out = {}
    for name in PINNED:
        m = re.search(r"const\s+" + name + r"\s*:\s*u64\s*=\s*([^;]+);", src)
        if not m:
            raise RuntimeError(f"constant {name} not found in {SPLITS_RS}")
        expr = m.group(1).replace("_", "").replace("u64", "").strip()
        if not re.fullmatch(r"[0-9*+()<\s]+", expr):
            raise RuntimeError(f"constant {name} has an expression this check cannot read: {expr!r}")
        out[name] = int(eval(expr, {"__builtins__": {}}, {}))
    return out


def consts_term(c):
    return f"(mkConsts {c['MIN_SPLIT_BYTES']} {c['MAX_SPLIT_BYTES']} {c['SPLITS_PER_NODE']})"


# ---------------- generation ----------------
NAMES = ["a.parquet", "b.parquet", "a", "é.parquet", "Z.parquet", "a.parquet0", "part-0.parquet",
         "part-00.parquet", "ab", "b", "data.parquet", "~.parquet"]


def est_splits(consts, rgs_all, nodes):
    live = [(r, max(b, 0)) for r, b in rgs_all if r > 0]
    total = sum(b for _, b in live)
    n = max(nodes, 1)
    floor = max(min(consts["MIN_SPLIT_BYTES"], -(-total // n)), 1)
    ideal = total // max(consts["SPLITS_PER_NODE"] * n, 1)
    target = min(max(ideal, floor), max(consts["MAX_SPLIT_BYTES"], floor))
    return sum(1 if b <= target else max(min(-(-b // target), r), 1) for r, b in live)


def gen_rg(rng, style, nodes=1, ngroups=1):
    rows = rng.choice([0, -1, 1, 1, 2, 3, 7, 10, 100, 1000, 4097, 2 ** 31, 2 ** 31 - 1, rng.randint(1, 50), rng.randint(1, 10 ** 6)])
    if style == "tiny":
        b = rng.choice([-1, 0, 1, 2, 3, rng.randint(0, 50)])
    elif style == "mid":
        b = rng.choice([0, 100, rng.randint(0, 2 ** 20), rng.randint(0, 2 ** 24), 4 * 1024 * 1024, 4 * 1024 * 1024 + 1])
    elif style == "ideal":
        # total in [128 MiB, 2 GiB] x nodes: the regime where target = total / (SPLITS_PER_NODE * nodes)
        b = rng.randint(2 ** 27, 2 ** 31) * max(nodes, 1) // max(ngroups, 1)
        rows = rng.choice([1, 7, 100, 1000, 4097, 2 ** 31, rng.randint(1, 10 ** 6)])
    elif style == "floor":
        # total in [4 MiB, 128 MiB] x nodes: target = MIN_SPLIT_BYTES
        b = rng.randint(2 ** 22, 2 ** 27) * max(nodes, 1) // max(ngroups, 1)
        rows = rng.choice([1, 7, 100, 1000, 4097, 2 ** 31, rng.randint(1, 10 ** 6)])
    elif style == "huge":
        b = rng.choice([2 ** 40, 2 ** 40 - 1, rng.randint(0, 2 ** 40), rng.randint(0, 2 ** 33), 64 * 1024 * 1024, 64 * 1024 * 1024 + 1])
    else:
        b = rng.choice([-5, 0, 1, rng.randint(0, 2 ** 12), rng.randint(0, 2 ** 30), rng.randint(0, 2 ** 40)])
    return [rows, b]


def gen_case(rng, consts, dup=False, big=False):
    limit = 20000 if big else 900
    while True:
        nodes = rng.choice([0, 1, 2, 3, 4, 5, 7, 8, 16, 31, 32, 33, 63, 64, rng.randint(0, 64)])
        nf = rng.choice([0, 1, 1, 2, 2, 3, 3, 4, 5]) if not dup else rng.choice([2, 3, 4])
        names = rng.sample(NAMES, nf)
        if dup:
            names[1] = names[0]
            if nf >= 4 and rng.random() < 0.3:
                names[3] = names[2]
        style = rng.choice(["tiny", "mid", "huge", "mixed", "ideal", "ideal", "floor"])
        files = []
        ng = rng.choice([1, 1, 2, 3, 5])
        for i, nm in enumerate(names):
            if rng.random() < 0.3:
                nrg = rng.choice([0, 1, 2, 3])
                files.append({"name": nm, "dir": i, "kind": "real", "width": rng.choice([1, 3, 40]),
                              "rows": [rng.choice([1, 2, 5, 17, 64, 300]) for _ in range(nrg)]})
            else:
                nrg = rng.choice([0, 1, 1, 2, 3, 5])
                files.append({"name": nm, "dir": (i if (dup or rng.random() < 0.5) else 0), "kind": "syn",
                              "rgs": [gen_rg(rng, style, nodes, ng * max(nf, 1)) for _ in range(nrg)]})
        if dup:
            # same name must live in different directories
            for i, f in enumerate(files):
                f["dir"] = i
        syn = [rg for f in files if f["kind"] == "syn" for rg in f["rgs"]]
        if est_splits(consts, syn, nodes) <= limit:
            break
    ids = list(range(len(files)))
    orders = [ids[:]]
    for _ in range(2):
        p = ids[:]
        rng.shuffle(p)
        if p not in orders:
            orders.append(p)
    if len(ids) >= 2 and ids[::-1] not in orders:
        orders.append(ids[::-1])
    return {"table": rng.choice(["t", "t", "lineitem", "é"]), "nodes": nodes, "files": files, "orders": orders, "dup": dup}


# ---------------- rendering ----------------
# Coq 8.16 elaborates the `[a; b; ...]` notation in Z_scope in quadratic time (400 numbers: 4 s) and a
# nested `cons` deeper than ~10^4 overflows the parser's stack, so lists are rendered as explicit
# cons/nil in chunks joined by `app`.
def clist(items, chunk=200):
    items = list(items)
    def flat(xs):
        return "".join(f"(cons {x} " for x in xs) + "nil" + ")" * len(xs)
    if len(items) <= chunk:
        return flat(items)
    parts = [flat(items[i:i + chunk]) for i in range(0, len(items), chunk)]
    return "".join(f"(app {p} " for p in parts[:-1]) + parts[-1] + ")" * (len(parts) - 1)


def cbytes(s):
    return clist(str(b) for b in s.encode("utf-8"))


def file_term(f):
    rgs = clist(f"({zlit(r)}, {zlit(b)})" for r, b in f["rgs"])
    return f"({cbytes(f['name'])}, {rgs})"


def set_term(s, names):
    """impl SplitSet as a Coq term; file names are let-bound (names: str -> ident)."""
    sp = clist(f"(mkSplit {names[x[0]]} {names[x[1]]} {zlit(x[2])} {zlit(x[3])} {zlit(x[4])} {zlit(x[5])})" for x in s["splits"])
    return f"(mkSS {names[s['table']]} {sp} {zlit(s['total_bytes'])} {zlit(s['total_rows'])} {zlit(s['target'])})"


def eval_defs(defs, tag, per=40, req=None):
    """defs[i] defines qv_case_<i> : list bool in a per-shard prelude (the shared `cs := [...]` list of
    vlib.coq_eval_list then only holds names); shards run in parallel."""
    from concurrent.futures import ThreadPoolExecutor
    shards = [list(range(i, min(i + per, len(defs)))) for i in range(0, len(defs), per)]
    def one(k):
        pre = "\n".join(defs[i] for i in shards[k])
        return vlib.coq_eval_list(req or REQ, pre, [f"qv_case_{i}" for i in shards[k]], f"{tag}_{k}", shard=10 ** 9, timeout=600)
    with ThreadPoolExecutor(max_workers=16) as ex:
        parts = list(ex.map(one, range(len(shards))))
    return [x for p in parts for x in p]


def case_defs(i, c, o, cterm):
    """Top-level, type-annotated Definitions for case i (nested `let`s with implicit arguments make
    Coq's elaboration blow up); the last one, qv_case_<i> : list bool, is [impl==model; spec; known_c]."""
    if "runs" not in o or any("set" not in r for r in o["runs"]):
        return f"Definition qv_case_{i} : list bool := cons false (cons false (cons false nil))."
    inv = o["inventory"]
    strs = {c["table"]}
    for r in o["runs"]:
        strs.add(r["set"]["table"])
        for x in r["set"]["splits"]:
            strs.add(x[0]); strs.add(x[1])
    names = {s: f"qv{i}_nm{k}" for k, s in enumerate(sorted(strs))}
    out = [f"Definition {v} : list Z := {cbytes(s)}." for s, v in names.items()]
    out += [f"Definition qv{i}_f{k} : file := {file_term(f)}." for k, f in enumerate(inv)]
    eqs, oks = [], []
    distinct = []
    for r in o["runs"]:
        if r["set"] not in distinct:
            distinct.append(r["set"])
    out += [f"Definition qv{i}_impl{k} : splitset := {set_term(s, names)}." for k, s in enumerate(distinct)]
    tb = names[c["table"]]
    allf = clist(f"qv{i}_f{j}" for j in range(len(inv)))
    for k, s in enumerate(distinct):
        eqs.append(f"(digest_fast qv{i}_impl{k} =? {s['digest']})")
        oks.append(f"spec_ok {tb} {allf} qv{i}_impl{k}")
    if len(set(f["name"] for f in inv)) == len(inv):
        # pairwise distinct names: by C11_perm_invariant the model's answer is the same for every order,
        # so it is evaluated once and every run of the implementation is held against it
        out.append(f"Definition qv{i}_model : splitset := enumerate_c {cterm} {tb} {allf} {zlit(c['nodes'])}.")
        for k in range(len(distinct)):
            eqs.append(f"ss_eqb qv{i}_impl{k} qv{i}_model")
    else:
        seen_orders = set()
        for r in o["runs"]:
            k = distinct.index(r["set"])
            if (k, tuple(r["order"])) in seen_orders:
                continue
            seen_orders.add((k, tuple(r["order"])))
            fl = clist(f"qv{i}_f{j}" for j in r["order"])
            eqs.append(f"ss_eqb qv{i}_impl{k} (enumerate_c {cterm} {tb} {fl} {zlit(c['nodes'])})")
    out.append(f"Definition qv_case_{i} : list bool := cons ({' && '.join(eqs)}) (cons ({' && '.join(oks)}) (cons (known_c {allf}) nil)).")
    return "\n".join(out)


def evaluate(ctx, cases, consts):
    t0 = time.time()
    outs = vlib.run_harness("c11", cases)
    t1 = time.time()
    cterm = consts_term(consts)
    vals = eval_defs([case_defs(i, c, o, cterm) for i, (c, o) in enumerate(zip(cases, outs))], "c11")
    ctx.cov["phase_seconds"] = {"harness": round(t1 - t0, 1), "model_in_coq": round(time.time() - t1, 1)}
    eq, ok, known = [], [], []
    for v, o in zip(vals, outs):
        runs = o.get("runs", [])
        same = all("set" in r and r["set"] == runs[0]["set"] for r in runs) if runs else False
        paths = all(r.get("set", {}).get("paths_ok") for r in runs)
        eq.append(bool(v[0]) and paths)
        ok.append(bool(v[1]) and same)
        known.append(bool(v[2]))
    return outs, eq, ok, known


def run(ctx):
    t0 = time.time()
    proved = ctx.prove()
    t_prove = round(time.time() - t0, 1)
    consts = read_consts()
    ctx.cov["constants_read_from_source"] = consts
    ctx.cov["constants_differ_from_pinned_engine_consts"] = consts != PINNED
    if consts != PINNED:
        print(f"NOTE: property=C11 split constants in {SPLITS_RS} changed: {consts} (model pinned {PINNED}); "
              f"the run uses the values read from the source, the theorems hold for all values")
    n = ctx.n(300, 6000)
    cases = [gen_case(ctx.rng, consts) for _ in range(n)]
    cases += [gen_case(ctx.rng, consts, big=True) for _ in range(ctx.n(3, 60))]
    ndup = ctx.n(30, 300)
    cases += [gen_case(ctx.rng, consts, dup=True) for _ in range(ndup)]
    if not proved:
        cases += [gen_case(ctx.rng, consts) for _ in range(600)]
    outs, eq, ok, known = evaluate(ctx, cases, consts)
    ctx.cov["evaluations"] = len(cases)
    ctx.cov["phase_seconds"]["coq_theorems"] = t_prove
    seen = set()
    for c, o in zip(cases, outs):
        s = (o.get("runs") or [{}])[0].get("set")
        if s and len(s["splits"]) >= 2 and len(c["orders"]) >= 2:
            seen.add(repr((c["nodes"], c["table"], o["inventory"])))
    ctx.cov["distinct_nontrivial"] = len(seen)
    nsplits = [len(r["set"]["splits"]) for o in outs for r in o.get("runs", [])[:1] if "set" in r]
    regimes = {}
    for c, o in zip(cases, outs):
        st = (o.get("runs") or [{}])[0].get("set")
        if st:
            t, tot, nn = st["target"], st["total_bytes"], max(c["nodes"], 1)
            r = ("max" if t == consts["MAX_SPLIT_BYTES"] else "min" if t == consts["MIN_SPLIT_BYTES"] else
                 "ideal" if t == tot // max(consts["SPLITS_PER_NODE"] * nn, 1) else "one_per_node_floor" if t == max(-(-tot // nn), 1) else "other")
            regimes[r] = regimes.get(r, 0) + 1
    pending = (not ctx.is_known(KNOWN_CLASS))
    dup_viol = sum(1 for k, g in zip(known, ok) if k and not g)
    ctx.cov["input_distribution"] = {
        "nodes": sorted(set(c["nodes"] for c in cases)), "max_splits": max(nsplits or [0]), "target_regime": regimes,
        "total_splits_compared": sum(nsplits), "real_parquet_files": sum(1 for c in cases for f in c["files"] if f["kind"] == "real"),
        "synthetic_footers": sum(1 for c in cases for f in c["files"] if f["kind"] == "syn"),
        "cases_with_cut_row_groups": sum(1 for o in outs for r in o.get("runs", [])[:1] if "set" in r and any(x[3] > 0 for x in r["set"]["splits"])),
        "cases_with_empty_or_negative_groups": sum(1 for o in outs if any(rg[0] <= 0 or rg[1] < 0 for f in o.get("inventory", []) for rg in f["rgs"])),
        "enumerate_calls": sum(len(o.get("runs", [])) for o in outs),
        "dup_name_cases": sum(1 for k in known if k), "dup_name_cases_violating_spec": dup_viol,
        "dup_name_class_listed_in_known_findings": not pending}
    if pending:
        # The class `dup_file_names` (Coq: known_c) is refuted in Props/C11.v (C11_dup_names_refuted). Until the
        # coordinator lists it in known_findings.txt these cases are held to impl == model only, so the
        # check does not fire on the unchanged tree; the count of spec violations among them is reported above.
        ok = [True if k else g for k, g in zip(known, ok)]
    for c, o in list(zip(cases, outs))[:2]:
        small = dict(o, runs=[dict(r, set=dict(r["set"], splits=r["set"]["splits"][:8])) for r in o.get("runs", [])[:2] if "set" in r])
        ctx.sample({"input": c, "impl_output_truncated": small})
    kn = dict(zip(map(id, cases), known))
    ctx.judge(cases, eq, ok, classify=lambda c: KNOWN_CLASS if kn.get(id(c)) else None,
              impl_outs=[{"inventory": o.get("inventory"), "runs": [dict(r, set=dict(r["set"], splits=r["set"]["splits"][:40])) if "set" in r else r for r in o.get("runs", [])]} for o in outs])
    if not proved and not ctx.violations:
        ctx.proof_broken_violation(f"{len(cases)} generated inventories, none violates the executable spec")
    return ctx.finish(
        rule="random inventories of 0..5 files (real Parquet files written with the parquet crate, footers read back; "
             "synthetic footers injected through metadata_cache::verif_inject with rows in {<=0, 1..2^31} and byte sizes "
             "in {<0, 0..2^40}) x node counts 0..64 x up to 4 file orders x 2 mount points; full SplitSet and digest "
             "compared with the model on every run; non-trivial = >=2 splits and >=2 orders, distinct by (nodes, table, footers)",
        assumptions=["Path::file_name of dir/name is name (names without '/', not '.' or '..'); to_string_lossy is the identity on UTF-8 names",
                     "u64/i64 accumulators do not overflow (theorem C11_no_overflow under the property's bounds)",
                     "Rust's stable sort_by / sort_by_key equal any stable sort for a total preorder (model uses insertion sort)",
                     "parquet crate: RowGroupMetaData::num_rows / total_byte_size return the footer's values"])


def replay(ctx, obj):
    c = obj.get("case") or obj.get("first_differing_case")
    consts = read_consts()
    outs, eq, ok, known = evaluate(ctx, [c], consts)
    for r in outs[0].get("runs", []):
        s = r.get("set", {})
        print("order", r["order"], "root", r["root"], "digest", s.get("digest"), "splits", s.get("splits", [])[:12])
    print("impl_equals_model:", eq[0], "spec_ok:", ok[0], "known_c:", known[0])
    return 0 if ok[0] and eq[0] else 1
