"""C04 — Storage layout and fast-path choice never change an answer. Theorems: coq/theories/Props/C04.v.
Correspondence: generated statements (filters, projections, inner/outer/cross/self joins incl. i64 = i32 keys, GROUP BY with
COUNT(*)/COUNT/SUM/AVG/MIN/MAX/COUNT(DISTINCT), global aggregates, DISTINCT, UNION [ALL], ORDER BY + LIMIT/OFFSET) over
nullable int/int32/double/string/date columns are executed over the SAME rows in a ladder of layouts
  mem-1batch, mem-batches                      register_table, one batch / many batches
  pq-rg1, pq-rg2, pq-rg7, pq-rg1024            register_parquet, one file, row groups of 1 / 2 / 7 / 1024 rows
  pq-files                                     several files, random row-group size
  pq-rg2-nomorsel, pq-files-nomorsel           the same with QE_MORSEL=0 (generic aggregation instead of MorselAggregateExec)
  mixed                                        ta as Parquet, tb in memory
  pq-rg7-big, pq-files-big-nomorsel            QE_VERIF_BIG_TABLE_BYTES=1 (hook, cfg qe_verif): every Parquet table is "big": filtered
                                               scans stream with the predicate in the decoder, shared tables are not prescanned
and every configuration is compared with the Gallina engine model and the SQL reference (evaluated once per statement).
"A query that succeeds on one layout succeeds on all": an engine error in one configuration of a statement that runs in
another is a violation. Recorded class: ndv-unique-key (GroupKeyReduction over footer statistics). The classes dense-null-key,
dense-empty-sum, rt-filter-key-width and empty-parquet-join-input were repaired in the engine (`fixed:` entries); their input
shapes are still generated, counted, and judged like everything else."""
import re
import vlib, confcheck, confgen, sqlq
from fractions import Fraction

def mem(batches):
    def f(bi, t):
        t["batch_sizes"] = None if batches is None else batches(bi, t["name"], len(t["rows"]))
        return t
    return f

def pq(rg, files=None, only=None):
    def f(bi, t):
        n = len(t["rows"])
        if only and t["name"] not in only:
            return t
        r = rg(bi, n) if callable(rg) else rg
        if n > 200 and r < 7:
            r = 7                                       # keep the row-group count of the large table reasonable
        t["parquet"] = {"files": files(bi, t["name"], n) if files else [n], "row_group": r}
        return t
    return f

PQ_OPS = ("ParquetScan", "StreamingParquetScan", "MorselAggregate")

def atom_keeps(row, e):
    """SQL truth of a single-atom predicate on a row (python values); used only to decide the shape class"""
    def v(x):
        return row[x[1]] if x[0] == "col" else x[1]
    def key(a):
        if isinstance(a, tuple):
            return a[1]
        return a
    t = e[0]
    if t == "isnull":
        return v(e[1]) is None
    if t == "isnotnull":
        return v(e[1]) is not None
    if t == "cmp":
        a, b = v(e[2]), v(e[3])
        if a is None or b is None:
            return False
        a, b = key(a), key(b)
        return {"CEq": a == b, "CNe": a != b, "CLt": a < b, "CLe": a <= b, "CGt": a > b, "CGe": a >= b}[e[1]]
    if t == "not":
        return False if None in [v(x) for x in e[1][1:] if isinstance(x, tuple) and x[0] == "col"] else not atom_keeps(row, e[1])
    return True

def dense_shape(q, tables):
    """MorselAggregateExec::try_execute_dense_direct applies: GROUP BY one plain Int64/Int32/Date32 column of a scanned table
    (optionally under a WHERE), aggregates COUNT / SUM(int64|double) / AVG(double), none DISTINCT. Returns the key values of
    the scanned rows, or None."""
    if q[0] != "agg" or len(q[2]) != 1 or q[2][0][0] != "col" or not q[3]:
        return None
    src = q[1]
    pred = None
    if src[0] == "filter" and src[1][0] == "table":
        pred, src = src[2], src[1]
    if src[0] != "table":
        return None
    t = tables[src[1]]
    ki = q[2][0][1]
    if t["types"][ki] not in ("i64", "i32", "date"):
        return None
    for fn, e in q[3]:
        if fn == "ACountStar":
            continue
        if e[0] != "col":
            return None
        ty = t["types"][e[1]]
        if fn == "ACount" or (fn == "ASum" and ty in ("i64", "f64")) or (fn == "AAvg" and ty == "f64"):
            continue
        return None
    rows = [r for r in t["rows"] if pred is None or atom_keeps(r, pred)]
    return t["name"], [r[ki] for r in rows]

def subqueries(q):
    """all query nodes of a statement AST"""
    yield q
    t = q[0]
    if t in ("filter", "project", "agg", "distinct", "sort", "limit"):
        yield from subqueries(q[1])
    elif t == "join":
        yield from subqueries(q[2]); yield from subqueries(q[3])
    elif t == "setop":
        yield from subqueries(q[3]); yield from subqueries(q[4])

def coltypes(q, tables):
    """column types of a query's output where they are plain columns (None otherwise)"""
    t = q[0]
    if t == "table":
        return list(tables[q[1]]["types"])
    if t in ("filter", "distinct", "sort", "limit"):
        return coltypes(q[1], tables)
    if t == "project":
        inner = coltypes(q[1], tables)
        return [inner[e[1]] if e[0] == "col" else None for e in q[2]]
    if t == "join":
        return coltypes(q[2], tables) + coltypes(q[3], tables)
    return [None] * sqlq.width(q)

def bare_scan(q):
    """table index if q is a table scan, possibly under column-only projections (what the planner digs through)"""
    if q[0] == "table":
        return q[1]
    if q[0] == "project" and all(e[0] == "col" for e in q[2]):
        return bare_scan(q[1])
    return None

def equi_pairs(on):
    if on[0] == "and":
        return equi_pairs(on[1]) + equi_pairs(on[2])
    if on[0] == "cmp" and on[1] == "CEq" and on[2][0] == "col" and on[3][0] == "col":
        return [(on[2][1], on[3][1])]
    return []

def rt_filter_shape(q, tables, is_parquet):
    """an INNER join publishes its Int64 build keys as a runtime filter into a streaming Parquet scan of the other side
    (planner.rs probe_rt_filter); class: the scanned key column is not Int64"""
    for j in subqueries(q):
        if j[0] != "join" or j[1] != "JInner":
            continue
        wl = sqlq.width(j[2])
        tl, tr = coltypes(j[2], tables), coltypes(j[3], tables)
        for a, b in equi_pairs(j[4]):
            a, b = (a, b - wl) if a < wl else (b, a - wl)
            if not (0 <= a < len(tl) and 0 <= b < len(tr)):
                continue
            for side, ty, other in ((j[2], tl[a], tr[b]), (j[3], tr[b], tl[a])):
                s = bare_scan(side)
                if s is not None and is_parquet(tables[s]["name"]) and ty in ("i32", "date") and other == "i64":
                    return True
    return False

def scan_rows(q, tables):
    """(table index, rows) if q is a scan of one table under single-atom filters / column-only projections; else None"""
    if q[0] == "table":
        return q[1], list(tables[q[1]]["rows"])
    if q[0] == "project" and all(e[0] == "col" for e in q[2]):
        return scan_rows(q[1], tables)
    if q[0] == "filter":
        r = scan_rows(q[1], tables)
        if r is None or q[1][0] != "table":
            return None
        return r[0], [row for row in r[1] if atom_keeps(row, q[2])]
    return None

def empty_input_shape(q, tables, is_parquet):
    """an OUTER join one of whose inputs is a (filtered / projected) scan of a Parquet table that yields no rows: the scan
    produces no batch and the join loses that side's columns"""
    for j in subqueries(q):
        if j[0] == "join" and j[1] in ("JLeft", "JRight", "JFull"):
            for side in (j[2], j[3]):
                s = scan_rows(side, tables)
                if s is not None and is_parquet(tables[s[0]]["name"]) and not s[1]:
                    return True
    return False

def ndv_unique_shape(q, tables, is_parquet):
    """GroupKeyReduction::is_unique_key: a GROUP BY with >= 2 plain-column keys over a scan of a Parquet table, one key k being
    NULL-free, integer/date typed, with footer range max-min+1 >= row count (so ndv_est >= row_count) although k has duplicates.
    Returns the possible group counts of the collapsed grouping (NDV of such k among the scanned rows), or None."""
    counts = set()
    for a in subqueries(q):
        if a[0] != "agg" or len(a[2]) < 2 or not all(k[0] == "col" for k in a[2]):
            continue
        s = scan_rows(a[1], tables)
        if s is None or not is_parquet(tables[s[0]]["name"]):
            continue
        t = tables[s[0]]
        for k in a[2]:
            i = k[1]
            if t["types"][i] not in ("i64", "i32", "date"):
                continue
            vals = [r[i] for r in t["rows"]]
            if not vals or None in vals:
                continue
            nums = [v[1] if isinstance(v, tuple) else v for v in vals]
            if max(nums) - min(nums) + 1 >= len(vals) and len(set(nums)) < len(vals):
                counts.add(len({(r[i][1] if isinstance(r[i], tuple) else r[i]) for r in s[1]}))
    return counts or None

def rt_renamed_shape(q, tables, is_parquet, prescan_off):
    """an INNER join whose runtime filter is linked, through a column-only projection that RENAMES, to the wrong provider column:
    one input is `SELECT .. t.cB AS cI ..` over an unfiltered scan of a Parquet table T that streams (scanned once in the
    statement, or shared with the prescan switched off), the join key is output column I, B <> I, and T's own column cI is Int64"""
    scans = {}
    for n in subqueries(q):
        if n[0] == "table":
            scans[n[1]] = scans.get(n[1], 0) + 1
    def base_col(side, i):
        # (table index, base column) of output column i if side is column-only projections over a bare table
        if side[0] == "table":
            return side[1], i
        if side[0] == "project" and all(e[0] == "col" for e in side[2]) and i < len(side[2]):
            return base_col(side[1], side[2][i][1])
        return None
    for j in subqueries(q):
        if j[0] != "join" or j[1] != "JInner":
            continue
        wl = sqlq.width(j[2])
        for a, b in equi_pairs(j[4]):
            a, b = (a, b - wl) if a < wl else (b, a - wl)
            for side, i in ((j[2], a), (j[3], b)):
                bc = base_col(side, i) if 0 <= i < sqlq.width(side) else None
                if bc is None or side[0] == "table":
                    continue
                t = tables[bc[0]]
                if not is_parquet(t["name"]) or (scans.get(bc[0], 0) > 1 and not prescan_off):
                    continue
                if bc[1] != i and i < len(t["types"]) and t["types"][i] == "i64":
                    return True
    return False

def dense_empty_sum_patch(q, ref_rows):
    """what the dense accumulators return where the reference says NULL: SUM -> 0, AVG -> 0/0 (NaN)"""
    nk = len(q[2])
    out, hit = [], False
    for row in ref_rows:
        row = list(row)
        for j, (fn, e) in enumerate(q[3]):
            if row[nk + j] is None and fn in ("ASum", "AAvg"):
                hit = True
                if fn == "AAvg":
                    row[nk + j] = ("nonfinite", "nan")
                else:
                    row[nk + j] = 0 if confgen.TA[e[1]] == "i64" else ("q", Fraction(0))
        out.append(row)
    return out if hit else None

def run(ctx):
    proved = ctx.prove()
    rng = ctx.rng
    sizes = ctx.n([0, 1, 3, 8, 12, 20, 40], [0, 1, 2, 3, 5, 8, 12, 20, 40, 60] * 6)
    bases = []
    for n in sizes:
        ta, tb = confgen.gen_tables(rng, n, rng.choice([0, 2, 6, 15]) if n else rng.choice([0, 3]), null_p=rng.choice([0.0, 0.2, 0.4]))
        bases.append({"tables": [ta, tb], "queries": confgen.gen_queries(rng, ta, tb, confgen.KINDS)})
    # wide dense keys: c5 drawn around the 2^20-key chunk boundaries of the dense direct-address GROUP BY, so its presence
    # bitmap spans several chunks with a short tail (added after seeded change seeded/C04)
    for n in ctx.n([9, 30], [5, 9, 20, 40, 60] * 2):
        ta, tb = confgen.gen_tables(rng, n, 6, null_p=rng.choice([0.0, 0.2]), dense_wide=True)
        bases.append({"tables": [ta, tb], "queries": confgen.gen_queries(rng, ta, tb, ["agg-dense"] * 4 + ["agg", "agg-intkey", "filter", "agg-join"])})
    for _ in range(ctx.n(1, 3)):
        ta, tb = confgen.gen_tables(rng, ctx.n(200, 300), 40, null_p=0.15, kr=25, wide_str=True)
        kinds = [k for k in confgen.KINDS if k not in ("cross",)]
        bases.append({"tables": [ta, tb], "queries": confgen.gen_queries(rng, ta, tb, kinds)})
    # fixed random layouts per (base, table)
    bsplit, fsplit, rgs = {}, {}, {}
    def batches(bi, name, n):
        if (bi, name) not in bsplit:
            bsplit[(bi, name)] = confgen.split(rng, n, 1, 3 if n <= 60 else 150) if n else None
        return bsplit[(bi, name)]
    def files(bi, name, n):
        if (bi, name) not in fsplit:
            fsplit[(bi, name)] = (confgen.split(rng, n, 1, max(1, n // 2)) if n else [0])[:6]
        return fsplit[(bi, name)]
    def rg_any(bi, n):
        if bi not in rgs:
            rgs[bi] = rng.choice([1, 2, 3, 7, 50])
        return rgs[bi]
    E = {"ops": True}
    nom = {"QE_MORSEL": "0"}
    configs = [
        {"name": "mem-1batch", "layout": mem(None)},
        {"name": "mem-batches", "layout": mem(batches)},
        {"name": "pq-rg1", "layout": pq(1)},
        {"name": "pq-rg2", "layout": pq(2)},
        {"name": "pq-rg7", "layout": pq(7)},
        {"name": "pq-rg1024", "layout": pq(1024)},
        {"name": "pq-files", "layout": pq(rg_any, files)},
        {"name": "pq-rg2-nomorsel", "layout": pq(2), "env": nom},
        {"name": "pq-files-nomorsel", "layout": pq(rg_any, files), "env": nom},
        {"name": "mixed", "layout": pq(7, only=("ta",))},
        # hook af8937c (cfg qe_verif): every Parquet table counts as "big" (> QE_VERIF_BIG_TABLE_BYTES = 1 byte): filtered scans
        # become StreamingParquetScanExec with the predicate in the decoder, shared tables are NOT prescanned
        {"name": "pq-rg7-big", "layout": pq(7), "env": {"QE_VERIF_BIG_TABLE_BYTES": "1"}},
        {"name": "pq-files-big-nomorsel", "layout": pq(rg_any, files), "env": {"QE_VERIF_BIG_TABLE_BYTES": "1", "QE_MORSEL": "0"}},
    ]
    for c in configs:
        c["module"], c["extra"] = "c08", E
    results, refs, timing = confcheck.run_ladder(ctx, "c04", bases, configs)
    ctx.cov["timing_s"] = dict(timing, proofs=round(0.0, 1))

    morsel_on = {c["name"] for c in configs if "QE_MORSEL" not in (c.get("env") or {})}
    def layout_of(cfg):
        return (lambda name: name == "ta") if cfg == "mixed" else (lambda name: True)
    def classify_extra(r):
        """the recorded classes, decided by the statement's shape, the rows and the layout. Second component: impl == model;
        ndv-unique-key: the model groups by the allegedly unique key alone (one output row per distinct value of it);
        rt-filter-renamed-column: the model loses join rows (runtime filter applied to the provider column that merely shares
        the projected key's NAME)"""
        cfg = r["cfg"]
        if not cfg.startswith("pq") and cfg != "mixed":
            return None
        nu = ndv_unique_shape(r["q"], bases[r["base"]]["tables"], layout_of(cfg))
        if nu and r["status"] == "ran":
            return ("ndv-unique-key", r.get("impl_rows") in nu)
        if r["status"] == "ran" and rt_renamed_shape(r["q"], bases[r["base"]]["tables"], layout_of(cfg), "big" in cfg):
            # the model: the join keeps a sub-bag of its rows (the scan was pruned by the key set applied to another column)
            want = r.get("_base_rows")
            if want is None:
                want = refs[(r["base"], r["qi"])]["sql"]
            return ("rt-filter-renamed-column", "_rows" in r and confcheck.sub_bag(r["_rows"], want))
        return None
    def repaired_shapes(r):
        """shapes of the four classes repaired by `fix:` dd0f095 / b5b0b0b / 12bbf8d (fixed: entries in known_findings.txt): they
        are judged like every other statement; counted to show the regression inputs are still generated"""
        cfg = r["cfg"]
        if not cfg.startswith("pq") and cfg != "mixed":
            return []
        is_pq, tables, out = layout_of(cfg), bases[r["base"]]["tables"], []
        if cfg in morsel_on:
            sh = dense_shape(r["q"], tables)
            if sh is not None and is_pq(sh[0]):
                if None in sh[1]:
                    out.append("dense-null-key")
                elif dense_empty_sum_patch(r["q"], refs[(r["base"], r["qi"])]["sql"]) is not None:
                    out.append("dense-empty-sum")
        if empty_input_shape(r["q"], tables, is_pq):
            out.append("empty-parquet-join-input")
        if rt_filter_shape(r["q"], tables, is_pq):
            out.append("rt-filter-key-width")
        return out
    repaired = {}
    for r in results:
        for c in repaired_shapes(r):
            d = repaired.setdefault(c, {"evaluations": 0, "ran_and_equal_reference": 0, "engine_error": 0})
            d["evaluations"] += 1
            d["ran_and_equal_reference"] += 1 if r["status"] == "ran" and r["ok"] else 0
            d["engine_error"] += 1 if r["status"] != "ran" else 0
    ran, errs, by_stmt = confcheck.judge(ctx, results, "mem-1batch", classify_extra=classify_extra)

    names = [c["name"] for c in configs]
    table = confcheck.per_config_table(results, names)
    ops_count = {n: {} for n in names}
    for r in results:
        for o in set(r.get("ops") or []):
            ops_count[r["cfg"]][o] = ops_count[r["cfg"]].get(o, 0) + 1
    kinds = {}
    for r in results:
        kinds[r["kind"]] = kinds.get(r["kind"], 0) + 1
    shared_scan = sum(1 for r in results if r["kind"] in ("self-join", "union") and r["cfg"].startswith("pq") and r["status"] == "ran")
    in_class = {}
    for r in results:
        ce = classify_extra(r)
        if ce:
            d = in_class.setdefault(ce[0], {"evaluations": 0, "engine_error": 0})
            d["evaluations"] += 1
            d["engine_error"] += 1 if r["status"] != "ran" else 0
    all_cfg = [v for v in by_stmt.values()]
    # did the hook open the large-table paths? read off the plans: a WHERE directly over a Parquet table without a FilterExec /
    # eager MemoryTableScan = filtered streaming scan; a table scanned twice with two streaming scans = prescan skipped
    big_paths = {}
    for r in results:
        if r["status"] != "ran" or not r.get("ops"):
            continue
        big = "big" in r["cfg"]
        ops = r["ops"]
        if r["kind"] == "filter":
            k = ("filtered scan streams (decoder filter, no FilterExec)" if "Filter" not in ops and "StreamingParquetScan" in ops
                 else "filtered scan eager + FilterExec" if "Filter" in ops else None)
        elif r["kind"] in ("self-join", "union") and r["cfg"].startswith("pq"):
            k = ("shared table: streaming scans (prescan skipped)" if ops.count("StreamingParquetScan") >= 2 and "MemoryTableScan" not in ops
                 else "shared table: prescanned (MemoryTableScan from the cache)" if "MemoryTableScan" in ops else None)
        else:
            k = None
        if k and r["cfg"].startswith("pq"):
            d = big_paths.setdefault("hook on" if big else "hook off", {})
            d[k] = d.get(k, 0) + 1
    ctx.cov["input_distribution"] = {
        "by_configuration": table, "operators_in_plans_by_configuration": ops_count, "by_statement_kind": kinds,
        "base_tables": len(bases), "rows_per_table": sorted({len(b["tables"][0]["rows"]) for b in bases}),
        "statements_run_in_every_configuration": sum(1 for v in all_cfg if all(x["status"] == "ran" for x in v)),
        "statements_equal_reference_in_every_configuration": sum(1 for v in all_cfg if all(x["status"] == "ran" and x["ok"] for x in v)),
        "statements_succeeding_somewhere_and_failing_elsewhere": sum(1 for v in all_cfg if any(x["status"] == "ran" for x in v) and any(x["status"] != "ran" for x in v)),
        "same_table_scanned_twice_over_parquet (shared prescan)": shared_scan,
        "in_recorded_shape_classes": in_class, "in_repaired_shape_classes (judged normally)": repaired,
        "big_table_paths": big_paths}
    ctx.cov["paths_reached"] = ["MemoryTableExec (1 batch / many batches)", "eager ParquetScanExec with decoder RowFilter (filtered scans)",
                                "StreamingParquetScanExec (unfiltered scans; row groups of 1..1024 rows, 1..6 files)",
                                "shared prescan with union projection (self-join / UNION over one Parquet table, < 400 MB)",
                                "MorselAggregateExec incl. dense direct-address aggregation (QE_MORSEL unset) and the generic "
                                "SpillableHashAggregateExec over the scan (QE_MORSEL=0)", "statistics-based row-group pruning (C05)",
                                "with QE_VERIF_BIG_TABLE_BYTES=1 (hook af8937c): filtered StreamingParquetScanExec (planner.rs filter_streams) and "
                                "the prescan skip for shared tables above PRESCAN_MAX_BYTES (counts under big_table_paths)"]
    ctx.cov["paths_not_reached"] = [
        "dense aggregation width gate (> 64M key span falls back) and GpuAggExec (no device)"]
    ctx.cov["distinct_nontrivial"] = len({(r["cfg"], r["base"], r["sql"]) for r in ran if r["n_sql_rows"] > 0})
    for r in results[:2] + [x for x in results if x["cfg"] == "pq-files"][:1]:
        ctx.sample({"sql": r["sql"], "cfg": r["cfg"], "rows_ta": bases[r["base"]]["tables"][0]["rows"][:6]})
    if not proved and not ctx.violations:
        ctx.proof_broken_violation(f"{len(results)} statement x layout evaluations")
    return ctx.finish(
        rule="tables ta(i64?, i32?, f64?, str?, date?, i64) of 0-60 rows (and 300 rows) and tb(i32?, str?, i64), "
             "NULL density 0-40%; 21 statement shapes (see lib/confgen.py KINDS) per table pair; every statement x 12 configurations; "
             "non-trivial = reference result non-empty, distinct by (configuration, table, statement)",
        assumptions=["doubles are exact dyadic values (sums exact in binary64; AVG compared to 1e-12 relative)",
                     "which physical path a layout takes is read off the planner source and the plan's operator names "
                     "(recorded per configuration), not asserted per statement",
                     "the large-table gates (400 MB) are not reachable with generated data: see paths_not_reached"])

def replay(ctx, obj):
    print("failing case:", obj.get("case")); return run(ctx)
