"""C26 — window functions match their SQL definition. Theorems: coq/theories/Props/C26.v.
Correspondence: generated window expressions (ranking, offsets, NTILE, value functions, frame aggregates; PARTITION BY 0-2
columns, ORDER BY 0-3 keys ASC/DESC NULLS FIRST/LAST, ROWS/RANGE frames with small offsets incl. empty frames) run on the real
engine through the `sql` harness binary; the engine model (window.rs transcription) and the SQL definition are evaluated in
Coq on the same table. Each output row carries the table's id column. Tied rows: SQL leaves their order open, so the Coq
side (`wcheck`) accepts the engine column iff it equals the model / the definition under SOME linearisation of the peers
(all permutations inside peer groups are enumerated; the generator bounds their number).
Calls carrying IGNORE NULLS / FILTER / DISTINCT must be refused with an explicit error (counted, excluded); the model has no
value for them, so an engine that answers such a statement fails the correspondence."""
import math
from fractions import Fraction
import vlib, sqlgen, sqlwin, relcheck
from relgen import col, lit

REQ = "From QV Require Import C26.Model."
CLASSES = ["range-null-edge", "f64-prefix-sum", "f64-range-key"]
NUMERIC = ("i64", "i32", "f64", "date")
MAX_LINS = 40

def gen_table(rng):
    n = rng.choice([0, 1, 2, 3, 4, 5, 6, 6, 8, 10])
    null_p = rng.choice([0.0, 0.2, 0.2, 0.4])
    k2 = rng.choice(["f64", "date", "str", "i32"])
    types = ["i64", "i64", "str", "i64", k2, "i64", "f64", "str"]
    def v(ty, pool):
        return None if rng.random() < null_p else rng.choice(pool)
    pools = {"f64": [("q", Fraction(x, 2)) for x in (0, 1, 2, 3, 5, -3)], "date": [("d", x) for x in (0, 1, 2, 4, 365, -1)],
             "str": ["a", "b", "ab", "", "B"], "i32": [0, 1, 2, 4, -2]}
    ids = list(range(1, n + 1))
    rng.shuffle(ids)
    rows = []
    for i in range(n):
        rows.append([ids[i], v("i64", [1, 2, 2]), v("str", ["a", "b"]), v("i64", [0, 1, 1, 2, 3, 5, -1]), v(k2, pools[k2]),
                     v("i64", [-3, 0, 1, 2, 7, 20]), v("f64", [("q", Fraction(x, 4)) for x in (0, 1, 2, 6, -5, 10)]),
                     v("str", ["x", "y", "xy", ""])])
    big = False
    if n >= 2 and rng.random() < 0.04:
        rows[rng.randrange(n)][5] = 2 ** 60
        big = True
    sizes, left = [], n
    while left > 0 and rng.random() < 0.6:
        k = rng.randint(1, left)
        sizes.append(k); left -= k
    return {"name": "t", "types": types, "rows": rows, "batch_sizes": sizes or None, "big": big}

def gen_bound(rng, start):
    k = rng.random()
    if start:
        if k < 0.3: return ("unb_prec",)
        if k < 0.6: return ("prec", rng.choice([0, 1, 1, 2, 3]))
        if k < 0.85: return ("cur",)
        return ("fol", rng.choice([0, 1, 2]))
    if k < 0.2: return ("unb_fol",)
    if k < 0.5: return ("fol", rng.choice([0, 1, 1, 2, 3]))
    if k < 0.8: return ("cur",)
    return ("prec", rng.choice([0, 1, 2]))

def tie_free(w):
    f = w["func"]
    if f[0] in ("rank", "dense_rank", "percent_rank", "cume_dist"):
        return True
    if f[0] == "agg":
        fr = w.get("frame")
        if fr is None:
            return True      # RANGE .. CURRENT ROW with ORDER BY, whole partition without
        return fr[0] == "range" or (fr[1] == ("unb_prec",) and fr[2] == ("unb_fol",))
    return False

def n_lins(w, rows):
    idx = [e[1] for e in w["part"]] + [e[1] for e, _, _ in w["order"]]
    groups = {}
    for r in rows:
        key = tuple(sqlgen.val_key(r[i]) for i in idx)
        groups[key] = groups.get(key, 0) + 1
    n = 1
    for c in groups.values():
        n *= math.factorial(c)
    return n

def gen_window(rng, t):
    types, rows = t["types"], t["rows"]
    w = {"arg": None, "default": None, "mod": None, "frame": None}
    w["part"] = [col(i) for i in rng.choice([[], [], [1], [1], [2], [1, 2], [3]])]
    nk = rng.choice([0, 1, 1, 1, 2, 2])
    kcols = rng.sample([3, 4, 5, 0], nk)
    w["order"] = [(col(i), rng.random() < 0.4, rng.choice([True, False, None])) for i in kcols]
    fam = rng.choice(["rank", "rank", "offset", "ntile", "value", "value", "agg", "agg", "agg"])
    argcol = rng.choice([5, 5, 6, 7, 3, 4])
    if fam == "rank":
        w["func"] = (rng.choice(["row_number", "rank", "dense_rank", "percent_rank", "cume_dist"]),)
    elif fam == "ntile":
        w["func"] = ("ntile", rng.choice([1, 2, 2, 3, 3, 4, 5, 7] + ([0] if rng.random() < 0.1 else [])))
    elif fam == "offset":
        w["func"] = (rng.choice(["lag", "lead"]), rng.choice([None, None, 0, 1, 2, 3]))
        w["arg"] = col(argcol)
        if rng.random() < 0.35:
            w["default"] = lit(rng.choice([x for x in (r[argcol] for r in rows) if x is not None] or [None]))
            if w["default"][1] is None:
                w["default"] = None
    elif fam == "value":
        w["func"] = rng.choice([("first",), ("last",), ("nth", rng.choice([1, 2, 2, 3]))])
        w["arg"] = col(argcol)
    else:
        fn = rng.choice(["ASum", "ASum", "ACount", "ACountStar", "AAvg", "AMin", "AMax"])
        w["func"] = ("agg", fn)
        if fn in ("ASum", "AAvg"):
            argcol = rng.choice([5, 5, 6, 3])
        if fn != "ACountStar":
            w["arg"] = col(argcol)
    uses_frame = fam in ("value", "agg")
    if (uses_frame and rng.random() < 0.65) or (not uses_frame and rng.random() < 0.05):
        units = rng.choice(["rows", "rows", "range"])
        s, e = gen_bound(rng, True), gen_bound(rng, False)
        if units == "range" and (s[0] in ("prec", "fol") or e[0] in ("prec", "fol")) and rng.random() < 0.9:
            # offsets need exactly one numeric/date key: make it so (a few are left invalid on purpose)
            numeric = [i for i in (3, 4, 5, 0) if types[i] in NUMERIC]
            w["order"] = [(col(rng.choice(numeric)), rng.random() < 0.4, rng.choice([True, False, None]))]
        if units == "range" and len(w["order"]) == 1 and rng.random() < 0.3:
            # offset bound on one side, UNBOUNDED on the side where the NULL keys sort
            k, desc = w["order"][0][0], w["order"][0][1]
            if rng.random() < 0.5:
                w["order"] = [(k, desc, True)]
                s, e = ("unb_prec",), rng.choice([("prec", 1), ("prec", 2), ("fol", 0), ("fol", 1)])
            else:
                w["order"] = [(k, desc, rng.choice([False, None]))]
                s, e = rng.choice([("prec", 0), ("fol", 1), ("fol", 2), ("prec", 1)]), ("unb_fol",)
        w["frame"] = (units, s, e if rng.random() < 0.9 or s[0] == "fol" else None)
        if w["frame"][2] is None and s[0] not in ("unb_prec", "prec", "cur"):
            w["frame"] = (units, s, ("cur",))
    if rng.random() < 0.05:
        if fam in ("offset", "value"):
            w["mod"] = ("ignore_nulls",)
        elif fam == "agg" and w["func"][1] in ("ASum", "ACount"):
            w["mod"] = ("distinct",) if rng.random() < 0.5 else ("filter", ("cmp", rng.choice(["CGt", "CLe"]), col(5), lit(1)))
    # bound the number of linearisations the Coq side enumerates for tie-sensitive functions
    if not tie_free(w) and n_lins(w, rows) > MAX_LINS:
        fr = w.get("frame")
        if fr and fr[0] == "range" and (fr[1][0] in ("prec", "fol") or (fr[2] or ("cur",))[0] in ("prec", "fol")):
            w["frame"] = ("rows", fr[1], fr[2])
        w["order"] = w["order"] + [(col(0), rng.random() < 0.3, None)]
    w["okey_num"] = len(w["order"]) == 1 and types[w["order"][0][0][1]] in NUMERIC
    return w, fam

def gen_group(rng, nq):
    t = gen_table(rng)
    qs = []
    for _ in range(nq):
        ws = [gen_window(rng, t) for _ in range(rng.choice([1, 2]))]
        sql = "SELECT c0, " + ", ".join(f"{sqlwin.w_sql(w)} AS w{j}" for j, (w, _) in enumerate(ws)) + " FROM t"
        qs.append({"sql": sql, "ws": ws})
    return {"table": t, "queries": qs}

def describe(w, fam):
    fr = w.get("frame")
    return {"family": fam, "func": w["func"][0] + (":" + w["func"][1] if w["func"][0] == "agg" else ""),
            "frame": "default" if not fr else fr[0], "npart": len(w["part"]), "norder": len(w["order"]),
            "mod": w["mod"][0] if w["mod"] else None}

def evaluate(ctx, groups, tag="c26"):
    cases = []
    for g in groups:
        t = g["table"]
        cases.append({"tables": [relcheck.table_spec(t["name"], t["types"], t["rows"], t.get("batch_sizes"))],
                      "queries": [q["sql"] for q in g["queries"]]})
    outs = vlib.run_harness("sql", cases, timeout=3000)
    prelude, terms, index, results = [], [], [], []
    for gi, g in enumerate(groups):
        t = g["table"]
        prelude.append(f"Definition tb{gi} : list row := [{'; '.join(sqlgen.row_coq(r) for r in t['rows'])}].")
        ids = sorted(r[0] for r in t["rows"])
        for qi, q in enumerate(g["queries"]):
            res = outs[gi].get("results", [{}] * len(g["queries"]))[qi] if "results" in outs[gi] else {"err": str(outs[gi])}
            for j, (w, fam) in enumerate(q["ws"]):
                r = {"group": gi, "sql": q["sql"], "window": sqlwin.w_sql(w), "col": j, "desc": describe(w, fam),
                     "table": {"types": t["types"], "rows": [[str(c) for c in row] for row in t["rows"]]}}
                results.append(r)
                if "ok" not in res:
                    r.update(status="engine-panic" if "panic" in res else "engine-error", detail=res)
                    continue
                rows = [[sqlgen.cell_val(c) for c in row] for row in res["ok"]["rows"]]
                r["impl"] = [[str(row[0]), str(row[1 + j])] for row in rows]
                bad = [row for row in rows if isinstance(row[1 + j], tuple) and row[1 + j][0] in ("nonfinite", "other")]
                if sorted(row[0] for row in rows) != ids or bad:
                    r.update(status="ran", eq=False, ok=False, classes=[], note="row ids differ from the table's or unrenderable cell")
                    continue
                r["status"] = "pending"
                index.append(len(results) - 1)
                terms.append(f"wcheck {sqlwin.w_coq(w)} tb{gi} {sqlwin.out_coq([(row[0], row[1 + j]) for row in rows])}")
    vals = vlib.coq_eval_list(REQ, "\n".join(prelude), terms, tag, shard=40)
    for ri, v in zip(index, vals):
        r = results[ri]
        r.update(status="ran", eq=bool(v[0]), ok=bool(v[1]), classes=[c for c, b in zip(CLASSES, v[2:5]) if b], lins=v[5],
                 wf=bool(v[6]))
    return results

def judge(ctx, results):
    ran = [r for r in results if r["status"] == "ran"]
    errs = [r for r in results if r["status"] != "ran"]
    ctx.cov["evaluations"] = len(results)
    ctx.cov["engine_errors_excluded"] = len(errs)
    msgs = {}
    for r in errs:
        m = str(r["detail"].get("err", r["detail"]))[:90]
        msgs[m] = msgs.get(m, 0) + 1
    ctx.cov["engine_error_messages"] = msgs
    ctx.cov["engine_panics"] = sum(1 for r in errs if r["status"] == "engine-panic")
    def cls(c):
        if c["classes"] and all(ctx.is_known(k) for k in c["classes"]):
            for k in c["classes"]:
                ctx.known_finding(k, ctx.known[k])
            return c["classes"][0]
        return None
    for r in errs:
        if r["status"] == "engine-panic":
            ctx.violation({"kind": "engine panicked on a window query", "case": r}, found_input=True)
    ctx.judge(ran, [r["eq"] for r in ran], [r["ok"] for r in ran], classify=cls, impl_outs=[r.get("impl") for r in ran])
    if results and len(errs) > 0.25 * len(results):
        ctx.violation({"kind": "correspondence-degraded: too many statements fail with an engine error", "errors": len(errs),
                       "total": len(results), "messages": msgs}, found_input=False, tag="errors")
    return ran, errs

def run(ctx):
    proved = ctx.prove()
    groups = [gen_group(ctx.rng, 6) for _ in range(ctx.n(45, 900))]
    results = evaluate(ctx, groups)
    ran, errs = judge(ctx, results)
    dist = {}
    for r in results:
        d = r["desc"]
        for k in ("func", "frame", "mod"):
            key = f"{k}={d[k]}"
            dist[key] = dist.get(key, 0) + 1
    ctx.cov["input_distribution"] = {"by_feature": dist, "groups": len(groups),
        "tables_with_nulls": sum(1 for g in groups if any(v is None for r in g["table"]["rows"] for v in r)),
        "cases_with_ties_enumerated": sum(1 for r in ran if r.get("lins", 1) > 1),
        "theorem_precondition_wf_sorted_holds": sum(1 for r in ran if r.get("wf")),
        "theorem_precondition_wf_sorted_fails": sum(1 for r in ran if r.get("wf") is False),
        "with_call_modifier": sum(1 for r in results if r["desc"]["mod"]),
        "with_call_modifier_refused_by_engine": sum(1 for r in errs if r["desc"]["mod"]),
        "with_call_modifier_answered_by_engine": sum(1 for r in ran if r["desc"]["mod"]),
        "in_known_class": {c: sum(1 for r in ran if c in r.get("classes", [])) for c in CLASSES},
        "failing_by_class": {c: sum(1 for r in ran if c in r.get("classes", []) and not r["ok"]) for c in CLASSES}}
    ctx.cov["distinct_nontrivial"] = len({r["window"] + str(r["group"]) for r in ran if len(r["table"]["rows"]) >= 2})
    for r in ran[:4]:
        ctx.sample({"sql": r["sql"], "table": r["table"], "impl": r.get("impl"), "classes": r.get("classes")})
    if not proved and not ctx.violations:
        ctx.proof_broken_violation(f"{len(results)} window expressions")
    return ctx.finish(rule="tables of 0-10 rows (unique id, NULL density 0-40%, partition keys over 2-3 values, order keys with ties, "
                           "random batch splits) x 1-2 window expressions per statement (12 functions, PARTITION BY 0-2, ORDER BY 0-3 "
                           "keys, no frame / ROWS / RANGE frames with offsets 0-3 incl. empty and inverted frames, LAG/LEAD defaults); "
                           "non-trivial = table has >= 2 rows, distinct by (window expression, table)",
                      assumptions=["doubles are exact dyadic values; f64 sums of them are exact",
                                   "NULLS FIRST/LAST default (implementation-defined in SQL) = the engine's documented NULLS LAST"])

def replay(ctx, obj):
    print("failing case:", obj.get("case")); return run(ctx)
