"""C03 — optimization never changes a query's answer. Theorems: coq/theories/Props/C03.v (statistics predicates as coded and
what they license, packed keys, the algebraic lemma library of the structural rules, Kleene constant folding, the
fixpoint driver). Correspondence: every generated statement is run by harness c03 through ExecutionContext::sql, through the
bound UNOPTIMISED plan, through the production rule list via Optimizer::with_rules and through EACH rule alone; all must
agree as bags (as lists under a total ORDER BY) and with the Gallina semantics. Tables are registered in memory (no
statistics) and as Parquet written with adversarial statistics. Statements of the statistics families carry a Gallina
prediction of the rewritten plan's answer, guarded by the Gallina transcription of the rule's statistics predicate
evaluated on the same data; the rule list and order are re-read from src/optimizer/mod.rs each run."""
import json
import vlib, sqlgen, sqlq, optgen
from optgen import col, lit, tbl

REQ = "From QV Require Import Sql.Query C03.Model."
PRELUDE = sqlgen.ENC_DEF + """
Definition R := list (list (list Z)).
Definition encrel (r : rel) : R := map (map enc) r.
Definition bit (b : bool) : R := [[[if b then 1 else 0]]].
Definition optz (o : option Z) : R := match o with Some k => [[[1; k]]] | None => [[[0]]] end.
Definition optn (o : option nat) : R := match o with Some k => [[[1; Z.of_nat k]]] | None => [[[0]]] end.
Definition optzz (o : option Z) : list Z := match o with Some k => [k] | None => [] end.
Definition encstats (rows : rel) (w : nat) : R :=
  map (fun c => let s := stats_of_col (col c rows) in
                [optzz (cs_min s); optzz (cs_max s); optzz (cs_nulls s); optzz (cs_ndv s)]) (seq 0 w).
Definition encstats_partial (rows : rel) (w head : nat) : R :=
  map (fun c => let s := stats_of_chunks [(true, col c (firstn head rows)); (false, col c (skipn head rows))] in
                [optzz (cs_min s); optzz (cs_max s); optzz (cs_nulls s); optzz (cs_ndv s)]) (seq 0 w).
Definition pickb (l : list bool) (c : nat) : bool := nth c l false.
"""
# classes of genuine deviations found on the unchanged tree (known_findings.txt decides which are recorded); closed by fix:
# commits and kept as regression shapes / theorems: partial-stats, filter-below-limit, filter-below-rename, leftcount-key-type,
# reorder-outer
CLASSES = ["dominated-null", "ndv-unique", "stats-by-name", "unopt-subquery-partition"]

def rows_of(res):
    return sqlq.rows_from_impl(res["ok"]) if isinstance(res, dict) and "ok" in res else None

def dec_rel(enc):
    return [[sqlgen.dec(c) for c in r] for r in enc]

def bitv(enc):
    return enc[0][0][0] == 1

def optv(enc):
    return enc[0][0][1] if enc[0][0][0] == 1 else None

def same(a, b, ordered=False):
    if a is None or b is None:
        return False
    if ordered:
        return len(a) == len(b) and all(len(x) == len(y) and all(sqlq.close(u, v) for u, v in zip(x, y)) for x, y in zip(a, b))
    return sqlq.bag_equal(a, b)

def blist(bs):
    return "[" + "; ".join("true" if b else "false" for b in bs) + "]"

def nlist(ns):
    return "[" + "; ".join(f"{n}%nat" for n in ns) + "]"

def aggs_coq(aggs):
    return "[" + "; ".join(f"({fn}, {sqlgen.e_coq(e)})" for fn, e in aggs) + "]"

AGG_SQL = {"ACountStar": "COUNT(*)", "ACount": "COUNT({})", "ASum": "SUM({})", "AMin": "MIN({})", "AMax": "MAX({})"}

# ---------------------------------------------------------------- statistics families
def fam_group(rng, tables, gi, nxt, mode=None):
    """GROUP BY 2-3 plain columns directly over a base table / a same-named table without statistics / a derived input
    reusing the names of a Parquet table: GroupKeyReduction and PackedGroupKeys"""
    mode = mode or rng.choice(["direct", "direct", "direct", "foreign", "derived"])
    pq = [i for i, t in enumerate(tables) if t.get("parquet") and t["rows"]]
    if not pq:
        return None
    si = rng.choice(pq)                 # the table whose footer statistics the rules will find
    st = tables[si]
    w = len(st["types"])
    sc = optgen.small_cols(st)
    extra = []
    if mode == "direct":
        ri, rt = si, st
        src_sql, src_coq = f"{st['name']}", f"(QTable {si}%nat {w}%nat)"
        names = st["colnames"]
    elif mode == "foreign":
        # a MEMORY table with the same column names and types as the Parquet table st
        n = rng.choice([2, 3, 5, 8])
        rows = [[optgen.gen_int_column(rng, 1, rng.choice(["dense_dup", "negative", "sparse"]))[0] if ty in ("i64", "i32") else
                 optgen.gen_payload(rng, 1, ty)[0] for ty in st["types"]] for _ in range(n)]
        for _ in range(rng.randint(0, 2)):
            rows.append(list(rng.choice(rows)))
        ft = {"name": "tf", "types": list(st["types"]), "rows": rows, "colnames": list(st["colnames"]), "batch_sizes": None}
        extra = [ft]
        ri, rt = nxt, ft
        src_sql, src_coq = "tf", f"(QTable {ri}%nat {w}%nat)"
        names = st["colnames"]
        sc = optgen.small_cols(ft)
    else:
        # derived input: SELECT <name0> + d0 AS <name0>, <name1> + d1 AS <name1>, <name2> AS <name2> FROM st
        ri, rt = None, None
        if len(sc) < 2 or 0 not in sc or 1 not in sc:
            return None
        d0, d1 = rng.choice([0, 0, 1, 3]), rng.choice([0, 4, 4, 9, 100])
        names = st["colnames"]
        src_sql = (f"(SELECT {names[0]} + {d0} AS {names[0]}, {names[1]} + {d1} AS {names[1]}, {names[2]} AS {names[2]}, "
                   f"{names[3]} AS {names[3]} FROM {st['name']}) AS s")
        src_coq = (f"(QProject (QTable {si}%nat {w}%nat) [EArith AAdd (ECol 0) (ELit (VInt {d0})); "
                   f"EArith AAdd (ECol 1) (ELit (VInt {d1})); ECol 2; ECol 3])")
    types = (rt or st)["types"]
    nk = 2 if mode == "derived" else rng.choice([2, 2, 2, 3])
    keys = [0, 1] if mode == "derived" else rng.sample(range(w), nk)
    if mode == "derived" and rng.random() < 0.3:
        keys = [1, 0]
    cand = [c for c in sc if c not in keys] if mode != "derived" else [c for c in [2] if c in sc]
    aggs = [("ACountStar", lit(None))]
    if cand:
        aggs.append((rng.choice(["ASum", "AMin", "AMax", "ACount"]), col(rng.choice(cand))))
    where = None
    if mode != "derived" and rng.random() < 0.3:
        ci = rng.choice(optgen.small_cols(rt) or [None])
        where = ("cmp", rng.choice(["CGe", "CLe", "CNe"]), col(ci), optgen.lit_for(rng, rt, ci)) if ci is not None else None
    f = lambda i: names[i]
    sel = [names[k] for k in keys] + [AGG_SQL[fn].format(sqlq.esql(e, f)) + f" AS g{j}" for j, (fn, e) in enumerate(aggs)]
    sql = f"SELECT {', '.join(sel)} FROM {src_sql}"
    if where:
        sql += f" WHERE {sqlq.esql(where, f)}"
        src_coq = f"(QFilter {src_coq} {sqlgen.e_coq(where)})"
    sql += " GROUP BY " + ", ".join(names[k] for k in keys)
    intlike = [t in ("i64", "i32", "date") for t in types]
    isint = [t in ("i64", "i32") for t in types]
    gkr_possible = mode != "derived"
    gk = f"(gkr_key (nth {si}%nat db [] ) (pickb {blist(intlike)}) {nlist(keys)})" if gkr_possible else "None"
    reads = "None" if ri is None else f"(Some {ri}%nat)"
    ntab = nxt + len(extra)
    cat = "[" + "; ".join(("[" + "; ".join(str(c + 1) for c in range(w)) + "]") if i == si else "[]" for i in range(ntab)) + "]"
    term = (f"(let db := db{gi} in let rows := qeval eng_qsem db {src_coq} in let srows := nth {si}%nat db [] in\n"
            f"  let gk := {gk} in let pk := pgk_guard srows (pickb {blist(isint)}) {nlist(keys)} in\n"
            f"  [encrel (original_rows eng_qsem {nlist(keys)} {aggs_coq(aggs)} rows); optn gk; optz pk;\n"
            f"   encrel (match pk with Some K => packed_group_rows eng_qsem K {keys[0]}%nat {keys[1]}%nat {aggs_coq(aggs)} rows\n"
            f"           | None => original_rows eng_qsem {nlist(keys)} {aggs_coq(aggs)} rows end);\n"
            f"   bit (known_ndv_unique srows (pickb {blist(intlike)}) {nlist(keys)});\n"
            f"   bit (known_stats_by_name {cat} {reads} {'[' + '; '.join(str(k + 1) for k in keys) + ']'});\n"
            f"   encrel (original_rows sql_qsem {nlist(keys)} {aggs_coq(aggs)} (qeval sql_qsem db {src_coq}))])")
    return {"family": "group", "mode": mode, "sql": sql, "term": term, "extra": extra, "keys": keys, "aggs": aggs,
            "src_coq": src_coq, "kind": f"group{nk}-{mode}"}

def fam_leftcount(rng, tables, gi, nxt, mode=None):
    pq = [i for i, t in enumerate(tables) if t.get("parquet") and t["rows"]]
    if not pq:
        return None
    li = rng.choice(pq)
    ri = rng.choice([i for i in range(len(tables)) if i != li])
    L, Rt = tables[li], tables[ri]
    k, fk, y = rng.randrange(3), rng.randrange(3), rng.randrange(len(Rt["types"]))
    ln, rn = L["colnames"], Rt["colnames"]
    sql = (f"SELECT x.{ln[k]}, COUNT(y.{rn[y]}) AS n FROM {L['name']} AS x LEFT JOIN {Rt['name']} AS y "
           f"ON x.{ln[k]} = y.{rn[fk]} GROUP BY x.{ln[k]}")
    Lq, Rq = f"(QTable {li}%nat {len(L['types'])}%nat)", f"(QTable {ri}%nat {len(Rt['types'])}%nat)"
    # INTEGER / DATE right keys: the pre-aggregate used to declare its key Int64 and every count came out 0 (fix 2bbc018,
    # regression theorem C03_left_count_key_type_before_fix); the repaired rewrite is `left_count_rewritten` for every key type
    narrow = Rt["types"][fk] != "i64"
    Rdev = Rq
    term = (f"(let db := db{gi} in let g := left_count_guard (nth {li}%nat db []) {k}%nat in\n"
            f"  [encrel (qeval eng_qsem db (left_count_original {Lq} {Rq} {k}%nat {fk}%nat {y}%nat)); bit g;\n"
            f"   encrel (qeval eng_qsem db (if g then left_count_rewritten {Lq} {Rdev} {k}%nat {fk}%nat {y}%nat\n"
            f"                              else left_count_original {Lq} {Rq} {k}%nat {fk}%nat {y}%nat));\n"
            f"   bit (known_ndv_unique_count (nth {li}%nat db []) {k}%nat);\n"
            f"   encrel (qeval sql_qsem db (left_count_original {Lq} {Rq} {k}%nat {fk}%nat {y}%nat))])")
    return {"family": "leftcount", "sql": sql, "term": term, "extra": [], "kind": "leftcount" + ("-int32key" if narrow else ""),
            "narrow": narrow}

def fam_packjoin(rng, tables, gi, nxt, mode=None):
    """two-key inner join: both sides base tables / left side derived reusing the names of its Parquet base table /
    left side a memory table named like a Parquet table / a Parquet table with partial statistics"""
    mode = mode or rng.choice(["direct", "direct", "derived", "foreign", "partial"])
    pq = [i for i, t in enumerate(tables) if t.get("parquet") and t["rows"]]
    if len(pq) < 2:
        return None
    li, ri = rng.sample(pq, 2)
    L, Rt = tables[li], tables[ri]
    if not ({0, 1, 2} <= set(optgen.small_cols(L)) and {0, 1, 2} <= set(optgen.small_cols(Rt))):
        mode = "direct"
    wl, wr = len(L["types"]), len(Rt["types"])
    a, b = rng.sample(range(3), 2)
    c, d = rng.sample(range(3), 2)
    ln, rn = L["colnames"], Rt["colnames"]
    extra, tail_note = [], None
    lsrc_sql, lsrc_coq, lread = f"{L['name']} AS x", f"(QTable {li}%nat {wl}%nat)", li
    statL = li
    if mode == "derived":
        d1 = rng.choice([1, 4, 4, 16, 100])
        lsrc_sql = (f"(SELECT {', '.join((ln[i] + ' + ' + str(d1) if i == b else ln[i]) + ' AS ' + ln[i] for i in range(wl))} "
                    f"FROM {L['name']}) AS x")
        es = "; ".join(f"EArith AAdd (ECol {i}) (ELit (VInt {d1}))" if i == b else f"ECol {i}" for i in range(wl))
        lsrc_coq = f"(QProject (QTable {li}%nat {wl}%nat) [{es}])"
        lread = None
    elif mode == "foreign":
        n = rng.choice([2, 3, 5])
        rows = [[rng.choice([0, 1, 2, 3, 5, 9, 17]) if ty in ("i64", "i32") else optgen.gen_payload(rng, 1, ty)[0]
                 for ty in L["types"]] for _ in range(n)]
        ft = {"name": "tf", "types": list(L["types"]), "rows": rows, "colnames": list(ln), "batch_sizes": None}
        extra = [ft]
        lread = nxt
        lsrc_sql, lsrc_coq = "tf AS x", f"(QTable {lread}%nat {wl}%nat)"
    elif mode == "partial":
        # a copy of L as Parquet whose last rows sit in a file WITHOUT statistics and exceed the recorded bounds
        rows = [list(r) for r in L["rows"]]
        tail = []
        for _ in range(rng.randint(1, 2)):
            r = list(rng.choice(rows))
            mx = max([x[b] for x in rows if x[b] is not None] or [0])
            r[b] = mx + rng.choice([1, 1, 2, 5])
            tail.append(r)
        pt = {"name": "tp", "types": list(L["types"]), "rows": rows + tail, "colnames": [f"p{i}" for i in range(wl)],
              "batch_sizes": None, "parquet": {"row_group": 1024, "nostat_tail": len(tail)}}
        extra = [pt]
        lread = nxt
        ln = pt["colnames"]
        lsrc_sql, lsrc_coq = "tp AS x", f"(QTable {lread}%nat {wl}%nat)"
        statL = None
        tail_note = len(tail)
    on_sql = f"x.{ln[a]} = y.{rn[c]} AND x.{ln[b]} = y.{rn[d]}"
    sel = ", ".join([f"x.{ln[i]}" for i in range(wl)] + [f"y.{rn[i]}" for i in range(wr)])
    sql = f"SELECT {sel} FROM {lsrc_sql} JOIN {Rt['name']} AS y ON {on_sql}"
    Rq = f"(QTable {ri}%nat {wr}%nat)"
    # catalog: every Parquet table of the group with its column-name ids; the partial table contributes its head rows only
    def name_id(tname, i):
        return f"{1000 * (1 + ['ta', 'tb', 'tc', 'tf', 'tp'].index(tname)) + i}"
    cats = []
    for i, t in enumerate(tables):
        if t.get("parquet") and t["rows"]:
            cats.append(f"([{'; '.join(name_id(t['name'], j) for j in range(len(t['types'])))}], nth {i}%nat db [])")
    # the partially described table reports no integer bounds (fix: commit 2a8aa09): it contributes nothing to the catalog
    lname = (lambda j: name_id("tp", j)) if mode == "partial" else (lambda j: name_id(L["name"], j))
    cat = f"(catalog_of [{'; '.join(cats)}])"
    on_pairs = f"(on_pairs {a}%nat {b}%nat {wl + c}%nat {wl + d}%nat)"
    term = (f"(let db := db{gi} in let g := pack_guard_by_name {cat} {lname(a)} {name_id(Rt['name'], c)} {lname(b)} {name_id(Rt['name'], d)} in\n"
            f"  [encrel (qeval eng_qsem db (QJoin JInner {lsrc_coq} {Rq} {on_pairs})); optz g;\n"
            f"   encrel (qeval eng_qsem db (QJoin JInner {lsrc_coq} {Rq} (match g with Some K => on_packed K {a}%nat {b}%nat {wl + c}%nat {wl + d}%nat\n"
            f"                                                           | None => {on_pairs} end)));\n"
            f"   encrel (qeval sql_qsem db (QJoin JInner {lsrc_coq} {Rq} {on_pairs}))])")
    return {"family": "packjoin", "mode": mode, "sql": sql, "term": term, "extra": extra, "kind": f"packjoin-{mode}"}

def fam_filter_limit(rng, tables, gi, nxt, mode=None):
    i = rng.randrange(len(tables))
    t = tables[i]
    if len(t["rows"]) < 3:
        return None
    w = len(t["types"])
    n = t["colnames"]
    qual = rng.random() < 0.5
    ci = rng.choice([c for c in range(w) if t["types"][c] in ("i64", "i32")])
    p = ("cmp", rng.choice(["CGt", "CGe", "CNe", "CLt"]), col(ci), optgen.lit_for(rng, t, ci))
    k, off = rng.choice([1, 2, 3]), rng.choice([0, 0, 1])
    order = ", ".join(f"{n[j]} ASC NULLS LAST" for j in range(w))
    f = (lambda j: f"s.{n[j]}") if qual else (lambda j: n[j])
    sql = (f"SELECT {', '.join(f(j) for j in range(w))} FROM (SELECT {', '.join(n)} FROM {t['name']} ORDER BY {order} LIMIT {k}"
           + (f" OFFSET {off}" if off else "") + f") AS s WHERE {sqlq.esql(p, f)}")
    keys = "; ".join(f"mkKey (ECol {j}) false false" for j in range(w))
    T = f"(QTable {i}%nat {w}%nat)"
    plain = f"(QFilter (QLimit (QSort {T} [{keys}]) {off}%nat (Some {k}%nat)) {sqlgen.e_coq(p)})"
    dev = f"(push_filter {plain})"          # a barrier since fix 12a27a2 (C03_filter_below_limit_before_fix)
    term = (f"(let db := db{gi} in [encrel (qeval eng_qsem db {plain}); encrel (qeval eng_qsem db {dev}); "
            f"encrel (qeval sql_qsem db {plain})])")
    return {"family": "filter-limit", "sql": sql, "term": term, "extra": [], "kind": "filter-over-limit"}

def fam_filter_rename(rng, tables, gi, nxt, mode=None):
    i = rng.randrange(len(tables))
    t = tables[i]
    sc = optgen.small_cols(t)
    if not sc:
        return None
    w = len(t["types"])
    n = t["colnames"]
    ci = rng.choice(sc)
    delta = rng.choice([1, 4, 10])
    qual = rng.random() < 0.4
    p = ("cmp", rng.choice(["CGt", "CGe", "CLe", "CEq"]), col(ci), optgen.lit_for(rng, t, ci))
    f = (lambda j: f"s.{n[j]}") if qual else (lambda j: n[j])
    sel = ", ".join((f"{n[j]} + {delta} AS {n[j]}" if j == ci else n[j]) for j in range(w))
    sql = f"SELECT {', '.join(f(j) for j in range(w))} FROM (SELECT {sel} FROM {t['name']}) AS s WHERE {sqlq.esql(p, f)}"
    es = "; ".join(f"EArith AAdd (ECol {j}) (ELit (VInt {delta}))" if j == ci else f"ECol {j}" for j in range(w))
    T = f"(QTable {i}%nat {w}%nat)"
    plain = f"(QFilter (QProject {T} [{es}]) {sqlgen.e_coq(p)})"
    dev = f"(push_filter {plain})"          # passes only pass-through columns since fix 12a27a2
    term = (f"(let db := db{gi} in [encrel (qeval eng_qsem db {plain}); encrel (qeval eng_qsem db {dev}); "
            f"encrel (qeval sql_qsem db {plain})])")
    return {"family": "filter-rename", "sql": sql, "term": term, "extra": [], "kind": "filter-over-rename" + ("-qualified" if qual else "")}

# per group: a fixed schedule of families, the modes rotating with the group index
SCHEDULE = [(fam_group, ["direct", "direct", "foreign", "derived"]), (fam_packjoin, ["direct", "partial", "derived", "foreign"]),
            (fam_leftcount, [None]), (fam_group, ["direct", "derived", "direct", "direct"]), (fam_filter_limit, [None]),
            (fam_filter_rename, [None]), (fam_packjoin, ["derived", "direct", "direct", "partial"]), (fam_group, [None]),
            (fam_leftcount, [None]), (fam_packjoin, [None]), (fam_group, [None]), (fam_filter_limit, [None])]

def general_case(rng, tables, gi, R):
    q, kind = optgen.gen_general(rng, tables)
    qc = optgen.to_coq(q)
    term = (f"(let db := db{gi} in [encrel (qeval eng_qsem db {qc}); encrel (qeval eng_qsem db (fold_query {qc})); "
            f"encrel (qeval sql_qsem db {qc}); bit (hd false (known_bits db {qc}))])")
    ordered = q[0] == "sort" or (q[0] == "limit" and q[1][0] == "sort")
    c = {"family": "general", "sql": R.to_sql(q), "term": term, "extra": [], "kind": kind, "ordered": ordered}
    # correlated EXISTS / NOT EXISTS over a Parquet table of several row groups: the UNOPTIMISED plan runs the correlated
    # subquery executor, which reads only the first row group (partition 0) of the inner table
    if q[0] == "semi" and q[3][0] == "table":
        t = tables[q[3][1]]
        pqs = t.get("parquet")
        if pqs and t["rows"]:
            first = min([pqs.get("row_group", 1 << 30), len(t["rows"])] + (pqs.get("files") or [])[:1])
            if first < len(t["rows"]):
                alt = ("semi", q[1], q[2], ("limit", q[3], 0, first), q[4])
                c["term"] = c["term"][:-2] + f"; encrel (qeval eng_qsem db {optgen.to_coq(alt)})])"
                c["semi_alt"] = 4
    return c

# ---------------------------------------------------------------- judging
def judge_case(c, out, vals, stats):
    """returns (eq, ok, classes, detail). Routes: opt, prod, each rule alone; reference: noopt."""
    noopt = rows_of(out.get("noopt"))
    routes = {"opt": out.get("opt"), "prod": out.get("prod")}
    for rn, r in (out.get("each") or {}).items():
        routes["each:" + rn] = out["noopt"] if (isinstance(r, dict) and r.get("same")) else r
    ordered = c.get("ordered", False)
    fam = c["family"]
    flags = out.get("flags") or {}
    E0 = dec_rel(vals[0])
    detail = {}
    pred = {}            # route -> predicted rows (None = use E0)
    classes = []
    ALT = None
    if c.get("semi_alt") and not same(noopt, E0, ordered) and same(noopt, dec_rel(vals[c["semi_alt"]]), ordered):
        ALT = dec_rel(vals[c["semi_alt"]])
        classes.append("unopt-subquery-partition")
    # the reference route
    eq = same(noopt, ALT if ALT is not None else E0, ordered)
    if not eq:
        detail["noopt_vs_model"] = True
    guard_eq = True
    if fam == "general":
        EF = dec_rel(vals[1])
        for rt in routes:
            pred[rt] = EF if rt in ("opt", "prod", "each:ConstantFolding") else E0
        if ALT is not None:
            # only the routes that decorrelate the subquery see the whole inner table
            for rt in routes:
                if rt not in ("opt", "prod", "each:SubqueryDecorrelation"):
                    pred[rt] = ALT
            r = rows_of(routes.get("each:FlattenDependentJoin"))
            if r is not None and same(r, E0):
                pred["each:FlattenDependentJoin"] = E0
        if bitv(vals[3]):
            classes.append("dominated-null")
        S0 = dec_rel(vals[2])
    elif fam == "group":
        gk, pk = optv(vals[1]), optv(vals[2])
        PK = dec_rel(vals[3])
        for rt in routes:
            if rt == "each:GroupKeyReduction":
                pred[rt] = ("gkr", gk) if gk is not None else E0
            elif rt == "each:PackedGroupKeys":
                pred[rt] = PK
            elif rt in ("opt", "prod"):
                pred[rt] = ("gkr", gk) if gk is not None else PK
            else:
                pred[rt] = E0
        guard_eq = (bool(flags.get("fd")) == (gk is not None)) and (bool(flags.get("pk")) == (gk is None and pk is not None))
        stats["gkr_fired"] += gk is not None
        stats["pgk_fired"] += gk is None and pk is not None
        if gk is not None:
            classes.append("stats-by-name" if bitv(vals[5]) else ("ndv-unique" if bitv(vals[4]) else None))
        elif pk is not None and bitv(vals[5]):
            classes.append("stats-by-name")
        if gk is not None and pk is not None and bitv(vals[5]):
            classes.append("stats-by-name")
        S0 = dec_rel(vals[6])
    elif fam == "leftcount":
        g = bitv(vals[1])
        DEV = dec_rel(vals[2])
        for rt in routes:
            pred[rt] = DEV if rt in ("opt", "prod", "each:EagerAggregation") else E0
        guard_eq = bool(flags.get("ea_cnt")) == g
        stats["leftcount_fired"] += g
        if bitv(vals[3]):
            classes.append("ndv-unique")
        S0 = dec_rel(vals[4])
    elif fam == "packjoin":
        g = optv(vals[1])
        DEV = dec_rel(vals[2])
        for rt in routes:
            pred[rt] = DEV if rt in ("opt", "prod", "each:PackedJoinKeys") else E0
        guard_eq = bool(flags.get("packed_join")) == (g is not None)
        stats["packjoin_fired"] += g is not None
        if c["mode"] in ("derived", "foreign"):
            classes.append("stats-by-name")
        S0 = dec_rel(vals[3])
    else:   # filter-limit, filter-rename
        DEV = dec_rel(vals[1])
        for rt in routes:
            pred[rt] = DEV if rt in ("opt", "prod", "each:PredicatePushdown") else E0
        S0 = dec_rel(vals[2])
    classes = [x for x in classes if x]
    if not guard_eq:
        detail["guard_vs_flags"] = {"flags": flags}
        eq = False
    ok = True
    gkr_pending = []
    for rt, res in routes.items():
        rows = rows_of(res)
        if rows is None:
            # an error on one route only is a different answer
            if noopt is not None:
                ok = False
                detail.setdefault("route_errors", {})[rt] = str(res)[:200]
            continue
        if noopt is None:
            ok = False
            detail.setdefault("route_errors", {})["noopt"] = str(out.get("noopt"))[:200]
            continue
        if not same(rows, noopt, ordered):
            ok = False
            detail.setdefault("differs_from_unoptimised", {})[rt] = res["ok"]["rows"][:12]
        p = pred.get(rt, E0)
        if isinstance(p, tuple):
            gkr_pending.append((rt, p[1], rows))
        elif not same(rows, p, ordered):
            eq = False
            detail.setdefault("differs_from_model", {})[rt] = {"impl": res["ok"]["rows"][:12], "model": [[str(x) for x in r] for r in p[:12]]}
    if not ok:
        detail["unoptimised"] = (out.get("noopt") or {}).get("ok", {}).get("rows", out.get("noopt"))
        detail["reference_sql_semantics"] = [[str(x) for x in r] for r in S0[:12]]
    return eq, ok, classes, detail, gkr_pending

def run(ctx):
    proved = ctx.prove()
    rules, max_iter, final = optgen.read_rule_list()
    # ---- the driver's parameters, re-read from the source, against the model
    names_term = "[" + "; ".join(f'"{r}"' for r in rules) + "]"
    drv = vlib.coq_eval_list(REQ + "\nImport String.\nLocal Open Scope string_scope.",
                             "", [f"[if RuleNames.same_rules {names_term} then 1 else 0; Z.of_nat max_iterations; "
                                  f"if list_eqb String.eqb {'[' + '; '.join(chr(34) + f + chr(34) for f in final) + ']'} [RuleNames.final_rule] then 1 else 0; "
                                  f"Z.of_nat application_bound]"], "c03drv")[0]
    driver_ok = drv[0] == 1 and drv[1] == max_iter and drv[2] == 1
    ctx.cov["driver"] = {"rules_in_source": rules, "max_iterations": max_iter, "final_rules": final,
                         "model_matches_source": driver_ok, "application_bound": drv[3]}
    if not driver_ok:
        ctx.violation({"kind": "correspondence-broken: the optimizer's rule list / order / max_iterations / final-rule partition "
                               "in src/optimizer/mod.rs differs from the model (C03/Model.v RuleNames)", "source": rules,
                       "max_iterations": max_iter, "final": final}, found_input=False, tag="driver")

    ngroups = ctx.n(12, 150)
    n_general, n_family = ctx.n(9, 12), ctx.n(8, 10)
    cases, metas, preludes = [], [], []
    for gi in range(ngroups):
        tables = optgen.gen_group_tables(ctx.rng)
        R = optgen.Renderer({t["name"]: t["colnames"] for t in tables})
        qs = [general_case(ctx.rng, tables, gi, R) for _ in range(n_general)]
        extra = []
        for fi in range(n_family):
            fam, modes = SCHEDULE[fi % len(SCHEDULE)]
            c = fam(ctx.rng, tables, gi, len(tables) + len(extra), modes[gi % len(modes)])
            if c is None:
                continue
            # a family may add a table (tf: memory table named like a Parquet table / tp: partial statistics), once per group
            if c["extra"]:
                if c["extra"][0]["name"] in [t["name"] for t in extra]:
                    continue
                extra += c["extra"]
            qs.append(c)
        alltabs = tables + extra
        cases.append({"tables": [optgen.table_spec(t) for t in alltabs], "queries": [c["sql"] for c in qs], "rules": rules, "each": True})
        metas.append((alltabs, qs))
        preludes.append(f"Definition db{gi} : list rel := {sqlq.db_coq([t['rows'] for t in alltabs])}.")
    outs = vlib.run_harness("c03", cases, timeout=3000)

    terms, index = [], []
    for gi, (alltabs, qs) in enumerate(metas):
        for qi, c in enumerate(qs):
            terms.append(c["term"]); index.append((gi, qi))
        # footer statistics of every Parquet table without partial files, against the model
        for ti, t in enumerate(alltabs):
            if t.get("parquet") and not t["parquet"].get("nostat_tail"):
                terms.append(f"[encstats (nth {ti}%nat db{gi} []) {len(t['types'])}%nat]"); index.append((gi, ("stats", ti)))
            elif t.get("parquet"):
                head = len(t["rows"]) - t["parquet"]["nostat_tail"]
                terms.append(f"[encstats_partial (nth {ti}%nat db{gi} []) {len(t['types'])}%nat {head}%nat]"); index.append((gi, ("stats", ti)))
    vals = vlib.coq_eval_list(REQ, PRELUDE + "\n" + "\n".join(preludes), terms, "c03", shard=24)

    stats = {"statements": 0, "gkr_fired": 0, "pgk_fired": 0, "leftcount_fired": 0, "packjoin_fired": 0, "routes_compared": 0,
             "engine_errors_both_routes": 0, "stats_tables_checked": 0, "rule_changed_answer_path": {}}
    cases_l, eqs, oks, impl = [], [], [], []
    pending = []
    kinds = {}
    for (gi, qi), v in zip(index, vals):
        alltabs, qs = metas[gi]
        o = outs[gi]
        if "q" not in o:
            ctx.violation({"kind": "harness failure", "detail": str(o)[:600]}, found_input=False, tag="harness")
            break
        if isinstance(qi, tuple):
            t = alltabs[qi[1]]
            st = o["stats"].get(t["name"], {})
            model = v[0]
            good = st.get("rows") == len(t["rows"])
            for cidx, cn in enumerate(t["colnames"]):
                cs = st.get("cols", {}).get(cn.lower())
                if t["types"][cidx] in ("i64", "i32", "date") and cs is not None:
                    m = model[cidx]
                    want = [m[0][0] if m[0] else None, m[1][0] if m[1] else None, m[2][0] if m[2] else None, m[3][0] if m[3] else None]
                    got = [cs["min"], cs["max"], cs["nulls"], cs["ndv"]]
                    if want != got:
                        good = False
            stats["stats_tables_checked"] += 1
            cases_l.append({"kind": "footer statistics vs stats_of_col", "table": optgen.table_spec(t)}); eqs.append(good); oks.append(True)
            impl.append(st)
            continue
        c = qs[qi]
        out = o["q"][qi]
        stats["statements"] += 1
        kinds[c["kind"]] = kinds.get(c["kind"], 0) + 1
        nerr = out.get("noopt") or {}
        if rows_of(nerr) is None and str(nerr.get("err", "")).startswith(("Not implemented", "Parse error")):
            # the bound plan cannot be executed unoptimised (e.g. the correlated-subquery executor does not support the
            # outer row's column types): there is no unoptimised answer to compare with
            stats["unoptimised_not_implemented"] = stats.get("unoptimised_not_implemented", 0) + 1
            continue
        if rows_of(out.get("noopt")) is None and rows_of(out.get("opt")) is None:
            stats["engine_errors_both_routes"] += 1
            ctx.cov.setdefault("error_samples", [])
            if len(ctx.cov["error_samples"]) < 5:
                ctx.cov["error_samples"].append({"sql": c["sql"], "err": str(out.get("opt"))[:200]})
            continue
        eq, ok, classes, detail, gkr_pending = judge_case(c, out, v, stats)
        stats["routes_compared"] += 2 + len(out.get("each") or {})
        for rn, r in (out.get("each") or {}).items():
            if not (isinstance(r, dict) and r.get("same")):
                stats["rule_changed_answer_path"][rn] = stats["rule_changed_answer_path"].get(rn, 0) + 1
        rec = {"sql": c["sql"], "kind": c["kind"], "classes": classes,
               "tables": [optgen.table_spec(t) for t in alltabs], "detail": detail}
        cases_l.append(rec); eqs.append(eq); oks.append(ok); impl.append(detail)
        for rt, kpos, rows in gkr_pending:
            pending.append((len(cases_l) - 1, gi, c, rt, kpos, rows))
    # second pass: answers of the group-key reduction are accepted by the Gallina predicate (ANY_VALUE is free)
    if pending:
        t2 = []
        for (ci, gi, c, rt, kpos, rows) in pending:
            impl_rel = "[" + "; ".join(sqlgen.row_coq(r) for r in rows) + "]"
            t2.append(f"(if gkr_accepts eng_qsem {kpos}%nat {nlist(c['keys'])} {aggs_coq(c['aggs'])} "
                      f"(qeval eng_qsem db{gi} {c['src_coq']}) {impl_rel} then 1 else 0)")
        acc = vlib.coq_eval_list(REQ, PRELUDE + "\n" + "\n".join(preludes), t2, "c03acc", shard=20)
        for (ci, gi, c, rt, kpos, rows), a in zip(pending, acc):
            if a != 1:
                eqs[ci] = False
                cases_l[ci]["detail"].setdefault("gkr_not_accepted", []).append(rt)
    ctx.cov["evaluations"] = stats["routes_compared"]
    ctx.cov["distinct_nontrivial"] = len({c["sql"] for c, e in zip(cases_l, eqs) if "sql" in c and c.get("detail") is not None})
    ctx.cov["input_distribution"] = dict(stats, by_shape=kinds, groups=ngroups,
                                         in_class={k: sum(1 for c in cases_l if k in c.get("classes", [])) for k in CLASSES},
                                         spec_violations_in_known_classes=sum(1 for c, o in zip(cases_l, oks) if not o))
    for c in cases_l[:3]:
        ctx.sample({"sql": c.get("sql"), "kind": c.get("kind")})
    def cls(c):
        ks = c.get("classes") or []
        if ks and all(ctx.is_known(k) for k in ks):
            for k in ks:
                ctx.known_finding(k, ctx.known[k])
            return ks[0]
        return ks[0] if ks else None
    ctx.judge(cases_l, eqs, oks, classify=cls, impl_outs=impl)
    if not proved and not ctx.violations:
        ctx.proof_broken_violation(f"{stats['statements']} statements x routes")
    return ctx.finish(
        rule="table triples (three integer key candidates per table drawn from: range>=rows with duplicates, dense duplicates, unique, "
             "nullable, negative minima, near 2^31, near 2^62, sparse; memory or Parquet with 1-row..whole-file row groups, several files, "
             "files without statistics) x {random statements: filters with constant operands and OR chains, projections, 1-2 key "
             "inner/outer joins, 3-way joins, GROUP BY, HAVING, DISTINCT, EXISTS / NOT EXISTS, ORDER BY + LIMIT, UNION} + {statistics "
             "families: multi-key GROUP BY over a base / same-named / derived input, LEFT JOIN + COUNT, 2-key joins over base / derived "
             "/ same-named / partially-described inputs, WHERE over ORDER BY..LIMIT and over renaming subqueries}; every statement through "
             "sql(), the unoptimised plan, the production rule list and each rule alone; non-trivial = statements with a result, distinct by SQL",
        assumptions=["the Parquet writer records exact min / max / null_count per column chunk (checked against stats_of_col every run)",
                     "ANY_VALUE returns the value of some member row (gkr_accepts)", "doubles do not occur; integer arithmetic stays far from i64 overflow"])

def replay(ctx, obj):
    print("failing case:", json.dumps(obj.get("case"), default=str)[:3000])
    return run(ctx)
