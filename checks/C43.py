"""C43 — exact vector search is the literal ORDER BY ... LIMIT: theorems in coq/theories/Props/C43.v (matcher fires
exactly on the canonical shape, fallback = replaced plan, exact mode / no index = sort+limit, tie-independent key
sequence); correspondence: in-memory FixedSizeList<Float32> tables, distance-ordered queries run with the rule on
(Exact and Indexed mode; the memory provider has no index) and with the rule removed from the optimizer's list;
answers compared up to ties; whether the rewrite fired is compared with the model's matcher on the real plan."""
import struct
import vlib

REQ = "From QV Require Import Base.Util C43.Model."
FUNCS = {"l2_distance": "l2", "euclidean_distance": "l2", "cosine_distance": "cosd", "cosine_similarity": "coss",
         "dot_product": "dot", "inner_product": "dot"}
NEAREST_DIR = {"l2": "ASC", "cosd": "ASC", "coss": "DESC", "dot": "DESC"}
COMP = [0, 0, 1, 1, -1, 2, 0.5, 3]


def vec_lit(v, style):
    body = ", ".join(repr(float(x)) if style != "int" else str(int(x)) for x in v)
    return ("ARRAY[" if style == "array" else "[") + body + "]"


def gen_case(rng):
    dim = rng.choice([1, 2, 2, 3, 4, 8, 16])
    n = rng.choice([0, 1, 2, 3, 5, 8, 12])
    ids = list(range(1, n + 1)); rng.shuffle(ids)
    pool = [[rng.choice(COMP) for _ in range(dim)] for _ in range(max(1, n // 2))]
    rows = []
    for i in ids:
        r = rng.random()
        emb = None if r < 0.15 else (rng.choice(pool) if r < 0.7 else [rng.choice(COMP) for _ in range(dim)])
        rows.append([i, rng.choice(["a", "b", None]), rng.choice([1, 2, 3, None]), emb])
    bs = None
    if n >= 2 and rng.random() < 0.5:
        k = rng.randint(1, n - 1); bs = [k, n - k]
    queries, meta = [], []
    for _ in range(rng.randint(4, 7)):
        q, m = gen_query(rng, dim, n)
        meta.append(dict(m, qi=len(queries), di=len(queries) + 1))
        queries += [q, m["dist_sql"]]
    c = {"dim": dim, "rows": rows, "queries": queries, "meta": meta}
    if bs:
        c["batch_sizes"] = bs
    return c


def gen_query(rng, dim, n):
    fname = rng.choice(list(FUNCS))
    fn = FUNCS[fname]
    r = rng.random()
    qlen = dim if r < 0.85 else max(1, dim + rng.choice([-1, 1]))
    style = rng.choice(["plain", "plain", "array", "int"])
    qv = [rng.choice(COMP) for _ in range(qlen)]
    if style == "int":
        qv = [int(x) for x in qv]
    lit = vec_lit(qv, style)
    dist = f"{fname}({lit}, emb)" if rng.random() < 0.2 else f"{fname}(emb, {lit})"
    shape = rng.choice(["canon"] * 6 + ["where", "where", "extra_key", "no_limit", "expr", "dist_in_select", "computed",
                                        "subquery", "offset_only", "alias_key"])
    dirs = rng.choice(["", "", "ASC", "DESC", NEAREST_DIR[fn], NEAREST_DIR[fn]])
    nulls = rng.choice(["", "", "", "NULLS LAST", "NULLS FIRST"])
    k = rng.choice([0, 1, max(n - 1, 0), n, n + 1, rng.randint(0, n + 2)])
    off = rng.choice([None, None, None, 0, 1, n, n + 1])
    sel = rng.choice(["id", "id", "id, cat", "*", "id AS k, cat", "cat, id", "id, emb", "g, id"])
    where = ""
    if shape == "where":
        where = " WHERE " + rng.choice(["g > 1", "cat = 'a'", "id <= 3", "g IS NOT NULL", "emb IS NOT NULL"])
    key = dist
    frm = "v"
    lim = f" LIMIT {k}" + (f" OFFSET {off}" if off is not None else "")
    simple_key = True          # the ORDER BY is the bare distance, so the literal spec can be recomputed from distances
    if shape == "extra_key":
        key = f"{dist} {dirs} {nulls}, id"; dirs = nulls = ""; simple_key = False
    elif shape == "no_limit":
        lim = ""
    elif shape == "offset_only":
        lim = f" OFFSET {rng.choice([0, 1, n])}"
    elif shape == "expr":
        key = rng.choice([f"{dist} + 1", f"-{dist}", f"{dist} * 2", f"abs({dist})"]); simple_key = False
    elif shape == "dist_in_select":
        sel = f"id, {dist} AS d"
        if rng.random() < 0.5:
            key = "d"
    elif shape == "computed":
        sel = "id, g + 1 AS g1"
    elif shape == "subquery":
        frm = rng.choice(["(SELECT id, cat, g, emb FROM v) s", "(SELECT id, emb AS e2, cat, g FROM v) s"])
        if "e2" in frm:
            key = key.replace("emb", "e2"); sel = "id"
    elif shape == "alias_key":
        sel = rng.choice(["id, emb AS e", "id AS emb2, emb"])
    sql = f"SELECT {sel} FROM {frm}{where} ORDER BY {key} {dirs} {nulls}".rstrip() + lim
    sql = " ".join(sql.split())
    dist_sql = f"SELECT id, {dist} AS d FROM v{where}"
    has_limit = " LIMIT " in lim
    return sql, {"sql": sql, "dist_sql": dist_sql, "fn": fn, "dir": dirs or "ASC", "nulls": nulls, "k": k if has_limit else None,
                 "off": (int(lim.split("OFFSET")[1]) if "OFFSET" in lim else 0), "shape": shape, "simple_key": simple_key,
                 "qlen": qlen, "dim": dim}


# ---------------- rendering the real plan as a Coq term ----------------
class Names:
    def __init__(self):
        self.d = {}

    def __call__(self, s):
        return self.d.setdefault(s, len(self.d))


def plan_term(p, nm):
    if p is None:
        return "(PScan 0 [] false)"
    k = p["n"]
    if k == "limit":
        f = "None" if p["fetch"] is None else f"(Some {p['fetch']})"
        return f"(PLimit {p['skip']} {f} {plan_term(p['in'], nm)})"
    if k == "sort":
        ks = []
        for key in p["keys"]:
            fn = {"l2": "(Some L2Distance)", "cosd": "(Some CosineDistance)", "coss": "(Some CosineSimilarity)",
                  "dot": "(Some DotProduct)", "other": "(Some OtherFunc)", None: "None"}[key["fn"]]
            args = "; ".join(f"ECol {nm(a['c'])}" if "c" in a else (f"EVecLit {a['lit']}" if "lit" in a else "EOther")
                             for a in key["args"])
            ks.append(f"mkKey {fn} [{args}] {'Asc' if key['dir'] == 'asc' else 'Desc'} "
                      f"{'NullsFirst' if key['nulls'] == 'first' else 'NullsLast'}")
        return f"(PSort [{'; '.join(ks)}] {plan_term(p['in'], nm)})"
    if k == "project":
        its = "; ".join(f"PCol {nm(i['out'])} {nm(i['src'])}" if i["src"] is not None else f"PComp {nm(i['out'])}"
                        for i in p["items"])
        return f"(PProject [{its}] {plan_term(p['in'], nm)})"
    if k == "scan":
        fs = "; ".join(f"({nm(n)}, {'None' if d is None else f'Some {d}'})" for n, d in p["fields"])
        return f"(PScan {nm(p['table'])} [{fs}] {vlib.blit(p['filter'])})"
    return f"(POther {plan_term(p.get('in'), nm)})"


def fired_term(r):
    nm = Names()
    pt = plan_term(r["pre"], nm)
    f = r["fired"]
    if f is None:
        impl = "None"
    else:
        met = {"l2": "ML2", "cos": "MCosine", "dot": "MDot"}[f["metric"]]
        impl = f"(Some ({f['k']}, {f['skip']}, {met}, {nm(f['column'])}, {f['qlen']}, {vlib.blit(f['filter'])}))"
    return f"[fired_eqb {impl} {pt}]"


def subtree_in(t, p):
    while p is not None:
        if p == t:
            return True
        p = p.get("in") if isinstance(p, dict) else None
    return False


# ---------------- comparing answers up to ties ----------------
def fbits(cell):
    if cell is None:
        return None
    if isinstance(cell, list) and cell[0] == "f":
        return struct.unpack("<d", struct.pack("<Q", int(cell[1])))[0]
    return float(cell)


def answer(res):
    """('rows', cols, rows) | ('err',) | ('panic', msg)"""
    if "ok" in res:
        return ("rows", res["ok"]["cols"], res["ok"]["rows"])
    if "panic" in res:
        return ("panic", res["panic"])
    return ("err",)


def check_query(c, m, r, dres):
    """returns (ok, why)"""
    on, idx, off = answer(r["on"]), answer(r["idx"]), answer(r["off"])
    for a in (on, idx, off):
        if a[0] == "panic":
            return False, "panic: " + a[1]
    kinds = {on[0], idx[0], off[0]}
    if kinds == {"err"}:
        return True, "all-err"
    if kinds != {"rows"}:
        return False, f"rule on/indexed/off disagree on success: {on[0]}/{idx[0]}/{off[0]}"
    if on[1] != off[1] or on[1] != idx[1]:
        return False, "column names differ"
    if on[2] != idx[2]:
        return False, "Indexed mode over a provider without an index differs from Exact mode"
    cols = [x.lower() for x in on[1]]
    idc = cols.index("id") if "id" in cols else (cols.index("k") if "k" in cols else (cols.index("emb2") if "emb2" in cols else None))
    if idc is None:
        return (on[2] == off[2]), "no id column: compared literally"
    d = answer(dres)
    if d[0] != "rows":
        # e.g. LIMIT 0 over a dimension mismatch never evaluates the key: nothing to rank, compare literally
        return (on[2] == off[2] and (len(on[2]) == 0 or m["qlen"] != m["dim"])), "on=off (distance not evaluable)"
    dist = {row[0]: fbits(row[1]) for row in d[2]}
    table = {row[0]: row for row in c["rows"]}
    seqs = []
    for a in (on, off):
        ids = [row[idc] for row in a[2]]
        if len(set(ids)) != len(ids) or any(i not in dist for i in ids):
            return False, "returned rows are not a sub-bag of the table's (filtered) rows"
        for row in a[2]:                       # the other columns are the table's values for that id
            t = table[row[idc]]
            for name, cell in zip(cols, row):
                if name == "cat" and cell != t[1] or name == "g" and cell != t[2] or name == "g1" and cell != (None if t[2] is None else t[2] + 1):
                    return False, f"column {name} of id {row[idc]} is not the table's value"
        seqs.append([dist[i] for i in ids])
    nan = any(x is not None and x != x for x in dist.values())
    norm = lambda s: [("nan" if (x is not None and x != x) else x) for x in s]
    if norm(seqs[0]) != norm(seqs[1]):
        return False, f"distance sequences differ: rule on {seqs[0]} / rule off {seqs[1]}"
    if len(on[2]) != len(off[2]):
        return False, "row counts differ"
    # the literal reading: full sort by the key, then OFFSET/LIMIT
    if m["simple_key"] and not nan:
        desc = m["dir"] == "DESC"
        nulls_first = m["nulls"] == "NULLS FIRST"
        vals = sorted([x for x in dist.values() if x is not None], reverse=desc)
        nul = [None] * sum(1 for x in dist.values() if x is None)
        full = (nul + vals) if nulls_first else (vals + nul)
        exp = full[m["off"]:] if m["k"] is None else full[m["off"]:m["off"] + m["k"]]
        if m["nulls"] == "" and nul and norm(seqs[0]) != exp:
            # default NULL placement is the engine's choice; accept either placement, the same for on and off
            full2 = (vals + nul) if nulls_first else (nul + vals)
            exp2 = full2[m["off"]:] if m["k"] is None else full2[m["off"]:m["off"] + m["k"]]
            if seqs[0] == exp2:
                return True, "spec(default-nulls-first)"
        if seqs[0] != exp:
            return False, f"not the k nearest by exact distance: got {seqs[0]}, full sort + limit gives {exp}"
        return True, "spec"
    return True, "on=off"


def check_spy(r):
    """the same statement over a provider that implements scan_knn (KnnSpy: drops NULL vectors, reverses ties).
    Exact mode: scan_knn must not be called and the answer is the memory provider's exact answer.
    Indexed mode: the provider may be used, but only through a fired rewrite and with use_index set."""
    on, se, si = answer(r["on"]), answer(r["spy_exact"]), answer(r["spy_idx"])
    if se[0] == "panic" or si[0] == "panic":
        return False, "panic over the k-NN capable provider"
    if r["spy_exact_calls"] != 0:
        return False, f"exact mode called the provider's scan_knn {r['spy_exact_calls']} time(s)"
    if se[0] != on[0] or (se[0] == "rows" and (se[1] != on[1] or se[2] != on[2])):
        return False, f"exact mode over a k-NN capable provider answers {se[1:] if se[0] == 'rows' else se[0]}, the literal sort+limit gives {on[1:] if on[0] == 'rows' else on[0]}"
    if r["spy_idx_calls"] and not r["fired"]:
        return False, "indexed mode consulted the provider although the rewrite did not fire"
    if not all(r["spy_idx_use_index"]):
        return False, "indexed mode called scan_knn with use_index = false"
    if not r["spy_idx_calls"] and (si[0] != on[0] or (si[0] == "rows" and si[2] != on[2])):
        return False, "indexed mode did not consult the provider but its answer differs from the exact one"
    return True, ""


def evaluate(ctx, cases):
    outs = vlib.run_harness("c43", cases)
    items, terms = [], []
    for ci, (c, o) in enumerate(zip(cases, outs)):
        for m in c["meta"]:
            if "results" not in o:
                items.append((ci, m, None)); terms.append("[false]"); continue
            r = o["results"][m["qi"]]
            items.append((ci, m, r)); terms.append(fired_term(r) if r["pre"] is not None else
                                                   ("[true]" if r["fired"] is None else "[false]"))
    vals = vlib.coq_eval_list(REQ, "Local Open Scope nat_scope.", terms, "c43", shard=120)
    return outs, items, vals


def run(ctx):
    proved = ctx.prove()
    cases = [gen_case(ctx.rng) for _ in range(ctx.n(100, 2500))]
    outs, items, vals = evaluate(ctx, cases)
    qcases, eq, ok, impl = [], [], [], []
    stats = {"fired": 0, "declined": 0, "spec": 0, "on=off": 0, "all-err": 0, "ties": 0}
    shapes = {}
    for (ci, m, r), v in zip(items, vals):
        c, o = cases[ci], outs[ci]
        qc = {"dim": c["dim"], "rows": c["rows"], "batch_sizes": c.get("batch_sizes"), "queries": [m["sql"], m["dist_sql"]],
              "meta": [dict(m, qi=0, di=1)]}
        qcases.append(qc)
        if r is None:
            eq.append(False); ok.append(False); impl.append(o); continue
        good, why = check_query(c, m, r, o["results"][m["di"]]["on"])
        if good:
            g2, w2 = check_spy(r)
            if not g2:
                good, why = False, w2
        f = r["fired"]
        e = bool(v[0]) and bool(o.get("rule_list_ok")) and bool(o.get("default_is_exact")) and \
            (f is None or subtree_in(f["fallback"], r["pre"]))
        eq.append(e); ok.append(good)
        impl.append({"fired": f, "on": r["on"], "off": r["off"], "why": why, "spy_exact": r["spy_exact"], "spy_exact_calls": r["spy_exact_calls"],
                     "spy_idx_calls": r["spy_idx_calls"], "spy_differs": bool(r["spy_idx_calls"]) and r["spy_idx"] != r["on"]})
        stats["fired" if f else "declined"] += 1
        for k in ("spec", "on=off", "all-err"):
            if why.startswith(k):
                stats[k] += 1
        shapes[m["shape"]] = shapes.get(m["shape"], 0) + 1
    ctx.cov["evaluations"] = len(qcases)
    ctx.cov["distinct_nontrivial"] = len({(repr(q["rows"]), q["queries"][0]) for q, i in zip(qcases, impl)
                                          if len(q["rows"]) >= 2})
    ctx.cov["input_distribution"] = {"tables": len(cases), "dims": sorted({c["dim"] for c in cases}),
                                     "rows_per_table": sorted({len(c["rows"]) for c in cases}),
                                     "with_null_vectors": sum(1 for c in cases if any(r[3] is None for r in c["rows"])),
                                     "with_duplicate_vectors": sum(1 for c in cases if len({repr(r[3]) for r in c["rows"]}) < len(c["rows"])),
                                     "shapes": shapes, **stats,
                                     "modes": "rule on (Exact), rule on (Indexed, provider without index), rule list without VectorSearchPushdown, "
                                              "Exact and Indexed over a provider implementing scan_knn (drops NULL vectors, reverses ties)",
                                     "knn_provider_consulted_in_indexed_mode": sum(1 for i in impl if isinstance(i, dict) and i.get("spy_idx_calls")),
                                     "knn_provider_answer_differs_from_exact": sum(1 for i in impl if isinstance(i, dict) and i.get("spy_differs"))}
    for q, i in list(zip(qcases, impl))[:3]:
        ctx.sample({"input": {"sql": q["queries"][0], "rows": q["rows"]}, "impl_output": i})
    ctx.judge(qcases, eq, ok, impl_outs=impl)
    if not proved and not ctx.violations:
        ctx.proof_broken_violation(f"{len(qcases)} distance-ordered queries, none violates the executable spec")
    return ctx.finish(
        rule="random FixedSizeList<Float32> tables (dims 1..16, 0..12 rows, duplicate and NULL vectors, split batches) x "
             "queries over four metrics (and aliases), ASC/DESC, NULLS FIRST/LAST, k in {0,1,n-1,n,n+1,..}, OFFSET, literal on "
             "either side, WHERE, extra sort key, no LIMIT, OFFSET only, expression over the distance, distance in the SELECT "
             "list, computed projection, derived table with aliases, dimension mismatch; non-trivial = table with >= 2 rows; "
             "distinct by (rows, sql)",
        assumptions=["the distance kernels themselves are outside C43: the per-row distance is read back from the engine "
                     "(SELECT id, f(emb, q)) and treated as an arbitrary function, as in the theorems",
                     "the harness renders the real LogicalPlan the rule sees (rule list minus VectorSearchPushdown, checked "
                     "to reproduce the default optimizer's plan when the rule is appended) into the model's plan AST",
                     "multi-input operators (joins) are outside the model AST; generated queries are single-table",
                     "a real index (Lance) is not exercised: Indexed mode is run over the memory provider, whose scan_knn answers "
                     "None, and over the harness's KnnSpy provider, whose scan_knn answers a deliberately different top-k and counts "
                     "its calls; what an Indexed-mode answer must be is outside C43"])


def replay(ctx, obj):
    c = obj.get("case") or obj.get("first_differing_case")
    outs, items, vals = evaluate(ctx, [c])
    rc = 0
    for (ci, m, r), v in zip(items, vals):
        good, why = check_query(c, m, r, outs[0]["results"][m["di"]]["on"]) if r else (False, "harness error")
        if good:
            good, why = check_spy(r)
        print("sql:", m["sql"]); print("fired:", r and r["fired"]); print("fired_eqb:", v[0], "answers_ok:", good, why)
        if not (good and v[0]):
            rc = 1
    return rc
