"""C31 — every optimizer rule returns a well-formed plan. Theorems: coq/theories/Props/C31.v (`wf_plan`, `schema_eq`,
`rule_preserves_wf` for the modelled rewrites). Correspondence: harness c31 serialises the engine's REAL LogicalPlan of
every generated statement — bound, after each rule alone (with and without statistics), after the production pipeline
(with and without statistics) — and THE SAME Gallina `wf_plan` / `schema_eq` are evaluated by Coq on those plans.
A valid statement must never fail with an optimizer-internal error."""
import json
import vlib, optgen, sqlgen

REQ = "From QV Require Import C31.Model."
JK = {"Inner": "JK_Inner", "Left": "JK_Left", "Right": "JK_Right", "Full": "JK_Full", "Semi": "JK_Semi", "Anti": "JK_Anti",
      "Cross": "JK_Cross", "Single": "JK_Single", "Mark": "JK_Mark"}

class Interner:
    def __init__(self):
        self.ids = {}
    def __call__(self, s):
        if s not in self.ids:
            self.ids[s] = len(self.ids) + 1
        return self.ids[s]

class Defs:
    """per-shard table of Coq definitions: every distinct field / reference / schema / reference list is defined once and
    plans mention them by name (elaborating nested record literals dominates coqc's time otherwise)"""
    def __init__(self, I):
        self.I, self.names, self.lines = I, {}, []
    def define(self, prefix, body, ty):
        key = (ty, body)
        if key not in self.names:
            n = f"{prefix}{len(self.names)}"
            self.names[key] = n
            self.lines.append(f"Definition {n} : {ty} := {body}.")
        return self.names[key]
    def opt(self, s):
        return "None" if s is None else f"(Some {self.I(s)})"
    def ref(self, r):
        return self.define("r", f"mkRef {self.opt(r[0])} {self.I(r[1])}", "colref")
    def refs(self, rs):
        return self.define("l", "[" + "; ".join(self.ref(r) for r in rs) + "]", "list colref")
    def groups(self, gs):
        return self.define("g", "[" + "; ".join(self.refs(g) for g in gs) + "]", "list (list colref)")
    def field(self, f):
        return self.define("f", f"mkField {self.opt(f[0])} {self.I(f[1])} {self.I('type:' + f[2])}", "field")
    def schema(self, s):
        return self.define("s", "[" + "; ".join(self.field(f) for f in s) + "]", "schema")
    def plan(self, n):
        return self.define("p", plan_coq(self, n), "plan")

def flat(gs):
    return [r for g in gs for r in g]

def plan_coq(D, n):
    k, e, cs = n["k"], n["e"], [D.plan(c) for c in n["c"]]
    sch = D.schema(n["schema"])
    if k == "Scan":
        t = f"PScan {sch} {D.refs(flat(e.get('scanfilter', [])))}"
    elif k == "Filter":
        t = f"PFilter {cs[0]} {D.refs(flat(e['pred']))}"
    elif k == "Project":
        t = f"PProject {cs[0]} {D.groups(e['proj'])} {sch}"
    elif k in ("Join", "DelimJoin"):
        jf = flat(e.get("jfilter", [])) + flat(e.get("delim", []))
        t = f"PJoin {JK[n['jt']]} {cs[0]} {cs[1]} {D.groups(e['onl'])} {D.groups(e['onr'])} {D.refs(jf)} {sch}"
    elif k == "Aggregate":
        t = f"PAgg {cs[0]} {D.groups(e['group'])} {D.groups(e['agg'])} {sch}"
    elif k == "Sort":
        t = f"PSort {cs[0]} {D.refs(flat(e['sort']))}"
    elif k == "Limit":
        t = f"PLimit {cs[0]}"
    elif k == "Distinct":
        t = f"PDistinct {cs[0]}"
    elif k == "SubqueryAlias":
        t = f"PAlias {cs[0]} {sch}"
    elif k == "Union":
        t = f"PUnion [{'; '.join(cs)}] {sch}"
    elif k in ("EmptyRelation", "Values", "DelimGet"):
        t = f"PLeaf {sch}"
    else:  # Window, VectorSearch
        t = f"POther [{'; '.join(cs)}] {D.refs(flat(e.get('win', [])))} {sch}"
    if n["sub"]:
        inner = D.define("p", t, "plan")
        t = f"PSub {inner} [{'; '.join(D.plan(s) for s in n['sub'])}]"
    return t

C31_DEF = ("Definition c31 (b p : plan) : list Z :=\n"
           "  [if wf_plan [] p then 1 else 0; if schema_eq (schema_of p) (schema_of b) then 1 else 0;\n"
           "   if schema_eq_unqualified (schema_of p) (schema_of b) then 1 else 0; if consistent_plan p then 1 else 0;\n"
           "   if wf_plan_q [] p then 1 else 0].")

def coq_eval_plans(I, items, tag, shard=10):
    """items: list of (bound plan json, [plan json...]); returns per item the list of c31 results"""
    from concurrent.futures import ThreadPoolExecutor
    shards = [items[i:i + shard] for i in range(0, len(items), shard)]
    def one(k):
        D = Defs(I)
        terms = []
        for b, plans in shards[k]:
            bn = D.plan(b)
            terms.append("[" + "; ".join(f"c31 {bn} {D.plan(p)}" for p in plans) + "]")
        text = (f"{REQ}\nLocal Open Scope Z_scope.\n{C31_DEF}\n" + "\n".join(D.lines) +
                "\nDefinition cs := [\n " + ";\n ".join(terms) + "\n].\nEval vm_compute in cs.\n")
        rc, o, e = vlib._coqc_scratch(f"{tag}_{k}", text, 900)
        if rc != 0:
            raise RuntimeError(f"coqc failed on generated cases ({tag}_{k}): {(o + e)[-1500:]}")
        v = vlib.parse_coq_value(o)
        if len(v) != len(shards[k]):
            raise RuntimeError("parse mismatch")
        return v
    with ThreadPoolExecutor(max_workers=6) as ex:
        parts = list(ex.map(one, range(len(shards))))
    return [x for p in parts for x in p]

def count_nodes(n):
    return 1 + sum(count_nodes(c) for c in n["c"]) + sum(count_nodes(s) for s in n["sub"])

def kinds(n, acc):
    acc[n["k"]] = acc.get(n["k"], 0) + 1
    for c in n["c"] + n["sub"]:
        kinds(c, acc)

INTERNAL_PREFIXES = ("Internal error", "Plan error", "Schema error", "Column not found", "Type error", "Execution error",
                     "Arrow error", "Invalid argument")
EXCLUDED_PREFIXES = ("Parse error", "Not implemented", "Bind error", "Table not found")

def err_class(msg):
    if msg.startswith(EXCLUDED_PREFIXES):
        return "unsupported"
    return "internal"

def stat_statements(rng, tables, R):
    """statements shaped so the statistics rules fire (direct multi-key GROUP BY, 2-key join, LEFT JOIN + COUNT, SUM over join)"""
    out = []
    pq = [i for i, t in enumerate(tables) if t.get("parquet")]
    if not pq:
        return out
    a = rng.choice(pq)
    ta = tables[a]
    cn = ta["colnames"]
    b = rng.choice([i for i in range(len(tables)) if i != a])
    tb = tables[b]
    bn = tb["colnames"]
    out.append((f"SELECT x.{cn[0]}, x.{cn[1]}, COUNT(*) AS n, MIN(x.{cn[2]}) AS m FROM {ta['name']} AS x GROUP BY x.{cn[0]}, x.{cn[1]}", "stat-group2"))
    out.append((f"SELECT {cn[1]}, {cn[0]}, {cn[3]}, COUNT(*) AS n FROM {ta['name']} WHERE {cn[2]} >= 0 GROUP BY {cn[1]}, {cn[0]}, {cn[3]}", "stat-group3"))
    out.append((f"SELECT x.{cn[0]}, y.{bn[3]} FROM {ta['name']} AS x JOIN {tb['name']} AS y ON x.{cn[0]} = y.{bn[0]} AND x.{cn[1]} = y.{bn[1]}", "stat-join2"))
    out.append((f"SELECT x.{cn[0]}, COUNT(y.{bn[3]}) AS n FROM {ta['name']} AS x LEFT JOIN {tb['name']} AS y ON x.{cn[0]} = y.{bn[0]} GROUP BY x.{cn[0]}", "stat-leftcount"))
    out.append((f"SELECT y.{bn[3]}, SUM(x.{cn[2]}) AS s FROM {ta['name']} AS x JOIN {tb['name']} AS y ON x.{cn[0]} = y.{bn[0]} GROUP BY y.{bn[3]}", "stat-eager"))
    out.append((f"SELECT s.c0, s.c1, COUNT(*) AS n FROM (SELECT {cn[0]} AS c0, {cn[1]} + 4 AS c1 FROM {ta['name']}) AS s GROUP BY s.c0, s.c1", "stat-derived-group"))
    out.append((f"SELECT s.{cn[0]} FROM (SELECT {cn[0]} FROM {ta['name']} ORDER BY {cn[0]} LIMIT 2) AS s WHERE s.{cn[0]} > 1", "filter-over-limit"))
    return out

def shared_name_family(rng):
    """three extra tables whose column names COLLIDE (id / ref_id on both join inputs), and statements in which a rewrite has to
    keep the qualifier to stay well-formed: IN / EXISTS / NOT EXISTS over a join keyed on either input, filters and grouping on
    the shared names, a self-join (added after seeded change seeded/C31: a semi join pushed to the wrong join input)"""
    def t(name, cols):
        n = rng.choice([2, 3, 5])
        rows = [[rng.choice([0, 1, 2, 3, 4]) for _ in cols] for _ in range(n)]
        return {"name": name, "types": ["i64"] * len(cols), "rows": rows, "colnames": cols, "batch_sizes": None}
    tabs = [t("ua", ["id", "ref_id", "x"]), t("ub", ["id", "ref_id", "y"]), t("uc", ["cid", "id"])]
    side, other = rng.choice([("ub", "ua"), ("ua", "ub")])
    on = rng.choice(["ua.id = ub.ref_id", "ua.ref_id = ub.id", "ua.id = ub.id"])
    neg = rng.choice(["", "NOT "])
    qs = [(f"SELECT ua.x, ub.y FROM ua JOIN ub ON {on} WHERE {side}.id {neg}IN (SELECT cid FROM uc)", "shared-in"),
          (f"SELECT ua.x, ub.y FROM ua JOIN ub ON {on} WHERE {neg}EXISTS (SELECT 1 FROM uc WHERE uc.cid = {side}.id)", "shared-exists"),
          (f"SELECT ua.x, ub.y FROM ua JOIN ub ON {on} WHERE {side}.id IN (SELECT id FROM uc) AND {other}.id >= 1", "shared-in-samecol"),
          (f"SELECT ua.id, ub.id, COUNT(*) AS n FROM ua JOIN ub ON {on} WHERE ub.id > 0 AND ua.id < 4 GROUP BY ua.id, ub.id", "shared-group"),
          (f"SELECT p.id, q.id FROM ua AS p JOIN ua AS q ON p.ref_id = q.id WHERE q.id IN (SELECT cid FROM uc)", "shared-selfjoin-in"),
          (f"SELECT ua.x FROM ua JOIN ub ON {on} JOIN uc ON uc.id = {side}.id WHERE {other}.id IN (SELECT cid FROM uc)", "shared-join3-in")]
    return tabs, qs

def run(ctx):
    proved = ctx.prove()
    rules, max_iter, final = optgen.read_rule_list()
    ngroups = ctx.n(14, 160)
    per = ctx.n(10, 14)
    cases, meta = [], []
    for _ in range(ngroups):
        tables = optgen.gen_group_tables(ctx.rng)
        R = optgen.Renderer({t["name"]: t["colnames"] for t in tables})
        qs = []
        for _ in range(per):
            q, kind = optgen.gen_general(ctx.rng, tables)
            qs.append((R.to_sql(q), kind))
        qs += stat_statements(ctx.rng, tables, R)
        stabs, sqs = shared_name_family(ctx.rng)
        qs += sqs
        tables = tables + stabs
        cases.append({"tables": [optgen.table_spec(t) for t in tables], "queries": [s for s, _ in qs], "rules": rules, "run": True})
        meta.append(qs)
    outs = vlib.run_harness("c31", cases, timeout=3000)

    I = Interner()
    items, index = [], []
    stats = {"statements": 0, "bind_excluded": 0, "plans_checked": 0, "rule_changed_plan": {}, "plan_nodes": 0,
             "node_kinds": {}, "optimizer_errors": 0, "exec_errors": 0}
    verdict_cases = []
    for gi, (o, qs) in enumerate(zip(outs, meta)):
        if "q" not in o:
            ctx.violation({"kind": "harness failure", "detail": str(o)[:500]}, found_input=False, tag="harness")
            continue
        for qi, (res, (sql, kind)) in enumerate(zip(o["q"], qs)):
            stats["statements"] += 1
            b = res["bound"]
            if "k" not in b:
                msg = b.get("err") or b.get("panic") or ""
                if "panic" in b or err_class(msg) == "internal":
                    verdict_cases.append({"sql": sql, "kind": kind, "stage": "bind", "error": msg, "plans": [], "bad": True})
                else:
                    stats["bind_excluded"] += 1
                continue
            plans = [("bound", b)]
            errors = []
            for label, d in (("each", res["each"]), ("each_nostats", res["each_nostats"])):
                for rn, p in d.items():
                    if "same" in p:
                        continue
                    if "k" in p:
                        plans.append((f"{label}:{rn}", p))
                        stats["rule_changed_plan"][rn] = stats["rule_changed_plan"].get(rn, 0) + 1
                    else:
                        errors.append((f"{label}:{rn}", p.get("err") or p.get("panic")))
            for label in ("prod", "prod_nostats"):
                p = res[label]
                if "k" in p:
                    plans.append((label, p))
                else:
                    errors.append((label, p.get("err") or p.get("panic")))
            ex = res.get("exec")
            exec_ok = ex == "ok"
            exec_msg = None if exec_ok else ((ex or {}).get("err") or (ex or {}).get("panic") or str(ex))
            for _, p in plans:
                stats["plan_nodes"] += count_nodes(p)
                kinds(p, stats["node_kinds"])
            items.append((b, [p for _, p in plans]))
            index.append(len(verdict_cases))
            verdict_cases.append({"sql": sql, "kind": kind, "labels": [l for l, _ in plans], "errors": errors,
                                  "exec_ok": exec_ok, "exec_msg": exec_msg, "exec_noopt": res.get("exec_noopt"), "group": gi})
    vals = coq_eval_plans(I, items, "c31")
    for vi, v in zip(index, vals):
        verdict_cases[vi]["coq"] = v

    cases_l, eq, ok, impl = [], [], [], []
    qual_only = 0
    stale = {}
    stats["wf_q_outputs_checked"] = {}
    for c in verdict_cases:
        if c.get("bad"):
            cases_l.append(c); eq.append(True); ok.append(False); impl.append(c["error"]); continue
        wf = {l: r[0] == 1 for l, r in zip(c["labels"], c["coq"])}
        same = {l: r[1] == 1 for l, r in zip(c["labels"], c["coq"])}
        same_unq = {l: r[2] == 1 for l, r in zip(c["labels"], c["coq"])}
        for l, r in zip(c["labels"], c["coq"]):
            if r[3] != 1:
                stale[l] = stale.get(l, 0) + 1
        stats["plans_checked"] += len(c["labels"])
        internal = [(l, m) for l, m in c["errors"] if m is None or err_class(m) == "internal"]
        stats["optimizer_errors"] += len(internal)
        # an execution failure is the optimizer's only if the bound plan runs
        exec_failed = not c["exec_ok"]
        noopt_ok = c.get("exec_noopt") == "ok"
        exec_internal = exec_failed and noopt_ok and err_class(c["exec_msg"] or "") == "internal"
        stats["exec_errors"] += 1 if exec_failed else 0
        stats["exec_errors_also_unoptimised"] = stats.get("exec_errors_also_unoptimised", 0) + (1 if exec_failed and not noopt_ok else 0)
        qual_only += sum(1 for l in c["labels"] if same_unq[l] and not same[l])
        bad_wf = [l for l in c["labels"] if not wf[l]]
        # qualifier-respecting well-formedness, RELATIVE to the bound plan: if every reference of the bound plan denotes a
        # column of the relation it names (wf_plan_q), every rule's output must too
        wfq = {l: r[4] == 1 for l, r in zip(c["labels"], c["coq"])}
        premise = wfq.get("bound", False)
        stats["bound_wf_q"] = stats.get("bound_wf_q", 0) + (1 if premise else 0)
        stats["bound_not_wf_q"] = stats.get("bound_not_wf_q", 0) + (0 if premise else 1)
        bad_wfq = []
        if premise:
            for l in c["labels"]:
                if l == "bound":
                    continue
                rn = l.split(":")[-1]
                stats["wf_q_outputs_checked"][rn] = stats["wf_q_outputs_checked"].get(rn, 0) + 1
                if not wfq[l]:
                    bad_wfq.append(l)
        bad_schema = [l for l in c["labels"] if not same_unq[l]]
        s_ok = not bad_wf and not bad_wfq and not bad_schema and not internal and not exec_internal
        # model vs implementation: the bound plan of a valid statement is well-formed by the Coq definition, and the
        # production plan is well-formed  <->  the engine runs it without an error of its own making
        m_eq = wf.get("bound", False) and (wf.get("prod", True) == (not exec_internal))
        cases_l.append({"sql": c["sql"], "kind": c["kind"], "not_wf": bad_wf, "not_wf_q_although_bound_is": bad_wfq,
                        "schema_changed": bad_schema,
                        "optimizer_errors": internal, "exec": c["exec_msg"], "exec_noopt": c.get("exec_noopt")})
        eq.append(m_eq); ok.append(s_ok); impl.append({"wf": wf, "schema_eq": same})
    stats["plans_with_stale_declared_schema"] = stale
    ctx.cov["evaluations"] = stats["plans_checked"]
    ctx.cov["distinct_nontrivial"] = len({c["sql"] for c in verdict_cases if not c.get("bad") and len(c.get("labels", [])) > 3})
    kinds_hist = {}
    for c in verdict_cases:
        kinds_hist[c["kind"]] = kinds_hist.get(c["kind"], 0) + 1
    ctx.cov["input_distribution"] = dict(stats, by_shape=kinds_hist, groups=ngroups, interned_identifiers=len(I.ids),
                                         plans_differing_only_in_qualifier=qual_only, rules=rules)
    for c in verdict_cases[:3]:
        ctx.sample({"sql": c["sql"], "plans": c.get("labels")})
    ctx.judge(cases_l, eq, ok, classify=lambda c: None, impl_outs=impl)
    if not proved and not ctx.violations:
        ctx.proof_broken_violation(f"{stats['plans_checked']} plans")
    return ctx.finish(
        rule="table triples (integer key columns with adversarial statistics, memory or Parquet) x random statements (filters with "
             "constants and OR chains, projections, 1-2 key inner/outer joins, 3-way joins, GROUP BY, HAVING, DISTINCT, EXISTS / NOT "
             "EXISTS, ORDER BY + LIMIT, UNION) + statements shaped for the statistics rules; per statement the bound plan, each rule "
             "alone (with/without statistics), the production pipeline (with/without statistics); non-trivial = statements where "
             "at least two rules changed the plan, distinct by SQL text",
        assumptions=["identifiers contain no '.' (find_column_index splits qualified names on it)",
                     "the harness' plan serialiser lists every column reference of every expression (src/bin/c31.rs refs())"])

def replay(ctx, obj):
    print("failing case:", json.dumps(obj.get("case"), default=str)[:2000])
    return run(ctx)
