"""C25 — ORDER BY, LIMIT and OFFSET mean what they say. Theorems: coq/theories/Props/C25.v.
Correspondence: multi-key sorts (1-3 keys, ASC/DESC, NULLS FIRST/LAST/default) over nullable int/double/string/date columns
with many ties, every LIMIT/OFFSET pair from {0,1,n-1,n,n+1} plus none, over three physical configurations:
  memory   - table split into several memory batches (full sort, fused top-k when OFFSET is absent, LimitExec otherwise)
  parquet  - table written as several Parquet files with tiny row groups (multi-partition input)
  spill-N  - ExecutionContext::with_memory_limit(N), N in 64..4096, table larger than 0.8*N: ExternalSortExec writes sorted
             runs and merges them (the spilled sort), with and without fetch
plus LIMIT / OFFSET without ORDER BY (any rows of the input are acceptable: only the count and sub-bag membership are compared).
Engine vs engine model (eng_qsem) vs SQL reference (sql_qsem), ordered results compared up to ties (relcheck)."""
import vlib, relcheck, relgen, sqlq
from relgen import col, tbl

TYPES = ["i64", "f64", "str", "date"]
WIDTH = {"i64": 8, "f64": 8, "date": 4, "i32": 4}

# ---- LIMIT without ORDER BY: any `fetch` rows after any `skip` rows are acceptable. relcheck compares a query with
# sort_info "up to ties": key sequence equal to the reference's + sub-bag of the unlimited relation. A LIMIT over an
# unsorted input is exactly the degenerate case with an EMPTY key list (every row ties with every other): the key-sequence
# test becomes the row-count test  |impl| = min(fetch, max(total-skip,0))  and the sub-bag test is against the whole input.
_orig_sort_info = relcheck.sort_info
def _sort_info_c25(q):
    si = _orig_sort_info(q)
    if si is None and q[0] == "limit":
        return ("sort", q[1], []), q[2], q[3]
    return si

def est_batch_size(types, rows):
    """python copy of spillable.rs estimate_batch_size (only used to pick table sizes and to report coverage)"""
    n = len(rows)
    tot = 0
    for i, t in enumerate(types):
        nb = (n + 7) // 8
        if t == "str":
            tot += sum(len(r[i].encode("utf-8")) for r in rows if r[i] is not None) + 4 * n + nb
        else:
            tot += WIDTH[t] * n + nb
    return tot

def expected_runs(types, rows, batch_sizes, memory_limit):
    """(spills?, number of sorted runs) per ExternalSortExec::execute / generate_runs for memory batches"""
    thr = int(memory_limit * 0.8)
    batches, lo = [], 0
    for k in (batch_sizes or []):
        k = min(k, len(rows) - lo); batches.append(rows[lo:lo + k]); lo += k
    if lo < len(rows) or not batches:
        batches.append(rows[lo:])
    sizes = [est_batch_size(types, b) for b in batches]
    if sum(sizes) <= thr:
        return False, 0
    runs, buf, nbuf = 0, 0, 0
    for s in sizes:
        if buf + s > thr and nbuf:
            runs += 1; buf, nbuf = 0, 0
        buf += s; nbuf += 1
    return True, runs + (1 if nbuf else 0)

def gen_rows(rng, types, n, null_p):
    rows = [[relgen.gen_value(rng, t, null_p) for t in types] for _ in range(n)]
    # many ties: copy key prefixes of earlier rows
    for i in range(1, n):
        if rng.random() < 0.4:
            j = rng.randrange(i)
            k = rng.randint(1, len(types))
            rows[i][:k] = rows[j][:k]
    return rows

def split_sizes(rng, n, max_piece):
    sizes, left = [], n
    while left > 0:
        k = rng.randint(1, max(1, min(max_piece, left)))
        sizes.append(k); left -= k
    return sizes

def gen_keys(rng, ncols):
    nk = rng.randint(1, min(3, ncols))
    cols_ = rng.sample(range(ncols), nk)
    return [(col(i), rng.random() < 0.5, rng.choice([None, None, True, False])) for i in cols_]

def limit_pairs(n):
    vals = sorted({v for v in (0, 1, n - 1, n, n + 1) if v >= 0})
    fetches = [None] + vals
    skips = [0] + [v for v in vals if v > 0]
    return [(s, f) for s in skips for f in fetches]

def shape_of(sorted_, skip, fetch):
    base = "sort" if sorted_ else "nosort"
    if fetch is None and not skip:
        return base + "-only"
    if fetch is not None and not skip:
        return base + ("+limit(fused top-k)" if sorted_ else "+limit")
    if fetch is None:
        return base + "+offset"
    return base + "+limit+offset"

def gen_group(rng, config, memory_limit=None, pair_budget=None):
    ncols = rng.randint(2, 4)
    types = [rng.choice(TYPES) for _ in range(ncols)]
    null_p = rng.choice([0.0, 0.2, 0.35, 0.5])
    if memory_limit is None:
        n = rng.choice([0, 1, 2, 3, 5, 8, 12, 17])
    else:
        # enough rows to exceed 0.8 * memory_limit (about 7..25 bytes per cell)
        per_row = sum(WIDTH.get(t, 6) for t in types) + 1
        need = int(memory_limit * 0.8) // per_row + 2
        n = need + rng.randint(0, max(3, need // 2))
    rows = gen_rows(rng, types, n, null_p)
    t = {"name": "ta", "types": types, "rows": rows, "batch_sizes": None}
    if config == "parquet" or (memory_limit is not None and rng.random() < 0.25):
        nfiles = rng.randint(1, 3)
        files = split_sizes(rng, n, max(1, (n + nfiles - 1) // nfiles))[:nfiles] if n else []
        t["parquet"] = {"files": files or [0], "row_group": rng.choice([1, 2, 3, 5])}
        layout = "parquet"
    else:
        t["batch_sizes"] = split_sizes(rng, n, max(1, n // rng.randint(2, 5))) if n else None
        layout = "memory"
    qs = []
    nspecs = 2 if n <= 20 else 1
    for _ in range(nspecs):
        keys = gen_keys(rng, ncols)
        pairs = limit_pairs(n)
        if pair_budget and len(pairs) > pair_budget:
            must = [p for p in pairs if p in ((0, None), (0, 1), (0, n - 1), (1, None), (1, n), (n - 1, 1))]
            rest = [p for p in pairs if p not in must]
            pairs = must + rng.sample(rest, max(0, pair_budget - len(must)))
        for skip, fetch in pairs:
            q = ("sort", tbl(0, t), keys)
            if skip or fetch is not None:
                q = ("limit", q, skip, fetch)
            qs.append({"q": q, "kind": {"shape": shape_of(True, skip, fetch), "nkeys": len(keys),
                                         "keys": [("DESC" if d else "ASC") + {None: "", True: " NULLS FIRST", False: " NULLS LAST"}[nf]
                                                  + ":" + types[e[1]] for e, d, nf in keys]}})
    # LIMIT / OFFSET without ORDER BY
    for skip, fetch in rng.sample([p for p in limit_pairs(n) if p != (0, None)], min(6, len(limit_pairs(n)) - 1)):
        qs.append({"q": ("limit", tbl(0, t), skip, fetch), "kind": {"shape": shape_of(False, skip, fetch), "nkeys": 0, "keys": []}})
    info = {"config": config, "layout": layout, "memory_limit": memory_limit, "rows": n, "types": types,
            "batches": t["batch_sizes"], "parquet": t.get("parquet")}
    if memory_limit is not None and layout == "memory":
        info["spills"], info["runs"] = expected_runs(types, rows, t["batch_sizes"], memory_limit)
    return {"tables": [t], "queries": qs, "info": info}

# ---- runs longer than the merge buffer (MERGE_BUFFER_ROWS = 8192 in ExternalSortExec::merge_runs). Insertion-sorting 10^4 rows
# inside Coq is out of reach, so these few statements use UNIQUE non-NULL integer keys: the ordered answer is then fully
# determined (no ties), and the reference below is the same comparator on that trivial case (sort by the integer, reversed for
# DESC; slice skip..skip+fetch), i.e. sort_rows / limit_spec of the model restricted to unique keys.
MERGE_BUFFER_ROWS = 8192

def long_run_groups(rng, quick):
    layouts = [([MERGE_BUFFER_ROWS + 808, 10], False, "sequential"), ([MERGE_BUFFER_ROWS + 300, MERGE_BUFFER_ROWS + 200], True, "shuffled")]
    if not quick:
        layouts += [([MERGE_BUFFER_ROWS + 5, 3000, MERGE_BUFFER_ROWS * 2 + 7], False, "shuffled"), ([100, MERGE_BUFFER_ROWS + 1], True, "shuffled"),
                    ([2 * MERGE_BUFFER_ROWS + 100], False, "shuffled")]
    groups = []
    for sizes, desc, how in layouts:
        n = sum(sizes)
        keys = list(range(n))
        if how == "shuffled":
            rng.shuffle(keys)
        else:       # first batch holds the large keys in descending order, the last batch the smallest keys
            keys = list(range(sizes[-1], n))[::-1] + list(range(sizes[-1]))
        rows = [[k, "p%d" % (k % 7)] for k in keys]
        t = {"name": "tl", "types": ["i64", "str"], "rows": rows, "batch_sizes": sizes}
        qs = []
        # (the row-at-a-time merge needs several seconds per statement on runs of this length)
        pairs = [(0, None), (0, 5), (0, n - 1), (3, None), (n - 4, 10), (MERGE_BUFFER_ROWS - 2, 6)]
        if quick:
            pairs = [(0, None), (MERGE_BUFFER_ROWS - 2, 6)] if not groups else [(3, None), (0, 5)]
        for skip, fetch in pairs:
            q = ("sort", tbl(0, t), [(col(0), desc, None)])
            if skip or fetch is not None:
                q = ("limit", q, skip, fetch)
            qs.append({"q": q, "skip": skip, "fetch": fetch, "desc": desc,
                       "kind": {"shape": shape_of(True, skip, fetch), "nkeys": 1, "keys": [("DESC" if desc else "ASC") + ":i64"]}})
        groups.append({"tables": [t], "queries": qs,
                       "info": {"config": "long-run", "layout": "memory", "memory_limit": 4096, "rows": n, "types": t["types"],
                                "batches": sizes, "parquet": None, "spills": True, "runs": len(sizes)}})
    return groups

def run_long(groups):
    cases = [{"tables": [relcheck.table_spec(t["name"], t["types"], t["rows"], t["batch_sizes"]) for t in g["tables"]],
              "queries": [sqlq.to_sql(x["q"]) for x in g["queries"]], "memory_limit": 4096} for g in groups]
    outs = vlib.run_harness("sql", cases, timeout=3000)
    results = []
    for gi, (g, c, o) in enumerate(zip(groups, cases, outs)):
        full = sorted(g["tables"][0]["rows"], key=lambda r: r[0])
        for qi, x in enumerate(g["queries"]):
            ref = full[::-1] if x["desc"] else full
            want = ref[x["skip"]:(None if x["fetch"] is None else x["skip"] + x["fetch"])]
            res = o["results"][qi] if "results" in o else {"err": str(o)}
            r = {"group": gi, "kind": dict(x["kind"], config="long-run", batch_sizes=g["tables"][0]["batch_sizes"], memory_limit=4096,
                                           table="c0 = the unique integers 0..n-1 (order: see long_run_groups), c1 = 'p' || (c0 % 7)"),
                 "sql": c["queries"][qi], "q": x["q"], "classes": [], "known": False, "info": g["info"],
                 "n_model_rows": len(want), "n_sql_rows": len(want), "status": "ran"}
            if "ok" in res:
                got = sqlq.rows_from_impl(res["ok"])
                good = got == want
                r.update(eq=good, ok=good, impl_rows=len(got))
                if not good:
                    i = next((i for i, (a, b) in enumerate(zip(got, want)) if a != b), min(len(got), len(want)))
                    r["detail"] = {"impl_row_count": len(got), "expected_row_count": len(want), "first_difference_at": i,
                                   "impl": got[max(0, i - 2):i + 6], "sql": want[max(0, i - 2):i + 6],
                                   "distinct_keys_in_impl": len({a[0] for a in got})}
            elif "err" in res:      # an error is not a wrong answer (same policy as relcheck)
                r.update(status="engine-error", detail=res)
            else:                   # a panic inside the merge is not an answer either, but it is not an SQL error: report it
                r.update(eq=False, ok=False, detail=res)
            results.append(r)
    return results

def run(ctx):
    proved = ctx.prove()
    rng = ctx.rng
    plan = [("memory", None, [gen_group(rng, "memory") for _ in range(ctx.n(4, 60))]),
            ("parquet", None, [gen_group(rng, "parquet") for _ in range(ctx.n(3, 40))])]
    for ml in (64, 128, 256, 1024, 4096):
        k = ctx.n(2 if ml == 64 else 1, 12) if ml <= 256 else ctx.n(1, 4)
        plan.append((f"spill-{ml}", ml, [gen_group(rng, f"spill-{ml}", ml, pair_budget=(None if ml <= 256 else 12)) for _ in range(k)]))
    results = []
    relcheck.sort_info = _sort_info_c25
    try:
        for name, ml, groups in plan:
            rs = relcheck.run_rel(ctx, "c25_" + name.replace("-", "_"), groups,
                                  extra_case=({"memory_limit": ml} if ml is not None else None))
            for r in rs:
                g = groups[r["group"]]
                # the violation record must be replayable on its own: carry table + configuration with the statement
                r["kind"] = dict(r["kind"], config=name)
                r["info"] = g["info"]
                if not (r.get("ok", True) and r.get("eq", True)) or r["status"] != "ran":
                    r["kind"] = dict(r["kind"], table={k: g["tables"][0][k] for k in ("types", "rows", "batch_sizes")},
                                     parquet=g["tables"][0].get("parquet"), memory_limit=ml)
            results += rs
    finally:
        relcheck.sort_info = _orig_sort_info
    long_groups = long_run_groups(rng, ctx.quick)
    results += run_long(long_groups)
    plan.append(("long-run", 4096, long_groups))
    ran, errs = relcheck.judge_rel(ctx, results)

    def bump(d, k):
        d[k] = d.get(k, 0) + 1
    by_cfg, by_shape, by_key, by_nkeys, runs_hist = {}, {}, {}, {}, {}
    for r in results:
        bump(by_cfg, r["kind"]["config"])
        bump(by_shape, r["kind"]["config"].split("-")[0] + " / " + r["kind"]["shape"])
        bump(by_nkeys, r["kind"]["nkeys"])
        for k in r["kind"]["keys"]:
            bump(by_key, k)
    spill_stmts = 0
    for name, ml, groups in plan:
        for g in groups:
            i = g["info"]
            if i.get("spills"):
                bump(runs_hist, f"{min(i['runs'], 9)}{'+' if i['runs'] >= 9 else ''} runs")
                spill_stmts += sum(1 for x in g["queries"] if x["kind"]["nkeys"] > 0)
    ctx.cov["input_distribution"] = {
        "statements_by_configuration": by_cfg, "statements_by_configuration_and_shape": by_shape,
        "sort_statements_by_key_count": by_nkeys, "sort_keys_by_direction_nulls_type": by_key,
        "tables": sum(len(g) for _, _, g in plan),
        "tables_by_row_count": {str(n): sum(1 for _, _, gs in plan for g in gs if g["info"]["rows"] == n)
                                for n in sorted({g["info"]["rows"] for _, _, gs in plan for g in gs})},
        "parquet_tables": sum(1 for _, _, gs in plan for g in gs if g["info"]["layout"] == "parquet"),
        "memory_tables_expected_to_spill_by_run_count": runs_hist,
        "sort_statements_on_tables_expected_to_spill": spill_stmts,
        "in_known_class": sum(1 for r in results if r["classes"])}
    ctx.cov["distinct_nontrivial"] = len({(r["sql"], r["kind"]["config"], r["group"]) for r in ran if r["info"]["rows"] >= 2})
    for name, ml, groups in plan[:3] + plan[-2:-1]:
        g = groups[0]
        ctx.sample({"config": name, "memory_limit": ml, "info": g["info"], "sql": sqlq.to_sql(g["queries"][1]["q"]),
                    "rows": g["tables"][0]["rows"][:6]})
    if not proved and not ctx.violations:
        ctx.proof_broken_violation(f"{len(results)} ORDER BY / LIMIT / OFFSET statements")
    return ctx.finish(
        rule="tables of 2-4 nullable columns over int/double/string/date (NULL density 0-50%, small value domains and copied key "
             "prefixes => many ties), 0..17 rows (more under a memory limit so that 0.8*limit is exceeded), as random memory batch "
             "splits / Parquet files with row groups of 1-5 rows / under memory_limit 64..4096 (spilled sort with several runs); "
             "x 1-3 sort keys with random ASC/DESC and NULLS FIRST/LAST/default x every (OFFSET, LIMIT) from {none,0,1,n-1,n,n+1}^2 "
             "(a sample of 12 pairs for the two largest limits) + LIMIT/OFFSET without ORDER BY; ordered answers compared up to ties "
             "(key sequence = reference's, rows a sub-bag of the full sort); + long-run: 2 (thorough: 5) tables of 8.2k-25k rows "
             "with unique integer keys whose sorted runs exceed the 8192-row merge buffer, 2 (thorough: 6) ORDER BY [LIMIT/OFFSET] statements each, "
             "compared exactly; non-trivial = table has >= 2 rows, distinct by "
             "(statement, configuration, table)",
        assumptions=["doubles are exact dyadic values (no NaN, no -0.0): NaN ordering is out of scope",
                     "sort keys are plain output columns", "LIMIT/OFFSET are literals (a non-literal is rejected by the binder)",
                     "long-run statements (runs > 8192 rows) are judged against the unique-key special case of the reference "
                     "computed in python, not by evaluating the Gallina sort on 10^4 rows",
                     "whether a statement really took the spilled path is inferred from the engine's own size estimate "
                     "(python copy of estimate_batch_size), not observed"])

def replay(ctx, obj):
    print("failing case:", obj.get("case")); return run(ctx)
