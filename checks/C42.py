"""C42 — cpulists parse to the set they denote; workers_for bounds.
Theorems in coq/theories/Props/C42.v; correspondence: topology::parse_cpulist (hook verif_parse_cpulist) and
topology::workers_for vs C42.Model on (1) rendered cpulists with arbitrary grouping / leading zeros / Unicode
whitespace / junk parts, (2) a separate mutated + random text stream, (3) work/pool pairs."""
import re
import vlib
from vlib import zlit, zlist

REQ = "From QV Require Import Bytes.ByteStr C42.Model."
U64 = 2 ** 64
WS = [32, 32, 32, 9, 10, 13, 11, 12, 0x85, 0xA0, 0x1680, 0x2003, 0x200A, 0x2028, 0x202F, 0x205F, 0x3000]
JUNK = ["", " ", "\t ", "x", "1x", "0x10", "a-b", "é", "1–2", "1.5", "٣", "１", "cpu0", "3-4;", "1_2",
        "​", "7​", "1-2-x", "\U0001F600", "#", "4 5x"]
MAX_ELEMS = 4000      # never hand the real parser (or Coq) more than this many CPUs in total


def pad(rng):
    return [rng.choice(WS) for _ in range(rng.choice([0, 0, 0, 1, 1, 2]))]


def dec(n):
    return [ord(c) for c in str(n)]


def gen_num(rng, style):
    if style == "big":
        return rng.choice([U64 - 1, U64 - 2, U64 - 70, 2 ** 63, 2 ** 32, 10 ** 19, rng.randint(0, U64 - 1)])
    if style == "kernel":
        return rng.randint(0, 255)
    return rng.randint(0, 40)


def gen_item(rng, style):
    z = rng.choice([0, 0, 0, 0, 1, 2, 19])
    if rng.random() < 0.5:
        return {"t": "single", "n": gen_num(rng, style), "z": z, "w": [pad(rng), pad(rng)]}
    a = gen_num(rng, style)
    width = rng.choice([0, 1, 2, 3, 7, 16, 40]) if rng.random() < 0.85 else -rng.randint(1, 5)   # reversed: empty
    b = min(max(a + width, 0), U64 - 1)
    return {"t": "range", "a": a, "b": b, "za": z, "zb": rng.choice([0, 0, 1, 3]), "w": [pad(rng) for _ in range(4)]}


def render_item(it):
    if it["t"] == "single":
        return it["w"][0] + [48] * it["z"] + dec(it["n"]) + it["w"][1]
    w = it["w"]
    return w[0] + [48] * it["za"] + dec(it["a"]) + w[1] + [45] + w[2] + [48] * it["zb"] + dec(it["b"]) + w[3]


def gen_struct(rng):
    style = rng.choice(["small", "small", "kernel", "kernel", "big"])
    kernel_clean = rng.random() < 0.25          # exactly what /sys prints: no pads, no zeros, trailing newline
    n = rng.choice([0, 1, 1, 2, 3, 4, 6, 9])
    segs = []
    for _ in range(n):
        if not kernel_clean and rng.random() < 0.2:
            segs.append({"t": "junk", "j": [ord(c) for c in rng.choice(JUNK)]})
        else:
            it = gen_item(rng, style)
            if kernel_clean:
                if it["t"] == "single":
                    it["z"] = 0
                else:
                    it["za"] = it["zb"] = 0
                it["w"] = [[] for _ in it["w"]]
            segs.append(it)
    if kernel_clean and segs:
        last = segs[-1]
        last["w"][-1] = [10]
    s = []
    for i, sg in enumerate(segs):
        if i:
            s.append(44)
        s += sg["j"] if sg["t"] == "junk" else render_item(sg)
    return {"k": "cpulist", "mode": "struct", "segs": segs, "s": s}


ALPH = [ord(c) for c in "0123456789,,--+ \t\nx"] + [0xA0, 0x2003, 0xE9, 0x663]
SPECIALS = ["+5", "5-", "-5", "-", "1-2-3", "18446744073709551615", "18446744073709551616", "0000000000000000000000001",
            "1 - 2", "1 -2", "+1-+3", "1,,2", ",", "", " ", "3-1", "++1", "+", "1-+", "0-0", " 7 ", " 7　, 8",
            "18446744073709551614-18446744073709551615", "18446744073709551615-18446744073709551616", "5,5,5", "9,1,5-6,1",
            "0-3,8,10-11\n", "1 - 2", "1\x1f", "\x1c2", "1\x0b,\x0c2", "1-\n3"]


def est_elems(s):
    """Conservative upper bound on how many CPUs the real parser would push for this text."""
    text = "".join(chr(c) for c in s)
    tot = 0
    for part in text.split(","):
        runs = [int(r) for r in re.findall(r"[0-9]+", part)]
        if "-" in part:
            if len(runs) == 2:
                tot += max(0, runs[1] - runs[0] + 1)
        else:
            tot += 1
    return tot


def gen_raw(rng, i):
    if i < len(SPECIALS):
        return {"k": "cpulist", "mode": "raw", "s": [ord(c) for c in SPECIALS[i]]}
    for _ in range(50):
        if rng.random() < 0.6:
            s = list(gen_struct(rng)["s"])
            for _ in range(rng.randint(1, 3)):
                op = rng.choice(["del", "ins", "rep", "dup"])
                pos = rng.randint(0, max(len(s) - 1, 0))
                if op == "del" and s:
                    del s[pos]
                elif op == "ins":
                    s.insert(pos, rng.choice(ALPH))
                elif op == "rep" and s:
                    s[pos] = rng.choice(ALPH)
                elif op == "dup" and s:
                    s = s[:pos] + s[pos:pos + 3] + s[pos:]
        else:
            s = [rng.choice(ALPH) for _ in range(rng.randint(0, 14))]
        if est_elems(s) <= MAX_ELEMS:
            return {"k": "cpulist", "mode": "raw", "s": s}
    return {"k": "cpulist", "mode": "raw", "s": []}


def gen_workers(rng):
    pick = lambda: rng.choice([0, 0, 1, 1, 2, 3, 7, 8, 16, 64, 1000, 2 ** 32, 2 ** 63, U64 - 1, rng.randint(0, 100)])
    return {"k": "workers", "work": pick(), "pool": pick()}


def seg_term(sg):
    if sg["t"] == "junk":
        return f"(inr {zlist(sg['j'])})"
    if sg["t"] == "single":
        return f"(inl (Single {zlit(sg['n'])} {sg['z']}%nat {zlist(sg['w'][0])} {zlist(sg['w'][1])}))"
    w = sg["w"]
    return (f"(inl (Range {zlit(sg['a'])} {zlit(sg['b'])} {sg['za']}%nat {sg['zb']}%nat "
            f"{zlist(w[0])} {zlist(w[1])} {zlist(w[2])} {zlist(w[3])}))")


def case_term(c, o):
    if c["k"] == "workers":
        if "w" not in o:
            return "[false; false; true; true]"
        return (f"[{zlit(o['w'])} =? workers_for {zlit(c['work'])} {zlit(c['pool'])}; "
                f"workers_spec_ok {zlit(c['work'])} {zlit(c['pool'])} {zlit(o['w'])}; true; true]")
    if "out" not in o:
        return "[false; false; true; true]"
    impl = zlist(o["out"])
    if c["mode"] == "struct":
        segs = "[" + "; ".join(seg_term(s) for s in c["segs"]) + "]"
        return (f"(let s := {zlist(c['s'])} in let segs : list seg := {segs} in let impl := {impl} in "
                f"[out_eqb impl (parse_cpulist s); spec_ok segs impl; forallb seg_ok segs; list_eqb Z.eqb (render segs) s])")
    return f"(let impl := {impl} in [out_eqb impl (parse_cpulist {zlist(c['s'])}); spec_ok_raw impl; true; true])"


def evaluate(ctx, cases):
    outs = vlib.run_harness("c42", cases)
    vals = vlib.coq_eval_list(REQ, "", [case_term(c, o) for c, o in zip(cases, outs)], "c42", shard=50)
    eq = [bool(v[0]) for v in vals]
    ok = [bool(v[1]) and o.get("repeat_same", True) for v, o in zip(vals, outs)]
    gen_ok = [bool(v[2]) and bool(v[3]) for v in vals]
    return outs, eq, ok, gen_ok


def run(ctx):
    proved = ctx.prove()
    n = ctx.n(800, 8000)
    if not proved:
        n += 3000
    cases = []
    for i in range(n):
        r = i % 10
        if r < 5:
            c = gen_struct(ctx.rng)
            while est_elems(c["s"]) > MAX_ELEMS:
                c = gen_struct(ctx.rng)
            cases.append(c)
        elif r < 9:
            cases.append(gen_raw(ctx.rng, len([x for x in cases if x.get("mode") == "raw"])))
        else:
            cases.append(gen_workers(ctx.rng))
    outs, eq, ok, gen_ok = evaluate(ctx, cases)
    if not all(gen_ok):
        bad = cases[gen_ok.index(False)]
        raise RuntimeError(f"C42 generator produced a case outside the theorem's hypotheses / renderer mismatch: {bad}")
    ctx.cov["evaluations"] = len(cases)
    seen = set()
    for c in cases:
        if c["k"] == "cpulist" and c["mode"] == "struct" and sum(1 for s in c["segs"] if s["t"] != "junk") >= 2:
            seen.add(tuple(c["s"]))
    ctx.cov["distinct_nontrivial"] = len(seen)
    st = [c for c in cases if c.get("mode") == "struct"]
    ctx.cov["input_distribution"] = {
        "structured": len(st), "raw_or_mutated": sum(1 for c in cases if c.get("mode") == "raw"),
        "workers_pairs": sum(1 for c in cases if c["k"] == "workers"),
        "structured_with_junk": sum(1 for c in st if any(s["t"] == "junk" for s in c["segs"])),
        "structured_with_range": sum(1 for c in st if any(s["t"] == "range" for s in c["segs"])),
        "structured_with_reversed_range": sum(1 for c in st if any(s["t"] == "range" and s["a"] > s["b"] for s in c["segs"])),
        "structured_with_unicode_ws": sum(1 for c in st if any(x > 127 and x in WS for x in c["s"])),
        "structured_with_value_ge_2^32": sum(1 for c in st if any((s.get("n", 0) >= 2 ** 32 or s.get("b", 0) >= 2 ** 32) for s in c["segs"])),
        "max_output_len": max([len(o.get("out", [])) for o in outs] + [0]),
        "raw_nonempty_result": sum(1 for c, o in zip(cases, outs) if c.get("mode") == "raw" and o.get("out")),
        "workers_with_zero": sum(1 for c in cases if c["k"] == "workers" and (c["work"] == 0 or c["pool"] == 0))}
    for c, o in list(zip(cases, outs))[:12:4]:
        ctx.sample({"input": {k: v for k, v in c.items() if k != "segs"}, "text": "".join(chr(x) for x in c.get("s", [])), "impl_output": o})
    ctx.judge(cases, eq, ok, impl_outs=outs)
    if not proved and not ctx.violations:
        ctx.proof_broken_violation(f"{len(cases)} generated cpulists / work-pool pairs, none violates the executable spec")
    return ctx.finish(
        rule="50% cpulists rendered from random singletons/ranges (values up to 2^64-1, reversed ranges, overlaps, leading zeros, "
             "ASCII+Unicode whitespace pads, junk parts; a quarter in exact /sys format), 40% mutated renderings + random text over "
             "[0-9,-+ws x] + fixed edge strings, 10% work/pool pairs incl. 0 and 2^64-1; total CPUs per text capped at "
             f"{MAX_ELEMS} (the parser materialises ranges); non-trivial = structured with >=2 items, distinct by text",
        assumptions=["input is a valid &str (the harness builds it from Unicode scalar values); usize is 64-bit",
                     "sort_unstable+dedup on integers equals stable insertion sort + adjacent dedup (total order on usize)",
                     "ranges wider than the cap are not executed: a cpulist such as 0-18446744073709551615 makes the real "
                     "parser allocate the whole range (resource exhaustion, outside what the model can exhibit)"])


def replay(ctx, obj):
    c = obj.get("case") or obj.get("first_differing_case")
    outs, eq, ok, gen_ok = evaluate(ctx, [c])
    print("impl_output:", outs[0]); print("impl_equals_model:", eq[0], "spec_ok:", ok[0])
    return 0 if ok[0] and eq[0] else 1
