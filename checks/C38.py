"""C38 — vector distance kernels.  Theorems: coq/theories/Props/C38.v (exact arithmetic; float rounding NOT bounded).
Correspondence: harness c38 (real distance_column / distance_columns / query_vector_from_scalar on
FixedSizeList<Float32>) vs C38.Model: exact pre-sqrt quantities from Coq, (a) finished in binary64 by CPython and
compared bit-for-bit when every f32 operation is exact, (b) compared through the Coq spec (squared comparisons,
relative tolerance 1e-5), plus a bit-exact CPython emulation of the transcribed f32 lane structure for all inputs."""
import math, os, re, struct
import vlib
from vlib import zlit

REQ = "From QV Require Import Base.Util C38.Model."
PRELUDE = ("Definition b2z (b : bool) : Z := if b then 1 else 0.\n"
           "Definition flat (m : option (list (option exact))) : list (list Z) :=\n"
           "  match m with None => [[-1]] | Some l => map (fun o => match o with None => [] | Some x => exact_list x end) l end.\n")
KIND = {"l2": "L2", "cosine": "Cosine", "cosine_similarity": "CosineSim", "dot": "Dot"}
AXIOMS = ["ClassicalDedekindReals.sig_forall_dec", "ClassicalDedekindReals.sig_not_dec",
          "FunctionalExtensionality.functional_extensionality_dep"]


def read_lanes():
    src = open(os.path.join(vlib.REPO, "src/physical/vector.rs")).read()
    m = re.search(r"fn dot\(.*?fn norm\(", src, re.S)          # the bodies of fn dot and fn l2_sq
    if not m:
        return None
    src = m.group(0)
    a = re.findall(r"let mut acc = \[0f32;\s*(\d+)\]", src)
    c = re.findall(r"chunks_exact\((\d+)\)", src)
    l = re.findall(r"for i in 0\.\.(\d+)\s*\{", src)
    vals = set(a + c + l)
    if len(a) != 2 or len(c) != 4 or len(vals) != 1:
        return None
    return int(vals.pop())


# ---------------- binary32 / binary64 helpers ----------------
def r32(x):
    return struct.unpack("<f", struct.pack("<f", x))[0]


def f32bits(x):
    return struct.unpack("<I", struct.pack("<f", x))[0]


def f64bits(x):
    return struct.unpack("<Q", struct.pack("<d", x))[0]


def b64(x):
    return struct.unpack("<d", struct.pack("<Q", x))[0]


def emu_sum(W, a, b, l2):
    """the transcribed f32 lane structure, every operation rounded as the hardware does"""
    acc = [0.0] * W
    n = len(a) // W * W
    for j in range(0, n, W):
        for i in range(W):
            if l2:
                d = r32(a[j + i] - b[j + i])
                acc[i] = r32(acc[i] + r32(d * d))
            else:
                acc[i] = r32(acc[i] + r32(a[j + i] * b[j + i]))
    s = 0.0
    for v in acc:
        s += v
    for x, y in zip(a[n:], b[n:]):
        if l2:
            d = r32(x - y)
            s += r32(d * d)
        else:
            s += r32(x * y)
    return s


def finish(kind, dot, l2, na2, nb2):
    """binary64 tail of distance_column(s) from the four accumulated sums"""
    if kind == "l2":
        return math.sqrt(l2)
    if kind == "dot":
        return dot
    denom = math.sqrt(na2) * math.sqrt(nb2)
    sim = 0.0 if denom == 0.0 else dot / denom
    return 1.0 - sim if kind == "cosine" else sim


def emu_row(W, kind, a, b):
    return finish(kind, emu_sum(W, a, b, False) if kind != "l2" else 0.0, emu_sum(W, a, b, True) if kind == "l2" else 0.0,
                  emu_sum(W, a, a, False) if kind.startswith("cos") else 0.0,
                  emu_sum(W, b, b, False) if kind.startswith("cos") else 0.0)


# ---------------- generation ----------------
def gen_val(rng, regime):
    if regime == "exact":                       # k/16, |k| <= 64: every f32 product and partial sum is exact up to dim 1024
        return rng.choice([0, 0, 1, -1, 16, rng.randint(-64, 64), rng.randint(-64, 64)]) / 16.0
    return rng.randint(-(2**24) + 1, 2**24 - 1) / float(2**24)      # 24-bit mantissas: products and sums round in f32


def gen_vec(rng, regime, d, style):
    if style == "zero":
        return [0.0] * d
    if style == "unit":
        v = [0.0] * d
        if d:
            v[rng.randrange(d)] = 1.0
        return v
    return [gen_val(rng, regime) for _ in range(d)]


def gen_fsl(rng, regime, d, n):
    off = rng.choice([0, 0, 1, 2, 5])
    tail = rng.choice([0, 0, 1])
    total = off + n + tail
    valid = [rng.random() < 0.8 for _ in range(total)]
    if rng.random() < 0.3:
        valid = [True] * total
    vals = []
    for r in range(total):
        vals += gen_vec(rng, regime, d, rng.choice(["rand", "rand", "rand", "rand", "zero", "unit"]))
    a = {"dim": d, "vals": vals, "valid": valid, "off": off, "len": n}
    if rng.random() < 0.2:
        a["force_nullbuf"] = True
    if n >= 2 and rng.random() < 0.2:
        o2 = rng.randint(0, n - 1)
        a["slice2"] = [o2, rng.randint(0, n - o2)]
    if rng.random() < 0.15:
        a["via_data"] = True
    return a


DIMS_SMALL = [1, 2, 3, 4, 7, 8, 9, 15, 16, 17, 23, 24, 25, 31, 32, 33]
DIMS_BIG = [63, 64, 65, 100, 128, 384, 1000, 1023, 1024]


def gen_case(rng, quick):
    regime = rng.choice(["exact", "exact", "general"])
    d = rng.choice(DIMS_SMALL) if rng.random() < (0.85 if quick else 0.6) else rng.choice(DIMS_BIG)
    n = rng.choice([0, 1, 2, 3, 4, 6]) if d <= 64 else rng.choice([1, 2, 3])
    kind = rng.choice(["l2", "cosine", "cosine_similarity", "dot"])
    c = {"kind": kind, "regime": regime, "col": gen_fsl(rng, regime, d, n)}
    r = rng.random()
    if r < 0.45:
        c["op"] = "column"
        qd = d if rng.random() < 0.9 else max(0, d + rng.choice([-1, 1, 8]))
        c["query"] = gen_vec(rng, regime, qd, rng.choice(["rand", "rand", "rand", "zero", "unit"]))
    elif r < 0.6:
        c["op"] = "column"
        qd = d if rng.random() < 0.9 else d + 1
        kinds, vals = [], []
        for _ in range(qd):
            k = rng.choice(["f64", "f64", "f32", "i64", "i32", "u8"])
            if rng.random() < 0.02:
                k = rng.choice(["utf8", "null"])
            kinds.append(k)
            if k == "f64":
                vals.append(gen_val(rng, regime) if rng.random() < 0.8 or regime == "exact" else rng.choice([0.1, 1.0 / 3.0, -0.7]))
            elif k == "f32":
                vals.append(gen_val(rng, regime))
            elif k in ("i64", "i32"):
                vals.append(rng.randint(-4, 4))
            elif k == "u8":
                vals.append(rng.randint(0, 4))
            elif k == "utf8":
                vals.append("x")
            else:
                vals.append(0)
        c["lit"] = {"kinds": kinds, "vals": vals}
    else:
        c["op"] = "columns"
        rd = d if rng.random() < 0.9 else d + rng.choice([1, 8])
        rn = len_of(c["col"]) if rng.random() < 0.9 else len_of(c["col"]) + 1
        c["right"] = gen_fsl(rng, regime, rd, rn)
        c["right"].pop("slice2", None)
    # a quarter of the cases are scaled, as a whole and exactly (x 2^-14), to small magnitudes: |a||b| is then far below
    # f32::EPSILON although no vector is zero, so a zero-vector guard written as a threshold misfires (added after seeded change
    # seeded/C38). Scaling by a power of two keeps every f32 operation of the 'exact' regime exact. Literals with integer
    # elements cannot be scaled and are left alone.
    if rng.random() < 0.25 and not ("lit" in c and any(k not in ("f32", "f64") for k in c["lit"]["kinds"])):
        k = 2.0 ** -14
        c["col"]["vals"] = [v * k for v in c["col"]["vals"]]
        if "query" in c:
            c["query"] = [v * k for v in c["query"]]
        if "right" in c:
            c["right"]["vals"] = [v * k for v in c["right"]["vals"]]
        if "lit" in c:
            c["lit"]["vals"] = [v * k for v in c["lit"]["vals"]]
        c["tiny"] = True
    return c


def len_of(a):
    return a["slice2"][1] if "slice2" in a else a["len"]


def lit_query(lit):
    """expected Vec<f32> of query_vector_from_scalar, or None"""
    out = []
    for k, v in zip(lit["kinds"], lit["vals"]):
        if k in ("utf8", "null"):
            return None
        out.append(r32(float(v)))
    return out


def wire(c):
    """case as sent to the harness: floats become bit patterns"""
    def fsl(a):
        b = dict(a)
        b["vals"] = [f32bits(x) for x in a["vals"]]
        return b
    w = {"op": c["op"], "kind": c["kind"], "col": fsl(c["col"])}
    if "query" in c:
        w["query"] = [f32bits(x) for x in c["query"]]
    if "right" in c:
        w["right"] = fsl(c["right"])
    if "lit" in c:
        vals = []
        for k, v in zip(c["lit"]["kinds"], c["lit"]["vals"]):
            vals.append(f64bits(v) if k == "f64" else f32bits(v) if k == "f32" else v)
        w["lit"] = {"kinds": c["lit"]["kinds"], "vals": vals}
    return w


# ---------------- model-side view ----------------
def rows_of(a):
    d = a["dim"]
    rows = [(a["vals"][i * d:(i + 1) * d], a["valid"][i]) for i in range(len(a["valid"]))]
    rows = rows[a["off"]:a["off"] + a["len"]]
    if "slice2" in a:
        rows = rows[a["slice2"][0]:a["slice2"][0] + a["slice2"][1]]
    return rows


def scale_for(values):
    s = 0
    for v in values:
        q = v.as_integer_ratio()[1]
        s = max(s, q.bit_length() - 1)
    return s


def num(v, S):
    p, q = v.as_integer_ratio()
    return p * ((1 << S) // q)


def fsl_term(a, S):
    vals = "[" + "; ".join(zlit(num(v, S)) for v in a["vals"]) + "]"
    valid = "[" + "; ".join("true" if b else "false" for b in a["valid"]) + "]"
    t = f"(fsl_slice {a['off']} {a['len']} (mkFsl {a['dim']} {vals} {valid}))"
    if "slice2" in a:
        t = f"(fsl_slice {a['slice2'][0]} {a['slice2'][1]} {t})"
    return t


def impl_term(res):
    if "err" in res:
        return "None"
    items = []
    for b in res["ok"]:
        if b is None:
            items.append("INull")
        else:
            f = b64(b)
            if f != f or f in (float("inf"), float("-inf")):
                items.append("IBad")
            else:
                p, q = f.as_integer_ratio()
                items.append(f"(IVal {zlit(p)} {q})")
    return "(Some [" + "; ".join(items) + "])"


def case_term(c, o, W, query):
    if "res" not in o:
        return "[[0]]"
    allv = list(c["col"]["vals"]) + list(query or []) + (list(c["right"]["vals"]) if "right" in c else [])
    S = scale_for(allv)
    c["_S"] = S
    tol = "(mkTol 1 100000 1 1125899906842624)" if c["kind"] == "cosine" else "(mkTol 1 100000 0 1)"
    if c["op"] == "columns":
        m = f"(distance_columns {W} {fsl_term(c['col'], S)} {fsl_term(c['right'], S)})"
    else:
        q = "[" + "; ".join(zlit(num(v, S)) for v in query) + "]"
        m = f"(distance_column {W} {fsl_term(c['col'], S)} {q})"
    return (f"(let m := {m} in [b2z (result_ok {KIND[c['kind']]} {tol} {1 << S} m {impl_term(o['res'])})] :: flat m)")


def evaluate(ctx, cases, W):
    outs = vlib.run_harness("c38", [wire(c) for c in cases])
    queries, terms, idx = [], [], []
    for i, (c, o) in enumerate(zip(cases, outs)):
        q = c.get("query")
        if "lit" in c:
            q = lit_query(c["lit"])
        queries.append(q)
        if "lit" in c and q is None:
            continue                                       # literal with a non-numeric element: no distance is computed
        terms.append(case_term(c, o, W, q)); idx.append(i)
    vals = vlib.coq_eval_list(REQ, PRELUDE, terms, "c38", shard=12)
    byi = dict(zip(idx, vals))
    eq, ok = [], []
    stats = {"bit_exact_rows": 0, "tolerance_rows": 0, "null_rows": 0, "errors": 0, "max_rel_err": 0.0}
    for i, (c, o) in enumerate(zip(cases, outs)):
        q = queries[i]
        if "lit" in c and q is None:
            good = bool(o.get("lit_none"))
            eq.append(good); ok.append(good); continue
        v = byi[i]
        if "res" not in o or len(v[0]) != 1 or (v[0][0] not in (0, 1)):
            eq.append(False); ok.append(False); continue
        good = bool(v[0][0])
        e = True
        if "lit" in c:
            e = e and o.get("query_bits") == [f32bits(x) for x in q]
        model = v[1:]
        res = o["res"]
        if model == [[-1]]:
            e = e and "err" in res
            stats["errors"] += 1
        elif "err" in res or len(res["ok"]) != len(model):
            e = False
        else:
            lrows = rows_of(c["col"])
            rrows = rows_of(c["right"]) if c["op"] == "columns" else None
            den2 = float(1 << (2 * c["_S"]))
            for j, (mrow, b) in enumerate(zip(model, res["ok"])):
                if mrow == []:
                    e = e and b is None
                    stats["null_rows"] += 1
                    continue
                if b is None:
                    e = False
                    continue
                a = lrows[j][0]
                bb = q if rrows is None else rrows[j][0]
                emu = emu_row(W, c["kind"], a, bb)
                e = e and f64bits(emu) == b                          # transcribed f32 structure, bit for bit
                N, L, NA, NB, SA = mrow
                if c["regime"] == "exact":
                    fin = finish(c["kind"], N / den2, L / den2, NA / den2, NB / den2)   # Coq's exact sums, binary64 tail
                    e = e and f64bits(fin) == b
                    stats["bit_exact_rows"] += 1
                else:
                    stats["tolerance_rows"] += 1
                    ref = finish(c["kind"], N / den2, L / den2, NA / den2, NB / den2)
                    if ref not in (0.0,) and ref == ref:
                        stats["max_rel_err"] = max(stats["max_rel_err"], abs(b64(b) - ref) / abs(ref))
        eq.append(e); ok.append(good)
    return outs, eq, ok, stats


def fixed_cases():
    F = lambda d, rows, valid=None, **kw: dict({"dim": d, "vals": [x for r in rows for x in r], "valid": valid or [True] * len(rows),
                                                "off": 0, "len": len(rows)}, **kw)
    out = []
    for k in ("l2", "cosine", "cosine_similarity", "dot"):
        out.append({"op": "column", "kind": k, "regime": "exact", "col": F(3, [[1.0, 2.0, 3.0], [0.0, 0.0, 0.0], [4.0, 5.0, 6.0]], [True, True, False]),
                    "query": [1.0, 0.0, 2.0]})
        out.append({"op": "column", "kind": k, "regime": "exact", "col": F(3, [[1.0, 2.0, 3.0]]), "query": [1.0, 0.0]})
        out.append({"op": "columns", "kind": k, "regime": "exact", "col": F(9, [[0.5] * 9, [1.0] * 9], off=1, len=1),
                    "right": F(9, [[0.25] * 9])})
        out.append({"op": "columns", "kind": k, "regime": "exact", "col": F(2, [[1.0, 1.0]]), "right": F(3, [[1.0, 1.0, 1.0]])})
    return out


def run(ctx):
    proved = ctx.prove(allow=AXIOMS)
    W = read_lanes()
    if W is None:
        ctx.violation({"kind": "correspondence-cannot-be-built: lane width not found / not uniform in src/physical/vector.rs"},
                      found_input=False, tag="lanes")
        return ctx.finish(rule="lane width extraction failed")
    same = vlib.coq_eval_list(REQ, PRELUDE, [f"[[b2z (Nat.eqb lanes {W})]]"], "c38lanes")[0][0][0]
    ctx.cov["lane_width_from_source"] = {"value": W, "equal_to_model_default": bool(same)}
    n = ctx.n(160, 4000)
    cases = fixed_cases() + [gen_case(ctx.rng, ctx.quick) for _ in range(n)]
    if not proved:
        cases += [gen_case(ctx.rng, ctx.quick) for _ in range(400)]
    outs, eq, ok, stats = evaluate(ctx, cases, W)
    ctx.cov["evaluations"] = len(cases)
    seen = set()
    for c in cases:
        if c["col"]["dim"] >= 2 and len_of(c["col"]) >= 1:
            seen.add(repr((c["op"], c["kind"], c["col"]["dim"], rows_of(c["col"]), c.get("query"), c.get("lit"),
                           rows_of(c["right"]) if "right" in c else None)))
    ctx.cov["distinct_nontrivial"] = len(seen)
    ctx.cov["input_distribution"] = {
        "dims": sorted(set(c["col"]["dim"] for c in cases)),
        "dims_not_multiple_of_lanes": sum(1 for c in cases if c["col"]["dim"] % W),
        "by_kind": {k: sum(1 for c in cases if c["kind"] == k) for k in KIND},
        "by_form": {"array_vs_vector": sum(1 for c in cases if "query" in c), "array_vs_literal": sum(1 for c in cases if "lit" in c),
                    "array_vs_array": sum(1 for c in cases if c["op"] == "columns")},
        "sliced": sum(1 for c in cases if c["col"]["off"] or "slice2" in c["col"]),
        "regime": {r: sum(1 for c in cases if c["regime"] == r) for r in ("exact", "general")}, **stats}
    for c, o in list(zip(cases, outs))[:2]:
        ctx.sample({"input": {k: v for k, v in c.items() if k != "_S"}, "impl_output": o})
    ctx.judge(cases, eq, ok, impl_outs=outs)
    if not proved and not ctx.violations:
        ctx.proof_broken_violation(f"{len(cases)} generated cases, none violates the executable spec")
    return ctx.finish(
        rule="FixedSizeList<Float32> columns, dims 1..33 and 63..1024 (incl. non-multiples of the lane width), 0..6 rows, NULL rows, "
             "zero/unit/random vectors, built longer and sliced (offset 0/1/2/5, slice of a slice, rebuilt from ArrayData); forms: "
             "array vs f32 vector, array vs ScalarValue::List literal (f64/f32/int elements), array vs array; all four kinds; "
             "dimension mismatches. 'exact' regime: components k/16, |k|<=64 (all f32 operations exact => bit-for-bit against the "
             "Coq sums finished in binary64); 'general' regime: 24-bit mantissas in (-1,1) (f32 rounding occurs => Coq spec with "
             "relative tolerance 1e-5, plus bit-for-bit against the CPython emulation of the transcribed lane structure); "
             "non-trivial = dim >= 2 and >= 1 row, distinct by full input",
        assumptions=["float rounding is not bounded formally: the theorems are over exact arithmetic; tolerance 1e-5 is relative to the "
                     "value (L2), to sum|a_i*b_i| (dot) and to sum|a_i*b_i|/(|a||b|) (cosine, plus 2^-50 absolute on cosine_distance)",
                     "CPython float arithmetic, math.sqrt and struct 'f' rounding are IEEE-754 binary64 / binary32 round-to-nearest-even",
                     "Coq Reals axioms (ClassicalDedekindReals.sig_forall_dec, sig_not_dec, functional_extensionality_dep) in Part C",
                     "cosine of a zero vector is left free by the spec (the code returns similarity 0, distance 1; modelled and compared)",
                     "child-level NULL elements, Float64 children, overflow/underflow to inf/subnormals are not exercised"])


def replay(ctx, obj):
    c = obj.get("case") or obj.get("first_differing_case")
    W = read_lanes()
    outs, eq, ok, stats = evaluate(ctx, [c], W)
    print("impl_output:", outs[0]); print("impl_equals_model:", eq[0], "spec_ok:", ok[0])
    return 0 if ok[0] and eq[0] else 1
