"""C41 — chunked metastore responses decode exactly.
Theorems in coq/theories/Props/C41.v; correspondence: gravitino::dechunk (hook verif_dechunk) vs C41.Model.dechunk on
(1) bodies x chunkings x size spellings x optional extensions x trailers, (2) a separate malformed / mutated / random
stream incl. huge hex sizes and non-UTF-8 size lines; a subset is also served by a scripted TCP server to the public
GravitinoSource::list_tables (-> http_get -> dechunk) and must agree with the hook result.
Known-finding classes are decided by the Coq predicates known_ext / known_huge on the input bytes."""
import json
import vlib
from vlib import zlist

REQ = "From QV Require Import Bytes.ByteStr C41.Model."
CLASSES = {"chunk_ext": "known_ext", "huge_size": "known_huge"}
EXTS = [b";x=1", b";", b";a", b";name=\"q v\"", b"; n=v", b";a;b=2", b";\xc3\xa9=1", b";\xff"]
TRAILERS = [b"\r\n"] * 6 + [b"", b"X-T: 1\r\n\r\n", b"\r\nGARBAGE", b"\r", b"0\r\n\r\n"]
U64 = 2 ** 64


def spell(rng, n, style):
    h = "%x" % n
    if style == "upper":
        h = h.upper()
    elif style == "zeros":
        h = "0" * rng.randint(1, 3) + h
    elif style == "mixed":
        h = "".join(c.upper() if rng.random() < 0.5 else c for c in h)
    return h.encode()


def sloppy(rng, h):
    return rng.choice([h + b" ", b" " + h, b"+" + h, h + b"\t", b"\xc2\xa0" + h, h + b"\xe2\x80\x83", b"\x0b" + h + b"\x0c"])


def gen_body(rng, e2e):
    if e2e:
        names = [rng.choice(["t", "orders", "zeta", "alpha", "a b", "é", "T1"]) + str(rng.randint(0, 99)) for _ in range(rng.randint(0, 4))]
        pad = " " * rng.choice([0, 0, 5, 200, 5000])
        body = json.dumps({"code": 0, "identifiers": [{"namespace": ["m", "c", "s"], "name": n} for n in names]}) + pad
        return body.encode(), names
    n = rng.choice([0, 1, 2, 5, 15, 16, 17, 40, 255, 256, 300])
    kind = rng.choice(["bin", "text", "crlf", "hexish"])
    if kind == "bin":
        return bytes(rng.randint(0, 255) for _ in range(n)), None
    if kind == "crlf":
        return bytes(rng.choice(b"\r\n0a;") for _ in range(n)), None
    if kind == "hexish":
        return bytes(rng.choice(b"0123456789abcdef\r\n") for _ in range(n)), None
    return bytes(rng.choice(b"abc xyz{}\":,") for _ in range(n)), None


def gen_struct(rng, e2e=False):
    body, names = gen_body(rng, e2e)
    cuts = sorted(set(rng.randint(1, max(len(body) - 1, 1)) for _ in range(rng.choice([0, 0, 1, 2, 3, 6])))) if len(body) > 1 else []
    parts, prev = [], 0
    for c in cuts + [len(body)]:
        if c > prev:
            parts.append(body[prev:c]); prev = c
    style = rng.choice(["canon", "canon", "canon", "upper", "zeros", "mixed"])
    with_ext = rng.random() < 0.18
    with_sloppy = (not with_ext) and rng.random() < 0.08
    chunks, raw = [], b""
    for p in parts:
        ext = rng.choice(EXTS) if (with_ext and rng.random() < 0.6) else b""
        h = spell(rng, len(p), style)
        if with_sloppy and rng.random() < 0.5:
            h = sloppy(rng, h)
        chunks.append((p, ext))
        raw += h + ext + b"\r\n" + p + b"\r\n"
    last_ext = rng.choice(EXTS) if (with_ext and rng.random() < 0.4) else b""
    trailer = rng.choice(TRAILERS)
    raw += b"0" + last_ext + b"\r\n" + trailer
    return {"mode": "struct", "b": list(raw), "body": list(body), "names": names, "e2e": e2e,
            "canon": style == "canon" and not with_sloppy, "sloppy": with_sloppy,
            "chunks": [[list(p), list(e)] for p, e in chunks], "last_ext": list(last_ext), "trailer": list(trailer),
            "has_ext": any(e for _, e in chunks) or bool(last_ext)}


FIXED_BAD = [b"", b"\r\n", b"0", b"0\r", b"0\r\n", b"5\r\nhello", b"5\r\nhello\r\n", b"5\r\nhell\r\n0\r\n\r\n", b"5\r\nhello\r\n0",
             b"g\r\nx\r\n0\r\n\r\n", b"-1\r\nx\r\n0\r\n\r\n", b"+\r\n", b"+1\r\nx\r\n0\r\n\r\n", b" 1 \r\nx\r\n0\r\n\r\n", b"0x1\r\nx\r\n0\r\n\r\n",
             b"1\r\naXY0\r\n\r\n", b"1\naXY0\r\n", b"\xff1\r\nx\r\n0\r\n\r\n", b"\xc2\xa01\r\nx\r\n0\r\n\r\n", b"\xc21\r\nx\r\n0\r\n\r\n",
             b"ffffffffffffffff\r\n", b"fffffffffffffffe\r\n", b"fffffffffffffffd\r\n", b"10000000000000000\r\n", b"FFFFFFFFFFFFFFFF\r\nxx",
             b"+ffffffffffffffff\r\nabc", b"0000000000000000000001\r\nx\r\n0\r\n\r\n", b"7fffffffffffffff\r\nx", b"8000000000000000\r\n",
             b"1\r\nx\r\nfffffffffffffffe\r\nrest", b"1;\r\nA\r\n0\r\n\r\n", b"1\r\nA\r\n0;x\r\n\r\n", b"1\r\n\r\n\r\n0\r\n", b"2\r\n\r\n\r\n0\r\n\r\n",
             b"00\r\n", b"\r\n0\r\n", b"1\r\r\nx\r\n0\r\n", b"1 ;x\r\nA\r\n0\r\n\r\n"]
ALPH = list(b"0123456789abcdefABCDEF") + list(b"\r\n\r\n;+ xg") + [0xC2, 0xA0, 0xFF, 0x80, 0xE2]


def gen_bad(rng, i):
    if i < len(FIXED_BAD):
        return {"mode": "bad", "b": list(FIXED_BAD[i]), "e2e": False}
    r = rng.random()
    if r < 0.65:
        b = list(gen_struct(rng)["b"])
        for _ in range(rng.randint(1, 3)):
            op = rng.choice(["del", "ins", "rep", "trunc", "dropcrlf", "hugesize"])
            pos = rng.randint(0, max(len(b) - 1, 0))
            if op == "del" and b:
                del b[pos]
            elif op == "ins":
                b.insert(pos, rng.choice(ALPH))
            elif op == "rep" and b:
                b[pos] = rng.choice(ALPH)
            elif op == "trunc":
                b = b[:pos]
            elif op == "dropcrlf":
                s = bytes(b); k = s.find(b"\r\n", pos)
                if k >= 0:
                    b = list(s[:k] + s[k + 2:])
            elif op == "hugesize":
                b = list(rng.choice([b"ffffffffffffffff", b"fffffffffffffffe", b"FFFFFFFFFFFFFFFE", b"fffffffffffffffd", b"10000000000000000",
                                     b"00fffffffffffffffe", b"+ffffffffffffffff"])) + b[pos:]
        return {"mode": "bad", "b": b, "e2e": False}
    return {"mode": "bad", "b": [rng.choice(ALPH) for _ in range(rng.randint(0, 24))], "e2e": False}


def impl_term(o):
    h = o.get("hook")
    if h == "none":
        return "Reject"
    if isinstance(h, dict) and "ok" in h:
        return f"(Ok {zlist(h['ok'])})"
    if isinstance(h, dict) and "panic" in h:
        return "Panic"
    return None


def case_term(c, o):
    impl = impl_term(o)
    if impl is None:
        return "[false; false; false; false; true; false; false; false]"
    extra = "true"
    if c["mode"] == "struct":
        # the generator's claim: a strictly well-formed encoding (unless sloppy) of `body`
        if c["canon"]:
            chunks = "[" + "; ".join(f"mkChunk {zlist(p)} {zlist(e)}" for p, e in c["chunks"]) + "]"
            extra = (f"(forallb chunk_ok {chunks} && ext_ok {zlist(c['last_ext'])} && "
                     f"list_eqb Z.eqb (encode {chunks} {zlist(c['last_ext'])} {zlist(c['trailer'])}) input)")
        elif not c["sloppy"]:
            extra = f"result_eqb (ref_strict input) (Ok {zlist(c['body'])})"
        else:
            extra = f"result_eqb (ref_lenient input) (Ok {zlist(c['body'])})"
    return (f"(let input := {zlist(c['b'])} in let impl := {impl} in "
            f"[result_eqb impl (dechunk input); spec_ok input impl; known_ext input; known_huge input; {extra}; "
            f"result_eqb impl (variant true false input); result_eqb impl (variant false true input); "
            f"result_eqb impl (variant true true input)])")


def e2e_consistent(c, o):
    e = o.get("e2e")
    if not c.get("e2e"):
        return True
    if not isinstance(e, dict) or not e.get("request_ok"):
        return False
    h = o.get("hook")
    if isinstance(h, dict) and "panic" in h:
        return "panic" in e
    if h == "none":
        return "malformed chunked response" in e.get("err", "")
    if isinstance(h, dict) and "ok" in h:
        if h["ok"] == c["body"]:
            return e.get("ok") == sorted(c["names"])
        return "panic" not in e
    return False


def evaluate(ctx, cases):
    outs = vlib.run_harness("c41", cases)
    vals = vlib.coq_eval_list(REQ, "", [case_term(c, o) for c, o in zip(cases, outs)], "c41", shard=60)
    # which decoder does the engine correspond to? the current one, or (after a fix in /repo) one of the three
    # repaired variants proved about in C41.Model (`variant ext checked`); it must be the SAME one on every case
    names = ["current", "extensions_understood", "checked_add", "extensions_understood+checked_add"]
    cols = [0, 5, 6, 7]
    pick = next((i for i, col in enumerate(cols) if all(v[col] for v in vals)), 0)
    ctx.cov["model_variant"] = names[pick]
    eq = [bool(v[cols[pick]]) and e2e_consistent(c, o) for v, c, o in zip(vals, cases, outs)]
    ok = [bool(v[1]) for v in vals]
    for c, v in zip(cases, vals):
        c["cls"] = "chunk_ext" if v[2] else ("huge_size" if v[3] else None)
    gen_ok = [bool(v[4]) for v in vals]
    return outs, eq, ok, gen_ok


def run(ctx):
    proved = ctx.prove()
    n = ctx.n(900, 10000)
    if not proved:
        n += 3000
    n_e2e = ctx.n(60, 400)
    cases, nbad = [], 0
    for i in range(n):
        if i % 10 < 7:
            cases.append(gen_struct(ctx.rng, e2e=(i // 10 < n_e2e and i % 10 == 0)))
        else:
            cases.append(gen_bad(ctx.rng, nbad)); nbad += 1
    outs, eq, ok, gen_ok = evaluate(ctx, cases)
    if not all(gen_ok):
        raise RuntimeError(f"C41 generator claim failed (not the encoding it says it is): {cases[gen_ok.index(False)]}")
    ctx.cov["evaluations"] = len(cases)
    seen = set()
    for c in cases:
        if c["mode"] == "struct" and len(c["chunks"]) >= 2:
            seen.add(bytes(c["b"]))
    ctx.cov["distinct_nontrivial"] = len(seen)
    st = [c for c in cases if c["mode"] == "struct"]
    res = lambda o: "panic" if isinstance(o.get("hook"), dict) and "panic" in o["hook"] else ("none" if o.get("hook") == "none" else "ok")
    ctx.cov["input_distribution"] = {
        "structured": len(st), "malformed_or_mutated": len(cases) - len(st),
        "structured_with_extension": sum(1 for c in st if c["has_ext"]), "structured_sloppy_size_line": sum(1 for c in st if c["sloppy"]),
        "structured_noncanonical_hex": sum(1 for c in st if not c["canon"] and not c["sloppy"]),
        "structured_without_final_crlf_or_with_trailer": sum(1 for c in st if c["trailer"] != [13, 10]),
        "max_chunks": max(len(c["chunks"]) for c in st), "max_body": max(len(c["body"]) for c in st),
        "served_over_socket_to_list_tables": sum(1 for c in cases if c.get("e2e")),
        "class_chunk_ext": sum(1 for c in cases if c["cls"] == "chunk_ext"), "class_huge_size": sum(1 for c in cases if c["cls"] == "huge_size"),
        "impl_result_malformed_stream": {k: sum(1 for c, o in zip(cases, outs) if c["mode"] == "bad" and res(o) == k) for k in ("ok", "none", "panic")},
        "impl_result_structured": {k: sum(1 for c, o in zip(cases, outs) if c["mode"] == "struct" and res(o) == k) for k in ("ok", "none", "panic")}}
    for c, o in list(zip(cases, outs))[:30:10]:
        ctx.sample({"input_bytes": bytes(c["b"]).decode("latin-1"), "mode": c["mode"], "impl_output": o})
    ctx.judge(cases, eq, ok, classify=lambda c: c.get("cls"), impl_outs=outs)
    if not proved and not ctx.violations:
        ctx.proof_broken_violation(f"{len(cases)} generated chunked bodies / malformed inputs, none violates the executable spec")
    return ctx.finish(
        rule="70% encodings of random bodies (binary, CR/LF-heavy, hex-looking, JSON) under random chunkings, hex spellings "
             "(canonical/upper/leading zeros/mixed), 18% with chunk extensions, 8% with whitespace or '+' around the size, varied "
             "trailers; 30% fixed malformed inputs + mutations (delete/insert/replace/truncate/drop CRLF/huge size) + random bytes; "
             "one structured case in ten (JSON bodies) also goes through a scripted TCP server to GravitinoSource::list_tables; "
             "non-trivial = structured with >=2 chunks, distinct by bytes",
        assumptions=["usize is 64-bit and the harness build has overflow checks on (debug): `size + 2` overflow is modelled as Panic "
                     "(a release build wraps and then panics on the out-of-range slice instead)",
                     "http_get itself (status line, header search for 'transfer-encoding: chunked') is exercised over a real socket but "
                     "not modelled; only its agreement with the hook result is checked"])


def replay(ctx, obj):
    c = obj.get("case") or obj.get("first_differing_case")
    outs, eq, ok, gen_ok = evaluate(ctx, [c])
    print("impl_output:", outs[0]); print("impl_equals_model:", eq[0], "spec_ok:", ok[0], "class:", c.get("cls"))
    return 0 if ok[0] and eq[0] else 1
