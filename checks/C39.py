"""C39 — TPC-H generator: theorems in coq/theories/Props/C39.v (row-count truncation, foreign keys for every RNG
stream, exact condition for the composite key + smallest refuting scale factor); correspondence: the real
TpchGenerator (memory twice, 4 threads, Parquet writer) vs C39.Model on row counts, key ranges, FK violation counts;
digests equal across runs/threads/paths.  PARTIAL: determinism across threads is observed, not proved."""
import math, struct
from math import gcd
import vlib
from vlib import zlit, zlist

REQ = "From QV Require Import Base.Util C39.Model C39.Proofs."
NOMINAL = [1000, 2000, 5000, 10000, 13000, 20000, 50000]       # micro scale factors (k / 10^6)
BASES = (200000.0, 10000.0, 800000.0, 150000.0, 1500000.0, 6000000.0)


def bits(x):
    return struct.unpack("<Q", struct.pack("<d", x))[0]


def dec(x):
    m, e = math.frexp(x)
    return int(m * 2 ** 53), e - 53


def py_counts(sf):
    return [int(b * sf) for b in BASES]


def py_composite_ok(sf):
    P, S, PS, C, O, L = py_counts(sf)
    return L <= PS or (P * S // gcd(P, S) if P and S else 0) <= PS


def mk_case(sf, seed, parquet, grid_k=None):
    m, e = dec(sf)
    return {"sf": sf, "sf_bits": str(bits(sf)), "m": m, "e": e, "seed": seed, "threads": 4, "parquet": parquet,
            "grid_k": grid_k}


def gen_cases(ctx):
    rng = ctx.rng
    cases = []
    seeds = [42] if ctx.quick else [42, 0, 2 ** 64 - 1]
    for k in NOMINAL:
        for s in seeds:
            cases.append(mk_case(k / 1e6, s, parquet=(k <= 10000 or not ctx.quick), grid_k=k))
    # the smallest scale factor breaking the composite key, and the double just below it
    w = 1005 / 1e6
    cases.append(mk_case(w, rng.randrange(2 ** 32), True, grid_k=1005))
    cases.append(mk_case(math.nextafter(w, 0), rng.randrange(2 ** 32), False))
    # random grid points (S does not divide P after truncation at most of them)
    for _ in range(ctx.n(3, 40)):
        k = rng.randint(1000, 12000 if ctx.quick else 50000)
        cases.append(mk_case(k / 1e6, rng.randrange(2 ** 63), parquet=rng.random() < 0.3, grid_k=k))
    # random doubles that are not grid points
    for _ in range(ctx.n(1, 20)):
        x = rng.uniform(0.001, 0.012 if ctx.quick else 0.05)
        cases.append(mk_case(x, rng.randrange(2 ** 63), parquet=False))
    return cases


def case_term(c, o):
    if "counts" not in o:
        return "[false; false; false; false; false; false; false; false; false]"
    mmx = "[" + "; ".join(f"({zlit(a)}, {zlit(b)})" for a, b in o["minmax"]) + "]"
    grid = (f"(let p := f64_of_ratio {c['grid_k']} 1000000 in (fst p =? {c['m']}) && (snd p =? {zlit(c['e'])}))"
            if c["grid_k"] else "true")
    return (f"(let c := row_counts {c['m']} {zlit(c['e'])} in let o := mkObs {zlist(o['counts'])} {mmx} {zlist(o['fk'])} in "
            f"[model_eqb c o; spec_counts c o; spec_fk_single o; spec_fk_custkey o; spec_fk_composite o; "
            f"known_custkey c; known_composite c; in_rangeb {c['m']} {zlit(c['e'])}; {grid}])")


def evaluate(ctx, cases):
    outs = vlib.run_harness("c39", cases, timeout=3000)
    vals = vlib.coq_eval_list(REQ, "", [case_term(c, o) for c, o in zip(cases, outs)], "c39", shard=20)
    return outs, vals


def determinism_ok(c, o):
    return bool(o.get("seq_same") and o.get("conc_same") and o.get("other_seed_differs")
                and (not c["parquet"] or (o.get("parquet_same") is True and o.get("parquet_rows") == o.get("counts"))))


def run(ctx):
    proved = ctx.prove()
    cases = gen_cases(ctx)
    outs, vals = evaluate(ctx, cases)

    # search for the smallest refuting scale factor on the 10^-6 grid and among doubles, and tie it to the theorem
    first = next((k for k in range(1000, 50001) if not py_composite_ok(k / 1e6)), None)
    x = first / 1e6
    while not py_composite_ok(math.nextafter(x, 0)):
        x = math.nextafter(x, 0)
    mw, ew = dec(x)
    wit = vlib.coq_eval_list(REQ, "", [f"[(M_W =? {mw}); ({zlit(ew)} =? -62); "
                                        f"(fst (f64_of_ratio {first} 1000000) =? M_W); negb (composite_ok (row_counts M_W (-62)))]"],
                             "c39w")[0]
    witness_ok = all(wit)

    # impl == model: the Coq comparison plus the row-by-row formula flags computed in the harness
    eq = [bool(v[0]) and bool(o.get("pk_dense")) and bool(o.get("formula_ok")) and bool(o.get("order_step_ok")) and v[7] and v[8]
          for v, o in zip(vals, outs)]
    ok_rest = [bool(v[1]) and bool(v[2]) and determinism_ok(c, o) for v, o, c in zip(vals, outs, cases)]
    ok_cust = [bool(v[3]) for v in vals]
    ok_comp = [bool(v[4]) for v in vals]
    kn_cust = {id(c): v[5] for c, v in zip(cases, vals)}
    kn_comp = {id(c): v[6] for c, v in zip(cases, vals)}

    ctx.cov["evaluations"] = len(cases)
    ctx.cov["distinct_nontrivial"] = len({(c["sf_bits"], c["seed"]) for c in cases})
    ctx.cov["input_distribution"] = {
        "scale_factors": sorted({c["sf"] for c in cases}), "seeds": len({c["seed"] for c in cases}),
        "with_parquet_path": sum(1 for c in cases if c["parquet"]),
        "composite_condition_false": sum(1 for v in vals if v[6]),
        "rows_generated_per_case_max": max((sum(o.get("counts", [0])) for o in outs), default=0),
        "runs_per_case": "2 sequential + 4 concurrent threads + 1 other seed (+1 Parquet child process)",
        "smallest_refuting_grid_sf": first / 1e6, "smallest_refuting_double": x.hex(), "witness_matches_theorem": witness_ok}
    for c, o in list(zip(cases, outs))[:2]:
        ctx.sample({"input": c, "impl_output": {k: o.get(k) for k in ("counts", "fk", "minmax", "digests", "seq_same", "conc_same", "parquet_same")}})

    ctx.judge(cases, eq, ok_rest, impl_outs=outs)
    n_valid = ctx.cov["traces_validated_against_impl"]
    if not ctx.violations:
        ctx.judge(cases, eq, ok_cust, classify=lambda c: "o_custkey-1.5x" if kn_cust[id(c)] else None, impl_outs=outs)
    if not ctx.violations:
        ctx.judge(cases, eq, ok_comp, classify=lambda c: "composite-lcm" if kn_comp[id(c)] else None, impl_outs=outs)
    ctx.cov["traces_validated_against_impl"] = n_valid
    if not witness_ok and not ctx.violations:
        ctx.violation({"kind": "the smallest scale factor refuting the composite key found by search differs from the "
                               "witness of C39_composite_fk_refuted", "search_m_e": [mw, ew], "grid_k": first, "coq": wit},
                      found_input=False)
    if not proved and not ctx.violations:
        ctx.proof_broken_violation(f"{len(cases)} generator runs, none violates the executable spec outside the known classes")
    return ctx.finish(
        level="proof",
        rule="scale factors {0.001,0.002,0.005,0.01,0.013,0.02,0.05} x seeds, 0.001005 (smallest refuting double) and its "
             "predecessor, random 10^-6 grid points and random doubles in the range; each generated twice sequentially, "
             "from 4 concurrent threads, with another seed, and (subset) through generate_to_parquet in a child process; "
             "non-trivial = every case (>= 8k rows); distinct by (scale factor bits, seed)",
        assumptions=["rand::StdRng is modelled as an arbitrary stream: only `lo <= gen_range(lo..hi) < hi` is assumed",
                     "f64 multiplication is IEEE round-to-nearest-even and `as usize` truncates (modelled in f64_mul_trunc, "
                     "compared with the real counts on every case)",
                     "determinism across runs, threads and the Parquet path is OBSERVED (digest of every cell), not proved",
                     "the composite dangling-row closed form is proved zero-iff-condition and validated by brute force on "
                     "small instances only; its exact value is compared with the real generator on every case"])


def replay(ctx, obj):
    c = obj.get("case") or obj.get("first_differing_case")
    outs, vals = evaluate(ctx, [c])
    print("impl_output:", outs[0])
    print("[model_eqb, spec_counts, spec_fk_single, spec_fk_custkey, spec_fk_composite, known_custkey, known_composite, in_range, grid]:", vals[0])
    v = vals[0]
    good = v[0] and v[1] and v[2] and determinism_ok(c, outs[0]) and (v[3] or v[5]) and (v[4] or v[6])
    return 0 if good else 1
