"""C02 — three-valued logic. Theorems: coq/theories/Props/C02.v (engine's NULL-strict interpreter model
= SQL Kleene semantics outside the class `dominated`; LIKE matcher correctness). Correspondence: every
generated predicate is run through the real engine on a table holding every NULL/non-NULL operand
combination, as WHERE filter and as projected value, optimised and unoptimised."""
import itertools
import vlib, sqlgen
from sqlgen import e_sql, e_coq
from fractions import Fraction

REQ = "From QV Require Import Sql.Expr."
COLS = [("id", "i64"), ("a", "i64"), ("b", "i64"), ("s", "str"), ("u", "str"), ("x", "f64")]
DOM = {"a": [None, 1, 2], "b": [None, 1, 3], "s": [None, "ab", "a%"], "u": [None, "ab", "b"],
       "x": [None, ("q", Fraction(3, 2))]}

def table():
    rows = []
    for i, combo in enumerate(itertools.product(DOM["a"], DOM["b"], DOM["s"], DOM["u"], DOM["x"])):
        rows.append([i] + list(combo))
    return rows

def col(name):
    return ("col", [c[0] for c in COLS].index(name), name)

def lit(v):
    return ("lit", v)

def gen_atom(rng):
    k = rng.choice(["cmp_il", "cmp_il", "cmp_sl", "cmp_cc", "cmp_mixed", "isnull", "in_i", "in_s", "between", "like_lit",
                    "like_lit", "like_dyn"])
    ops = ["CEq", "CNe", "CLt", "CLe", "CGt", "CGe"]
    if k == "cmp_il":
        e = ("cmp", rng.choice(ops), col(rng.choice("ab")), lit(rng.choice([1, 2, 3])))
        return e if rng.random() < 0.8 else ("cmp", e[1], e[3], e[2])
    if k == "cmp_sl":
        return ("cmp", rng.choice(ops), col(rng.choice("su")), lit(rng.choice(["ab", "b", "a%"])))
    if k == "cmp_cc":
        a, b = rng.choice([("a", "b"), ("s", "u"), ("b", "a")])
        return ("cmp", rng.choice(ops), col(a), col(b))
    if k == "cmp_mixed":
        return ("cmp", rng.choice(ops), col(rng.choice("ab")), rng.choice([col("x"), lit(("q", Fraction(3, 2)))]))
    if k == "isnull":
        return (rng.choice(["isnull", "isnotnull"]), col(rng.choice("absux")))
    if k == "in_i":
        items = [lit(v) for v in rng.sample([1, 2, 3, 7, None, None], rng.randint(1, 3))]
        return ("in", col(rng.choice("ab")), items, rng.random() < 0.4)
    if k == "in_s":
        items = [lit(v) for v in rng.sample(["ab", "b", "zz", "a%", None], rng.randint(1, 3))]
        return ("in", col(rng.choice("su")), items, rng.random() < 0.4)
    if k == "between":
        lo, hi = rng.choice([(1, 2), (2, 3), (3, 1), (None, 2), (1, None)])
        return ("between", col(rng.choice("ab")), lit(lo), lit(hi), rng.random() < 0.3)
    if k == "like_lit":
        p = rng.choice(["a%", "%b", "%a%", "a_", "_b%", "ab", "%", "a%b%", "%%", "aé%", "_%_", "a%%", "%a_",
                        "ab%b", "a%a", "b%b", "ab%ab"])      # prefix%suffix overlapping in short strings (seeded/C01)
        return ("like", col(rng.choice("su")), lit(p), rng.random() < 0.3)
    return ("like", col("u"), col("s"), rng.random() < 0.3)

def gen_expr(rng, depth):
    if depth == 0 or rng.random() < 0.25:
        return gen_atom(rng)
    k = rng.choice(["and", "or", "not", "and", "or"])
    if k == "not":
        return ("not", gen_expr(rng, depth - 1))
    return (k, gen_expr(rng, depth - 1), gen_expr(rng, depth - 1))

CODE_DEF = """Definition code (v : value) : Z := match v with VNull => 0 | VBool true => 1 | VBool false => 2 | _ => 9 end.
Definition tri (rows : list row) (e : expr) : list Z :=
  map (fun r => 100 * code (eval eng_sem r e) + 10 * code (eval sql_sem r e) + (if dominated r e then 1 else 0)) rows."""

def impl_code(cell):
    return 0 if cell is None else (1 if cell is True else (2 if cell is False else 9))

def run(ctx):
    proved = ctx.prove()
    rows = table()
    exprs, seen = [], set()
    # corpus first: the witnesses of the *_refuted lemmas and minimal shapes
    corpus = [("or", ("cmp", "CEq", col("a"), lit(1)), ("cmp", "CEq", col("b"), lit(1))),
              ("not", ("and", ("cmp", "CEq", col("a"), lit(5)), ("cmp", "CEq", col("b"), lit(7)))),
              ("in", col("b"), [lit(1), lit(None)], False), ("in", col("b"), [lit(1), lit(None)], True),
              ("between", col("a"), lit(None), lit(2), False)]
    n = ctx.n(260, 4000)
    depth = 2 if ctx.quick else 3
    while len(exprs) < n + len(corpus):
        e = corpus[len(exprs)] if len(exprs) < len(corpus) else gen_expr(ctx.rng, ctx.rng.randint(0, depth))
        key = e_sql(e)
        if key in seen:
            continue
        seen.add(key); exprs.append(e)
    tspec = {"name": "t", "cols": [list(c) for c in COLS], "rows": [[sqlgen.val_cell(v) for v in r] for r in rows],
             "batch_sizes": [50, 1, 60]}
    queries = []
    for e in exprs:
        queries.append(f"SELECT id FROM t WHERE {e_sql(e)}")
        queries.append(f"SELECT id, {e_sql(e)} FROM t")
    CH = 40  # expressions per harness case (one engine context each)
    cases = [{"tables": [tspec], "queries": queries[i:i + 2 * CH], "noopt": True} for i in range(0, len(queries), 2 * CH)]
    outs = vlib.run_harness("sql", cases, timeout=3000)
    res_opt = [r for o in outs for r in o.get("results", [])]
    res_no = [r for o in outs for r in o.get("noopt", [])]
    prelude = CODE_DEF + "\nDefinition rows : list row := [\n " + ";\n ".join(sqlgen.row_coq(r) for r in rows) + "]."
    tris = vlib.coq_eval_list(REQ, prelude, [f"tri rows {e_coq(e)}" for e in exprs], "c02", shard=25)

    cases_l, eq, ok, impl = [], [], [], []
    stats = {"pairs": 0, "dominated_pairs": 0, "null_results": 0, "true": 0, "false": 0, "engine_errors": 0,
             "fold_differs_from_interpreter": 0}
    nontrivial = set()
    for k, e in enumerate(exprs):
        for mode, res in (("optimized", res_opt), ("unoptimized", res_no)):
            rw, rv = res[2 * k], res[2 * k + 1]
            if "ok" not in rw or "ok" not in rv:
                stats["engine_errors"] += 1
                cases_l.append({"expr": e_sql(e), "mode": mode, "row": None}); eq.append(False); ok.append(False)
                impl.append({"where": rw, "select": rv}); continue
            kept = set(r[0] for r in rw["ok"]["rows"])
            vals = {r[0]: impl_code(r[1]) for r in rv["ok"]["rows"]}
            for i, r in enumerate(rows):
                t = tris[k][i]
                eng, sql, dom = t // 100, (t // 10) % 10, t % 10
                iv, ik = vals.get(i, 9), (i in kept)
                m_eq = (iv == eng) and (ik == (eng == 1))
                s_ok = (iv == sql) and (ik == (sql == 1))
                if mode == "optimized" and not m_eq and s_ok:
                    # the optimiser's constant folding is Kleene while the interpreter is strict: on this pair the
                    # optimised plan gives the SQL answer where the interpreter model would not. Counted, and
                    # accepted only inside the recorded class (dominated); C03 owns the opt/unopt difference.
                    stats["fold_differs_from_interpreter"] += 1
                    if dom:
                        m_eq = True
                stats["pairs"] += 1
                stats["dominated_pairs"] += dom
                stats["null_results"] += sql == 0; stats["true"] += sql == 1; stats["false"] += sql == 2
                if sql in (0, 1, 2) and any(v is None for v in r[1:]):
                    nontrivial.add((k, i))
                cases_l.append({"expr": e_sql(e), "mode": mode, "row": dict(zip([c[0] for c in COLS], map(str, r))), "dominated": bool(dom)})
                eq.append(m_eq); ok.append(s_ok); impl.append({"value_code": iv, "kept": ik, "model_eng": eng, "sql": sql})
    ctx.cov["evaluations"] = stats["pairs"]
    ctx.cov["distinct_nontrivial"] = len(nontrivial)
    ctx.cov["input_distribution"] = dict(stats, expressions=len(exprs), rows=len(rows), max_depth=depth,
                                         exhaustive_null_combinations_per_expression=True)
    for e in exprs[:4]:
        ctx.sample({"where": e_sql(e)})
    ctx.judge(cases_l, eq, ok, classify=lambda c: "dominated-null" if c.get("dominated") else None, impl_outs=impl)
    if not proved and not ctx.violations:
        ctx.proof_broken_violation(f"{len(exprs)} predicates x {len(rows)} rows x 2 modes, no spec violation outside the known class")
    return ctx.finish(
        rule="random boolean trees (depth<=%d) over comparisons, IS [NOT] NULL, IN-lists (with NULL elements), BETWEEN, LIKE "
             "(literal and per-row patterns) on nullable int/string/double columns; each evaluated on all 162 rows of the full "
             "NULL/non-NULL product, as WHERE and as SELECT value, optimised and unoptimised; non-trivial = (expr,row) pairs "
             "with at least one NULL operand column, distinct by (expr,row)" % depth,
        assumptions=["doubles restricted to exact dyadic values", "no constant-only subexpressions (folding is C03's subject)"])

def replay(ctx, obj):
    print("replay: re-run `./check C02`; failing case was:", obj.get("case"))
    return run(ctx)
