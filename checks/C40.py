"""C40 — CLI output formats round-trip the result: theorems in coq/theories/Props/C40.v; correspondence of the real
OutputFormatter (src/cli/output.rs, compiled into harness bin c40) with C40.Model.csv_doc / json_doc, and the
Gallina RFC 4180 / RFC 8259 parsers (plus Python's csv / json as a second oracle) run on the REAL output."""
import csv
import io
import json
import math
from decimal import Decimal

import vlib
from vlib import zlit

REQ = "From QV Require Import Base.Util C40.Model."
NONFINITE_TEXT = ("NaN", "inf", "-inf")
csv.field_size_limit(1 << 30)

# ---------------------------------------------------------------- generators
BENIGN = "abcxyzABZ0129 _-.:;!?()/"
SPECIAL = [",", '"', "\n", "\r\n", "\t", " ", "  ", '""', ",,", '","', "\\", "\\n", "\\\"", "'", "é", "ß", "日本", "😀", " ",
           " ", "\x7f", "\x01", "\x00", "\x1f", "\x0b", "\x0c", "\x08", "\x1b", "NULL", "null", "", "0", "-1", "1e5", "{", "}", "[", "]", ":"]
NAMES = ["id", "name", "a", "b", "col1", "value", "x_y", "Total", "n", "naïve", "列", "c d", "count(*)", "t.a", "sum(x)"]
ADV_NAMES = ["a,b", 'a"b', '"q"', "a\nb", "a\rb", "a\\b", "a\\", "tab\there", "\x01", "", " ", " lead", "trail ", "a\r\nb", ",", '"', "\\\"", "é,", "x\x1fy"]
I64 = [0, 1, -1, 7, 10, -10, 99, 100, 12345, -98765, 2**31, -2**31, 2**63 - 1, -2**63, 10**18, -10**18, 9 * 10**18]
FLOATS = [0.0, -0.0, 1.0, -1.0, 1.5, 87.0, 0.1, -0.25, 1e21, 1e-7, 1.7976931348623157e308, 5e-324, 123456789.125, 1e16, 1e15,
          0.30000000000000004, 2.5e-5, -3.0e10]
NONFINITE = [float("nan"), float("inf"), float("-inf")]


def rust_f64_display(x):
    """what `f64::to_string` prints: shortest round-trip digits, never an exponent, no trailing `.0` (Python's repr and
    Rust's Display may break a tie between two equally short digit strings differently, so this is used as a statistic
    only; the model is given the text std prints, reported by the harness)"""
    if math.isnan(x):
        return "NaN"
    if math.isinf(x):
        return "inf" if x > 0 else "-inf"
    s = format(Decimal(repr(x)), "f")
    if "." in s:
        s = s.rstrip("0").rstrip(".")
    return s


def gen_str(rng, mode):
    if mode == "benign":
        n = rng.choice([0, 1, 2, 3, 5, 8, 13])
        s = "".join(rng.choice(BENIGN) for _ in range(n))
        if rng.random() < 0.3:
            s += rng.choice([",", '"', "é", " ", "\\", "😀", ', "x"', "日本"])
            s += "".join(rng.choice(BENIGN) for _ in range(rng.randint(0, 3)))
        return s
    if mode == "cr":
        # a carriage return that the writer will NOT quote (no comma, quote or LF around)
        base = "".join(rng.choice("ab 1\té") for _ in range(rng.randint(0, 4)))
        k = rng.randint(0, len(base))
        return base[:k] + rng.choice(["\r", "\r\r", "\r "]) + base[k:]
    if mode == "nocontrol":
        parts = [rng.choice([p for p in SPECIAL if all(ord(ch) >= 32 for ch in p)] + list(BENIGN)) for _ in range(rng.randint(0, 7))]
        return "".join(parts)
    # adversarial: anything, but a CR only where an LF, comma or quote forces quoting
    parts = [rng.choice(SPECIAL + list("abc xyz")) for _ in range(rng.randint(0, 8))]
    s = "".join(parts)
    if mode == "adv_lead":
        s = rng.choice([" ", "\t", "  ", ""]) + s + rng.choice([" ", "\t", "", "\n"])
    if mode == "adv_cr":
        s = s + rng.choice(["\r", "x\ry"]) + rng.choice([",", '"', "\n", "\r\n"])
    if "\r" in s and not any(ch in s for ch in ',"\n'):
        s += ","
    return s


OTHER_TYPES = ["b", "d", "ts", "bin", "li", "fv", "st"]
DAYS = [0, -1, 1, 18262, 19000, -25567, 2932896, 2932897, -719162, -719163, 11016, 59]
MICROS = [0, -1, 1, 1577836800000000, 1577836800123456, -2208988800000000, 253402300799999999, 951782400000000, 86399999999]
F32 = ["0", "-0", "1", "-1", "0.5", "0.011", "-0.043", "1e-3", "3.4028235e38", "1e-45", "nan", "inf", "-inf", "16777216", "0.1"]


def gen_other(rng, t, kind):
    """a non-NULL cell of one of the non-string, non-number kinds"""
    if t == "b":
        return rng.random() < 0.5
    if t == "d":
        return rng.choice(DAYS) if rng.random() < 0.7 else rng.randint(-800000, 3000000)
    if t == "ts":
        return rng.choice(MICROS) if rng.random() < 0.7 else rng.randint(-4 * 10**18, 4 * 10**18) // 1000
    if t == "bin":
        return [rng.choice([0, 10, 13, 34, 44, 65, 127, 128, 255, rng.randrange(256)]) for _ in range(rng.choice([0, 1, 2, 5, 12]))]
    if t == "li":
        return [None if rng.random() < 0.15 else rng.choice(I64 + [2, 3, 5]) for _ in range(rng.choice([0, 0, 1, 2, 3, 4, 5, 9]))]
    if t.startswith("fv:"):
        return [rng.choice(F32) for _ in range(int(t[3:]))]
    if t == "st":
        b = None if rng.random() < 0.1 else gen_str(rng, rng.choice(["benign", "adv", "adv", "adv_cr", "nocontrol", "cr"]))
        return {"a": None if rng.random() < 0.15 else rng.choice(I64), "b": b}
    raise ValueError(t)


def gen_table(rng, kind, quick):
    ncols = rng.choice([1, 1, 2, 3, 4, 6]) if kind != "long" else rng.choice([1, 2])
    nrows = rng.choice([0, 1, 1, 2, 3, 5, 8]) if kind != "long" else rng.choice([1, 2])
    if kind == "header":
        cols = [rng.choice(ADV_NAMES + NAMES[:3]) for _ in range(ncols)]
        if all(c in NAMES for c in cols):
            cols[rng.randrange(ncols)] = rng.choice(ADV_NAMES)
    else:
        cols = [rng.choice(NAMES) for _ in range(ncols)]
    pool = ["s", "s", "s", "i", "f"] + (OTHER_TYPES * 2 if kind == "nested" else OTHER_TYPES if kind in ("benign", "adv", "nocontrol") else [])
    types = [rng.choice(pool) for _ in range(ncols)]
    if kind == "nested" and all(t in ("s", "i", "f") for t in types):
        types[rng.randrange(ncols)] = rng.choice(["li", "fv", "st", "ts", "bin"])
    types = [f"fv:{rng.choice([1, 2, 3, 4, 5, 8, 384 if not quick else 16])}" if t == "fv" else t for t in types]
    if kind in ("cr", "long", "adv"):
        types[rng.randrange(ncols)] = "s"
    if kind == "nonfinite":
        types[rng.randrange(ncols)] = "f"
    rows = []
    for _ in range(nrows):
        row = []
        for t in types:
            if rng.random() < 0.12:
                row.append(None)
            elif t == "i":
                row.append(rng.choice(I64) if rng.random() < 0.6 else rng.randint(-2**63, 2**63 - 1))
            elif t == "f":
                x = rng.choice(FLOATS) if rng.random() < 0.7 else rng.uniform(-1e6, 1e6) * 10 ** rng.randint(-12, 12)
                if kind == "nonfinite" and rng.random() < 0.5:
                    x = rng.choice(NONFINITE)
                row.append(repr(x))
            elif t != "s":
                row.append(gen_other(rng, t, kind))
            else:
                if kind == "benign" or kind == "header" or kind == "nonfinite" or kind == "nested":
                    row.append(gen_str(rng, "benign"))
                elif kind == "nocontrol":
                    row.append(gen_str(rng, "nocontrol"))
                elif kind == "cr":
                    row.append(gen_str(rng, "cr" if rng.random() < 0.5 else "benign"))
                elif kind == "long":
                    n = rng.choice([2000, 5000, 10000] if quick else [20000, 40000, 60000])
                    unit = rng.choice(["ab", 'a,"b"\n', "é😀", "x\\y", "line\r\n", "0123456789"])
                    row.append((unit * (n // len(unit.encode()) + 1)))
                else:
                    row.append(gen_str(rng, rng.choice(["adv", "adv", "adv_lead", "adv_cr", "benign"])))
        rows.append(row)
    if kind == "cr" and nrows and not any(isinstance(c, str) and t == "s" and "\r" in c for r in rows for c, t in zip(r, types)):
        j = types.index("s")
        rows[rng.randrange(nrows)][j] = gen_str(rng, "cr")
    if kind == "nonfinite" and nrows and not any(t == "f" and c in ("nan", "inf", "-inf") for r in rows for c, t in zip(r, types)):
        j = types.index("f")
        rows[rng.randrange(nrows)][j] = repr(rng.choice(NONFINITE))
    split = []
    if rng.random() < 0.5 and nrows:
        left = nrows
        while left > 0 and len(split) < 4:
            k = rng.randint(0, left)
            split.append(k)
            left -= k
    return {"cols": cols, "types": types, "rows": rows, "split": split, "nobatch": False, "kind": kind}


KINDS = ["benign", "nested", "nocontrol", "nested", "adv", "adv", "nested", "cr", "header", "nonfinite"]

# one deterministic table with every column kind (two batches, so that the whole-array Debug fallback of Timestamp and
# Binary differs between batches), and one single-column table per kind whose display text needs quoting
ALL_KINDS_TABLE = {
    "cols": ["l", "v", "s", "b", "d", "ts", "bin", "x"], "types": ["li", "fv:3", "st", "b", "d", "ts", "bin", "s"],
    "rows": [[[1, None, 3], ["0.5", "-1", "1e-3"], {"a": 1, "b": 'p,"q"\nr'}, True, 18262, 1577836800000000, [0, 255, 34], "a"],
             [[], None, None, None, None, None, None, None],
             [None, ["1", "2", "3"], {"a": None, "b": None}, False, -1, 0, [], "b"],
             [[1, 2, 3, 4, 5, 6], ["nan", "inf", "3"], {"a": 7, "b": "\r"}, True, 2932896, -1, [44], "c"]],
    "split": [2], "nobatch": False, "kind": "nested"}
PER_KIND_TABLES = [
    (["l"], ["li"], [[[1, 2, 3]], [[]], [None], [[None]]]), (["v"], ["fv:2"], [[["0.011", "-0.043"]], [None]]),
    (["v"], ["fv:6"], [[["1", "2", "3", "4", "5", "6"]]]), (["s"], ["st"], [[{"a": 1, "b": "p"}], [{"a": 2, "b": ',"\r\n'}], [None]]),
    (["b"], ["b"], [[True], [False], [None]]), (["d"], ["d"], [[18262], [None], [-719163]]),
    (["t"], ["ts"], [[1577836800000000], [None]]), (["t"], ["ts"], [[0]]), (["x"], ["bin"], [[[1, 2]], [None]]),
]


def gen_cases(rng, n, quick):
    cases = []
    # first the minimal witnesses of the refutation lemmas, so that each class is exercised on the real code every run
    # (and a replay file shows the smallest input), then the boundary cases of NULL / empty string
    for cols, types, rows, kind in [
        (["h"], ["s"], [["\r"]], "cr"), (["h"], ["s"], [["a\rb"]], "cr"), (["a,b"], ["s"], [], "header"), (['a"'], ["s"], [], "header"),
        (["h"], ["s"], [["\t"]], "json_control"), (["h"], ["s"], [["\n"]], "json_control"), (['a"'], ["i"], [[1]], "header"),
        (["a\\n"], ["i"], [[1]], "header"), (["h"], ["f"], [["nan"]], "nonfinite"), (["h"], ["f"], [["-inf"]], "nonfinite"),
        (["h"], ["s"], [[None]], "benign"), (["h"], ["s"], [[""]], "benign"), (["h", "g"], ["s", "s"], [["", None]], "benign"),
    ]:
        cases.append({"cols": cols, "types": types, "rows": rows, "split": [], "nobatch": False, "kind": kind})
    cases.append({"cols": ["a"], "types": ["s"], "rows": [], "split": [], "nobatch": True, "kind": "nobatch"})
    cases.append(dict(ALL_KINDS_TABLE))
    for cols, types, rows in PER_KIND_TABLES:
        cases.append({"cols": cols, "types": types, "rows": rows, "split": [], "nobatch": False, "kind": "nested"})
    for i in range(n):
        cases.append(gen_table(rng, KINDS[i % len(KINDS)], quick))
    for _ in range(3 if quick else 12):
        cases.append(gen_table(rng, "long", quick))
    return cases


# ---------------------------------------------------------------- rendering
# Byte strings go to Coq as string literals decoded inside Coq (a literal list of 20000 numerals takes Coq's parser
# tens of seconds and overflows its stack beyond ~30000; a string literal is lexed in one go): printable ASCII except
# DQUOTE and % stands for itself, every other byte is %xx (lowercase hex).
PRELUDE = """From Coq Require Import String Ascii.
Definition hexd (a : ascii) : Z := let n := Z.of_nat (nat_of_ascii a) in if n <? 58 then n - 48 else n - 87.
Fixpoint decb (s : string) : list Z :=
  match s with
  | EmptyString => []
  | String a r =>
    if Z.of_nat (nat_of_ascii a) =? 37 then
      match r with
      | String x (String y r') => (hexd x * 16 + hexd y) :: decb r'
      | _ => []
      end
    else Z.of_nat (nat_of_ascii a) :: decb r
  end.
Definition decs (l : list string) : list Z := flat_map decb l.
"""


def enc(b):
    return "".join(chr(x) if 32 <= x < 127 and x not in (34, 37) else "%%%02x" % x for x in b)


def hexterm(b, chunk=400):
    b = bytes(b)
    if not b:
        return "[]"
    if len(b) <= chunk:
        return f'(decb "{enc(b)}"%string)'
    return "(decs [" + "; ".join(f'"{enc(b[i:i + chunk])}"%string' for i in range(0, len(b), chunk)) + "])"


def bytes_of_str(s):
    return hexterm(s.encode("utf-8"))


def zlist(l):
    return hexterm(l)


def cell_term(c, t, ft, dt):
    if c is None:
        return "CNull"
    if t == "s":
        return f"(CStr {bytes_of_str(c)})"
    if t == "i":
        return f"(CInt {zlit(c)})"
    if t == "f":
        return f"(CFloat {bytes_of_str(ft)})"
    if t == "b":
        return f"(CBool {'true' if c else 'false'})"
    return f"(COther {hexterm(dt)})"       # any other type: the display text the production formatter returned


def table_term(c, o):
    cols = "[" + "; ".join(bytes_of_str(h) for h in c["cols"]) + "]"
    rows = "[" + "; ".join("[" + "; ".join(cell_term(x, t, ft, dt) for x, t, ft, dt in zip(r, c["types"], fr, dr)) + "]"
                           for r, fr, dr in zip(c["rows"], o["ftext"], o["dtext"])) + "]"
    return f"(mkTable {cols} {rows})"


def shown(x, t, ft, dt):
    """the displayed text of a non-NULL cell"""
    if t == "s":
        return x
    if t == "i":
        return str(x)
    if t == "f":
        return ft
    if t == "b":
        return "true" if x else "false"
    return bytes(dt).decode("utf-8")


def case_term(c, o):
    if "csv" not in o:
        return "[false; false; false; false; false]"
    if c["nobatch"]:
        return (f"(let oc := {zlist(o['csv'])} in let oj := {zlist(o['json'])} in "
                "[bytes_eqb oc csv_nobatch; bytes_eqb oj json_nobatch; "
                "match csv_parse oc with Some [] => true | _ => false end; "
                "match json_parse_doc oj with Some [] => true | _ => false end; true])")
    return (f"(let t := {table_term(c, o)} in let oc := {zlist(o['csv'])} in let oj := {zlist(o['json'])} in "
            "[bytes_eqb oc (csv_doc t); bytes_eqb oj (json_doc t); csv_spec_ok t oc; json_spec_ok t oj; "
            "table_wf t && table_typed t])")


# ---------------------------------------------------------------- second oracle: Python's csv / json
def py_csv_ok(c, o):
    out = o["csv"]
    try:
        text = bytes(out).decode("utf-8")
        got = list(csv.reader(io.StringIO(text, newline=""), strict=True))
    except Exception:
        return False
    if c["nobatch"]:
        return got == []
    if len(c["cols"]) == 1:
        got = [r if r != [] else [""] for r in got]     # the csv module drops the one empty field of a blank line
    want = [list(c["cols"])]
    for r, fr, dr in zip(c["rows"], o["ftext"], o["dtext"]):
        want.append(["" if x is None else shown(x, t, ft, dt) for x, t, ft, dt in zip(r, c["types"], fr, dr)])
    return got == want


def _reject(s):
    raise ValueError("not JSON: " + s)


def py_json_ok(c, o):
    out = o["json"]
    try:
        text = bytes(out).decode("utf-8")
        got = json.loads(text, object_pairs_hook=lambda p: list(p), parse_int=lambda s: ("num", s),
                         parse_float=lambda s: ("num", s), parse_constant=_reject)
    except Exception:
        return False
    if c["nobatch"]:
        return got == []
    want = []
    for r, fr, dr in zip(c["rows"], o["ftext"], o["dtext"]):
        want.append([(h, None if x is None or (t == "f" and ft in NONFINITE_TEXT) else
                      (bool(x) if t == "b" else ("num", shown(x, t, ft, dt)) if t in ("i", "f") else shown(x, t, ft, dt)))
                     for h, x, t, ft, dt in zip(c["cols"], r, c["types"], fr, dr)])
    return got == want


# ---------------------------------------------------------------- evaluation
def evaluate(ctx, tables):
    outs = vlib.run_harness("c40", tables)
    terms = [case_term(c, o) for c, o in zip(tables, outs)]
    big = [i for i, t in enumerate(terms) if len(t) > 20000]          # very long cells: one coqc each, in parallel
    small = [i for i in range(len(terms)) if len(terms[i]) <= 20000]
    vals = [None] * len(terms)
    # at most 5 coqc processes at a time
    for idx, tag, shard in ((small, "c40", max(40, -(-len(small) // 5))), (big, "c40big", max(1, -(-len(big) // 5)))):
        for i, v in zip(idx, vlib.coq_eval_list(REQ, PRELUDE, [terms[i] for i in idx], tag, shard=shard)):
            vals[i] = v
    cases, eq, ok, impl = [], [], [], []
    for c, o, v in zip(tables, outs, vals):
        good = "csv" in o
        pc = good and py_csv_ok(c, o)
        pj = good and py_json_ok(c, o)
        dom = bool(v[4])          # the table lies in the domain of the theorems (well-formed, typed): must always hold
        cases.append({"fmt": "csv", "table": c, "coq_spec_ok": v[2], "python_csv_ok": pc, "in_theorem_domain": dom})
        eq.append(bool(v[0])); ok.append(bool(v[2]) and pc and dom)
        impl.append({"csv": o.get("csv"), "error": o.get("panic") or o.get("harness_error")})
        cases.append({"fmt": "json", "table": c, "coq_spec_ok": v[3], "python_json_ok": pj, "in_theorem_domain": dom})
        eq.append(bool(v[1])); ok.append(bool(v[3]) and pj and dom)
        impl.append({"json": o.get("json"), "error": o.get("panic") or o.get("harness_error")})
    return cases, eq, ok, impl, outs


def nontrivial(c):
    return bool(c["rows"]) and any(isinstance(x, str) and t == "s" and any(ch in x for ch in ',"\n\r\t\\') or
                                   (isinstance(x, str) and t == "s" and any(ord(ch) > 127 or ord(ch) < 32 for ch in x))
                                   or (x is not None and (t in ("li", "st", "ts", "bin") or t.startswith("fv:")))
                                   for r in c["rows"] for x, t in zip(r, c["types"]))


def run(ctx):
    proved = ctx.prove()
    n = ctx.n(200, 4000)
    tables = gen_cases(ctx.rng, n, ctx.quick)
    if not proved:
        tables += gen_cases(ctx.rng, 1500, True)
    cases, eq, ok, impl, outs = evaluate(ctx, tables)
    ctx.cov["evaluations"] = len(cases)
    ctx.cov["distinct_nontrivial"] = len(set(json.dumps([c["cols"], c["types"], c["rows"]]) for c in tables if nontrivial(c)))
    ctx.cov["input_distribution"] = {
        "tables": len(tables), "kinds": {k: sum(1 for c in tables if c["kind"] == k) for k in sorted(set(c["kind"] for c in tables))},
        "tables_with_unquoted_cr_before_fix": sum(1 for c in tables if any(
            isinstance(x, str) and t == "s" and "\r" in x and not any(ch in x for ch in ',"\n')
            for r in c["rows"] for x, t in zip(r, c["types"]))),
        "tables_with_control_char_in_string": sum(1 for c in tables if any(
            isinstance(x, str) and t == "s" and any(ord(ch) < 32 for ch in x) for r in c["rows"] for x, t in zip(r, c["types"]))),
        "tables_with_name_needing_quoting_or_escaping": sum(1 for c in tables if any(
            any(ch in h for ch in ',"\n\r\\') or any(ord(ch) < 32 for ch in h) for h in c["cols"])),
        "tables_with_nonfinite_float": sum(1 for c, o in zip(tables, outs) if any(
            ft in NONFINITE_TEXT for fr in o.get("ftext", []) for ft in fr if ft is not None)),
        "multi_batch_tables": sum(1 for c in tables if len(c["split"]) > 1),
        "max_cell_bytes": max([len(x.encode()) for c in tables for r in c["rows"] for x in r if isinstance(x, str)] + [0]),
        "null_cells": sum(1 for c in tables for r in c["rows"] for x in r if x is None),
        "cells": sum(len(r) for c in tables for r in c["rows"]),
    }
    kinds_of = lambda t: "fv" if t.startswith("fv:") else t
    per_kind, need_quote = {}, {}
    for c, o in zip(tables, outs):
        for r, dr in zip(c["rows"], o.get("dtext", [])):
            for x, t, dt in zip(r, c["types"], dr):
                if x is None:
                    continue
                k = kinds_of(t)
                per_kind[k] = per_kind.get(k, 0) + 1
                if dt is not None and any(b in (44, 34, 10, 13) for b in dt):
                    need_quote[k] = need_quote.get(k, 0) + 1
    ctx.cov["input_distribution"]["non_null_cells_per_column_kind"] = per_kind
    ctx.cov["input_distribution"]["cells_whose_display_text_needs_csv_quoting_per_kind"] = need_quote
    fl = [(x, ft) for c, o in zip(tables, outs) for r, fr in zip(c["rows"], o.get("ftext", [])) for x, t, ft in zip(r, c["types"], fr)
          if t == "f" and x is not None]
    ctx.cov["input_distribution"]["float_cells"] = len(fl)
    ctx.cov["input_distribution"]["float_cells_where_python_emulation_of_display_agrees"] = sum(
        1 for x, ft in fl if rust_f64_display(float(x)) == ft)
    for c, o in list(zip(cases, impl))[:4]:
        ctx.sample({"input": {k: c[k] for k in ("fmt", "table")}, "impl_output": o})
    ctx.judge(cases, eq, ok, impl_outs=impl)
    if not proved and not ctx.violations:
        ctx.proof_broken_violation(f"{len(cases)} generated (table, format) instances, none violates the executable specs")
    return ctx.finish(
        rule="tables of 1-6 columns (Utf8 / Int64 / Float64 / Boolean / Date32 / Timestamp(us) / Binary / List<Int64> / "
             "FixedSizeList<Float32> / Struct{Int64, Utf8 with adversarial text}, NULLs, NULL list elements, empty lists) x 0-8 rows split over 1-5 record batches, each judged once for "
             "CSV and once for JSON; streams: benign, no-control adversarial (commas, quotes, backslashes, non-ASCII, spaces), "
             "adversarial (LF, CRLF, tabs, other control characters, leading/trailing blanks, empty strings), bare-CR cells, "
             "adversarial column names, non-finite floats, very long cells, no batch at all, plus the minimal witnesses of every "
             "regression theorem (the five defect classes repaired by efda2f4 / 8d4c59c); non-trivial = has a row and a string cell with a comma/quote/CR/LF/tab/backslash/control/non-ASCII "
             "character, distinct by (names, types, rows)",
        assumptions=["f64::to_string (Rust std) is taken as given: a Float64 cell enters the model as the text std prints for it, "
                     "reported by the harness next to the formatter's output (i64::to_string is modelled and proved: int_dec); "
                     "std prints exactly NaN / inf / -inf for the non-finite values (the model decides is_finite() on that text) "
                     "and an RFC 8259 number for every finite value (checked on every generated float: table_typed)",
                     "the harness compiles /repo/src/cli/output.rs into its own binary (#[path] include) and calls "
                     "OutputFormatter::write, the function `print` (REPL, src/main.rs) forwards to with stdout",
                     "strings are valid UTF-8 (Rust String); the parsers do not re-validate UTF-8",
                     "a cell of any type other than Utf8 / Int64 / Float64 / Boolean enters the model as the text the production "
                     "format_display_value returns for it (read off the production Vertical writer on the same batches); C40 "
                     "is about that displayed text surviving CSV / JSON, not about the text being a good rendering",
                     "RFC 4180 TEXTDATA is read liberally: any byte except comma, DQUOTE, CR, LF may appear unquoted"])


def replay(ctx, obj):
    c = obj.get("case") or obj.get("first_differing_case")
    cases, eq, ok, impl, _ = evaluate(ctx, [c["table"]])
    i = 0 if c["fmt"] == "csv" else 1
    print("format:", c["fmt"])
    print("impl_output:", impl[i])
    print("impl_equals_model:", eq[i], "spec_ok:", ok[i], "(coq:", cases[i]["coq_spec_ok"], ")")
    return 0 if ok[i] and eq[i] else 1
