"""C06 — compiled predicates vs the interpreter. Theorems in coq/theories/Props/C06.v.
Correspondence: CompiledPredicate::compile/evaluate and evaluate_expr (harness c06) vs C06.Model.run / interp on
generated (expr, batch) pairs; impl-compiled vs impl-interpreted directly (the property); end-to-end the same
predicate over a Parquet table with QE_COMPILE=0 vs QE_COMPILE=1 in two subprocess runs of the `sql` harness.
Disagreements are classified row by row with the Coq predicates nan_row / negzero_row (known_nan_f64 /
known_negzero_f64)."""
import datetime, math, struct
import vlib
from vlib import zlit

REQ = "From QV Require Import Base.Util C06.Model."

# ---------------------------------------------------------------- f64 helpers
def bits(x):
    return struct.unpack("<Q", struct.pack("<d", x))[0]

def fl(b):
    return struct.unpack("<d", struct.pack("<Q", b))[0]

NAN, NNAN, SNAN, PNAN = 0x7FF8000000000000, 0xFFF8000000000000, 0x7FF0000000000001, 0x7FF8000000000001
NZERO, INF, NINF = 1 << 63, 0x7FF0000000000000, 0xFFF0000000000000
F_CLEAN = [bits(x) for x in (0.5, 1.0, -1.0, 2.0, 1.5, -3.25, 100.0, 1e-300, 1e300, 5e-324, -2.0, 0.25)] + [INF, NINF]
F_NANS = [NAN, NNAN, SNAN, PNAN]
I64S = [0, 1, -1, 2, 3, 5, 7, 100, -100, 2**63 - 1, -2**63, 2**31]
I32S = [0, 1, -1, 2, 3, 5, 7, 9000, 9400, 2**31 - 1, -2**31]

def is_nan(b):
    return (b & (2**63 - 1)) > INF

class Ambiguous(Exception):
    pass

def fop_py(op, a, b):
    """One IEEE-754 binary64 operation on bit patterns, executed by the host FPU (same hardware as the engine)."""
    if is_nan(a) and is_nan(b) and a != b:
        raise Ambiguous()          # which NaN propagates depends on operand order chosen by the compiler
    x, y = fl(a), fl(b)
    if op == "+":
        r = x + y
    elif op == "-":
        r = x - y
    elif op == "*":
        r = x * y
    else:
        if y == 0.0:
            if x != x:
                r = x + 0.0
            elif x == 0.0:
                r = fl(bits(float("inf") - float("inf")))    # the platform's default NaN
            else:
                r = math.copysign(float("inf"), x) * math.copysign(1.0, y)
        else:
            r = x / y
    return bits(r)

# ---------------------------------------------------------------- expression AST (python tuples)
# ("col", j) ("lit", kind, v) ("arith", op, a, b) ("cmp", op, a, b) ("and", a, b) ("or", a, b) ("not", a)
# ("between", x, lo, hi, neg) ("alias", a) ("castf", a) ("other", kind, [args])
ARITH = {"+": "Add", "-": "Sub", "*": "Mul", "/": "Div"}
ACODE = {"+": 0, "-": 1, "*": 2, "/": 3}
CMP = {"=": "CEq", "!=": "CNe", "<": "CLt", "<=": "CLe", ">": "CGt", ">=": "CGe"}
TY = {"f64": "TF64", "i64": "TI64", "i32": "TI32", "date": "TD32", "str": "TOther"}

def to_json(e):
    k = e[0]
    if k == "col":
        return {"col": f"c{e[1]}"}
    if k == "lit":
        kind, v = e[1], e[2]
        if kind == "f64":
            return {"lit": ["f64", str(v)]}
        if kind in ("i64", "i32", "date"):
            return {"lit": [kind, v]}
        if kind == "null":
            return {"lit": ["null"]}
        return {"lit": [kind, v]}
    if k == "arith":
        return {"arith": e[1], "l": to_json(e[2]), "r": to_json(e[3])}
    if k == "cmp":
        return {"cmp": e[1], "l": to_json(e[2]), "r": to_json(e[3])}
    if k in ("and", "or"):
        return {k: [to_json(e[1]), to_json(e[2])]}
    if k == "not":
        return {"not": to_json(e[1])}
    if k == "between":
        return {"between": [to_json(e[1]), to_json(e[2]), to_json(e[3])], "neg": e[4]}
    if k == "alias":
        return {"alias": to_json(e[1])}
    if k == "castf":
        return {"cast": to_json(e[1]), "to": "f64"}
    if k == "other":
        kind, args = e[1], e[2]
        if kind == "isnull":
            return {"isnull": to_json(args[0])}
        if kind == "mod":
            return {"mod": [to_json(args[0]), to_json(args[1])]}
        if kind == "negate":
            return {"neg": to_json(args[0])}
        if kind == "casti":
            return {"cast": to_json(args[0]), "to": "i64"}
    raise ValueError(e)

def to_coq(e):
    k = e[0]
    if k == "col":
        return f"(ECol {e[1]})"
    if k == "lit":
        kind, v = e[1], e[2]
        c = {"f64": "LF64", "i64": "LI64", "i32": "LI32", "date": "LD32"}.get(kind)
        return f"(ELit ({c} {zlit(v)}))" if c else "(ELit LOther)"
    if k == "arith":
        return f"(EArith {ARITH[e[1]]} {to_coq(e[2])} {to_coq(e[3])})"
    if k == "cmp":
        return f"(ECmp {CMP[e[1]]} {to_coq(e[2])} {to_coq(e[3])})"
    if k == "and":
        return f"(EAnd {to_coq(e[1])} {to_coq(e[2])})"
    if k == "or":
        return f"(EOr {to_coq(e[1])} {to_coq(e[2])})"
    if k == "not":
        return f"(ENot {to_coq(e[1])})"
    if k == "between":
        return f"(EBetween {to_coq(e[1])} {to_coq(e[2])} {to_coq(e[3])} {vlib.blit(e[4])})"
    if k == "alias":
        return f"(EAlias {to_coq(e[1])})"
    if k == "castf":
        return f"(ECastF64 {to_coq(e[1])})"
    return "EOther"

SQL_F = {bits(0.0): "0.0", bits(0.5): "0.5", bits(1.0): "1.0", bits(1.5): "1.5", bits(2.0): "2.0",
         bits(0.25): "0.25", bits(100.0): "100.0"}

def to_sql(e, names):
    k = e[0]
    if k == "col":
        return names[e[1]]
    if k == "lit":
        if e[1] == "f64":
            return SQL_F[e[2]]
        if e[1] == "i64":
            return str(e[2])
        if e[1] == "date":
            return "DATE '" + (datetime.date(1970, 1, 1) + datetime.timedelta(days=e[2])).isoformat() + "'"
    if k == "arith":
        return f"({to_sql(e[2], names)} {e[1]} {to_sql(e[3], names)})"
    if k == "cmp":
        op = "<>" if e[1] == "!=" else e[1]
        return f"({to_sql(e[2], names)} {op} {to_sql(e[3], names)})"
    if k == "and":
        return f"({to_sql(e[1], names)} AND {to_sql(e[2], names)})"
    if k == "or":
        return f"({to_sql(e[1], names)} OR {to_sql(e[2], names)})"
    if k == "not":
        return f"(NOT {to_sql(e[1], names)})"
    if k == "between":
        return (f"({to_sql(e[1], names)} {'NOT ' if e[4] else ''}BETWEEN {to_sql(e[2], names)} AND "
                f"{to_sql(e[3], names)})")
    raise ValueError(e)

# ---------------------------------------------------------------- generators
class Gen:
    def __init__(self, rng, types, style, sql=False):
        self.rng, self.types, self.style, self.sql = rng, types, style, sql
        self.by = {}
        for j, t in enumerate(types):
            self.by.setdefault(t, []).append(j)

    def f64_value(self, lit=False):
        r = self.rng
        if self.sql and lit:
            return r.choice(list(SQL_F))
        pool = list(F_CLEAN) + [0, 0]
        if self.style in ("zeros", "all"):
            pool += [0, NZERO, NZERO, NZERO]
        if self.style in ("nans", "all"):
            pool += F_NANS + [NAN, NNAN]
        if r.random() < 0.15:
            return bits(r.choice([r.uniform(-10, 10), r.uniform(-1e-3, 1e-3), float(r.randint(-5, 5))]))
        return r.choice(pool)

    def lit(self, t):
        r = self.rng
        if t == "f64":
            return ("lit", "f64", self.f64_value(lit=True))
        if t == "i64":
            return ("lit", "i64", r.choice(I64S[:9] if self.sql else I64S))
        if t == "i32":
            return ("lit", "i32", r.choice(I32S))
        return ("lit", "date", r.choice([0, 1, 9000, 9100, 9400, 8766]) if self.sql else r.choice(I32S))

    def col(self, t):
        return ("col", self.rng.choice(self.by[t]))

    def arith(self, depth, need_col=False):
        r = self.rng
        x = r.random()
        has = "f64" in self.by
        if depth <= 0 or x < 0.3:
            if has and (need_col or r.random() < 0.7):
                return self.col("f64")
            return self.lit("f64")
        if x < 0.9 or self.sql:
            a = self.arith(depth - 1, need_col=self.sql)
            b = self.arith(depth - 1)
            return ("arith", r.choice("+-*/"), a, b)
        if x < 0.95:
            return ("alias", self.arith(depth - 1))
        return ("castf", self.arith(depth - 1))

    def side(self, t):
        r = self.rng
        x = r.random()
        if t == "f64":
            if x < 0.4 and "f64" in self.by:
                return self.col("f64")
            if x < 0.6:
                return self.lit("f64")
            if x < 0.95 or self.sql:
                e = self.arith(2, need_col=self.sql)
                return e if e[0] == "arith" else ("arith", r.choice("+-*/"), e, self.arith(1))
            return ("alias", self.side(t))
        if x < 0.6 and t in self.by:
            return self.col(t)
        if x < 0.95 or self.sql:
            return self.lit(t)
        return ("alias", self.side(t))

    def cmp_type(self):
        r = self.rng
        present = [t for t in ("f64", "i64", "i32", "date") if t in self.by]
        if present and r.random() < 0.93:
            w = [6 if t == "f64" else 2 for t in present]
            return r.choices(present, w)[0]
        return r.choice(["f64", "i64", "i32", "date"])

    def atom(self):
        r = self.rng
        t = self.cmp_type()
        if self.sql and t == "i32":
            t = "i64" if "i64" in self.by else "f64"
        if r.random() < 0.2:
            x = self.side(t)
            if self.sql and x[0] == "lit":
                x = self.col(t) if t in self.by else x
            return ("between", x, self.side(t) if not self.sql else self.lit(t),
                    self.side(t) if not self.sql else self.lit(t), r.random() < 0.3)
        l, rr = self.side(t), self.side(t)
        if self.sql and l[0] == "lit" and rr[0] == "lit":
            l = self.col(t) if t in self.by else l
        return ("cmp", r.choice(list(CMP)), l, rr)

    def boolean(self, depth):
        r = self.rng
        x = r.random()
        if depth <= 0 or x < 0.35:
            return self.atom()
        if x < 0.58:
            return ("and", self.boolean(depth - 1), self.boolean(depth - 1))
        if x < 0.8:
            return ("or", self.boolean(depth - 1), self.boolean(depth - 1))
        if x < 0.93 or self.sql:
            return ("not", self.boolean(depth - 1))
        return ("alias", self.boolean(depth - 1))

    def declining(self):
        """Shapes outside the compiled subset (or at the register limit): compile must decline (or just fit)."""
        r = self.rng
        k = r.randrange(12)
        f = self.col("f64") if "f64" in self.by else self.lit("f64")
        if k == 0:   # mixed types the interpreter would coerce
            return ("cmp", ">", self.col("i64") if "i64" in self.by else self.lit("i64"), self.lit("f64"))
        if k == 1:   # Int32 column vs Date32 literal
            return ("cmp", "<", self.col("i32") if "i32" in self.by else self.lit("i32"), ("lit", "date", 9000))
        if k == 2:   # a cast directly as a comparison side (only allowed under arithmetic)
            return ("cmp", "<", ("castf", f), self.lit("f64"))
        if k == 3:   # integer arithmetic
            return ("cmp", ">", ("arith", "+", self.lit("i64"), self.lit("i64")), self.lit("i64"))
        if k == 4:
            return ("and", self.atom(), ("other", "isnull", [f]))
        if k == 5:
            return ("cmp", "=", ("other", "mod", [self.lit("i64"), ("lit", "i64", 3)]), self.lit("i64"))
        if k == 6:
            return ("cmp", "=", f, ("lit", "null", None))
        if k == 7:
            return ("cmp", "=", ("lit", "str", "x"), ("lit", "str", "x"))
        if k == 8 and "str" in self.by:
            return ("cmp", "=", self.col("str"), ("lit", "str", "x"))
        if k == 9:   # f-register budget: (2a-1)+(2b-1) registers, 24 fits, 26 does not
            a, b = r.choice([(6, 7), (7, 7), (12, 1), (12, 2), (13, 1)])
            def chain(n):
                e = f
                for _ in range(n - 1):
                    e = ("arith", r.choice("+-*"), e, f if r.random() < 0.6 else self.lit("f64"))
                return e
            return ("cmp", r.choice(list(CMP)), chain(a), chain(b))
        if k == 10:  # m-register budget: n comparisons + n-1 connectives (+ NOTs)
            n = r.choice([11, 12, 13])
            e = self.atom()
            for _ in range(n - 1):
                e = (r.choice(["and", "or"]), e, self.atom())
            for _ in range(r.choice([0, 1, 2])):
                e = ("not", e)
            return e
        return ("cmp", "<", ("other", "negate", [f]), self.lit("f64"))

LENGTHS = [0, 1, 7, 1023, 1024, 1025, 2049]

def gen_cell(g, t, null_p, garbage_p):
    r = g.rng
    if t == "str":
        return r.choice(["x", "y", None])
    if t == "f64":
        v = g.f64_value()
        cell = ["f", str(v)]
    elif t == "i64":
        v = r.choice(I64S)
        cell = v
    else:
        v = r.choice(I32S)
        cell = ["d", v] if t == "date" else v
    if r.random() < null_p:
        if r.random() < garbage_p:
            return ["n", cell]
        return None
    return cell

def cell_value(t, cell):
    """(valid, raw Z value) of a cell as the arrays hold it."""
    if t == "str":
        return (cell is not None, 0)
    valid = True
    if cell is None:
        return (False, 0)
    if isinstance(cell, list) and cell[0] == "n":
        valid, cell = False, cell[1]
    if isinstance(cell, list):
        return (valid, int(cell[1]))
    return (valid, int(cell))

def gen_layout(rng, k, L):
    """segments (pattern index, repeat) summing to L, with single-row segments around chunk boundaries."""
    if L == 0:
        return []
    segs, left = [], L
    if L >= 1023:
        cuts = sorted(set([rng.randint(1, 1022), 1020, 1021, 1022, 1023, 1024, 1025, 1026] +
                          ([2046, 2047, 2048] if L > 2047 else []) + [L]))
        cuts = [c for c in cuts if c <= L]
        prev = 0
        for c in cuts:
            if c > prev:
                segs.append((rng.randrange(k), c - prev))
                prev = c
        return segs
    while left > 0:
        n = min(left, rng.choice([1, 1, 1, 2, 3, 8]))
        segs.append((rng.randrange(k), n))
        left -= n
    return segs

def gen_case(rng, i):
    style = rng.choice(["clean", "clean", "clean", "zeros", "nans", "all"])
    ncols = rng.randint(1, 5)
    types = [rng.choice(["f64", "f64", "f64", "i64", "i32", "date"]) for _ in range(ncols)]
    declining = (i % 8 == 7)
    if declining and rng.random() < 0.3:
        types.append("str")
    g = Gen(rng, types, style)
    # per-batch type drift: the predicate is compiled against `compile_types`, the batch has `types`
    compile_types = None
    if not declining and i % 25 == 24:
        j = rng.randrange(len(types))
        compile_types = list(types)
        types = list(types)
        types[j] = rng.choice([t for t in ("f64", "i64", "i32", "date") if t != types[j]])
    k = rng.randint(1, 6)
    null_p = rng.choice([0.0, 0.0, 0.15, 0.4])
    patterns = [[gen_cell(g, t, null_p, 0.5) for t in types] for _ in range(k)]
    L = LENGTHS[i % 16] if i % 16 < len(LENGTHS) else rng.randint(2, 40)
    layout = gen_layout(rng, k, L)
    e = g.declining() if declining else g.boolean(rng.choice([0, 1, 2, 2, 3]))
    return {"mode": "unit", "types": types, "patterns": patterns, "layout": layout, "expr": e, "style": style,
            "force_null_buffer": rng.random() < 0.15, "compile_types": compile_types}

# ---------------------------------------------------------------- arithmetic oracle table
def build_table(case):
    """All f64 operations the expression performs on the pattern rows: [(opcode, a, b, r)]. Raises Ambiguous."""
    types, table = case["types"], {}

    def ev(e, row):
        k = e[0]
        if k == "col":
            return cell_value(types[e[1]], row[e[1]])[1] if types[e[1]] == "f64" else None
        if k == "lit":
            return e[2] if e[1] == "f64" else None
        if k == "arith":
            a, b = ev(e[2], row), ev(e[3], row)
            if a is None or b is None:
                return None
            key = (ACODE[e[1]], a, b)
            if key not in table:
                table[key] = fop_py(e[1], a, b)
            return table[key]
        if k in ("alias", "castf"):
            return ev(e[1], row)
        if k == "other":
            for a in e[2]:
                ev(a, row)
            return None
        for a in e[1:]:
            if isinstance(a, tuple):
                ev(a, row)
        return None

    for row in case["patterns"]:
        ev(case["expr"], row)
    return [(o, a, b, r) for (o, a, b), r in table.items()]

# ---------------------------------------------------------------- rendering
def harness_case(c):
    rows = [{"repeat": r, "row": c["patterns"][j]} for j, r in c["layout"]]
    h = {"schema": [[f"c{j}", t] for j, t in enumerate(c["types"])], "rows": rows,
         "force_null_buffer": c["force_null_buffer"], "expr": to_json(c["expr"])}
    if c.get("compile_types"):
        h["compile_schema"] = [[f"c{j}", t] for j, t in enumerate(c["compile_types"])]
    return h

def coq_batch(c):
    cols = []
    for j, t in enumerate(c["types"]):
        vv = [cell_value(t, row[j]) for row in c["patterns"]]
        vals = "[" + "; ".join(zlit(v) for _, v in vv) + "]"
        valid = "[" + "; ".join(vlib.blit(ok) for ok, _ in vv) + "]"
        cols.append(f"mkCol {j} {TY[t]} {vals} {valid}")
    return f"(mkBatch {len(c['patterns'])}%nat [" + "; ".join(cols) + "])"

def coq_prelude_of(c, table):
    tbl = "[" + "; ".join(f"({o}, {zlit(a)}, {zlit(b)}, {zlit(r)})" for o, a, b, r in table) + "]"
    segs = "[" + "; ".join(f"({j}%nat, {r}%nat)" for j, r in c["layout"]) + "]"
    return (f"let fop := tbl_fop {tbl} in let bd := {coq_batch(c)} in let segs := {segs} in "
            f"let b := expand_batch segs bd in let e := {to_coq(c['expr'])} in "
            f"let mp := compile e {coq_schema(c)} in let k := {len(c['patterns'])}%nat in ")

def coq_schema(c):
    if c.get("compile_types"):
        return "[" + "; ".join(f"({j}, {TY[t]})" for j, t in enumerate(c["compile_types"])) + "]"
    return "(schema_of b)"

def digits_term(o):
    if isinstance(o, str) and o and set(o) <= set("012"):
        return "(Some [" + "; ".join(o) + "])"
    if o == "":
        return "(Some [])"
    return "None"

def unit_term(c, table, out):
    return ("(" + coq_prelude_of(c, table) +
            f"[[out_eqb {digits_term(out.get('compiled'))} (match mp with Some p => run fop p b | None => None end); "
            f"match mp with Some _ => out_eqb {digits_term(out.get('interp'))} (interp fop e b) | None => true end; "
            "match mp with Some _ => true | None => false end; wf_batchb b]; "
            "map (nan_row fop e bd) (seq 0 k); map (negzero_row fop e bd) (seq 0 k)])")

def e2e_term(c, table):
    tr = "(fun o => match o with Some l => map (fun x => match x with Some true => true | _ => false end) l | None => [] end)"
    return ("(" + coq_prelude_of(c, table) +
            "[[match mp with Some _ => true | None => false end; wf_batchb b]; "
            f"{tr} (match mp with Some p => run fop p b | None => None end); {tr} (interp fop e b); "
            "map (nan_row fop e bd) (seq 0 k); map (negzero_row fop e bd) (seq 0 k)])")

def row_patterns(c):
    out = []
    for j, r in c["layout"]:
        out += [j] * r
    return out

def coq_eval(terms, tag, shard):
    """vlib.coq_eval_list with one retry (a coqc killed by the OOM killer on a loaded machine prints nothing)."""
    try:
        return vlib.coq_eval_list(REQ, "", terms, tag, shard=shard)
    except RuntimeError as e:
        if str(e).rstrip().endswith("):"):
            return vlib.coq_eval_list(REQ, "", terms, tag, shard=shard)
        raise

# ---------------------------------------------------------------- classification
def classify_rows(ctx, rows_bad, pat_of_row, nanf, zerof):
    """Class of a set of disagreeing rows decided by the Coq row predicates; None if some row is in no class."""
    if not rows_bad:
        return None
    if any(not (nanf[pat_of_row[i]] or zerof[pat_of_row[i]]) for i in rows_bad):
        return None
    only_zero = [i for i in rows_bad if not nanf[pat_of_row[i]]]
    only_nan = [i for i in rows_bad if not zerof[pat_of_row[i]]]
    if not only_zero:
        return "nan-cmp"
    if not only_nan:
        return "neg-zero-cmp"
    # both kinds of rows disagree in this case: both classes must be known
    return "nan-cmp" if ctx.is_known("neg-zero-cmp") else "neg-zero-cmp"

# ---------------------------------------------------------------- unit (direct) mode
def evaluate_unit(ctx, cases):
    tables = [build_table(c) for c in cases]
    outs = vlib.run_harness("c06", [harness_case(c) for c in cases], env={"QE_COMPILE": "1"})
    vals = coq_eval([unit_term(c, t, o) for c, t, o in zip(cases, tables, outs)], "c06u", 40)
    eq, ok = [], []
    for c, o, v in zip(cases, outs, vals):
        (eqc, eqi, compiled, wf), nanf, zerof = v
        comp, itp, pe = o.get("compiled"), o.get("interp"), o.get("pe")
        pats = row_patterns(c)
        if c.get("compile_types"):
            # type drift: only the compiled side is comparable (evaluate returns None iff the model's resolve fails)
            eq.append(bool(wf and eqc and o.get("n") == len(pats)))
            ok.append(True)
            c["_class"], c["_special"], c["_compiled"], c["_bad_rows"] = None, False, False, []
            c["_drift_evalnone"] = comp == "evalnone"
            continue
        good = wf and eqc and eqi and o.get("n") == len(pats) and o.get("compile_enabled") is True
        # PredicateEvaluator = compiled path when it compiled, interpreter otherwise
        good = good and (pe == (comp if comp not in ("declined", "evalnone") else itp))
        bad_rows = []
        if compiled and isinstance(comp, str) and isinstance(itp, str) and len(comp) == len(itp):
            bad_rows = [i for i in range(len(comp)) if comp[i] != itp[i]]
        elif compiled:
            good = False
        c["_class"] = classify_rows(ctx, bad_rows, pats, nanf, zerof)
        c["_special"] = any(nanf[j] or zerof[j] for j in set(pats))
        c["_compiled"] = bool(compiled)
        c["_bad_rows"] = bad_rows[:5]
        eq.append(bool(good))
        ok.append(not bad_rows)
    return outs, eq, ok

# ---------------------------------------------------------------- end-to-end mode
E2E_NAMES = ["f", "g", "k", "d"]
E2E_TYPES = ["f64", "f64", "i64", "date"]

def gen_e2e_table(rng, ti):
    style = ["clean", "nans", "zeros", "all"][ti % 4]
    g = Gen(rng, E2E_TYPES, style, sql=True)
    k = rng.randint(3, 6)
    patterns = [[gen_cell(g, t, 0.15, 0.0) for t in E2E_TYPES] for _ in range(k)]
    L = [9, 40, 1025, 2049][ti % 4] if ti < 4 else rng.randint(5, 60)
    layout = gen_layout(rng, k, L)
    return g, patterns, layout

def gen_e2e(rng, ntables, nq):
    cases = []
    for ti in range(ntables):
        g, patterns, layout = gen_e2e_table(rng, ti)
        for _ in range(nq):
            for _try in range(20):
                e = g.boolean(rng.choice([0, 1, 1, 2]))
                c = {"mode": "e2e", "table": ti, "types": E2E_TYPES, "patterns": patterns, "layout": layout, "expr": e,
                     "style": g.style, "row_group": rng.choice([3, 1024, 100000])}
                try:
                    c["sql"] = "SELECT id FROM t WHERE " + to_sql(e, E2E_NAMES)
                    build_table(c)
                    break
                except (Ambiguous, KeyError, ValueError):
                    continue
            else:
                continue
            cases.append(c)
    return cases

def e2e_table_spec(c):
    rows = []
    for i, j in enumerate(row_patterns(c)):
        rows.append([i] + c["patterns"][j])
    return {"name": "t", "cols": [["id", "i64"]] + [[n, t] for n, t in zip(E2E_NAMES, E2E_TYPES)], "rows": rows,
            "parquet": {"files": [max(1, len(rows) // 2 + 1)] * 2, "row_group": c["row_group"], "statistics": False}}

def evaluate_e2e(ctx, cases):
    # group queries per table so each table is written once per run
    groups = {}
    for idx, c in enumerate(cases):
        groups.setdefault((c["table"], c["row_group"], id(c["patterns"])), []).append(idx)
    hcases, owners = [], []
    for key, idxs in groups.items():
        hcases.append({"tables": [e2e_table_spec(cases[idxs[0]])], "queries": [cases[i]["sql"] for i in idxs]})
        owners.append(idxs)
    on = vlib.run_harness("sql", hcases, env={"QE_COMPILE": "1"})
    off = vlib.run_harness("sql", hcases, env={"QE_COMPILE": "0"})
    res_on, res_off = [None] * len(cases), [None] * len(cases)
    for idxs, o1, o0 in zip(owners, on, off):
        for q, i in enumerate(idxs):
            res_on[i] = (o1.get("results") or [None] * len(idxs))[q] if "results" in o1 else o1
            res_off[i] = (o0.get("results") or [None] * len(idxs))[q] if "results" in o0 else o0
    tables = [build_table(c) for c in cases]
    vals = coq_eval([e2e_term(c, t) for c, t in zip(cases, tables)], "c06e", 20)

    def ids(r):
        if isinstance(r, dict) and "ok" in r:
            return sorted(x[0] for x in r["ok"]["rows"])
        return {"failed": r}

    outs, eq, ok = [], [], []
    for c, r1, r0, v in zip(cases, res_on, res_off, vals):
        (compiled, wf), run_true, interp_true, nanf, zerof = v
        a, b = ids(r1), ids(r0)
        pats = row_patterns(c)
        outs.append({"compile_on": a if not isinstance(a, list) or len(a) < 50 else a[:50] + ["..."],
                     "compile_off": b if not isinstance(b, list) or len(b) < 50 else b[:50] + ["..."]})
        if not isinstance(a, list) or not isinstance(b, list):
            # an error must at least be the same in both configurations
            ok.append(a == b)
            eq.append(a == b)
            c["_class"], c["_special"], c["_compiled"] = None, False, bool(compiled)
            continue
        exp_off = [i for i, t in enumerate(interp_true) if t]
        exp_on = [i for i, t in enumerate(run_true) if t] if compiled else exp_off
        bad = sorted(set(a) ^ set(b))
        c["_class"] = classify_rows(ctx, bad, pats, nanf, zerof)
        c["_special"] = any(nanf[j] or zerof[j] for j in set(pats))
        c["_compiled"] = bool(compiled)
        ok.append(a == b)
        eq.append(bool(wf) and ((a == exp_on and b == exp_off) if compiled else a == b))
    return outs, eq, ok

# ---------------------------------------------------------------- driver
def gen_units(rng, n):
    cases, i, tries = [], 0, 0
    while len(cases) < n and tries < 20 * n:
        tries += 1
        c = gen_case(rng, i)
        try:
            build_table(c)
        except Ambiguous:
            continue
        cases.append(c)
        i += 1
    return cases

def expr_size(e):
    return 1 + sum(expr_size(a) for a in e[1:] if isinstance(a, tuple)) + \
        (sum(expr_size(a) for a in e[2] if isinstance(a, tuple)) if e[0] == "other" else 0)

def run(ctx):
    # Flocq (used only by C06_ieee_cmp_matches_flocq_on_grid) is built on the axiomatised Reals
    proved = ctx.prove(allow=["sig_not_dec", "sig_forall_dec", "functional_extensionality_dep", "classic"])
    n_unit = ctx.n(600, 5000)
    units = gen_units(ctx.rng, n_unit if proved else n_unit * 3)
    e2e = gen_e2e(ctx.rng, ctx.n(6, 24), ctx.n(8, 15))
    uo, ueq, uok = evaluate_unit(ctx, units)
    eo, eeq, eok = evaluate_e2e(ctx, e2e)
    cases, outs, eq, ok = units + e2e, uo + eo, ueq + eeq, uok + eok

    ctx.cov["evaluations"] = len(cases)
    seen = set()
    for c in cases:
        if c["_compiled"] and sum(r for _, r in c["layout"]) >= 1:
            seen.add(repr((c["mode"], c["types"], c["patterns"], c["layout"], c["expr"])))
    ctx.cov["distinct_nontrivial"] = len(seen)
    lens = {}
    for c in units:
        L = sum(r for _, r in c["layout"])
        lens[L if L in LENGTHS else "other(2..40)"] = lens.get(L if L in LENGTHS else "other(2..40)", 0) + 1
    ctx.cov["input_distribution"] = {
        "unit_cases": len(units), "e2e_queries": len(e2e),
        "unit_batch_lengths": {str(k): v for k, v in lens.items()},
        "compiled": sum(1 for c in cases if c["_compiled"]), "declined": sum(1 for c in cases if not c["_compiled"]),
        "in_known_shape(nan/negzero row present)": sum(1 for c in cases if c["_special"]),
        "impl_compiled_differs_from_impl_interpreted": sum(1 for x in ok if not x),
        "with_nulls": sum(1 for c in cases if any(cell is None or (isinstance(cell, list) and cell[0] == "n")
                                                  for row in c["patterns"] for cell in row)),
        "with_arithmetic": sum(1 for c in cases if "'arith'" in repr(c["expr"])),
        "type_drift_cases": sum(1 for c in units if c.get("compile_types")),
        "type_drift_evaluate_returned_none": sum(1 for c in units if c.get("_drift_evalnone")),
        "max_expr_nodes": max(expr_size(c["expr"]) for c in cases),
        "styles": {s: sum(1 for c in cases if c["style"] == s) for s in ("clean", "zeros", "nans", "all")}}
    for c, o in list(zip(cases, outs))[:2] + list(zip(e2e, eo))[:2]:
        ctx.sample({"input": {k: v for k, v in c.items() if not k.startswith("_")},
                    "impl_output": {k: (v if not isinstance(v, str) or len(v) < 80 else v[:80] + "...") for k, v in o.items()}})
    ctx.judge(cases, eq, ok, classify=lambda c: c.get("_class"), impl_outs=outs)
    if not proved and not ctx.violations:
        ctx.proof_broken_violation(f"{len(cases)} generated (expr, batch) pairs; every disagreement between the compiled "
                                   "and interpreted masks lies in a known class")
    return ctx.finish(
        rule="random predicates of the compiled subset (f64/i64/i32/date columns and literals, f64 +-*/ trees, six "
             "comparisons, AND/OR/NOT, [NOT] BETWEEN, aliases, no-op casts) and, every 8th case, shapes that must decline "
             "or sit at the 24-register limit; batches of 1..6 distinct rows (NULLs with garbage underneath, NaN of both "
             "signs and payloads, +-0.0, +-inf, subnormals, i64/i32 extremes) laid out over lengths "
             "0,1,7,1023,1024,1025,2049 and 2..40 with single-row segments around the 1024-row chunk boundaries; each case "
             "compares impl-compiled vs model run, impl-interpreted vs model interp, PredicateEvaluator vs both, and "
             "impl-compiled vs impl-interpreted row by row; end-to-end: SELECT id FROM t WHERE <pred> over a two-file "
             "Parquet table with QE_COMPILE=1 vs QE_COMPILE=0 (two subprocess runs), compared with each other and with the "
             "model's run/interp. non-trivial = the predicate compiled and the batch is non-empty; distinct by "
             "(schema, rows, layout, expr)",
        assumptions=["f64 +,-,*,/ are the same IEEE-754 operation in the compiled loops and in arrow's numeric kernels "
                     "(Section variable fop; the check instantiates it with the host FPU's results)",
                     "Rust `<`,`==` on f64 = f64_ieee_cmp and arrow-ord cmp on Float64 = f64::total_cmp = f64_total_cmp "
                     "(definitions on bit patterns, tied by the correspondence run on NaN/-NaN/payload NaN/+-0/+-inf/subnormals)",
                     "arrow boolean::and/or/not and cmp kernels propagate validity as the AND of their inputs' validities",
                     "BooleanBufferBuilder::append_packed_range(0..len, bytes) appends bit i = (bytes[i/8] >> (i%8)) & 1",
                     "column resolution: bare, unambiguous column names only (qualified/suffix matching not modelled)",
                     "stale slab contents beyond `len` are never read (modelled: slabs are CHUNK long and carried across chunks)"])

def replay(ctx, obj):
    c = obj.get("case") or obj.get("first_differing_case")
    c = dict(c)
    def tup(x):
        return tuple(tup(y) for y in x) if isinstance(x, list) else x
    def expr_of(x):
        if isinstance(x, (list, tuple)):
            if x and x[0] == "other":
                return ("other", x[1], [expr_of(a) for a in x[2]])
            return tuple(expr_of(a) if isinstance(a, (list, tuple)) else a for a in x)
        return x
    c["expr"] = expr_of(c["expr"])
    c["layout"] = [tuple(s) for s in c["layout"]]
    outs, eq, ok = (evaluate_e2e if c.get("mode") == "e2e" else evaluate_unit)(ctx, [c])
    print("impl_output:", {k: (v if not isinstance(v, str) or len(v) < 200 else v[:200] + "...") for k, v in outs[0].items()})
    print("impl_equals_model:", eq[0], "compiled_equals_interpreted:", ok[0], "class:", c.get("_class"),
          "first_disagreeing_rows:", c.get("_bad_rows"))
    return 0 if ok[0] and eq[0] else 1
