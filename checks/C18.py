"""C18 — Parquet table statistics are sound bounds.
Theorems: coq/theories/Props/C18.v.  Correspondence: the real ParquetTable::statistics() on harness-written
multi-file tables vs C18.Model.statistics fed with the REAL footers (read back by the harness) and the data the
check generated; the report is judged by C18.Model.stats_ok against that data, which is itself cross-checked
with a full scan through the real reader.  "Estimates never decide an answer": (i) every source use of
ndv_est / min_f64 / max_f64 / ndv_str is re-listed each run against an allowlist, (ii) queries whose rewrites
consume the statistics (dual-key join packing, functional-dependency group-key reduction) are compared with
brute force."""
import json, os, re
import vlib
from vlib import zlit

REQ = "From QV Require Import Base.Util C18.Model."
I64 = (-2**63, 2**63 - 1)
I32 = (-2**31, 2**31 - 1)
SRC = vlib.REPO + "/src"

# ---------------------------------------------------------------- source-use audit
PRODUCER, COST, UNRELATED, DECISION = "producer/definition", "cost-only", "unrelated-identifier", "decides-an-answer"
ALLOW = {
    ("optimizer/rules/eager_aggregation.rs", ".ndv_est"): (1, DECISION),       # key uniqueness gate of the COUNT rewrite
    ("optimizer/rules/eager_aggregation.rs", "ndv_max = ndv_max.max(cs.ndv_est?);"): (1, COST),
    ("optimizer/rules/group_key_reduction.rs", ".ndv_est"): (1, DECISION),     # is_unique_key
    ("optimizer/rules/group_key_reduction.rs", "if far.ndv_est? as i64 != fmax - fmin + 1 {"): (1, DECISION),  # dense => join removal
    ("optimizer/rules/join_reorder.rs", "BinaryOp::Eq => 1.0 / cs.ndv_est.unwrap_or(100).max(1) as f64,"): (1, COST),
    ("optimizer/rules/join_reorder.rs", "col_stats.ndv_est.map(|v| v as f64)"): (1, COST),
    ("optimizer/rules/join_reorder.rs", "if let Some(ndv) = cs.ndv_est {"): (1, COST),
    ("optimizer/rules/join_reorder.rs", "if let Some(v) = cs.ndv_est {"): (1, COST),
    ("optimizer/rules/packed_join_keys.rs", "ndv_est: None,"): (1, PRODUCER),
    ("distributed/shard.rs", "cs.ndv_est = None;"): (1, PRODUCER),            # a shard's slice of a table drops the estimate (fix for C09)
    ("physical/operators/scan.rs", "/// SAMPLED maximum for float columns; see `min_f64`."): (1, PRODUCER),
    ("physical/operators/scan.rs", "/// `ndv_est` is an estimated number of distinct values. For integer columns it"): (1, PRODUCER),
    ("physical/operators/scan.rs", "/// only; see `min_f64`."): (1, PRODUCER),
    ("physical/operators/scan.rs", "pub max_f64: Option<f64>,"): (1, PRODUCER),
    ("physical/operators/scan.rs", "pub min_f64: Option<f64>,"): (1, PRODUCER),
    ("physical/operators/scan.rs", "pub ndv_est: Option<u64>,"): (1, PRODUCER),
    ("physical/operators/scan.rs", "pub ndv_str: Option<u64>,"): (1, PRODUCER),
    ("physical/planner.rs", "// stats only. ndv_est is min(rows, range), which made"): (1, PRODUCER),
    ("storage/lance.rs", "entry.max_f64 = fmax;"): (1, PRODUCER),
    ("storage/lance.rs", "entry.min_f64 = fmin;"): (1, PRODUCER),
    ("storage/lance.rs", "entry.ndv_str = Some(distinct.len() as u64);"): (1, PRODUCER),
    ("storage/lance.rs", "let (lo, hi) = (cs.min_f64?, cs.max_f64?);"): (2, COST),   # estimate_selectivity
    ("storage/lance.rs", "let ndv = cs.ndv_est.or(cs.ndv_str);"): (1, COST),
    ("storage/lance.rs", "let ndv = cs.ndv_est.or(cs.ndv_str)?;"): (1, COST),
    ("storage/lance.rs", "let ndv_est = match (min_v, max_v) {"): (1, PRODUCER),
    ("storage/lance.rs", "ndv_est,"): (1, PRODUCER),
    ("storage/parquet.rs", "assert_eq!(key.ndv_est, Some(1500));"): (1, PRODUCER),
    ("storage/parquet.rs", "let ndv_est = if acc.has_int_stats {"): (1, PRODUCER),
    ("storage/parquet.rs", "ndv_est,"): (1, PRODUCER),
}
# physical/operators/hash_agg.rs has its own accumulator fields called min_f64/max_f64 (MIN/MAX aggregate state)
UNRELATED_FILES = {"physical/operators/hash_agg.rs"}
PAT = re.compile(r"ndv_est|min_f64|max_f64|ndv_str")


def audit_sites():
    seen = {}
    for root, _, files in os.walk(SRC):
        for fn in files:
            if not fn.endswith(".rs"):
                continue
            p = os.path.join(root, fn)
            rel = os.path.relpath(p, SRC)
            try:
                lines = open(p, encoding="utf-8", errors="replace").read().split("\n")
            except OSError:
                continue
            for i, l in enumerate(lines):
                if l.strip().startswith("//"):
                    continue        # a comment cannot decide an answer; only code sites are audited
                if PAT.search(l):
                    seen.setdefault((rel, l.strip()), []).append(i + 1)
    new, decision, counts = [], [], {}
    for (rel, text), where in sorted(seen.items()):
        if rel in UNRELATED_FILES and "ColumnStatistics" not in text and "ndv_est" not in text and "ndv_str" not in text:
            counts[UNRELATED] = counts.get(UNRELATED, 0) + len(where)
            continue
        n, cat = ALLOW.get((rel, text), (0, None))
        if len(where) > n:
            new.append({"file": rel, "lines": where, "text": text, "allowlisted_occurrences": n})
        if cat:
            counts[cat] = counts.get(cat, 0) + min(n, len(where))
        if cat == DECISION:
            decision.append({"file": rel, "lines": where, "text": text})
    return new, decision, counts


# ---------------------------------------------------------------- case generation
def gen_int(rng, lohi, style):
    lo, hi = lohi
    if style == "small":
        return rng.randint(0, 5)
    if style == "neg":
        return rng.randint(-100, 100)
    if style == "wide":
        return rng.randint(max(lo, -2**40), min(hi, 2**40))
    if style == "extreme":
        return rng.choice([lo, lo + 1, -1, 0, 1, hi - 1, hi])
    if style == "bigrange":
        return rng.choice([lo // 2 - 7, hi // 2 + 7, rng.randint(lo // 2, hi // 2)])
    if style == "posbig":
        return rng.choice([0, hi, hi - 1, rng.randint(0, hi)])
    return 42  # const


SCHEMAS = [
    [["a", "i64"]],
    [["a", "i64"], ["b", "i32"]],
    [["a", "i64"], ["s", "str"]],
    [["Ab", "i64"], ["b", "i32"], ["d", "date"], ["s", "str"]],
]
STYLES = ["small", "neg", "wide", "extreme", "bigrange", "posbig", "const"]


def gen_case(rng):
    kind = rng.choice(["stats", "stats", "stats", "join", "group"])
    if kind == "join":
        cols = [[c, "i64"] for c in "abcd"]
        styles = ["small"] * 4
    elif kind == "group":
        cols = [["k", "i64"], ["d", "i64"]]
        styles = ["small", "small"]
    else:
        cols = rng.choice(SCHEMAS)
        styles = [rng.choice(STYLES) for _ in cols]
    nfiles = rng.randint(1, 4)
    files = []
    for fi in range(nfiles):
        n = rng.choice([0, 1, 2, 3, 4, 5, 7, 10]) if kind == "stats" else rng.randint(1, 5)
        dens = [rng.choice([0.0, 0.0, 0.2, 0.8, 1.0]) if kind == "stats" else rng.choice([0.0, 0.0, 0.0, 0.15]) for _ in cols]
        rows = []
        for _ in range(n):
            row = []
            for (name, typ), st, d in zip(cols, styles, dens):
                if rng.random() < d:
                    row.append(None)
                elif typ == "i64":
                    row.append(gen_int(rng, I64, st))
                elif typ in ("i32", "date"):
                    row.append(gen_int(rng, I32, st))
                else:
                    row.append(rng.choice(["x", "y", "", "Zz"]))
            rows.append(row)
        f = {"rows": rows, "row_group": rng.choice([1, 2, 3, 100]), "stats": rng.choice(["chunk", "chunk", "chunk", "page", "none"])}
        names = [c[0] for c in cols]
        if f["stats"] != "none" and rng.random() < 0.25:
            f["stats_off"] = rng.sample(names, rng.randint(1, len(names)))
        if f["stats"] == "none" and rng.random() < 0.3:
            f["stats_on"] = rng.sample(names, rng.randint(1, len(names)))
        files.append(f)
    if sum(len(f["rows"]) for f in files) == 0:
        files[0]["rows"] = [[None if c[1] != "str" else "x" for c in cols]]
    c = {"cols": cols, "files": files, "kind": kind}
    if kind == "join":
        c["sql"] = ["SELECT r.a, r.b, s.c, s.d FROM t r JOIN t s ON r.a = s.c AND r.b = s.d"]
    elif kind == "group":
        c["sql"] = ["SELECT k, d, count(*) FROM t GROUP BY k, d"]
    return c


# the two minimal end-to-end witnesses, replayed on every run
WITNESS_JOIN = {"cols": [[c, "i64"] for c in "abcd"], "kind": "join",
                "files": [{"rows": [[0, 1, 1, 0]], "stats": "chunk", "row_group": 100},
                          {"rows": [[0, 2, 5, 1]], "stats": "chunk", "stats_off": ["b"], "row_group": 100}],
                "sql": ["SELECT r.a, r.b, s.c, s.d FROM t r JOIN t s ON r.a = s.c AND r.b = s.d"]}
WITNESS_GROUP = {"cols": [["k", "i64"], ["d", "i64"]], "kind": "group",
                 "files": [{"rows": [[1, 10], [1, 20], [3, 30]], "stats": "chunk", "row_group": 100}],
                 "sql": ["SELECT k, d, count(*) FROM t GROUP BY k, d"]}
WITNESS_STATSLESS = {"cols": [["a", "i64"]], "kind": "stats",
                     "files": [{"rows": [[1]], "stats": "chunk", "row_group": 100}, {"rows": [[100]], "stats": "none", "row_group": 100}]}
WITNESS_WIDE = {"cols": [["a", "i64"]], "kind": "stats", "files": [{"rows": [[-1], [2**63 - 1]], "stats": "chunk", "row_group": 100}]}
WITNESS_FULL = {"cols": [["a", "i64"]], "kind": "stats", "files": [{"rows": [[-2**63], [2**63 - 1]], "stats": "chunk", "row_group": 100}]}
WITNESSES = [WITNESS_JOIN, WITNESS_GROUP, WITNESS_STATSLESS, WITNESS_WIDE, WITNESS_FULL]


# ---------------------------------------------------------------- truth computed from the case
def layout(c):
    """[file][row group] -> list of rows"""
    out = []
    for f in c["files"]:
        rg = max(1, f.get("row_group", 1 << 20))
        out.append([f["rows"][a:a + rg] for a in range(0, len(f["rows"]), rg)])
    return out


def all_rows(c):
    return [r for f in c["files"] for r in f["rows"]]


def truth_scan(c):
    rows = all_rows(c)
    out = {}
    for i, (name, typ) in enumerate(c["cols"]):
        vals = [r[i] for r in rows]
        nn = [v for v in vals if v is not None]
        isint = typ in ("i64", "i32", "date")
        out[name.lower()] = {"rows": len(vals), "nulls": len(vals) - len(nn),
                             "min": min(nn) if (isint and nn) else None, "max": max(nn) if (isint and nn) else None}
    return out


def truth_sql(c):
    rows = all_rows(c)
    if c["kind"] == "join":
        return sorted([[r[0], r[1], s[2], s[3]] for r in rows for s in rows
                       if r[0] is not None and r[0] == s[2] and r[1] is not None and r[1] == s[3]], key=json.dumps)
    cnt = {}
    for r in rows:
        cnt[(r[0], r[1])] = cnt.get((r[0], r[1]), 0) + 1
    return sorted([[k[0], k[1], n] for k, n in cnt.items()], key=json.dumps)


# ---------------------------------------------------------------- Coq rendering
def opt(x, f=zlit):
    return "None" if x is None else f"(Some {f(x)})"


def table_term(c, o):
    """footers come from the real files; values from the generated data"""
    ids = {name.lower(): i for i, (name, _) in enumerate(c["cols"])}
    lay = layout(c)
    files = []
    for fi, frg in enumerate(o["footers"]):
        rgs = []
        for ri, rg in enumerate(frg):
            data = lay[fi][ri]
            chunks = []
            for ch in rg["chunks"]:
                k = ids[ch["col"]]
                isint = ch["isint"]
                vals = "[" + "; ".join("None" if r[k] is None else f"Some {zlit(r[k] if isint else 0)}" for r in data) + "]"
                st = ch["stats"]
                if st is None:
                    s = "None"
                else:
                    mm = st["minmax"]
                    s = f"(Some (mkCS {opt(st['nulls'])} {'None' if mm is None else f'(Some ({zlit(mm[0])}, {zlit(mm[1])}))'}))"
                chunks.append(f"mkChunk {k} {vlib.blit(isint)} {zlit(rg['rows'])} {s} {vals}")
            rgs.append(f"mkRG {zlit(rg['rows'])} [" + "; ".join(chunks) + "]")
        files.append("[" + "; ".join(rgs) + "]")
    return "[" + "; ".join(files) + "]"


def impl_term(c, o):
    ids = {name.lower(): i for i, (name, _) in enumerate(c["cols"])}
    if "panic" in o:
        return "Panic", "(fun _ : Z => None)"
    s = o["stats"]
    cols, dict_cases = [], []
    intcols = {ch["col"] for f in o["footers"] for rg in f for ch in rg["chunks"] if ch["isint"]}
    for name, cs in sorted(s["cols"].items()):
        k = ids[name]
        cols.append(f"({k}, mkCol {opt(cs['min'])} {opt(cs['max'])} {opt(cs['nulls'])} {opt(cs['ndv'])})")
        if name not in intcols and cs["ndv"] is not None:
            dict_cases.append((k, cs["ndv"]))    # dictionary-page probe: external, taken from the implementation
    d = "None"
    for k, n in dict_cases:
        d = f"(if k =? {k} then Some {zlit(n)} else {d})"
    return f"(Stats {zlit(s['row_count'])} [" + "; ".join(cols) + "])", f"(fun k : Z => {d})"


def case_term(c, o):
    if "footers" not in o or ("stats" not in o and "panic" not in o) or o.get("stats", 1) is None:
        return "[false; false; false; false; false]"
    impl, d = impl_term(c, o)
    # known_statsless_mix is only reported as input distribution (a class of the code before the repair)
    return (f"(let t := {table_term(c, o)} in let impl := {impl} in let d := {d} in "
            f"[outcome_eqb impl (statistics d t); stats_ok t impl; table_wf t; "
            f"known_statsless_mix t; known_false_unique d t])")


# ---------------------------------------------------------------- evaluation
def harness_sane(c, o):
    """the files on disk are what the check meant to write, and a full scan reads the data back"""
    if "footers" not in o:
        return False, "no footers"
    lay = layout(c)
    names = [n.lower() for n, _ in c["cols"]]
    if [len(f) for f in o["footers"]] != [len(f) for f in lay]:
        return False, "row group count"
    for f, lf in zip(o["footers"], lay):
        for rg, lrg in zip(f, lf):
            if rg["rows"] != len(lrg) or [ch["col"] for ch in rg["chunks"]] != names:
                return False, "row group layout"
    if o.get("scan") != truth_scan(c):
        return False, "scan differs from written data"
    return True, ""


def sql_ok(c, o):
    if "sql" not in c:
        return True
    r = (o.get("sql") or [{}])[0]
    if "ok" not in r:
        return False
    return sorted(r["ok"]["rows"], key=json.dumps) == truth_sql(c)


def evaluate(ctx, cases):
    outs = vlib.run_harness("c18", cases)
    vals = vlib.coq_eval_list(REQ, "", [case_term(c, o) for c, o in zip(cases, outs)], "c18", shard=60)
    eq, ok, cls = [], [], []
    for c, o, v in zip(cases, outs, vals):
        sane, why = harness_sane(c, o)
        again = ("panic" in o) or (o.get("stats") and o["stats"]["again_rows"] == o["stats"]["row_count"])
        eq.append(bool(v[0]) and sane)
        sq = sql_ok(c, o)
        ok.append(bool(v[1] and v[2] and sane and again and sq))
        # class decided by Coq predicates on the footers/data, never by the failure
        k = "ndv-decides-uniqueness" if v[4] else None
        cls.append(k)
        c["_class"] = k
        rng2p63 = any(max(vs) - min(vs) >= 2**63 for vs in
                      [[r[i] for r in all_rows(c) if r[i] is not None] for i, (_, t) in enumerate(c["cols"]) if t == "i64"] if vs)
        c["_flags"] = {"wf": v[2], "statsless_mix": v[3], "range_ge_2p63": rng2p63, "false_unique": v[4], "sql_ok": sq,
                       "sane": why or True}
    return outs, eq, ok, cls


def run(ctx):
    proved = ctx.prove()
    n = ctx.n(200, 6000)
    cases = [json.loads(json.dumps(w)) for w in WITNESSES] + [gen_case(ctx.rng) for _ in range(n)]
    if not proved:
        cases += [gen_case(ctx.rng) for _ in range(1500)]
    outs, eq, ok, cls = evaluate(ctx, cases)

    ctx.cov["evaluations"] = len(cases)
    seen = set()
    for c in cases:
        rgs = sum(len(f) for f in layout(c))
        if rgs >= 2 and any(v is not None for r in all_rows(c) for v, (_, t) in zip(r, c["cols"]) if t != "str"):
            seen.add(json.dumps([c["cols"], [(f["rows"], f.get("row_group"), f["stats"], f.get("stats_off"), f.get("stats_on")) for f in c["files"]]]))
    ctx.cov["distinct_nontrivial"] = len(seen)
    ctx.cov["input_distribution"] = {
        "files_per_table": sorted(set(len(c["files"]) for c in cases)),
        "tables_mixing_stats_on_off": sum(1 for c in cases if c["_flags"]["statsless_mix"]),
        "tables_with_stats_disabled_file": sum(1 for c in cases if any(f["stats"] == "none" or f.get("stats_off") for f in c["files"])),
        "tables_with_all_null_chunk": sum(1 for c, o in zip(cases, outs) if any(
            ch["isint"] and ch["stats"] and ch["stats"]["minmax"] is None for f in o.get("footers", []) for rg in f for ch in rg["chunks"])),
        "tables_with_i64_extreme": sum(1 for c in cases if any(v in (I64[0], I64[1]) for r in all_rows(c) for v in r)),
        "tables_range_ge_2p63": sum(1 for c in cases if c["_flags"]["range_ge_2p63"]),
        "e2e_join_cases": sum(1 for c in cases if c["kind"] == "join"), "e2e_group_cases": sum(1 for c in cases if c["kind"] == "group"),
        "e2e_wrong_answers_in_known_classes": sum(1 for c in cases if not c["_flags"]["sql_ok"]),
        "overflow_checks_in_harness_build": bool(outs and outs[0].get("overflow_checks")),
    }
    for c, o in list(zip(cases, outs))[5:8]:
        ctx.sample({"input": {k: v for k, v in c.items() if not k.startswith("_")}, "impl_stats": o.get("stats", o.get("panic")),
                    "footers": o.get("footers")})
    ctx.judge(cases, eq, ok, classify=lambda c: c.get("_class"), impl_outs=outs)

    # every source use of the estimate fields, re-listed on each run
    new, decision, counts = audit_sites()
    ctx.cov["estimate_field_sites"] = counts
    ctx.cov["estimate_decision_sites"] = decision
    if new:
        ctx.violation({"kind": "estimate-field-used-at-a-site-outside-the-allowlist: ndv_est/min_f64/max_f64/ndv_str are estimates "
                               "and may only feed cost decisions; review the new use", "sites": new}, found_input=False, tag="estimate-sites")
    if decision:
        if ctx.is_known("ndv-decides-uniqueness"):
            ctx.known_finding("ndv-decides-uniqueness", ctx.known["ndv-decides-uniqueness"])
        else:
            ctx.violation({"kind": "estimate-decides-an-answer", "sites": decision, "case": WITNESS_GROUP,
                           "expected_rows": truth_sql(WITNESS_GROUP), "impl_output": outs[1].get("sql")}, found_input=True,
                          tag="ndv-decides-uniqueness")
    if not proved and not ctx.violations:
        ctx.proof_broken_violation(f"{len(cases)} generated tables, none violates the executable spec")
    return ctx.finish(
        rule="random Parquet tables: 1-4 files x row groups of 1/2/3/all rows, per-file statistics chunk/page/none with per-column "
             "overrides, NULL density 0/.2/.8/1 per file and column, i64/i32/date/str columns, integer styles small/neg/wide/extreme "
             "(i64::MIN/MAX)/range>=2^63/const; plus dual-key self-join and two-key GROUP BY tables compared with brute force; "
             "non-trivial = >=2 row groups and >=1 non-null integer; distinct by (schema, files)",
        assumptions=["the Parquet writer's per-chunk statistics are facts about the chunk (C18.Model.table_wf, evaluated on every real footer)",
                     "row counts and null counts fit u64/usize (no wrap in the sums)",
                     "column identity = lowercased dotted path (two columns differing only in case are merged by the code and by the model)",
                     "string-column ndv_est comes from a dictionary-page probe (external): taken from the implementation, not checked",
                     "estimate non-interference is checked by source-site listing + two consumer rules end to end, not proved for every rule"])


def replay(ctx, obj):
    c = obj.get("case") or obj.get("first_differing_case")
    if not c:
        print("nothing to replay (site listing):", json.dumps(obj.get("sites"), indent=1)); return 1
    c = {k: v for k, v in c.items() if not k.startswith("_")}
    outs, eq, ok, cls = evaluate(ctx, [c])
    print("impl_output:", json.dumps(outs[0])[:3000])
    print("impl_equals_model:", eq[0], "spec_ok:", ok[0], "class:", cls[0], "flags:", c["_flags"])
    if "sql" in c:
        print("expected_rows:", truth_sql(c))
    return 0 if ok[0] and eq[0] else 1
