"""C22 — joins follow SQL join semantics. Theorems: coq/theories/Props/C22.v. Correspondence: inner/left/right/full/cross
joins with 1..3 equi-keys of mixed integer widths, strings and dates, optional residual predicates, NULL keys and duplicates,
over memory and Parquet tables, plus three-way joins; engine vs engine model vs nested-loop reference."""
import vlib, relcheck, relgen
from relgen import col, lit, tbl

KEYSETS = [["i64"], ["i32"], ["str"], ["date"], ["i64", "str"], ["i32", "i64", "date"], ["str", "str"]]

def gen_group(rng, nq):
    keys = rng.choice(KEYSETS)
    # right side may use a different integer width for the same key (i32 vs i64)
    rkeys = [("i64" if k == "i32" and rng.random() < 0.5 else ("i32" if k == "i64" and rng.random() < 0.3 else k)) for k in keys]
    lt = keys + [rng.choice(["i64", "str", "f64"])]
    rt = rkeys + [rng.choice(["i64", "str"])]
    null_p = rng.choice([0.0, 0.2, 0.4])
    a = relgen.gen_table(rng, "ta", lt, null_p=null_p)
    many = rng.random() < 0.3
    if many:
        # the batch-parallel probe paths need >= 32 probe batches and a probe side more than twice the build side:
        # a larger left table delivered as many tiny batches, joined to a small right table
        a = relgen.gen_table(rng, "ta", lt, nrows=rng.choice([40, 70]), null_p=null_p)
        a["batch_sizes"] = [rng.choice([1, 1, 2]) for _ in range(len(a["rows"]))]
    b = relgen.gen_table(rng, "tb", rt, nrows=(rng.choice([2, 3, 5]) if many else None), null_p=null_p)
    if many:
        # make key matches likely: copy some left keys into the right table
        for r in b["rows"]:
            src = rng.choice(a["rows"])
            for i in range(len(keys)):
                if rng.random() < 0.7:
                    r[i] = src[i]
    c = relgen.gen_table(rng, "tc", rkeys[:1] + ["i64"], null_p=null_p)
    # Parquet for both join inputs or for neither: PackedJoinKeys looks column statistics up by UNQUALIFIED name "from any table
    # that has it", so a memory table sharing column names with a Parquet table inherits that table's bounds (recorded class
    # stats-by-name, owned by C03, whose check generates and excuses it); C22's thorough tier met it as a wrong 2-key match.
    if rng.random() < 0.4 and not many:
        b["parquet"] = {"files": [max(1, len(b["rows"]) // 2)], "row_group": rng.choice([1, 2, 1024])}
        b["batch_sizes"] = None
        a["parquet"] = {"row_group": rng.choice([1, 3, 1024])}
        a["batch_sizes"] = None
    wl = len(lt)
    qs = []
    for _ in range(nq):
        jt = rng.choice(["JInner", "JLeft", "JLeft", "JFull", "JRight"] if many else ["JInner", "JInner", "JLeft", "JRight", "JFull", "JCross"])
        nk = rng.randint(1, len(keys))
        conj = None
        for i in range(nk):
            e = ("cmp", "CEq", col(i), col(wl + i))
            conj = e if conj is None else ("and", conj, e)
        kind = f"{jt}-{nk}key"
        if rng.random() < (0.8 if many else 0.4):
            # residual: compare payloads / literal on one side
            r = rng.choice([("cmp", "CNe", col(wl - 1), lit(relgen.gen_value(rng, lt[-1], 0.0))),
                            ("isnotnull", col(wl + len(rt) - 1)),
                            ("cmp", rng.choice(["CLt", "CGe"]), col(0), col(wl)) if keys[0] == rkeys[0] or {keys[0], rkeys[0]} <= {"i32", "i64"} else ("isnull", col(wl - 1))])
            conj = ("and", conj, r); kind += "+residual"
        q = ("join", jt, tbl(0, a), tbl(1, b), conj if jt != "JCross" else lit(True))
        if rng.random() < 0.3 and jt != "JCross":
            # three-way: (a JOIN b) JOIN c on first key
            w2 = wl + len(rt)
            # the second join's key comes from either input of the first join: a column gathered from the first join's BUILD
            # side is dictionary-encoded when it is a string (found by C01's thorough tier, fixed by 6c384c3)
            kcol = col(0) if rng.random() < 0.5 else col(wl)
            q = ("join", rng.choice(["JInner", "JLeft", "JLeft", "JRight", "JFull"]), q, tbl(2, c), ("cmp", "CEq", kcol, col(w2)))
            kind += "+3way"
        if rng.random() < 0.25:
            q = ("filter", q, relgen.gen_pred(rng, lt, 0)); kind += "+where"
        qs.append({"q": q, "kind": kind})
    return {"tables": [a, b, c], "queries": qs}

def run(ctx):
    proved = ctx.prove()
    groups = [gen_group(ctx.rng, 8) for _ in range(ctx.n(40, 600))]
    results = relcheck.run_rel(ctx, "c22", groups)
    ran, errs = relcheck.judge_rel(ctx, results)
    kinds = {}
    for r in results:
        kinds[r["kind"]] = kinds.get(r["kind"], 0) + 1
    ctx.cov["input_distribution"] = {"by_shape": kinds, "groups": len(groups),
        "groups_with_32plus_probe_batches": sum(1 for g in groups if len(g["tables"][0].get("batch_sizes") or []) >= 32),
        "parquet_sides": sum(1 for g in groups for t in g["tables"] if t.get("parquet")),
        "in_known_class": sum(1 for r in results if r["classes"])}
    ctx.cov["distinct_nontrivial"] = len({r["sql"] + str(r["group"]) for r in ran if r["n_sql_rows"] > 0})
    for r in results[:3]:
        ctx.sample({"sql": r["sql"], "tables": groups[r["group"]]["tables"][:2]})
    if not proved and not ctx.violations:
        ctx.proof_broken_violation(f"{len(results)} join statements")
    return ctx.finish(rule="table pairs/triples (keys over i32/i64/str/date with mixed widths, NULL density 0-40%, duplicates, memory or "
                           "Parquet with row groups of 1..1024 rows) x INNER/LEFT/RIGHT/FULL/CROSS x 1-3 equi-keys x optional residual "
                           "x optional third table / WHERE; non-trivial = reference result non-empty, distinct by (statement, tables)",
                      assumptions=["doubles are exact dyadic values", "semi/anti joins are exercised through subqueries under C23"])

def replay(ctx, obj):
    print("failing case:", obj.get("case")); return run(ctx)
