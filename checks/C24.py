"""C24 — set operations have SQL multiset semantics. Theorems: coq/theories/Props/C24.v.
Correspondence: UNION/INTERSECT/EXCEPT [ALL] over generated inputs with duplicates and NULLs in any column,
engine vs the engine model (Semi/Anti-join lowering) and vs the multiset reference."""
import vlib, relcheck, relgen
from relgen import col, lit, tbl

TYPESETS = [["i64"], ["i64", "str"], ["str", "i64", "f64"], ["date", "bool"], ["i32", "i64"]]

def gen_group(rng, nq):
    types = rng.choice(TYPESETS)
    null_p = rng.choice([0.0, 0.0, 0.3, 0.5])
    a = relgen.gen_table(rng, "ta", types, null_p=null_p)
    b = relgen.gen_table(rng, "tb", types, null_p=null_p)
    # mixed integer widths: the same column INTEGER on one side and BIGINT on the other, the BIGINT side holding values that do
    # not fit 32 bits (UNION used to de-duplicate them at 32 bits: fix f5f2dbc, found by C03's thorough tier)
    if rng.random() < 0.3 and any(t in ("i64", "i32") for t in types):
        btypes = [("i64" if t == "i32" else "i32" if t == "i64" and rng.random() < 0.5 else t) for t in types]
        wide, wt = (b, btypes) if rng.random() < 0.5 else (a, types)
        b["types"] = btypes
        for i, t in enumerate(wt):
            if t == "i64" and wide["rows"]:
                for r in rng.sample(wide["rows"], min(len(wide["rows"]), rng.randint(1, 2))):
                    r[i] = rng.choice([2147483651, -2147483650, 4294967297, 2147483648])
    # make overlap likely
    for r in a["rows"][: rng.randint(0, 3)]:
        if all(v is None or not isinstance(v, int) or isinstance(v, bool) or t != "i32" or -2**31 <= v < 2**31 for v, t in zip(r, b["types"])):
            b["rows"].insert(rng.randint(0, len(b["rows"])), list(r))
    if b["batch_sizes"] and sum(b["batch_sizes"]) > len(b["rows"]):
        b["batch_sizes"] = None
    qs = []
    for _ in range(nq):
        op = rng.choice(["SUnion", "SIntersect", "SExcept"])
        allq = rng.random() < 0.5
        l, r = tbl(0, a), tbl(1, b)
        k = rng.random()
        if k < 0.2:
            l, r = r, l
        if k > 0.8:
            l = ("filter", l, relgen.gen_pred(rng, types, 0))
        q = ("setop", op, allq, l, r)
        kind = f"{op}{'-all' if allq else ''}"
        if rng.random() < 0.15:
            q = ("setop", rng.choice(["SUnion", "SExcept"]), rng.random() < 0.5, q, tbl(0, a)); kind += "+nested"
        qs.append({"q": q, "kind": kind})
    return {"tables": [a, b], "queries": qs}

def run(ctx):
    proved = ctx.prove()
    groups = [gen_group(ctx.rng, 8) for _ in range(ctx.n(40, 600))]
    results = relcheck.run_rel(ctx, "c24", groups)
    ran, errs = relcheck.judge_rel(ctx, results)
    kinds = {}
    for r in results:
        kinds[r["kind"]] = kinds.get(r["kind"], 0) + 1
    ctx.cov["input_distribution"] = {"by_operator": kinds, "groups": len(groups),
        "with_null_rows": sum(1 for g in groups if any(v is None for t in g["tables"] for r in t["rows"] for v in r)),
        "in_known_class": sum(1 for r in results if r["classes"])}
    ctx.cov["distinct_nontrivial"] = len({r["sql"] + str(r["group"]) for r in ran if r["n_sql_rows"] > 0})
    for r in results[:3]:
        ctx.sample({"sql": r["sql"], "tables": groups[r["group"]]["tables"], "classes": r["classes"]})
    if not proved and not ctx.violations:
        ctx.proof_broken_violation(f"{len(results)} set-operation statements")
    return ctx.finish(rule="pairs of tables (1-3 columns over int/str/double/date/bool, NULL density 0-50%, forced duplicates and "
                           "overlap, random batch splits) x UNION/INTERSECT/EXCEPT x ALL/DISTINCT incl. nested; non-trivial = "
                           "reference result non-empty, distinct by (statement, tables)",
                      assumptions=["doubles are exact dyadic values"])

def replay(ctx, obj):
    print("failing case:", obj.get("case")); return run(ctx)
